#!/usr/bin/env python3
"""Assemble /verif/MANIFEST.json from manifest/_base.json, manifest/Cxx.json (one per claimed
property) and manifest/_not_applicable.json (reasons for the unclaimed ones)."""
import glob
import json
import os
import subprocess

ROOT = os.path.dirname(os.path.dirname(os.path.abspath(__file__)))
base = json.load(open(os.path.join(ROOT, "manifest", "_base.json")))
checks = []
for f in sorted(glob.glob(os.path.join(ROOT, "manifest", "C*.json"))):
    checks.append(json.load(open(f)))
claimed = {c["property_id"] for c in checks}
props = [json.loads(l)["id"] for l in open(os.path.join(ROOT, "properties.jsonl")) if l.strip()]
na_reasons = json.load(open(os.path.join(ROOT, "manifest", "_not_applicable.json")))
na = [{"property_id": p, "reason": na_reasons.get(p, "check not built yet (planned: DESIGN.md §3 and §7)")} for p in props if p not in claimed]
# every commit after the pinned snapshot that is not a "fix:" commit carries (only) cfg-guarded hooks:
# the "verif:" commits and the merge commits that joined the builders' hook branches
out = subprocess.run(["git", "-C", "/repo", "log", "--format=%h %s", "c0c5d6d..HEAD"], capture_output=True, text=True).stdout.splitlines()
commits = [l.split()[0] for l in out if not l.split(" ", 1)[1].startswith("fix:")][::-1]
fixes = [l.split()[0] for l in out if l.split(" ", 1)[1].startswith("fix:")][::-1]
base["notes"] = base.get("notes", "").split(" Fix commits:")[0] + " Fix commits: " + ", ".join(fixes)
if commits:
    base["hooks"]["source_commits"] = commits
engines = {e["name"]: e for e in base.get("engines", [])}
for e in engines.values():
    e["serves_properties"] = sorted(c["property_id"] for c in checks if e["name"] in c.get("engine", "").replace(" ", "").split(","))
m = dict(base)
m["checks"] = checks
m["not_applicable"] = na
json.dump(m, open(os.path.join(ROOT, "MANIFEST.json"), "w"), indent=1)
print("MANIFEST.json: %d checks, %d not_applicable" % (len(checks), len(na)))
