"""C05: the SupTree specification (child sets, supervisor pointers, the tree-lock regions link / unlink /
take_children, terminate()'s sweep, the lifecycle guard's cleanup) bound to the real code through
engine H (detached cells, controlled threads) and engine T (whole actors, spawn_linked racing exits)."""
import json
import os
import time

import vlib
from vlib import log

PROPS = ["C05"]

ASSUME = [
    "each region under TREE_MUTATION_LOCK is one atomic action (the regions exclude each other; engine H records them "
    "with emit-only notes and parks threads only between regions); reads through get_children / try_get_supervisor "
    "inside another thread's region are outside the claim (two-sidedness is required whenever the tree lock is free)",
    "sequential consistency at the granularity of the hooked steps: the status loads inside link() race with status "
    "stores only in the sense that the store comes before or after the region",
    "engine T serialises the runtime at poll granularity; an exit (handle_signal, guard cleanup) is synchronous code and "
    "therefore one step there - its interleavings with link / unlink / other exits are explored by engine H and by TLC",
    "the actor threads of engine H stand for the actor task: they run ActorCell::terminate and the real "
    "ActorLifecycleGuard on a detached cell in the order actor.rs does (handle_signal, loop exit, guard)",
    "HashMap iteration order of a child set is left open (worklist modelled as a set)",
    "Send actors only (the thread-local spawn path links before pre_start; not exercised)",
]

# deviations named in the trace specification that belong to this property
DEV_OWNER = {"DrainingChildNotKilled": "C05"}
# canonical reproductions attached to a deviation report (engine T: supervisor S, linked child C whose
# handler awaits for ever, C.drain(), S.kill(); engine H: the same on detached cells)
DEV_REPRO = {"suptree-t": {"kind": "tmicro", "idx": 0}, "suptree-h": {"kind": "hmicro", "idx": 5}}

ACTIONS = ["EnvLink", "EnvUnlink", "EnvKill", "EnvDrain", "ABeginStop", "ASigTake", "AKilledStopping", "ACleanupBegin",
           "ACStopping", "ATermKill", "ATermNoKill", "ATermTake", "ATermDone", "ANotify", "ASupReadNone", "ASupReadSome",
           "AUnlink", "AStopped"]
NORMAL = ["TypeOK", "TwoSided", "StoppedIsolated", "SubtreeSignalled", "RacingLink", "SubtreeDies", "NoChildOfStopping"]


def _mc(tier):
    cfgs = ["MC_SupTree_small.cfg", "MC_SupTree_chain.cfg"]
    if tier == "thorough":
        cfgs += ["MC_SupTree_mid.cfg", "MC_SupTree_spawn.cfg", "MC_SupTree_big.cfg"]
    mcs = []
    for c in cfgs:
        m = vlib.mc_or_die("MC_SupTree", c, expect_actions=ACTIONS, workers=4, timeout=1500)
        if m["violated"]:
            log(m["tail"])
            raise vlib.ToolError("specification %s violates %s: fix the model" % (c, m["violated"]))
        if m["zero_actions"] or not set(ACTIONS) <= set(m["coverage"]):
            raise vlib.ToolError("vacuity: actions never taken in %s: %s" % (c, m["zero_actions"] or sorted(set(ACTIONS) - set(m["coverage"]))))
        mcs.append(m)
    # companion: with the recorded deviation enabled the property must fail (the deviation is what the
    # finding is about, and the antecedents of SubtreeDies are reachable)
    d = vlib.mc_or_die("MC_SupTree", "MC_SupTree_dev.cfg", expect_actions=["Dev_DrainingChildNotKilled"], workers=4, timeout=600)
    if d["violated"] != "SubtreeDies":
        log(d["tail"])
        raise vlib.ToolError("MC_SupTree_dev.cfg: expected SubtreeDies to fail with the deviation enabled, got %s" % d["violated"])
    return mcs, d


def _validate(v, pid, fam, trace, label):
    vb = vlib.validate_batch("Trace_SupTree", "Trace_SupTree.cfg", trace, label, max_divergences=12)
    for viol in vb["violations"]:
        meta = json.loads(viol["run"][0]).get("meta", {})
        ev = viol.get("lenient_event") or viol.get("strict_event") or "{}"
        try:
            j = json.loads(ev)
            lab = "%s(%s)" % (j.get("a", "?"), j.get("k", j.get("who", "")))
        except Exception:
            lab = "?"
        sig = "%s first-unexplained=%s gen=%s" % (fam, lab, json.dumps(meta.get("gen"), sort_keys=True))
        v.violation(sig, {"family": fam, "meta": meta, "trace": [json.loads(x) for x in viol["run"]],
                          "first_unexplained": viol.get("lenient_event_index"), "event": ev})
    for name, n in vb["deviations"].items():
        if DEV_OWNER.get(name) == pid:
            v.deviation(name, n, {"deviation": name, "runs": n, "family": fam,
                                  "meta": {"family": fam, "gen": DEV_REPRO[fam], "sched": []},
                                  "what": "terminate() detached an actor whose status is Draining without sending it the Kill: "
                                          "it stays Draining for ever with no supervisor (C05: every linked actor is killed and reaches Stopped)"})
    return vb


def run(pid, tier, seed):
    t0 = time.time()
    v = vlib.Verdict(pid)
    mcs, dev = _mc(tier)
    w = vlib.workdir("suptree_" + pid)
    vbs = {}
    summs = {}
    for fam in ("suptree-h", "suptree-t"):
        trace = os.path.join(w, fam + ".ndjson")
        summ = vlib.harness([fam, "--out", trace, "--tier", tier, "--seed", seed])
        if summ.get("bad_runs"):
            log("[V] %s: %d runs ended early (step budget / thread that never came back)" % (fam, summ["bad_runs"]))
        summs[fam] = summ
        vbs[fam] = _validate(v, pid, fam, trace, fam.replace("-", "_") + "_" + pid)
        log("[V] %s: %d runs, %d events, strict accepted %d, divergences %d, rejected %d, deviations %s" % (
            fam, summ["runs"], vbs[fam]["events"], vbs[fam]["strict_accepted"], len(vbs[fam]["divergences"]),
            len(vbs[fam]["violations"]), vbs[fam]["deviations"]))
    covered = set()
    for m in mcs + [dev]:
        covered |= {a for a, c in m["coverage"].items() if c > 0}
    cov = {
        "states": sum(m["states"] for m in mcs),
        "transitions": sum(m["transitions"] for m in mcs),
        "traces_validated_against_impl": sum(vb["strict_accepted"] + len(vb["divergences"]) for vb in vbs.values()),
        "samples": (summs["suptree-h"].get("samples", [])[:2] + summs["suptree-t"].get("samples", [])[:1]),
        "evaluations": sum(s["runs"] for s in summs.values()),
        "distinct_nontrivial": sum(s["distinct_nontrivial"] for s in summs.values()),
        "rule": "one evaluation = one (shape, schedule) execution. suptree-h: detached cells, one controlled thread per "
                "exiting actor (real terminate() + real lifecycle guard) and per environment thread (link / unlink / relink / "
                "kill / drain); hand-written shapes by DFS with preemption bound 1 and 2 (capped), random forests of depth <= 3 "
                "over 3..5 actors with seeded random schedules. suptree-t: scripted actors in a tree of depth 3 on the gated tokio "
                "runtime, spawn_linked / spawn_linked_instant racing kill / stop / drain / handler failure / task abort at random "
                "nodes. distinct = distinct event-sequence hash; non-trivial = at least one preemption",
        "events_validated": sum(vb["events"] for vb in vbs.values()),
        "strict_accepted_runs": sum(vb["strict_accepted"] for vb in vbs.values()),
        "divergences": sum(len(vb["divergences"]) for vb in vbs.values()),
        "rejected_runs": sum(len(vb["violations"]) for vb in vbs.values()),
        "deviation_runs": {f: vb["deviations"] for f, vb in vbs.items()},
        "tlc_trace_states": sum(vb["tlc_states"] for vb in vbs.values()),
        "per_family": {f: {"runs": s["runs"], "distinct": s["distinct"], "distinct_nontrivial": s["distinct_nontrivial"]} for f, s in summs.items()},
        "mc_configs": [{"cfg": m["cfg"], "states": m["states"], "transitions": m["transitions"], "wall_s": m["wall_s"]} for m in mcs],
        "mc_deviation_companion": {"cfg": dev["cfg"], "states": dev["states"], "violated": dev["violated"]},
        "mc_actions_covered": sorted(covered),
        "invariants": NORMAL,
        "bounds": "M: 3 actors (quick) / 4 actors (thorough), trees of depth <= 3, up to 2 spontaneous exits + kills racing <= 2-3 "
                  "link / unlink / relink / kill / drain operations; V: up to 5 actors, 3 environment threads",
        "exhaustive": False,
    }
    vlib.write_evidence(pid, tier, seed, cov, ASSUME, time.time() - t0, len(v.violations))
    return v.finish()


def replay(pid, path):
    rp = json.load(open(path))
    meta = rp.get("meta", {})
    w = vlib.workdir("replay_" + pid)
    out = os.path.join(w, "replay.ndjson")
    if meta.get("gen"):
        summ = vlib.harness(["suptree-replay", "--gen", json.dumps(meta["gen"]), "--sched", json.dumps(meta.get("sched", [])), "--out", out])
        if summ.get("runs") != 1:
            raise vlib.ToolError("cannot re-execute %s" % meta.get("gen"))
    else:
        with open(out, "w") as f:
            for e in rp["trace"]:
                f.write(json.dumps(e) + "\n")
    vb = vlib.validate_batch("Trace_SupTree", "Trace_SupTree.cfg", out, "replay_" + pid)
    if vb["violations"]:
        log("re-executed run is rejected by the specification at: %s" % (vb["violations"][0].get("lenient_event") or vb["violations"][0].get("strict_event")))
        log("VIOLATION property=%s replay=%s" % (pid, path))
        return 1
    devs = [d for d in vb["deviations"] if DEV_OWNER.get(d) == pid]
    known = [f for f in vlib.load_findings().get("known", []) if f.get("property") == pid]
    import re
    devs = [d for d in devs if not any(re.search(f["signature"], "deviation=%s" % d) for f in known)]
    if devs:
        log("re-executed run needs the deviation %s" % ",".join(devs))
        log("VIOLATION property=%s replay=%s" % (pid, path))
        return 1
    log("re-executed run accepted by the specification (strict=%d, divergences=%d)" % (vb["strict_accepted"], len(vb["divergences"])))
    return 0
