#!/bin/bash
# usage: confirm_seed.sh <worktree> <seed-id> <demo test name> [crate]
# Confirms a red-team change: builds, runs the crate's lib tests with the change, runs the demo with
# and without the change, and stores patch + demo + log under /verif/seeded/<seed-id>/ .
WT=$1; ID=$2; DEMO=$3; CRATE=${4:-ractor}
OUT=/verif/seeded/$ID
mkdir -p $OUT
cd $WT || exit 2
git diff -- ractor/src ractor_cluster/src ractor_cluster_derive/src > $OUT/patch.diff
cp $WT/$CRATE/tests/$DEMO.rs $OUT/ 2>/dev/null
cp $WT/NOTES.md $OUT/NOTES.md 2>/dev/null
FEAT="--features cluster"; [ "$CRATE" != "ractor" ] && FEAT=""; [ -n "$FEAT_OVERRIDE" ] && FEAT="$FEAT_OVERRIDE"
{
echo "== build with change"; cargo build --offline -p $CRATE $FEAT 2>&1 | tail -2
echo "== lib tests with change"; timeout 1500 cargo test --offline -p $CRATE $FEAT --lib 2>&1 | grep -E "^test result|FAILED|failed" | head -5
echo "== demo with change (expect failure)"; for i in 1 2; do timeout 600 cargo test --offline -p $CRATE $FEAT --test $DEMO 2>&1 | grep -E "^test result" ; done
git apply -R $OUT/patch.diff   # (no git stash: the stash ref is shared by all worktrees)
echo "== demo without change (expect pass)"; for i in 1 2; do timeout 600 cargo test --offline -p $CRATE $FEAT --test $DEMO 2>&1 | grep -E "^test result" ; done
git apply $OUT/patch.diff
} > $OUT/confirm.log 2>&1
cat $OUT/confirm.log
