#!/bin/sh
# usage: mkworkspace.sh <name>   -> /tmp/<name>/verif and /tmp/<name>/repo (git worktrees on branch <name>)
set -e
N=$1
mkdir -p /tmp/$N
git -C /verif worktree add -q /tmp/$N/verif -b $N
git -C /repo worktree add -q /tmp/$N/repo -b $N
sed -i "s#/repo/#/tmp/$N/repo/#g" /tmp/$N/verif/harness/Cargo.toml
git -C /tmp/$N/verif update-index --skip-worktree harness/Cargo.toml
echo "workspace /tmp/$N ready"
