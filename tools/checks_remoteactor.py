"""C20: remote actor references (RemoteActor proxies) behave like the actors they stand for.
M: RemoteActor (proxy mailbox, tag allocation / resolution, ordered request stream, unordered reply
   relays, probe mailbox, spawn / join / leave / terminate control frames, cut) checked by TLC.
V: two real NodeServers joined by a relayed in-memory connection under engine T, cluster-serializable
   probe actors, callers through the proxies of both sessions, a controller (join / leave / late
   spawn / stop / release held replies / cut)."""
import json
import os
import time

import vlib
from vlib import log
from checks_clusterelect import mc, validate

PROPS = ["C20"]

ASSUME = [
    "engine T serialises node servers, sessions, stream readers, proxies, probes, callers, the controller and the relay tasks at "
    "poll granularity; the per-stream writer tasks and the per-call reply waiters of a session are scheduled by tokio / the gate as they come",
    "both node servers live in one process: every probe is local to both and advertised in both directions; the two sessions are "
    "given different node ids (a throw-away connection consumes B's first id) so that proxies of the two sides have distinct actor ids",
    "in-memory duplex pipes through a relay stand for the TCP connection: whole frames are forwarded in seeded fragments; a cut "
    "takes both directions down at a frame boundary (byte-offset cuts belong to the framing property C19)",
    "calls carry a timeout; at the deadline 'no answer' surfaces as Timeout or as SenderError depending on which timer fires first "
    "(the caller's or the port converter's): both are read as 'no reply'",
    "bounds: <= 3 callers, <= 6 requests, <= 2 abandoned calls, <= 3 probes per run",
    "free-running family: real threads, real clock; a log line is trusted only where its position is safe (intent before the "
    "call, result after it; the begin line of a call and its send happen under one lock); a probe's exit is not logged, the "
    "specification takes it silently after the logged stop request; runs whose paths do not answer a synchronising call within "
    "10 s are dropped and counted",
]

VAC = (("MC_RemoteActor_vac_reuse.cfg", "NoCrossWire"), ("MC_RemoteActor_vac_fifo.cfg", "NoCrossWire"))


def model_check(tier, workers=4):
    cfgs = ["calls", "exit", "cut", "mixed", "pg", "pgcut"]
    if tier == "thorough":
        cfgs += ["big", "bigcut"]
    mcs = [mc("MC_RemoteActor", "MC_RemoteActor_%s.cfg" % c, workers=workers, timeout=2400) for c in cfgs]
    for m in mcs:
        if m["violated"]:
            log(m["tail"])
            raise vlib.ToolError("specification %s violates %s: fix the model" % (m["cfg"], m["violated"]))
        if m["timeout"]:
            raise vlib.ToolError("TLC timed out on %s" % m["cfg"])
    vac = []
    for cfg, inv in VAC:
        r = mc("MC_RemoteActor", cfg, workers=workers, timeout=600, coverage=False)
        if r["violated"] != inv:
            raise vlib.ToolError("vacuity: %s expected to be violated in %s (broken design variant)" % (inv, cfg))
        vac.append(r)
    covered, allp = set(), set()
    for m in mcs:
        covered |= {a for a, c in m["coverage"].items() if c > 0}
        allp |= set(m["coverage"].keys())
    never = sorted(a for a in allp - covered if a[0].isupper() and a not in ("Init", "Term"))
    if never:
        raise vlib.ToolError("vacuity: actions never taken: %s" % never)
    return mcs, vac, covered


def run(pid, tier, seed):
    t0 = time.time()
    v = vlib.Verdict(pid)
    mcs, vac, covered = model_check(tier)
    w = vlib.workdir("remoteactor_" + pid)
    trace = os.path.join(w, "batch.ndjson")
    summ = vlib.harness(["remoteactor", "--out", trace, "--tier", tier, "--seed", seed])
    if summ.get("bad_runs"):
        log("[V] %d runs did not start or did not finish their final observation" % summ["bad_runs"])
        if summ["bad_runs"] * 10 > summ["runs"]:
            raise vlib.ToolError("too many runs without a final observation (%d of %d)" % (summ["bad_runs"], summ["runs"]))
    vb = validate("Trace_RemoteActor", "Trace_RemoteActor.cfg", trace, "remoteactor_" + pid)
    for viol in vb["violations"]:
        meta = json.loads(viol["run"][0]).get("meta", {})
        ev = viol.get("lenient_event") or viol.get("strict_event") or "{}"
        try:
            j = json.loads(ev)
            lab = "%s(%s)" % (j.get("a", "?"), ",".join(str(j.get(k)) for k in ("dir", "x", "s", "q", "r") if j.get(k) not in ("", 0, None)))
        except Exception:
            lab = "?"
        sig = "remoteactor first-unexplained=%s" % lab
        v.violation(sig, {"family": "remoteactor", "meta": meta, "trace": [json.loads(x) for x in viol["run"]],
                          "first_unexplained": viol.get("lenient_event_index"), "event": ev})
    # V2: the same two nodes on a multi-thread runtime, scheduler off (real parallelism inside synchronous code); only
    # observations whose log position is safe are kept and judged (lenient validation)
    trace2 = os.path.join(w, "batch_free.ndjson")
    summ2 = vlib.harness(["remoteactor-free", "--out", trace2, "--tier", tier, "--seed", seed])
    if summ2.get("bad_runs", 0):
        # (an overloaded machine: nodes not ready in time / a path that did not answer the synchronising call; such runs
        # are dropped by the harness and claim nothing)
        log("[V] remoteactor-free: %d of %d runs could not be judged and were dropped" % (summ2["bad_runs"], summ2.get("runs", 0) + summ2["bad_runs"]))
    if summ2.get("runs", 0) > 0:
        vb2 = vlib.validate_batch("Trace_RemoteActor", "Trace_RemoteActor.cfg", trace2, "remoteactor_free_" + pid, start_lenient=True)
    else:
        vb2 = {"runs": 0, "events": 0, "lenient_accepted": 0, "violations": []}
    log("[V] remoteactor-free: %d runs, %d events, accepted on observations %d, rejected %d" % (
        vb2["runs"], vb2["events"], vb2["lenient_accepted"], len(vb2["violations"])))
    for viol in vb2["violations"]:
        meta = json.loads(viol["run"][0]).get("meta", {})
        ev = viol.get("lenient_event") or "{}"
        try:
            j = json.loads(ev)
            lab = "%s(%s)" % (j.get("a", "?"), ",".join(str(j.get(k)) for k in ("dir", "x", "s", "q", "r") if j.get(k) not in ("", 0, None)))
        except Exception:
            lab = "?"
        v.violation("remoteactor-free first-unexplained=%s" % lab,
                    {"family": "remoteactor-free", "meta": meta, "trace": [json.loads(x) for x in viol["run"]],
                     "first_unexplained": viol.get("lenient_event_index"), "event": ev})
    cov = {
        "free_running": {"runs": vb2["runs"], "events": vb2["events"], "accepted_on_observations": vb2["lenient_accepted"],
                         "rejected": len(vb2["violations"]), "not_judged": summ2.get("bad_runs", 0),
                         "rule": "one evaluation = one run of the two real node servers on a 4-thread tokio runtime with the scheduler "
                                 "off: three probes, background casts through every proxy, two callers (three calls each), the "
                                 "controller stops 1-3 probes; kept: call begin (logged under the lock that also covers the send) / "
                                 "return, receive / reply at the probe, stop requests, final status of probes and proxies after every "
                                 "path has answered a synchronising call"},
        "states": sum(m["states"] for m in mcs),
        "transitions": sum(m["transitions"] for m in mcs),
        "traces_validated_against_impl": vb["strict_accepted"] + len(vb["divergences"]),
        "samples": summ.get("samples", [])[:3],
        "evaluations": summ["runs"],
        "distinct_nontrivial": summ["distinct_nontrivial"],
        "rule": "one evaluation = one (scenario, schedule) execution of two real node servers, probes, callers and controller on the gated "
                "tokio runtime; hand-written micro-scenarios (reverse-order replies with an abandoned call, both directions with pg "
                "changes, original exits, cut with calls outstanding, late probe) by DFS over poll orders with one preemption (capped), "
                "random scenarios under seeded random schedules; distinct = distinct event-sequence hash; non-trivial = at least one preemption",
        "harness_steps": summ.get("steps"),
        "events_validated": vb["events"],
        "strict_accepted_runs": vb["strict_accepted"],
        "divergences": len(vb["divergences"]),
        "rejected_runs": len(vb["violations"]),
        "tlc_trace_states": vb["tlc_states"],
        "mc_configs": [{"cfg": m["cfg"], "states": m["states"], "transitions": m["transitions"], "wall_s": m["wall_s"]} for m in mcs],
        "vacuity_configs": [{"cfg": m["cfg"], "violated_as_expected": m["violated"]} for m in vac],
        "mc_actions_covered": sorted(covered),
        "exhaustive": False,
    }
    vlib.write_evidence(pid, tier, seed, cov, ASSUME, time.time() - t0, len(v.violations))
    return v.finish()


def replay(pid, path):
    rp = json.load(open(path))
    w = vlib.workdir("replay_" + pid)
    out = os.path.join(w, "replay.ndjson")
    with open(out, "w") as f:
        for e in rp["trace"]:
            f.write(json.dumps(e) + "\n")
    vb = vlib.validate_batch("Trace_RemoteActor", "Trace_RemoteActor.cfg", out, "replay_" + pid)
    if vb["violations"]:
        log("recorded trace is rejected by the specification at: %s" % (vb["violations"][0].get("lenient_event") or vb["violations"][0].get("strict_event")))
        log("VIOLATION property=%s replay=%s" % (pid, path))
        return 1
    log("recorded trace accepted")
    return 0
