"""Shared driver for the engine-T packages that follow the Lifecycle pattern (Timer, Rpc, OutputPort):
M (TLC on the module's configs) -> V (harness batch -> strict validation -> lenient on rejection)
-> verdict + evidence. A package is described by a dict, see checks_timer.py."""
import json
import os
import time

import vlib
from vlib import log


def _label(ev):
    try:
        j = json.loads(ev)
    except Exception:
        return "?"
    extra = j.get("kind", j.get("k", j.get("r", "")))
    who = j.get("x", "") or (("p%s" % j["p"]) if "p" in j else "")
    return "%s(%s%s)" % (j.get("a", "?"), who, ("," + str(extra)) if extra != "" else "")


def run(pkg, pid, tier, seed):
    t0 = time.time()
    v = vlib.Verdict(pid)
    # ---- M
    mcs = []
    for cfg, tiers, kw in pkg["mc"]:
        if tier in tiers:
            mcs.append(vlib.mc_or_die(pkg["mc_module"], cfg, workers=kw.get("workers", 4), timeout=kw.get("timeout", 900)))
    covered, seen = set(), set()
    for m in mcs:
        if m["violated"]:
            log(m["tail"])
            raise vlib.ToolError("specification %s violates %s: fix the model" % (m["cfg"], m["violated"]))
        if m["timeout"]:
            raise vlib.ToolError("TLC timed out on %s" % m["cfg"])
        covered |= {a for a, c in m["coverage"].items() if c > 0}
        seen |= set(m["coverage"])
    never = sorted(seen - covered)
    if never:
        raise vlib.ToolError("actions never taken in any model-checking configuration (vacuous): %s" % ", ".join(never))
    # ---- V
    batches = []
    listed = {f.get("deviation") for f in vlib.load_findings().get("known", [])}
    # a build is (features, tiers) or (features, tiers, harness command, deviation): the latter is a scenario family that
    # exercises a named deviation and runs only once that deviation is listed in known_findings.json
    for b in pkg["builds"]:
        feat, tiers = b[0], b[1]
        cmd = b[2] if len(b) > 2 else pkg["family"]
        if tier not in tiers:
            continue
        if len(b) > 3 and b[3] not in listed:
            log("[V] %s skipped: deviation %s is not listed in known_findings.json" % (cmd, b[3]))
            continue
        label = "%s_%s%s" % (cmd, pid, ("_" + feat) if feat else "")
        w = vlib.workdir(label)
        trace = os.path.join(w, "batch.ndjson")
        summ = vlib.harness([cmd, "--out", trace, "--tier", tier, "--seed", seed], features=feat)
        if summ.get("bad_runs"):
            log("[V] %s: %d runs did not end within the step budget" % (feat or "default", summ["bad_runs"]))
        vb = vlib.validate_batch(pkg["trace_module"], pkg["trace_cfg"], trace, label)
        log("[V] %s, %s build: %d runs, %d events, strict accepted %d, divergences %d, rejected %d (%.0fs)" % (
            cmd, feat or "default", vb["runs"], vb["events"], vb["strict_accepted"], len(vb["divergences"]), len(vb["violations"]), vb["wall_s"]))
        for viol in vb["violations"]:
            meta = json.loads(viol["run"][0]).get("meta", {})
            ev = viol.get("lenient_event") or viol.get("strict_event") or "{}"
            sig = "%s%s first-unexplained=%s" % (cmd, ("/" + feat) if feat else "", _label(ev))
            v.violation(sig, {"family": pkg["family"], "features": feat, "meta": meta, "trace": [json.loads(x) for x in viol["run"]],
                              "first_unexplained": viol.get("lenient_event_index"), "event": ev})
        for name, n in vb["deviations"].items():
            if pkg.get("dev_owner", {}).get(name) == pid:
                v.deviation(name, n)
        batches.append((feat if cmd == pkg["family"] else (cmd + ("/" + feat if feat else "")), summ, vb))
    if not batches:
        raise vlib.ToolError("no harness build selected for tier %s" % tier)
    cov = {
        "states": sum(m["states"] for m in mcs),
        "transitions": sum(m["transitions"] for m in mcs),
        "traces_validated_against_impl": sum(vb["strict_accepted"] + len(vb["divergences"]) for _, _, vb in batches),
        "samples": batches[0][1].get("samples", [])[:3],
        "evaluations": sum(s["runs"] for _, s, _ in batches),
        "distinct_nontrivial": sum(s["distinct_nontrivial"] for _, s, _ in batches),
        "rule": pkg["rule"],
        "events_validated": sum(vb["events"] for _, _, vb in batches),
        "strict_accepted_runs": sum(vb["strict_accepted"] for _, _, vb in batches),
        "divergences": sum(len(vb["divergences"]) for _, _, vb in batches),
        "rejected_runs": sum(len(vb["violations"]) for _, _, vb in batches),
        "deviation_runs": {k: n for _, _, vb in batches for k, n in vb["deviations"].items()},
        "tlc_trace_states": sum(vb["tlc_states"] for _, _, vb in batches),
        "builds": [{"features": f or "default", "runs": s["runs"], "distinct": s.get("distinct"), "bad_runs": s.get("bad_runs", 0),
                    "dfs_exhausted": s.get("dfs_exhausted"), "exhaustive_dfs_runs": s.get("exhaustive_runs")} for f, s, _ in batches],
        "mc_configs": [{"cfg": m["cfg"], "states": m["states"], "transitions": m["transitions"], "wall_s": m["wall_s"]} for m in mcs],
        "mc_actions_covered": sorted(covered),
        "exhaustive": False,
    }
    vlib.write_evidence(pid, tier, seed, cov, pkg["assume"], time.time() - t0, len(v.violations))
    return v.finish()


def replay(pkg, pid, path):
    rp = json.load(open(path))
    w = vlib.workdir("replay_" + pid)
    out = os.path.join(w, "replay.ndjson")
    with open(out, "w") as f:
        for e in rp["trace"]:
            f.write(json.dumps(e, separators=(",", ":")) + "\n")
    vb = vlib.validate_batch(pkg["trace_module"], pkg["trace_cfg"], out, "replay_" + pid)
    if vb["violations"]:
        log("recorded trace is rejected by the specification at: %s" % (vb["violations"][0].get("lenient_event") or vb["violations"][0].get("strict_event")))
        log("VIOLATION property=%s replay=%s" % (pid, path))
        return 1
    log("recorded trace accepted")
    return 0
