"""C02 / C07: the Mailbox specification (status gate, admission word, FIFO channel, drain handshake)."""
import json
import os
import time

import vlib
from vlib import log

PROPS = ["C02", "C07"]

ASSUME = [
    "sequential consistency at the granularity of the hooked steps (weak-memory reorderings below that are not explored)",
    "tokio unbounded mpsc is FIFO and try_recv after close drains what was sent before the close",
    "CAS loops are linearised at their successful CAS (spurious weak-CAS failures are not forced)",
    "the consumer thread stands for the actor task (receive, exit sequence) on a detached cell",
]


def run(pid, tier, seed):
    t0 = time.time()
    v = vlib.Verdict(pid)
    # M: design check
    mc = vlib.mc_or_die("MC_Mailbox", "MC_Mailbox_small.cfg", workers=12, timeout=900)
    mcs = [mc]
    if tier == "thorough":
        mcs.append(vlib.mc_or_die("MC_Mailbox", "MC_Mailbox_mid.cfg", workers=14, timeout=3000))
        mcs.append(vlib.mc_or_die("MC_Mailbox", "MC_Mailbox_big.cfg", workers=14, timeout=1500, partial_ok=True))
        mcs.append(vlib.mc_or_die("MC_Mailbox", "MC_Mailbox_live.cfg", workers=8, timeout=1800, expect_actions=[]))  # liveness run: the consumer never quits by configuration
    for m in mcs:
        if m["violated"]:
            # a design-level counterexample; by construction of this check it only counts when the
            # implementation reproduces it, which the V stage below decides. Report as tool error:
            log(m["tail"])
            raise vlib.ToolError("specification %s violates %s: fix the model" % (m["cfg"], m["violated"]))
        if m["zero_actions"]:
            raise vlib.ToolError("vacuity: actions never taken in %s: %s" % (m["cfg"], m["zero_actions"]))
    # V: implementation traces under enumerated / random schedules
    w = vlib.workdir("mailbox_" + pid)
    trace = os.path.join(w, "batch.ndjson")
    summ = vlib.harness(["mailbox", "--out", trace, "--tier", tier, "--seed", seed])
    if summ.get("bad_runs"):
        log("[V] %d runs ended with a stuck or overrunning thread" % summ["bad_runs"])
    vb = vlib.validate_batch("Trace_Mailbox", "Trace_Mailbox.cfg", trace, "mailbox_" + pid)
    for viol in vb["violations"]:
        meta = json.loads(viol["run"][0]).get("meta", {})
        ev = viol.get("lenient_event") or viol.get("strict_event") or "{}"
        try:
            lab = json.loads(ev).get("a", "?")
        except Exception:
            lab = "?"
        sig = "mailbox %s first-unexplained=%s" % (meta.get("shape"), lab)
        v.violation(sig, {"family": "mailbox", "meta": meta, "trace": [json.loads(x) for x in viol["run"]],
                          "first_unexplained": viol.get("lenient_event_index"), "event": ev,
                          "replay_cmd": "./check %s --replay <this file>" % pid})
    # V2: the public send API of a real actor on engine T (every send flavour, mis-typed references, drain);
    # only the observation alphabet is judged (the actor task stands for the consumer)
    trace2 = os.path.join(w, "batch_t.ndjson")
    summ2 = vlib.harness(["mailbox-t", "--out", trace2, "--tier", tier, "--seed", seed])
    vb2 = vlib.validate_batch("Trace_Mailbox", "Trace_Mailbox.cfg", trace2, "mailbox_t_" + pid, start_lenient=True)
    for viol in vb2["violations"]:
        meta = json.loads(viol["run"][0]).get("meta", {})
        ev = viol.get("lenient_event") or "{}"
        try:
            j = json.loads(ev)
            lab = j.get("a", "?") + ("/" + j["via"] if "via" in j else "")
        except Exception:
            lab = "?"
        sig = "mailbox-t first-unexplained=%s gen=%s" % (lab, json.dumps(meta.get("gen")))
        v.violation(sig, {"family": "mailbox-t", "meta": meta, "trace": [json.loads(x) for x in viol["run"]],
                          "first_unexplained": viol.get("lenient_event_index"), "event": ev})
    # V2b: the real processing loop (free running) against a controlled sender thread parked between admission and
    # enqueue while drain() is called: a scripted sequence, re-executed on replay
    trace2b = os.path.join(w, "batch_hybrid.ndjson")
    summ2b = vlib.harness(["mailbox-hybrid", "--out", trace2b, "--tier", tier, "--seed", seed])
    if summ2b.get("bad_runs"):
        log("[V] mailbox-hybrid: %d runs did not follow the script (sender not parked after admission, or the actor did not stop)" % summ2b["bad_runs"])
    vb2b = vlib.validate_batch("Trace_Mailbox", "Trace_Mailbox.cfg", trace2b, "mailbox_hybrid_" + pid, start_lenient=True)
    log("[V] mailbox-hybrid: %d runs, %d accepted on their observations, %d rejected" % (summ2b["runs"], vb2b["lenient_accepted"], len(vb2b["violations"])))
    for viol in vb2b["violations"]:
        meta = json.loads(viol["run"][0]).get("meta", {})
        ev = viol.get("lenient_event") or "{}"
        try:
            lab = json.loads(ev).get("a", "?")
        except Exception:
            lab = "?"
        v.violation("mailbox-hybrid %s first-unexplained=%s" % (meta.get("shape"), lab),
                    {"family": "mailbox-hybrid", "meta": meta, "trace": [json.loads(x) for x in viol["run"]],
                     "first_unexplained": viol.get("lenient_event_index"), "event": ev})
    # V3 (thorough): the same roles on free-running OS threads -- reaches, by chance, windows inside code that has
    # no schedule point; observations only
    free = {"runs": 0, "lenient_accepted": 0}
    if tier == "thorough":
        trace3 = os.path.join(w, "batch_free.ndjson")
        summ3 = vlib.harness(["mailbox-free", "--out", trace3, "--tier", "quick", "--seed", seed])
        vb3 = vlib.validate_batch("Trace_Mailbox", "Trace_Mailbox.cfg", trace3, "mailbox_free_" + pid, start_lenient=True, lenient_chunk=150)
        free = {"runs": summ3["runs"], "lenient_accepted": vb3["lenient_accepted"]}
        for viol in vb3["violations"]:
            meta = json.loads(viol["run"][0]).get("meta", {})
            ev = viol.get("lenient_event") or "{}"
            sig = "mailbox-free %s first-unexplained=%s" % (meta.get("shape"), json.loads(ev).get("a", "?"))
            v.violation(sig, {"family": "mailbox-free", "meta": meta, "trace": [json.loads(x) for x in viol["run"]],
                              "first_unexplained": viol.get("lenient_event_index"), "event": ev,
                              "note": "free-running threads: not re-executable, the recorded trace is the evidence"})
    cov = {
        "states": sum(m["states"] for m in mcs),
        "transitions": sum(m["transitions"] for m in mcs),
        "traces_validated_against_impl": vb["strict_accepted"] + vb["lenient_accepted"] + len(vb["divergences"]) + vb2["lenient_accepted"],
        "samples": summ.get("samples", [])[:3],
        "evaluations": summ["runs"] + summ2["runs"] + summ2b["runs"],
        "hybrid_runs_real_loop_vs_parked_sender": summ2b["runs"],
        "api_level_runs": summ2["runs"],
        "free_running_runs": free,
        "distinct_nontrivial": summ["distinct_nontrivial"] + summ2["distinct_nontrivial"],
        "rule": "one evaluation = one schedule of sender/drainer/consumer threads on a detached cell, enumerated by DFS "
                "with preemption bound 1 and 2 (capped) plus seeded random schedules; distinct = distinct event-sequence "
                "hash; non-trivial = contains at least one preemption (context switch away from a runnable thread)",
        "events_validated": vb["events"],
        "strict_accepted_runs": vb["strict_accepted"],
        "lenient_only_accepted_runs": vb["lenient_accepted"],
        "unvalidated_runs": vb["unvalidated"],
        "divergences": len(vb["divergences"]),
        "rejected_runs": len(vb["violations"]) + len(vb2["violations"]),
        "tlc_trace_states": vb["tlc_states"],
        "mc_configs": [{"cfg": m["cfg"], "states": m["states"], "transitions": m["transitions"], "wall_s": m["wall_s"],
                        "actions_covered": len([a for a, c in m["coverage"].items() if c > 0])} for m in mcs],
        "bounds": "M quick: 2 senders x 1 msg + 1 drainer + exiting consumer with explicit CAS-loop iterations; thorough adds 2x2+1 and 3x1+2 drainers and the fairness run; V: shapes up to 3 senders x 3 msgs, 2 drainers",
        "exhaustive": False,
    }
    vlib.write_evidence(pid, tier, seed, cov, ASSUME, time.time() - t0, len(v.violations))
    return v.finish()


def replay(pid, path):
    rp = json.load(open(path))
    w = vlib.workdir("replay_" + pid)
    out = os.path.join(w, "replay.ndjson")
    meta = rp["meta"]
    if rp.get("family") == "mailbox-hybrid":
        # the scripted sequence is deterministic: run all of its variants again on the current tree
        vlib.harness(["mailbox-hybrid", "--out", out, "--tier", "quick", "--seed", 1])
        vb = vlib.validate_batch("Trace_Mailbox", "Trace_Mailbox.cfg", out, "replay_" + pid, start_lenient=True)
    elif rp.get("family") == "mailbox-t":
        vlib.harness(["mailbox-t-replay", "--gen", json.dumps(meta.get("gen")), "--sched", json.dumps(meta.get("sched", [])), "--out", out])
        vb = vlib.validate_batch("Trace_Mailbox", "Trace_Mailbox.cfg", out, "replay_" + pid, start_lenient=True)
    else:
        vlib.harness(["mailbox-replay", "--shape-str", meta["shape"], "--sched", json.dumps(meta["sched"]), "--out", out])
        vb = vlib.validate_batch("Trace_Mailbox", "Trace_Mailbox.cfg", out, "replay_" + pid)
    if vb["violations"]:
        log("VIOLATION property=%s replay=%s" % (pid, path))
        return 1
    log("replay accepted by the specification (strict=%d, lenient=%d, divergences=%d)" % (vb["strict_accepted"], vb["lenient_accepted"], len(vb["divergences"])))
    return 0
