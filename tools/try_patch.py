#!/usr/bin/env python3
"""Apply a patch to /repo, run one or more checks (quick tier) under a time limit, always revert.
usage: [VERIF_REPO=/tmp/bN/repo] try_patch.py <patch.diff> <Cxx> [<Cyy> ...]"""
import subprocess
import sys

import os
patch = os.path.abspath(sys.argv[1])
REPO = os.environ.get("VERIF_REPO", "/repo")
VROOT = os.path.dirname(os.path.dirname(os.path.abspath(__file__)))
pids = sys.argv[2:]
st = subprocess.run(["git", "-C", REPO, "status", "--porcelain"], capture_output=True, text=True).stdout.strip()
if st:
    print("refusing: /repo has local changes:\n" + st)
    sys.exit(2)
r = subprocess.run(["git", "-C", REPO, "apply", patch])
if r.returncode != 0:
    print("patch does not apply")
    sys.exit(2)
import shutil
import tempfile
_evbak = tempfile.mkdtemp(prefix="evbak")
if os.path.isdir(os.path.join(VROOT, "evidence")):
    shutil.copytree(os.path.join(VROOT, "evidence"), os.path.join(_evbak, "evidence"))
try:
    for pid in pids:
        try:
            p = subprocess.run([os.path.join(VROOT, "check"), pid, "--tier", "quick"], cwd=VROOT, capture_output=True, text=True, timeout=1500)
            lines = [l for l in p.stdout.splitlines() if any(k in l for k in ("VIOLATION", "signature", "KNOWN-FINDING", "TOOL-ERROR", "DIVERGENCE"))]
            lines.sort(key=lambda l: 0 if ("VIOLATION" in l or "signature" in l) else 1)   # stable: verdict lines first
            print("== %s rc=%d" % (pid, p.returncode))
            for l in lines[:8]:
                print("   " + l[:300])
        except subprocess.TimeoutExpired:
            print("== %s TIMEOUT" % pid)
finally:
    # evidence written while a mutant was applied does not describe the real tree: put the old files back
    if os.path.isdir(os.path.join(_evbak, "evidence")):
        shutil.rmtree(os.path.join(VROOT, "evidence"), ignore_errors=True)
        shutil.copytree(os.path.join(_evbak, "evidence"), os.path.join(VROOT, "evidence"))
    shutil.rmtree(_evbak, ignore_errors=True)
    subprocess.run(["git", "-C", REPO, "checkout", "--", "."])
    subprocess.run(["git", "-C", REPO, "clean", "-fdq", "--", "ractor", "ractor_cluster"], check=False)
