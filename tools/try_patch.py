#!/usr/bin/env python3
"""Apply a patch to /repo, run one or more checks (quick tier) under a time limit, always revert.
usage: try_patch.py <patch.diff> <Cxx> [<Cyy> ...]"""
import subprocess
import sys

import os
patch = os.path.abspath(sys.argv[1])
pids = sys.argv[2:]
st = subprocess.run(["git", "-C", "/repo", "status", "--porcelain"], capture_output=True, text=True).stdout.strip()
if st:
    print("refusing: /repo has local changes:\n" + st)
    sys.exit(2)
r = subprocess.run(["git", "-C", "/repo", "apply", patch])
if r.returncode != 0:
    print("patch does not apply")
    sys.exit(2)
try:
    for pid in pids:
        try:
            p = subprocess.run(["/verif/check", pid, "--tier", "quick"], cwd="/verif", capture_output=True, text=True, timeout=1500)
            lines = [l for l in p.stdout.splitlines() if any(k in l for k in ("VIOLATION", "signature", "KNOWN-FINDING", "TOOL-ERROR", "DIVERGENCE"))]
            print("== %s rc=%d" % (pid, p.returncode))
            for l in lines[:8]:
                print("   " + l[:300])
        except subprocess.TimeoutExpired:
            print("== %s TIMEOUT" % pid)
finally:
    subprocess.run(["git", "-C", "/repo", "checkout", "--", "."])
    subprocess.run(["git", "-C", "/repo", "clean", "-fdq", "--", "ractor", "ractor_cluster"], check=False)
