"""C13 / C14 / C15: the Factory specification (handler-level transcription of the factory's
bookkeeping, the five routers, worker queues, discard modes, resize, drain) and the LeakyBucket
specification, bound to the real factory through engine T (factory.step snapshots, worker /
discard / reply / hook observations) and to the real LeakyBucketRateLimiter on the paused clock."""
import json
import os
import re
import time

import vlib
from vlib import log

PROPS = ["C13", "C14", "C15"]

ASSUME = [
    "engine T serialises the runtime at poll granularity; a factory handler is one atomic step of the specification, which is "
    "the real atomicity of that code because only the factory task touches FactoryState; every effect a handler has on other "
    "actors (casts, stops) happens in its last poll, after its last await (checked: the effects recorded before a factory.step "
    "line must equal the transcription's effects in order)",
    "worker behaviour is that of the harness worker (a plain actor speaking the worker protocol: one job at a time, reports "
    "completion itself, may panic / fail / kill itself before or right after reporting); the Worker trait wrapper is not driven",
    "dead man's switch, capacity controller, dynamic discard controller, stats layer and remote (cluster) factories are not "
    "configured; only the drain path stops the factory; the periodic DoPings message (10 s) never fires inside the horizons used",
    "acceptance-port reading: a refused job is reported to the discard handler and returned through its port in the same step; "
    "that pair is one fate (DESIGN §3 C13)",
    "TLC integers are 32-bit: limiter arithmetic near usize::MAX is represented by the clamp class BIG on both sides",
]

# which deviation excuses which property-level reading (printed by the trace spec as "Cxx:<reading>")
EXCUSES = {
    "C13:LostOnePerDeath": ["StaleCompletion"], "C13:ViewExact": ["StaleCompletion"],
    "C14:KeyExclusive": ["StaleCompletion", "ParkedJobNotSticky"], "C15:QueueBound": ["ClosedWorkerQueueOverLimit"], "C14:KeyFifo": ["StaleCompletion"], "C14:OneAtATime": ["StaleCompletion"],
    "C14:QueuerNoIdle": ["StaleCompletion"],
    "C15:PoolConverges": ["DrainingSlotReplaced", "StaleCompletion"], "C15:DrainComplete": ["StaleCompletion"],
}

MC_QUICK = {
    "C13": ["queuer", "keyp", "drain", "custom", "keyp_stop", "retry", "retry_keyp"],
    "C14": ["queuer", "sticky", "keyp", "rr", "custom", "keyp_stop", "sticky_stop"],
    "C15": ["queuer", "drain", "rl", "rr", "keyp", "keyp_stop"],
}
MC_THOROUGH = {
    "C13": ["big_queuer", "big_keyp", "big_custom"],
    "C14": ["big_sticky", "big_keyp", "big_rr", "big_custom"],
    "C15": ["big_queuer", "big_rl", "big_rr", "queuer_fixed", "keyp_fixed"],
}
# vacuity: each of these must be VIOLATED (the situation is reachable in the closed model)
REACH = {
    "C13": [("sticky", "NeverStale"), ("keyp_stop", "NeverClosing"), ("retry", "NeverRetried"), ("retry", "NeverExhausted"), ("retry_keyp", "NeverRetried")],
    "C14": [("sticky", "NeverStale"), ("sticky", "NeverExclBad"), ("keyp_stop", "NeverClosing"), ("sticky_stop", "NeverParked")],
    "C15": [("queuer", "NeverDrainingSlotReplaced"), ("drain", "NeverDrained"), ("keyp_stop", "NeverClosedCastFails")],
}


def _mc(cfg, workers=4, timeout=600, name=None):
    """TLC on MC_Factory without -coverage: the cost-model construction of TLC's coverage mode walks the nested operator
    definitions of Factory.tla without memoisation and does not terminate in useful time.  Vacuity is controlled by the
    reachability runs (REACH) instead of per-action counts."""
    name = name or cfg.replace(".cfg", "")
    md = vlib.workdir("mc_" + name)
    cmd = ["tlc", "-workers", str(workers), "-metadir", md, "-cleanup", "-noGenerateSpecTE", "-config", os.path.join(vlib.SPEC, cfg),
           os.path.join(vlib.SPEC, "MC_Factory.tla")]
    t0 = time.time()
    rc, out = vlib.sh(cmd, timeout=timeout, cwd=md, env={"JAVA_TOOL_OPTIONS": "-Xss64m"})
    res = {"module": "MC_Factory", "cfg": cfg, "rc": rc, "wall_s": round(time.time() - t0, 1), "violated": None, "states": 0,
           "transitions": 0, "coverage": {}, "timeout": rc == 124, "tail": out[-3000:]}
    ms = re.findall(r"(\d+) states generated, (\d+) distinct states found", out)
    if ms:
        res["transitions"], res["states"] = int(ms[-1][0]), int(ms[-1][1])
    m = re.search(r"Invariant (\S+) is violated", out)
    if m:
        res["violated"] = m.group(1)
    if (("Error:" in out and res["violated"] is None) or res["states"] == 0) and not res["timeout"]:
        log(out[-3000:])
        raise vlib.ToolError("TLC failed on MC_Factory/%s" % cfg)
    import shutil
    shutil.rmtree(md, ignore_errors=True)
    log("[M] MC_Factory %s: %d distinct states, %d transitions, %.0fs, violated=%s%s" % (
        cfg, res["states"], res["transitions"], res["wall_s"], res["violated"], " (time limit reached)" if res["timeout"] else ""))
    return res


def _reach(cfg, inv, pid=""):
    src = open(os.path.join(vlib.SPEC, "MC_Factory_%s.cfg" % cfg)).read()
    head = src.split("INVARIANTS")[0]
    tmp = "tmp_reach_%s_%s_%s_%d.cfg" % (pid, cfg, inv, os.getpid())
    with open(os.path.join(vlib.SPEC, tmp), "w") as f:
        f.write(head + "INVARIANTS\n  %s\nCHECK_DEADLOCK FALSE\n" % inv)
    try:
        r = _mc(tmp, workers=4, timeout=300, name="reach_%s_%s" % (cfg, inv))
    finally:
        os.remove(os.path.join(vlib.SPEC, tmp))
    if r["violated"] != inv:
        log(r["tail"])
        raise vlib.ToolError("vacuity: %s is not reachable in MC_Factory_%s" % (inv, cfg))
    log("[M] reachable: %s in %s (%d states)" % (inv, cfg, r["states"]))
    return r


def _validate(module, cfg, trace, label, v, fam, lenient=True):
    """validate_batch, turning 'an invariant of the module is violated along a trace' into a violation"""
    try:
        return vlib.validate_batch(module, cfg, trace, label, lenient=lenient, max_divergences=4)
    except vlib.ToolError as e:
        m = re.search(r"invariant (\S+) violated", str(e))
        if not m:
            raise
        v.violation("%s invariant=%s" % (fam, m.group(1)), {"family": fam, "invariant": m.group(1), "trace_file": trace,
                                                            "detail": str(e)[-2000:]})
        return None


def _validate_groups(trace, w, pid, v, chunk=400):
    """The batch is validated in chunks of whole scenarios."""
    groups, order = {}, []
    cur = None
    for ln in open(trace):
        if ln.startswith('{"a":"reset"'):
            sc = json.loads(ln).get("meta", {}).get("scenario", "")
            if sc not in groups:
                groups[sc] = []
                order.append(sc)
            cur = groups[sc]
        if cur is not None:
            cur.append(ln)
    # scenarios are pooled into files of about `chunk` runs (one JVM start each); validate_batch itself switches to
    # lenient judging of the remainder after a few strict rejections, so a noisy scenario does not hide the others
    files, pool = [], []
    for sc in order:
        runs = sum(1 for l in groups[sc] if l.startswith('{"a":"reset"'))
        pool.append((runs, groups[sc]))
    acc, n = [], 0
    for runs, lines in pool:
        acc.extend(lines)
        n += runs
        if n >= chunk:
            files.append(acc)
            acc, n = [], 0
    if acc:
        files.append(acc)
    total = None
    for i, lines in enumerate(files):
        gf = os.path.join(w, "group%02d.ndjson" % i)
        with open(gf, "w") as f:
            f.writelines(lines)
        r = _validate("Trace_Factory", "Trace_Factory.cfg", gf, "factory_%s_g%02d" % (pid, i), v, "factory")
        if r is None:
            continue
        if total is None:
            total = r
        else:
            for k in ("runs", "events", "strict_accepted", "tlc_states", "wall_s"):
                total[k] += r[k]
            total["divergences"] += r["divergences"]
            total["violations"] += r["violations"]
            for k, n in r["deviations"].items():
                total["deviations"][k] = total["deviations"].get(k, 0) + n
    return total


def run(pid, tier, seed):
    t0 = time.time()
    v = vlib.Verdict(pid)
    mcs = []
    for c in MC_QUICK[pid]:
        mcs.append(_mc("MC_Factory_%s.cfg" % c, workers=4, timeout=600))
    if tier == "thorough":
        for c in MC_THOROUGH[pid]:
            mcs.append(_mc("MC_Factory_%s.cfg" % c, workers=6, timeout=1500))
    if pid == "C15":
        mcs.append(vlib.mc_or_die("MC_LeakyBucket", "MC_LeakyBucket_%s.cfg" % ("big" if tier == "thorough" else "small"), workers=4, timeout=1200))
    covered = set()
    for m in mcs:
        if m["violated"]:
            log(m["tail"])
            raise vlib.ToolError("specification %s violates %s: fix the model" % (m["cfg"], m["violated"]))
        if m["timeout"]:
            log("[M] %s did not finish within its time limit (%d states explored)" % (m["cfg"], m["states"]))
        covered |= {a for a, c in m["coverage"].items() if c > 0}
    reach = [_reach(c, inv, pid) for c, inv in REACH[pid]]

    w = vlib.workdir("factory_" + pid)
    trace = os.path.join(w, "batch.ndjson")
    summ = vlib.harness(["factory", "--out", trace, "--tier", tier, "--seed", seed])
    if summ.get("bad_runs"):
        log("[V] %d runs hit the step budget before their horizon" % summ["bad_runs"])
    vb = _validate_groups(trace, w, pid, v)
    lsumm, lvb = None, None
    if pid == "C15":
        ltrace = os.path.join(w, "leaky.ndjson")
        lsumm = vlib.harness(["leaky", "--out", ltrace, "--tier", tier, "--seed", seed])
        lvb = _validate("Trace_LeakyBucket", "Trace_LeakyBucket.cfg", ltrace, "leaky_" + pid, v, "leaky", lenient=False)
    for fam, b in (("factory", vb), ("leaky", lvb)):
        if not b:
            continue
        for viol in b["violations"]:
            meta = json.loads(viol["run"][0]).get("meta", {})
            ev = viol.get("lenient_event") or viol.get("strict_event") or "{}"
            try:
                j = json.loads(ev)
                lab = "%s(%s)" % (j.get("a", "?"), j.get("kind", j.get("how", j.get("reason", ""))))
            except Exception:
                lab = "?"
            sig = "%s first-unexplained=%s" % (fam, lab)
            v.violation(sig, {"family": fam, "meta": meta, "trace": [json.loads(x) for x in viol["run"]],
                              "first_unexplained": viol.get("lenient_event_index"), "event": ev})
    devs = vb["deviations"] if vb else {}
    needed = set()
    for name, n in devs.items():
        if name.startswith(pid + ":"):
            for d in EXCUSES.get(name, []):
                if d in devs:
                    needed.add(d)
    for d in sorted(needed):
        v.deviation(d, devs[d])
    cov = {
        "states": sum(m["states"] for m in mcs),
        "transitions": sum(m["transitions"] for m in mcs),
        "traces_validated_against_impl": (vb["strict_accepted"] + len(vb["divergences"]) if vb else 0) + (lvb["strict_accepted"] if lvb else 0),
        "samples": summ.get("samples", [])[:3],
        "evaluations": summ["runs"] + (lsumm["runs"] if lsumm else 0),
        "distinct_nontrivial": summ["distinct_nontrivial"],
        "runs_by_routing": summ.get("by_routing"),
        "rule": "one evaluation = one (scenario, schedule) execution of the real factory (router x queue x discard setting x job "
                "stream with worker faults x resize / settings / drain script) on the gated tokio runtime with a virtual clock; "
                "micro-scenarios by DFS over poll orders with preemption bound 2 (capped per scenario), random scenarios with "
                "seeded random schedules; every factory handler invocation is compared with the TLA+ transcription (state "
                "snapshot + effects), every worker / discard / reply / hook observation with the world model; for C15 also one "
                "evaluation per (limiter parameter tuple, call script) of the real LeakyBucketRateLimiter",
        "validation_level": "strict (full FactoryState snapshot after every handler step) for all five routers",
        "events_validated": (vb["events"] if vb else 0) + (lvb["events"] if lvb else 0),
        "strict_accepted_runs": vb["strict_accepted"] if vb else 0,
        "divergences": len(vb["divergences"]) if vb else 0,
        "rejected_runs": len(vb["violations"]) if vb else 0,
        "deviation_and_witness_runs": devs,
        "leaky_bucket": ({"tuples": lsumm["tuples"], "runs": lsumm["runs"], "accepted": lvb["strict_accepted"] if lvb else 0} if lsumm else None),
        "tlc_trace_states": (vb["tlc_states"] if vb else 0) + (lvb["tlc_states"] if lvb else 0),
        "mc_configs": [{"cfg": m["cfg"], "states": m["states"], "transitions": m["transitions"], "wall_s": m["wall_s"], "complete": not m["timeout"]} for m in mcs],
        "reachability_checks": [{"cfg": r["cfg"], "violated_as_expected": r["violated"], "states": r["states"]} for r in reach],
        "mc_actions_covered": sorted(covered),
        "exhaustive": False,
    }
    vlib.write_evidence(pid, tier, seed, cov, ASSUME, time.time() - t0, len(v.violations))
    return v.finish()


def replay(pid, path):
    rp = json.load(open(path))
    if "trace" not in rp:
        log("replay file carries no trace (%s)" % rp.get("signature"))
        return 2
    w = vlib.workdir("replay_" + pid)
    out = os.path.join(w, "replay.ndjson")
    with open(out, "w") as f:
        for e in rp["trace"]:
            f.write(json.dumps(e, separators=(",", ":"), sort_keys=True) + "\n")
    leaky = rp.get("family") == "leaky"
    v = vlib.Verdict(pid)
    vb = _validate("Trace_LeakyBucket" if leaky else "Trace_Factory", "Trace_LeakyBucket.cfg" if leaky else "Trace_Factory.cfg", out,
                   "replay_" + pid, v, rp.get("family", "factory"), lenient=not leaky)
    if vb is None or vb["violations"]:
        if vb:
            log("recorded trace is rejected by the specification at: %s" % (vb["violations"][0].get("lenient_event") or vb["violations"][0].get("strict_event")))
        log("VIOLATION property=%s replay=%s" % (pid, path))
        return 1
    log("recorded trace accepted")
    return 0
