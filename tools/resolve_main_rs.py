#!/usr/bin/env python3
"""resolve a merge conflict in harness/src/main.rs by taking both sides and de-duplicating mod lines"""
import re
p = '/verif/harness/src/main.rs'
s = open(p).read()
s = re.sub(r"<<<<<<< HEAD\n(.*?)=======\n(.*?)>>>>>>> [^\n]*\n", lambda m: m.group(1) + m.group(2), s, flags=re.S)
seen = set(); out = []
for line in s.splitlines():
    if (line.startswith("mod ") or line.strip().endswith("::dispatch,")) and line in seen:
        continue
    if line.startswith("mod ") or line.strip().endswith("::dispatch,"):
        seen.add(line)
    out.append(line)
open(p, 'w').write("\n".join(out) + "\n")
