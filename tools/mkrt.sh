#!/bin/sh
# usage: mkrt.sh <name>  -> /tmp/<name> : scratch git worktree of /repo (detached HEAD) for a red-team agent
set -e
git -C /repo worktree add -q --detach /tmp/$1
echo /tmp/$1
