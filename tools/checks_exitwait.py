"""C06: the ExitWait specification (guard cleanup at point granularity, racing set_status caller,
tokio Notify model, waiters with and without timeouts, join handle) bound to the real code through
engine H (detached cell, controlled threads) and engine T (real actor, waiting APIs)."""
import json
import os
import time

import vlib
from vlib import log

PROPS = ["C06"]

ASSUME = [
    "sequential consistency at the granularity of the hooked steps (weak-memory reorderings below that are not explored)",
    "tokio::sync::Notify 1.53 behaves as modelled: notify_waiters bumps a call counter and wakes every enqueued waiter; "
    "a Notified created before the bump completes on its next poll; notify_one wakes one enqueued waiter or stores one permit",
    "the only callers of set_status(>= Stopping) are the actor's own task (processing loop, lifecycle guard, spawn_linked_remote's "
    "failure path), so they are sequenced; a truly concurrent second caller (thread \"r\" on a detached cell) is explored, and if it "
    "wins the cleanup election the registry / pg effects are only owed once it has returned",
    "children are Running when the actor exits (a Draining child is not sent Kill: that is C05's recorded subject)",
    "engine T serialises the runtime at poll granularity; two threads inside wait()/set_status at once are engine H's job",
    "a harness-fired timeout with tokio::time::timeout's poll order (value first, then delay) stands for the timer in engine H; "
    "engine T uses the real timeout on the paused clock",
]

EXPECT_MUTANT_VIOLATION = "NoLostWake"


def bad_first(trace):
    """Rewrite the batch with the runs the harness flagged first (stuck waiter, overrun, no quiescence, or "suspect": an Ok
    return whose snapshot is not the fully stopped picture -- a triage hint only, the specification decides). Returns their number."""
    runs, cur = [], None
    for ln in open(trace).read().splitlines():
        if ln.startswith('{"a":"reset"'):
            cur = [ln]
            runs.append(cur)
        elif cur is not None:
            cur.append(ln)

    def is_bad(r):
        m = json.loads(r[0]).get("meta", {})
        return bool(m.get("stuck")) or bool(m.get("overrun")) or m.get("quiescent") is False or bool(m.get("suspect"))

    bad = [r for r in runs if is_bad(r)]
    good = [r for r in runs if not is_bad(r)]
    with open(trace, "w") as f:
        for r in bad + good:
            f.write("\n".join(r) + "\n")
    return len(bad)


def run(pid, tier, seed):
    t0 = time.time()
    v = vlib.Verdict(pid)
    # M: design check
    mcs = [vlib.mc_or_die("MC_ExitWait", "MC_ExitWait_small.cfg", workers=4, timeout=900),
           vlib.mc_or_die("MC_ExitWait", "MC_ExitWait_racer.cfg", workers=4, timeout=900)]
    if tier == "thorough":
        mcs.append(vlib.mc_or_die("MC_ExitWait", "MC_ExitWait_rounds.cfg", workers=4, timeout=3000))
        mcs.append(vlib.mc_or_die("MC_ExitWait", "MC_ExitWait_big.cfg", workers=4, timeout=3000))
        mcs.append(vlib.mc_or_die("MC_ExitWait", "MC_ExitWait_live.cfg", workers=4, timeout=1800))
    covered = set()
    for m in mcs:
        if m["violated"]:
            log(m["tail"])
            raise vlib.ToolError("specification %s violates %s: fix the model" % (m["cfg"], m["violated"]))
        covered |= {a for a, c in m["coverage"].items() if c > 0}
    # every action must be taken in at least one configuration (the configurations split the roles)
    never = sorted(set().union(*[set(m["coverage"]) for m in mcs]) - covered)
    if never:
        raise vlib.ToolError("vacuity: actions never taken in any configuration: %s" % never)
    # vacuity of NoLostWake: the specification with wait() checking the status before creating the
    # Notified must lose a wake-up
    mm = vlib.tlc_mc("MC_ExitWait", "MC_ExitWait_mutant.cfg", workers=4, timeout=600)
    if mm["violated"] != EXPECT_MUTANT_VIOLATION:
        log(mm["tail"])
        raise vlib.ToolError("vacuity: the check-first variant of the specification does not violate NoLostWake")
    log("[M] MC_ExitWait_mutant.cfg (CheckFirst): NoLostWake violated as expected after %d states" % mm["states"])
    # V: implementation traces
    w = vlib.workdir("exitwait_" + pid)
    trace = os.path.join(w, "batch.ndjson")
    summ = vlib.harness(["exitwait", "--out", trace, "--tier", tier, "--seed", seed])
    if summ.get("bad_runs"):
        log("[V] %d runs flagged by the harness (stuck waiter, overrun, no quiescence, suspicious snapshot)%s" % (
            summ["bad_runs"], "; batch truncated" if summ.get("truncated") else ""))
    # runs the harness itself flagged (stuck waiter, overrun, no quiescence, suspicious snapshot) are validated
    # first: validate_batch gives up after a number of rejected runs, and a flood of mere divergences must not hide them
    flagged = bad_first(trace)
    vb = vlib.validate_batch("Trace_ExitWait", "Trace_ExitWait.cfg", trace, "exitwait_" + pid, max_divergences=6)
    log("[V] %d flagged runs validated first" % flagged)
    log("[V] %d runs (%s engine-H, %s engine-T), %d events: %d accepted step by step, %d divergences, %d rejected" % (
        summ["runs"], summ.get("h_runs"), summ.get("t_runs"), vb["events"], vb["strict_accepted"], len(vb["divergences"]),
        len(vb["violations"])))
    for viol in vb["violations"]:
        meta = json.loads(viol["run"][0]).get("meta", {})
        ev = viol.get("lenient_event") or viol.get("strict_event") or "{}"
        try:
            j = json.loads(ev)
            lab = "%s(%s)" % (j.get("a", "?"), j.get("who", ""))
        except Exception:
            lab = "?"
        sig = "%s %s first-unexplained=%s" % (meta.get("family"), meta.get("shape") or meta.get("scenario"), lab)
        v.violation(sig, {"family": meta.get("family"), "meta": meta, "trace": [json.loads(x) for x in viol["run"]],
                          "first_unexplained": viol.get("lenient_event_index"), "event": ev,
                          "replay_cmd": "./check %s --replay <this file>" % pid})
    cov = {
        "states": sum(m["states"] for m in mcs),
        "transitions": sum(m["transitions"] for m in mcs),
        "traces_validated_against_impl": vb["strict_accepted"] + len(vb["divergences"]),
        "samples": summ.get("samples", [])[:3],
        "evaluations": summ["runs"],
        "h_runs": summ.get("h_runs"),
        "t_runs": summ.get("t_runs"),
        "distinct_nontrivial": summ["distinct_nontrivial"],
        "rule": "one evaluation = one schedule of one shape/scenario. Engine H: exiter thread (optional loop set_status + post_stop, "
                "guard finish/drop, optional late set_status), optional racing set_status thread, 1-3 waiter threads x 1-2 rounds "
                "(plain or with a harness-fired timeout) on a detached named cell in a process group with supervisor and children, "
                "DFS with preemption bound 1 and 2 (capped) plus seeded random schedules. Engine T: named actor in a group with "
                "supervisor (and child), clients using wait/stop_and_wait/kill_and_wait/drain_and_wait (with and without timeout), "
                "the join handle, stop/kill/drain/abort/send, micro-scenarios by DFS (preemption bound 2, capped) plus random "
                "scenarios x random schedules. Every waiter snapshots status, where_is, where_is_pid, pg members, supervisor link and "
                "event, child signals at return; the snapshot must equal the specification state. distinct = distinct event-sequence "
                "hash; non-trivial = at least one preemption",
        "events_validated": vb["events"],
        "strict_accepted_runs": vb["strict_accepted"],
        "divergences": len(vb["divergences"]),
        "rejected_runs": len(vb["violations"]),
        "tlc_trace_states": vb["tlc_states"],
        "mc_configs": [{"cfg": m["cfg"], "states": m["states"], "transitions": m["transitions"], "wall_s": m["wall_s"],
                        "actions_covered": len([a for a, c in m["coverage"].items() if c > 0])} for m in mcs],
        "mutant_model": {"cfg": "MC_ExitWait_mutant.cfg", "violated": mm["violated"], "states": mm["states"]},
        "bounds": "M: 3 waiters (1 may time out, 1 may join) x 1 round, 1 child, racer + late calls (thorough: 2 rounds, 0-2 children, "
                  "bare actor; fair config for AllWaitersFinish); V: up to 3 waiter threads / 5 client tasks",
        "exhaustive": False,
    }
    vlib.write_evidence(pid, tier, seed, cov, ASSUME, time.time() - t0, len(v.violations))
    return v.finish()


def replay(pid, path):
    """Re-validate the recorded trace of a violation (the schedule is in meta.sched)."""
    rp = json.load(open(path))
    w = vlib.workdir("replay_" + pid)
    out = os.path.join(w, "replay.ndjson")
    meta = rp.get("meta", {})
    reexec = False
    if meta.get("family") == "exitwait-h" and meta.get("shape") and os.environ.get("VERIF_REPLAY_RECORDED") != "1":
        # engine H: run the recorded schedule again on the current tree
        summ = vlib.harness(["exitwait-replay", "--shape-str", meta["shape"], "--sched", json.dumps(meta.get("sched", [])), "--out", out])
        reexec = summ.get("runs") == 1
        if reexec:
            log("re-executed the recorded schedule on the current tree")
    if not reexec:
        log("validating the recorded trace (set VERIF_REPLAY_RECORDED=1 to force this for engine-H artefacts)")
        with open(out, "w") as f:
            for e in rp["trace"]:
                f.write(json.dumps(e, separators=(",", ":")) + "\n")
    vb = vlib.validate_batch("Trace_ExitWait", "Trace_ExitWait.cfg", out, "replay_" + pid)
    if vb["violations"]:
        log("recorded trace is rejected by the specification at: %s" % (vb["violations"][0].get("lenient_event") or vb["violations"][0].get("strict_event")))
        log("VIOLATION property=%s replay=%s" % (pid, path))
        return 1
    log("trace accepted by the specification")
    return 0
