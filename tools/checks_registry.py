"""C10: the Registry specification (name table through the DashMap entry API, pid table, rollback of a
failed construction, elected cleanup at exit, lookups, re-spawns, remote-actor proxies) bound to the real
code through engine H (spawner / looker / proxy threads on detached cells)."""
import json
import os
import time

import vlib
from vlib import log

PROPS = ["C10"]

ASSUME = [
    "free-running runs (registry-free): interleavings inside a hooked step are reached by chance on real threads, not enumerated; "
    "only lines logged at safe positions are validated (intent before the call, result after it, the holder's own lookup, the final table)",
    "sequential consistency at the granularity of the hooked steps; each DashMap operation (entry insert, remove, get) is atomic",
    "one name is explored (names do not interact: the table is keyed by name, one shard lock per operation)",
    "a spawn attempt is ActorCell::new on a detached cell (what ActorRuntime::new does first); the exit of a successful attempt is the "
    "loop's set_status(Stopping) (optional), ActorLifecycleGuard::finish and wait() on the spawning thread",
    "a failing register_pid cannot be produced with fresh local ids; it is injected (cfg-only) to exercise the rollback in ActorCell::new",
    "the remote proxy is a named cell made by ActorCell::new_remote (what ractor_cluster::RemoteActor::spawn_linked creates); "
    "the finding is additionally reproduced through ActorRuntime::spawn_linked_remote on a plain tokio runtime (registry-repro)",
]

DEV_OWNER = {"RemoteProxyUnregistersLocalName": "C10"}
# sanity configurations: (cfg, invariant expected to be violated)
EXPECT = [("MC_Registry_toctou.cfg", "OneWinner"), ("MC_Registry_everycall.cfg", "NoStaleUnregister"),
          ("MC_Registry_devreach.cfg", "NoDev")]


def bad_first(trace):
    """Flagged runs (stuck / overrun) first: see checks_exitwait.bad_first."""
    runs, cur = [], None
    for ln in open(trace).read().splitlines():
        if ln.startswith('{"a":"reset"'):
            cur = [ln]
            runs.append(cur)
        elif cur is not None:
            cur.append(ln)

    def is_bad(r):
        m = json.loads(r[0]).get("meta", {})
        return bool(m.get("stuck")) or bool(m.get("overrun")) or bool(m.get("suspect"))

    bad = [r for r in runs if is_bad(r)]
    good = [r for r in runs if not is_bad(r)]
    with open(trace, "w") as f:
        for r in bad + good:
            f.write("\n".join(r) + "\n")
    return len(bad)


def run(pid, tier, seed):
    t0 = time.time()
    v = vlib.Verdict(pid)
    cfgs = ["MC_Registry_small.cfg", "MC_Registry_respawn.cfg", "MC_Registry_proxy.cfg"]
    if tier == "thorough":
        cfgs += ["MC_Registry_big.cfg", "MC_Registry_bigproxy.cfg"]
    mcs = [vlib.mc_or_die("MC_Registry", c, workers=4, timeout=3000) for c in cfgs]
    covered = set()
    for m in mcs:
        if m["violated"]:
            log(m["tail"])
            raise vlib.ToolError("specification %s violates %s: fix the model" % (m["cfg"], m["violated"]))
        covered |= {a for a, c in m["coverage"].items() if c > 0}
    never = sorted(set().union(*[set(m["coverage"]) for m in mcs]) - covered - {"SCheck", "SInsert"})
    if never:
        raise vlib.ToolError("vacuity: actions never taken in any configuration: %s" % never)
    sanity = []
    for cfg, inv in EXPECT:
        r = vlib.tlc_mc("MC_Registry", cfg, workers=4, timeout=600)
        if r["violated"] != inv:
            log(r["tail"])
            raise vlib.ToolError("vacuity: %s was expected to violate %s, got %s" % (cfg, inv, r["violated"]))
        sanity.append({"cfg": cfg, "violated": inv, "states": r["states"]})
    log("[M] sanity configurations violate as expected: %s" % ", ".join("%s->%s" % (s["cfg"], s["violated"]) for s in sanity))
    # V
    w = vlib.workdir("registry_" + pid)
    trace = os.path.join(w, "batch.ndjson")
    summ = vlib.harness(["registry", "--out", trace, "--tier", tier, "--seed", seed])
    if summ.get("bad_runs"):
        log("[V] %d runs ended with a stuck thread or an overrun" % summ["bad_runs"])
    flagged = bad_first(trace)
    vb = vlib.validate_batch("Trace_Registry", "Trace_Registry.cfg", trace, "registry_" + pid, max_divergences=6)
    log("[V] %d runs, %d events: %d accepted step by step, %d divergences, %d rejected (%d flagged runs first); deviations %s" % (
        summ["runs"], vb["events"], vb["strict_accepted"], len(vb["divergences"]), len(vb["violations"]), flagged, vb["deviations"]))
    for viol in vb["violations"]:
        meta = json.loads(viol["run"][0]).get("meta", {})
        ev = viol.get("lenient_event") or viol.get("strict_event") or "{}"
        try:
            j = json.loads(ev)
            lab = "%s(%s)" % (j.get("a", "?"), j.get("who", ""))
        except Exception:
            lab = "?"
        sig = "registry %s first-unexplained=%s" % (meta.get("shape"), lab)
        v.violation(sig, {"family": "registry", "meta": meta, "trace": [json.loads(x) for x in viol["run"]],
                          "first_unexplained": viol.get("lenient_event_index"), "event": ev,
                          "replay_cmd": "./check %s --replay <this file>" % pid})
    # V2: the same spawner roles free running (real threads, no scheduler): reaches windows inside regions the hooks
    # treat as atomic (e.g. a check-then-insert in place of the entry API); observation lines only, lenient validation
    tracef = os.path.join(w, "batch_free.ndjson")
    summf = vlib.harness(["registry-free", "--out", tracef, "--tier", tier, "--seed", seed])
    vbf = vlib.validate_batch("Trace_Registry", "Trace_Registry.cfg", tracef, "registry_free_" + pid, start_lenient=True)
    log("[V] registry-free: %d runs, %d events: %d accepted on their observations, %d rejected, %d not validated" % (
        summf["runs"], vbf["events"], vbf["lenient_accepted"], len(vbf["violations"]), vbf["unvalidated"]))
    for viol in vbf["violations"]:
        meta = json.loads(viol["run"][0]).get("meta", {})
        ev = viol.get("lenient_event") or viol.get("strict_event") or "{}"
        try:
            j = json.loads(ev)
            lab = "%s(%s)" % (j.get("a", "?"), j.get("who", ""))
        except Exception:
            lab = "?"
        v.violation("registry-free %s first-unexplained=%s" % (meta.get("shape"), lab),
                    {"family": "registry-free", "meta": meta, "trace": [json.loads(x) for x in viol["run"]],
                     "first_unexplained": viol.get("lenient_event_index"), "event": ev})
    repro = None
    for name, n in vb["deviations"].items():
        if DEV_OWNER.get(name) == pid:
            # the deviation was needed to explain implementation traces: confirm it through the public API
            repro = vlib.harness(["registry-repro"])
            log("[V] public-API reproduction: %s" % json.dumps(repro))
            v.deviation(name, n, {"deviation": name, "runs": n, "public_api_reproduction": repro})
    cov = {
        "states": sum(m["states"] for m in mcs),
        "transitions": sum(m["transitions"] for m in mcs),
        "traces_validated_against_impl": vb["strict_accepted"] + len(vb["divergences"]),
        "samples": summ.get("samples", [])[:3],
        "evaluations": summ["runs"] + summf["runs"],
        "free_running_runs": summf["runs"],
        "free_running_accepted": vbf["lenient_accepted"],
        "free_running_unvalidated": vbf["unvalidated"],
        "distinct_nontrivial": summ["distinct_nontrivial"],
        "rule": "one evaluation = one schedule of one shape: 2-3 spawner threads x 1-2 attempts under one fresh name (each success "
                "exits and is waited for on its thread), 1-2 lookup threads (where_is + status read, where_is_pid, registered), "
                "optionally a remote-proxy thread with the same name and an injected pid-registration failure; DFS with preemption "
                "bound 1 and 2 (capped) plus seeded random schedules; every lookup result and the final table contents must equal "
                "the specification state; distinct = distinct event-sequence hash; non-trivial = at least one preemption",
        "events_validated": vb["events"],
        "strict_accepted_runs": vb["strict_accepted"],
        "divergences": len(vb["divergences"]),
        "rejected_runs": len(vb["violations"]),
        "deviation_runs": vb["deviations"],
        "public_api_reproduction": repro,
        "tlc_trace_states": vb["tlc_states"],
        "mc_configs": [{"cfg": m["cfg"], "states": m["states"], "transitions": m["transitions"], "wall_s": m["wall_s"],
                        "actions_covered": len([a for a, c in m["coverage"].items() if c > 0])} for m in mcs],
        "sanity_configs": sanity,
        "bounds": "M: 3 spawners x 1 attempt + pid faults; 2 spawners x 2 attempts; 2 spawners + proxy; 1 looker x 2 (thorough: 3 x 2 "
                  "attempts, proxy with re-spawns); V: up to 3 spawner threads x 2 attempts, 2 lookers, 1 proxy",
        "exhaustive": False,
    }
    vlib.write_evidence(pid, tier, seed, cov, ASSUME, time.time() - t0, len(v.violations))
    return v.finish()


def replay(pid, path):
    rp = json.load(open(path))
    if "trace" not in rp:
        log("this artefact records a named deviation, not a trace: %s" % rp.get("deviation"))
        r = vlib.harness(["registry-repro"])
        log(json.dumps(r))
        return 1 if r.get("defect_reproduced") else 0
    w = vlib.workdir("replay_" + pid)
    out = os.path.join(w, "replay.ndjson")
    meta = rp.get("meta", {})
    reexec = False
    if meta.get("family") == "registry" and meta.get("shape") and os.environ.get("VERIF_REPLAY_RECORDED") != "1":
        # engine H: run the recorded schedule again on the current tree
        summ = vlib.harness(["registry-replay", "--shape-str", meta["shape"], "--sched", json.dumps(meta.get("sched", [])), "--out", out])
        reexec = summ.get("runs") == 1
        if reexec:
            log("re-executed the recorded schedule on the current tree")
    if not reexec:
        log("validating the recorded trace (set VERIF_REPLAY_RECORDED=1 to force this for engine-H artefacts)")
        with open(out, "w") as f:
            for e in rp["trace"]:
                f.write(json.dumps(e, separators=(",", ":")) + "\n")
    vb = vlib.validate_batch("Trace_Registry", "Trace_Registry.cfg", out, "replay_" + pid)
    if vb["violations"]:
        log("recorded trace is rejected by the specification at: %s" % (vb["violations"][0].get("lenient_event") or vb["violations"][0].get("strict_event")))
        log("VIOLATION property=%s replay=%s" % (pid, path))
        return 1
    log("trace accepted by the specification")
    return 0
