"""C18: duplicate connections between two nodes converge on one and the same link.
M: ElectFn (election function + session-table operations, every world of 3-4 connections) and
   ClusterElect (handshake protocol of two node servers, 2 connections exhaustively, outsiders).
V: every small candidate set through the real elect_sessions, the real NodeServerState driven
   directly, and two real NodeServers joined by in-memory connections under engine T."""
import json
import os
import time

import vlib
from vlib import log

PROPS = ["C18"]

ASSUME = [
    "engine T serialises the two node servers, their sessions, stream readers and the dialler tasks at poll granularity; "
    "the per-stream writer tasks are plain tokio tasks and run as soon as woken",
    "in-memory duplex pipes stand for TCP connections: ordered bytes, end-of-stream when the other end is dropped",
    "the connection nonce of a dialling session is fixed by a cfg-only override (0 stands for a legacy peer that sends none); "
    "without it the nonce is a random non-zero u64",
    "both node servers live in one process and share ractor's global registries; no cluster-serializable actor exists in these runs",
    "the model of the handshake lets a closing session lose frames it queued but had not written (writer task aborted)",
]

# named deviations of the trace specification -> property
DEV_OWNER = {"ReadyWhileLoserListed": "C18", "DiallerTieBothReady": "C18"}

# protocol actions that cannot fire by construction in a given configuration
UNREACHABLE = {"SRecvCStatus"}  # the Alive status needs a CheckSession caller that never registered (compatibility path)


def find_deviation_runs(trace):
    """First protocol run per named deviation: a ready callback for one session of a peer while another ready
    session of that peer has not been reported disconnected (classified like the trace specification does)."""
    found = {}
    run = None
    for ln in open(trace):
        if ln.startswith('{"a":"reset"'):
            run = {"meta": json.loads(ln).get("meta", {}), "lines": [], "ready": {}, "displaced": {}, "hit": set()}
            continue
        if run is None or run["meta"].get("kind") != "proto":
            continue
        run["lines"].append(ln)
        if '"a":"ns.commit"' in ln:
            j = json.loads(ln)
            d = run["displaced"].setdefault(j["node"], set())
            d.update(j.get("losers", []))
        elif '"a":"obs.ready"' in ln:
            j = json.loads(ln)
            others = run["ready"].setdefault(j["node"], set()) - {j["c"]}
            if others:
                name = "ReadyWhileLoserListed" if others & run["displaced"].get(j["node"], set()) else "DiallerTieBothReady"
                run["hit"].add(name)
            run["ready"][j["node"]].add(j["c"])
        elif '"a":"obs.disconnected"' in ln:
            j = json.loads(ln)
            run["ready"].setdefault(j["node"], set()).discard(j["c"])
        elif '"a":"obs.end"' in ln:
            for name in run["hit"]:
                if name not in found:
                    found[name] = {"meta": run["meta"], "trace": [json.loads(x) for x in run["lines"]]}
    return found


def validate(module, cfg, trace, label):
    """vlib.validate_batch, retried once when TLC itself failed to run (the machine is shared; a JVM that
    cannot get its memory is not a verdict)"""
    try:
        return vlib.validate_batch(module, cfg, trace, label)
    except vlib.ToolError as e:
        log("[V] %s; retrying once" % e)
        time.sleep(20)
        return vlib.validate_batch(module, cfg, trace, label)


def mc(module, cfg, workers=4, timeout=900, coverage=True):
    """vlib.mc_or_die plus action coverage for TLC's `<Action line .. of module M (a b c d)>: x:y` lines"""
    import re
    import shutil
    name = cfg.replace(".cfg", "")
    md = vlib.workdir("mc_" + name)
    cmd = ["tlc", "-workers", str(workers)] + (["-coverage", "1"] if coverage else []) + ["-metadir", md, "-cleanup", "-noGenerateSpecTE",
           "-config", os.path.join(vlib.SPEC, cfg), os.path.join(vlib.SPEC, module + ".tla")]
    t0 = time.time()
    rc, out = vlib.sh(cmd, timeout=timeout, cwd=md, env={"JAVA_TOOL_OPTIONS": "-Xss64m"})
    r = {"module": module, "cfg": cfg, "rc": rc, "wall_s": round(time.time() - t0, 1), "violated": None, "states": 0,
         "transitions": 0, "coverage": {}, "timeout": rc == 124, "deadlock": "Deadlock reached" in out}
    m = re.search(r"(\d+) states generated, (\d+) distinct states found", out)
    if m:
        r["transitions"], r["states"] = int(m.group(1)), int(m.group(2))
    m = re.search(r"Invariant (\S+) is violated", out)
    if m:
        r["violated"] = m.group(1)
    if r["deadlock"]:
        r["violated"] = "deadlock"
    for m in re.finditer(r"^<(\w+) line \d+, col \d+ to line \d+, col \d+ of module (\w+)(?: \([\d ]+\))?>: (\d+):(\d+)", out, re.M):
        r["coverage"][m.group(1)] = r["coverage"].get(m.group(1), 0) + int(m.group(4))
    r["tail"] = out[-3000:]
    shutil.rmtree(md, ignore_errors=True)
    if (r["states"] == 0 and not r["violated"]) or (rc not in (0, 12, 11, 124) and not r["violated"]):
        log(r["tail"])
        raise vlib.ToolError("TLC failed on %s/%s" % (module, cfg))
    log("[M] %s %s: %d distinct states, %d transitions, %.0fs, violated=%s" % (module, cfg, r["states"], r["transitions"], r["wall_s"], r["violated"]))
    return r


def model_check(tier, workers=4):
    mcs = []
    mcs.append(mc("MC_ElectFn", "MC_ElectFn_mirror3.cfg", workers=workers, timeout=600, coverage=False))
    mcs.append(mc("MC_ElectFn", "MC_ElectFn_table3.cfg", workers=workers, timeout=600, coverage=False))
    mcs.append(mc("MC_ClusterElect", "MC_ClusterElect_k2.cfg", workers=workers, timeout=900))
    mcs.append(mc("MC_ClusterElect", "MC_ClusterElect_out.cfg", workers=workers, timeout=600))
    if tier == "thorough":
        mcs.append(mc("MC_ElectFn", "MC_ElectFn_mirror4.cfg", workers=workers, timeout=1200, coverage=False))
        mcs.append(mc("MC_ElectFn", "MC_ElectFn_table4.cfg", workers=workers, timeout=2400, coverage=False))
        mcs.append(mc("MC_ClusterElect", "MC_ClusterElect_out3.cfg", workers=workers, timeout=3000))
    for m in mcs:
        if m["violated"]:
            log(m["tail"])
            raise vlib.ToolError("specification %s violates %s: fix the model" % (m["cfg"], m["violated"]))
        if m["timeout"]:
            raise vlib.ToolError("TLC timed out on %s" % m["cfg"])
    # vacuity: the two excused overlaps of OneReadyPerPeer are reachable in the model
    vac = []
    for cfg, inv in (("MC_ClusterElect_vac.cfg", "NoLoserStillListed"), ("MC_ClusterElect_vac2.cfg", "NoDiallerTie")):
        r = mc("MC_ClusterElect", cfg, workers=workers, timeout=600, coverage=False)
        if r["violated"] != inv:
            raise vlib.ToolError("vacuity: %s expected to be violated in %s" % (inv, cfg))
        vac.append(r)
    covered = set()
    for m in mcs:
        if m["module"] == "MC_ClusterElect":
            covered |= {a for a, c in m["coverage"].items() if c > 0}
    allp = set()
    for m in mcs:
        if m["module"] == "MC_ClusterElect":
            allp |= set(m["coverage"].keys())
    never = sorted(a for a in allp - covered - UNREACHABLE if a[0].isupper() and a not in ("Init", "Term"))
    if never:
        raise vlib.ToolError("vacuity: protocol actions never taken: %s" % never)
    return mcs, vac, covered


def run(pid, tier, seed):
    t0 = time.time()
    v = vlib.Verdict(pid)
    mcs, vac, covered = model_check(tier)
    w = vlib.workdir("clusterelect_" + pid)
    trace = os.path.join(w, "batch.ndjson")
    summ = vlib.harness(["clusterelect", "--out", trace, "--tier", tier, "--seed", seed])
    if summ.get("bad_runs"):
        log("[V] %d protocol runs did not finish their final observation" % summ["bad_runs"])
    vb = validate("Trace_ClusterElect", "Trace_ClusterElect.cfg", trace, "clusterelect_" + pid)
    for viol in vb["violations"]:
        meta = json.loads(viol["run"][0]).get("meta", {})
        ev = viol.get("lenient_event") or viol.get("strict_event") or "{}"
        try:
            j = json.loads(ev)
            lab = "%s(%s %s)" % (j.get("a", "?"), j.get("node", ""), j.get("c", ""))
        except Exception:
            lab = "?"
        sig = "clusterelect kind=%s first-unexplained=%s dials=%s" % (meta.get("kind"), lab, json.dumps(meta.get("dials")))
        v.violation(sig, {"family": "clusterelect", "meta": meta, "trace": [json.loads(x) for x in viol["run"]],
                          "first_unexplained": viol.get("lenient_event_index"), "event": ev})
    if vb["deviations"]:
        witness = find_deviation_runs(trace)
        for name, n in vb["deviations"].items():
            if DEV_OWNER.get(name) == pid:
                wr = witness.get(name, {})
                if wr:
                    wp = vlib.write_replay(pid, {"property": pid, "signature": "deviation=" + name, "family": "clusterelect",
                                                 "meta": wr["meta"], "trace": wr["trace"]})
                    log("[V] deviation %s in %d runs; witness (re-executable with --replay): %s" % (name, n, wp))
                v.deviation(name, n, {"deviation": name, "runs": n, "family": "clusterelect", "meta": wr.get("meta", {}),
                                      "trace": wr.get("trace", []), "replay_cmd": "./check %s --replay <this file>" % pid})
    cov = {
        "states": sum(m["states"] for m in mcs),
        "transitions": sum(m["transitions"] for m in mcs),
        "traces_validated_against_impl": vb["strict_accepted"] + len(vb["divergences"]),
        "samples": summ.get("samples", [])[:3],
        "evaluations": summ["runs"],
        "distinct_nontrivial": summ["distinct_nontrivial"],
        "rule": "evaluations = runs of the batch: (a) blocks of direct elect_sessions calls (fn_sets candidate sets, each called in every "
                "order of the vector: fn_calls calls; one event per set plus one per order whose result differs), (b) table_runs op "
                "sequences on the real NodeServerState with all verdicts queried after every step, (c) proto_runs executions of two "
                "real node servers with 2-3 connections (bounded DFS over poll orders with one preemption for the 2-connection "
                "scenarios, capped; random scenarios incl. outsiders under seeded random schedules). distinct_nontrivial = distinct "
                "protocol-run event sequences with at least one preemption",
        "fn_sets": summ["fn_sets"], "fn_calls": summ["fn_calls"], "table_runs": summ["table_runs"], "proto_runs": summ["proto_runs"],
        "proto_steps": summ["proto_steps"],
        "events_validated": vb["events"],
        "strict_accepted_runs": vb["strict_accepted"],
        "divergences": len(vb["divergences"]),
        "rejected_runs": len(vb["violations"]),
        "deviation_runs": vb["deviations"],
        "tlc_trace_states": vb["tlc_states"],
        "mc_configs": [{"cfg": m["cfg"], "states": m["states"], "transitions": m["transitions"], "wall_s": m["wall_s"]} for m in mcs],
        "vacuity_configs": [{"cfg": m["cfg"], "violated_as_expected": m["violated"]} for m in vac],
        "mc_actions_covered": sorted(covered),
        "exhaustive": False,
    }
    vlib.write_evidence(pid, tier, seed, cov, ASSUME, time.time() - t0, len(v.violations))
    return v.finish()


def replay(pid, path):
    rp = json.load(open(path))
    w = vlib.workdir("replay_" + pid)
    out = os.path.join(w, "replay.ndjson")
    meta = rp.get("meta", {})
    if meta.get("kind") == "proto" and meta.get("dials") is not None:
        # re-execute the recorded schedule on the real code, then validate what it produced
        vlib.build_harness()
        vlib.harness(["clusterelect-replay", "--out", out, "--dials", json.dumps(meta["dials"]), "--sched", json.dumps(meta.get("sched", []))])
    else:
        with open(out, "w") as f:
            for e in rp["trace"]:
                f.write(json.dumps(e) + "\n")
    vb = vlib.validate_batch("Trace_ClusterElect", "Trace_ClusterElect.cfg", out, "replay_" + pid)
    if vb["violations"]:
        log("rejected at: %s" % (vb["violations"][0].get("lenient_event") or vb["violations"][0].get("strict_event")))
        log("VIOLATION property=%s replay=%s" % (pid, path))
        return 1
    if vb["deviations"]:
        log("accepted with deviations %s" % vb["deviations"])
    log("replay accepted by the specification (strict=%d, divergences=%d)" % (vb["strict_accepted"], len(vb["divergences"])))
    return 0
