// send_interval armed on an instant-spawned actor: does it ever tick?
use ractor::concurrency::Duration;
use ractor::{Actor, ActorProcessingErr, ActorRef};
use std::sync::atomic::{AtomicU32, Ordering};
use std::sync::Arc;

struct A(Arc<AtomicU32>);
impl Actor for A {
    type Msg = ();
    type State = ();
    type Arguments = ();
    async fn pre_start(&self, _: ActorRef<()>, _: ()) -> Result<(), ActorProcessingErr> {
        Ok(())
    }
    async fn handle(&self, _: ActorRef<()>, _: (), _: &mut ()) -> Result<(), ActorProcessingErr> {
        self.0.fetch_add(1, Ordering::SeqCst);
        Ok(())
    }
}

#[tokio::main(flavor = "multi_thread", worker_threads = 2)]
async fn main() {
    let mut dead = 0;
    let n = 200;
    for _ in 0..n {
        let ticks = Arc::new(AtomicU32::new(0));
        let t2 = ticks.clone();
        // run on a worker thread, like code inside another actor's handler would
        let r = tokio::spawn(async move {
            let (actor, start) = ractor::ActorRuntime::<A>::spawn_instant(None, A(t2), ()).expect("instant");
            let status_at_arm = actor.get_status();
            let interval = actor.send_interval(Duration::from_millis(2), || ());
            let _ = start.await;
            let after = actor.send_after(Duration::from_millis(2), || ());
            tokio::time::sleep(Duration::from_millis(30)).await;
            let fin = interval.is_finished();
            let after_ok = after.await.map(|r| r.is_ok()).unwrap_or(false);
            let st = actor.get_status();
            actor.stop(None);
            (status_at_arm, fin, after_ok, st)
        })
        .await
        .unwrap();
        let got = ticks.load(Ordering::SeqCst);
        if r.1 {
            dead += 1;
            if dead == 1 {
                println!("status when armed = {:?}; 30 ms later: interval task finished = {}, actor status = {:?}, messages handled = {} (send_after delivered: {})", r.0, r.1, r.3, got, r.2);
            }
        }
    }
    println!("{dead} of {n} intervals armed right after spawn_instant ended before their first tick");
}
