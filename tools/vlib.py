"""Shared machinery for the ractor verification checks: harness build/run, TLC model checking,
TLC trace validation (strict, then lenient on rejection), verdicts, evidence files."""
import hashlib
import json
import os
import re
import shutil
import subprocess
import sys
import time

ROOT = os.path.dirname(os.path.dirname(os.path.abspath(__file__)))
SPEC = os.path.join(ROOT, "spec")
HARNESS = os.path.join(ROOT, "harness")
WORK = os.path.join(ROOT, "work")
EVID = os.path.join(ROOT, "evidence")
REPLAYS = os.path.join(ROOT, "replays")
FINDINGS = os.path.join(ROOT, "known_findings.json")

TOOL_ERROR = 2


class ToolError(Exception):
    pass


def log(*a):
    print(*a, flush=True)


def sh(cmd, env=None, timeout=None, cwd=None):
    e = dict(os.environ)
    if env:
        e.update(env)
    try:
        p = subprocess.run(cmd, shell=isinstance(cmd, str), env=e, cwd=cwd, timeout=timeout,
                           stdout=subprocess.PIPE, stderr=subprocess.STDOUT, text=True, errors="replace")
        return p.returncode, p.stdout
    except subprocess.TimeoutExpired as ex:
        out = ex.stdout if isinstance(ex.stdout, str) else (ex.stdout or b"").decode("utf8", "replace")
        return 124, out


def workdir(name):
    d = os.path.join(WORK, name)
    shutil.rmtree(d, ignore_errors=True)
    os.makedirs(d, exist_ok=True)
    return d


# ---------------------------------------------------------------------------------------------
# harness
# ---------------------------------------------------------------------------------------------
_built = {}


def build_harness(features=""):
    """cargo build of the harness against /repo's working tree (hooks on). Exit 2 on failure."""
    key = features
    if key in _built:
        return _built[key]
    tdir = "target" if not features else "target-" + features.replace(",", "_")
    cmd = ["cargo", "build", "--offline", "--target-dir", tdir]
    if features:
        cmd += ["--features", features]
    t0 = time.time()
    rc, out = sh(cmd, cwd=HARNESS, env={"CARGO_NET_OFFLINE": "true"}, timeout=1800)
    if rc != 0:
        log(out[-6000:])
        raise ToolError("harness build failed (features=%r)" % features)
    binp = os.path.join(HARNESS, tdir, "debug", "rverif")
    _built[key] = binp
    log("[build] harness %s ok in %.1fs" % (features or "default", time.time() - t0))
    return binp


def harness(args, features="", timeout=3600):
    binp = build_harness(features)
    rc, out = sh([binp] + [str(a) for a in args], timeout=timeout)
    if rc != 0:
        log(out[-4000:])
        raise ToolError("harness %s exited %s" % (args[:1], rc))
    last = [l for l in out.splitlines() if l.startswith("{")]
    if not last:
        raise ToolError("harness printed no summary: " + out[-500:])
    return json.loads(last[-1])


# ---------------------------------------------------------------------------------------------
# TLC
# ---------------------------------------------------------------------------------------------
def tlc_mc(module, cfg, workers=12, timeout=1800, name=None, simulate=None, extra=None, partial_ok=False):
    """Model-check spec/<module>.tla with spec/<cfg>. Returns dict with states, transitions,
    violated invariant (or None), per-action coverage and the raw tail."""
    name = name or cfg.replace(".cfg", "")
    md = workdir("mc_" + name)
    cmd = ["tlc", "-workers", str(workers), "-coverage", "1", "-metadir", md, "-cleanup", "-noGenerateSpecTE",
           "-config", os.path.join(SPEC, cfg)]
    if simulate:
        cmd += ["-simulate", simulate]
    cmd += (extra or [])
    cmd += [os.path.join(SPEC, module + ".tla")]
    t0 = time.time()
    rc, out = sh(cmd, timeout=timeout, cwd=md, env={"JAVA_TOOL_OPTIONS": "-Xss64m"})
    res = {"module": module, "cfg": cfg, "rc": rc, "wall_s": round(time.time() - t0, 1), "violated": None,
           "states": 0, "transitions": 0, "coverage": {}, "timeout": rc == 124}
    m = re.search(r"(\d+) states generated, (\d+) distinct states found", out)
    if m:
        res["transitions"] = int(m.group(1))
        res["states"] = int(m.group(2))
    res["complete"] = rc == 0 or bool(m)
    if rc == 124 and partial_ok and not m:
        # time-boxed exploration: breadth-first up to wherever the time limit cut it; no invariant was violated in
        # what was visited (TLC stops at the first violation), reported as incomplete
        pm = re.findall(r"Progress\((\d+)\)[^\n]*?: ([\d,]+) states generated[^\n]*?, ([\d,]+) distinct states found", out)
        if pm:
            res["depth"] = int(pm[-1][0])
            res["transitions"] = int(pm[-1][1].replace(",", ""))
            res["states"] = int(pm[-1][2].replace(",", ""))
    m = re.search(r"Invariant (\S+) is violated", out)
    if m:
        res["violated"] = m.group(1)
    m = re.search(r"Temporal properties were violated", out)
    if m:
        res["violated"] = "temporal"
    if "Error:" in out and res["violated"] is None and rc not in (0, 124):
        res["error"] = out[out.find("Error:"):][:1500]
    for m in re.finditer(r"^<(\w+) line \d+, col \d+ to line \d+, col \d+ of module (\w+)>: (\d+):(\d+)", out, re.M):
        res["coverage"][m.group(1)] = res["coverage"].get(m.group(1), 0) + int(m.group(4))
    res["tail"] = out[-3000:]
    shutil.rmtree(md, ignore_errors=True)
    return res


def mc_or_die(module, cfg, expect_actions=None, **kw):
    """Run M; tool error unless it completed. Returns result (res['violated'] may be set)."""
    r = tlc_mc(module, cfg, **kw)
    if r.get("error") or (r["states"] == 0 and not r["violated"]):
        log(r["tail"])
        raise ToolError("TLC failed on %s/%s" % (module, cfg))
    zero = [a for a, c in r["coverage"].items() if c == 0 and (expect_actions is None or a in expect_actions)]
    if not r.get("complete", True):
        zero = []       # a time-boxed breadth-first run has not reached the deep actions; vacuity is judged on the complete configs
    r["zero_actions"] = zero
    log("[M] %s %s: %d distinct states%s, %d transitions, %.0fs, violated=%s%s" % (
        module, cfg, r["states"], "" if r.get("complete", True) else " (time-boxed, incomplete, depth %s)" % r.get("depth"),
        r["transitions"], r["wall_s"], r["violated"],
        (" ZERO-COVERAGE " + ",".join(zero)) if zero else ""))
    return r


def tlc_trace(module, cfg, trace, strict, timeout=3600, name=None, mem="4g", early=None):
    """Validate an ndjson trace against spec/<module>.tla. Returns dict(accepted, rejected_at, states)."""
    name = name or (module + ("_s" if strict else "_l"))
    md = workdir("tv_" + name)
    cmd = ["tlc", "-workers", "1", "-metadir", md, "-cleanup", "-noGenerateSpecTE", "-config",
           os.path.join(SPEC, cfg), os.path.join(SPEC, module + ".tla")]
    # early: stop at the first behaviour that explains the whole trace (lenient mode: the rest of the state space only
    # holds other explanations of the same trace); a rejected trace is still explored exhaustively
    if early is None:
        early = not strict
    env = {"TRACE": trace, "STRICT": "1" if strict else "0", "EARLY": "1" if early else "0",
           "JAVA_TOOL_OPTIONS": "-Xss1g -Xmx%s -Dtlc2.tool.queue.IStateQueue=StateDeque" % mem}
    t0 = time.time()
    rc, out = sh(cmd, timeout=timeout, cwd=md, env=env)
    res = {"rc": rc, "wall_s": round(time.time() - t0, 1), "accepted": False, "rejected_at": None, "states": 0,
           "invariant": None, "timeout": rc == 124, "deviations": {}}
    for m in re.finditer(r'"DEVIATION",\s*\{([^}]*)\}', out):
        for nm in re.findall(r'"([^"]+)"', m.group(1)):
            res["deviations"][nm] = res["deviations"].get(nm, 0) + 1
    m = re.search(r"(\d+) states generated, (\d+) distinct states found", out)
    if m:
        res["states"] = int(m.group(2))
    m = re.search(r'"REJECTED_AT",\s*(\d+)', out)
    if m:
        res["rejected_at"] = int(m.group(1))
    m = re.search(r"Invariant (\S+) is violated", out)
    if m:
        res["invariant"] = m.group(1)
    if "Model checking completed. No error has been found." in out or ('"ACCEPTED_EARLY"' in out and res["rejected_at"] is None and res["invariant"] is None):
        res["accepted"] = True
    elif res["rejected_at"] is None and res["invariant"] is None:
        res["error"] = out[-3000:]
    res["tail"] = out[-2500:]
    shutil.rmtree(md, ignore_errors=True)
    return res


def split_runs(trace):
    """Yield (start_line_index, end_line_index_exclusive) of each run in an ndjson batch."""
    starts = []
    with open(trace) as f:
        for i, line in enumerate(f):
            if line.startswith('{"a":"reset"'):
                starts.append(i)
    n = i + 1
    return [(s, (starts[j + 1] if j + 1 < len(starts) else n)) for j, s in enumerate(starts)]


def validate_batch(module, cfg, trace, label, max_violations=6, strict_budget=6, timeout=3600, lenient=True, max_divergences=None, start_lenient=False, lenient_chunk=250):
    """Strict validation of a whole batch in one JVM. Every rejected run is cut out and validated
    leniently on its own (violation if lenient rejects too, divergence otherwise) and the remainder
    is validated again. After `strict_budget` strict rejections the remainder is validated in
    lenient mode (still one JVM per pass), so that a change which makes every run diverge from the
    implementation-shaped model still gets all of its runs judged on their observations.
    Returns counts, violations, divergences and the deviations the spec reported."""
    lines = open(trace).read().splitlines()
    runs = []
    cur = None
    for ln in lines:
        if ln.startswith('{"a":"reset"'):
            cur = [ln]
            runs.append(cur)
        elif cur is not None:
            cur.append(ln)
    # runs the harness itself flagged (a waiter left stuck, a state that never settled, ...) are validated first: a
    # rejected run makes TLC exhaust everything before it in the same pass, so suspects belong at the front. The flag
    # only orders the work; the specification still decides every run.
    def _flagged(r):
        head = r[0]
        return '"unsettled":true' in head or '"suspect":true' in head or '"stuck":true' in head
    runs = [r for r in runs if _flagged(r)] + [r for r in runs if not _flagged(r)]
    total_runs = len(runs)
    res = {"runs": total_runs, "events": len(lines) - total_runs, "strict_accepted": 0, "lenient_accepted": 0,
           "divergences": [], "violations": [], "tlc_states": 0, "wall_s": 0.0, "deviations": {}, "unvalidated": 0}
    work = os.path.join(WORK, "vb_" + label)
    os.makedirs(work, exist_ok=True)
    remaining = runs
    strict_mode = not start_lenient
    strict_rejections = 0
    later = []
    while remaining or later:
        if not remaining:
            remaining, later = later, []
        if not strict_mode and len(remaining) > lenient_chunk:
            # lenient search takes silent steps: keep behaviours well below TLC's 65535-state limit
            later = remaining[lenient_chunk:] + later
            remaining = remaining[:lenient_chunk]
        f = os.path.join(work, "rem.ndjson")
        with open(f, "w") as o:
            for r in remaining:
                o.write("\n".join(r) + "\n")
        tv = tlc_trace(module, cfg, f, strict_mode, timeout=timeout, name=label + ("_s" if strict_mode else "_lb"))
        res["wall_s"] += tv["wall_s"]
        res["tlc_states"] += tv["states"]
        if tv.get("error") or tv["timeout"]:
            log(tv.get("error", "timeout"))
            raise ToolError("TLC trace validation failed to run (%s)" % label)
        if tv["accepted"]:
            for k, n in tv["deviations"].items():
                res["deviations"][k] = res["deviations"].get(k, 0) + n
            res["strict_accepted" if strict_mode else "lenient_accepted"] += len(remaining)
            remaining = []
            continue
        at = tv["rejected_at"]
        if at is None:
            raise ToolError("invariant %s violated during trace validation of %s (spec bug?)\n%s" % (tv["invariant"], label, tv["tail"]))
        pos = 0
        bad_i = None
        for i, r in enumerate(remaining):
            if pos < at <= pos + len(r):
                bad_i = i
                break
            pos += len(r)
        if bad_i is None:
            raise ToolError("cannot locate rejected line %s" % at)
        bad = remaining[bad_i]
        ev_idx = at - pos - 1
        # deviations printed for the accepted prefix of this pass (one DEVIATION line per run end)
        for k, n in tv["deviations"].items():
            res["deviations"][k] = res["deviations"].get(k, 0) + n
        res["strict_accepted" if strict_mode else "lenient_accepted"] += bad_i
        entry = {"run": bad, "strict_event_index": ev_idx if strict_mode else None,
                 "strict_event": (bad[ev_idx] if ev_idx < len(bad) else None) if strict_mode else None,
                 "lenient_event_index": None}
        verdict = "violation"
        if strict_mode:
            strict_rejections += 1
            if lenient:
                bf = os.path.join(work, "bad.ndjson")
                with open(bf, "w") as o:
                    o.write("\n".join(bad) + "\n")
                lv = tlc_trace(module, cfg, bf, False, timeout=timeout, name=label + "_l")
                res["wall_s"] += lv["wall_s"]
                if lv.get("error") or lv["timeout"]:
                    log(lv.get("error", "timeout"))
                    raise ToolError("TLC lenient validation failed to run (%s)" % label)
                if lv["accepted"]:
                    verdict = "divergence"
                    for k, n in lv["deviations"].items():
                        res["deviations"][k] = res["deviations"].get(k, 0) + n
                elif lv["rejected_at"]:
                    entry["lenient_event_index"] = lv["rejected_at"] - 1
        else:
            entry["lenient_event_index"] = ev_idx
        if verdict == "divergence":
            res["divergences"].append(entry)
            log("[V] DIVERGENCE (%s): strict rejects at %s, lenient accepts" % (label, entry["strict_event"]))
        else:
            li = entry["lenient_event_index"]
            if li is not None and li < len(bad):
                entry["lenient_event"] = bad[li]
            res["violations"].append(entry)
            log("[V] REJECTED (%s): %s" % (label, entry.get("lenient_event") or entry["strict_event"]))
        remaining = remaining[bad_i + 1:]
        if len(res["violations"]) >= max_violations:
            res["unvalidated"] = len(remaining) + len(later)
            log("[V] %d violations found; %d runs of %s left unvalidated" % (len(res["violations"]), len(remaining), label))
            break
        if strict_mode and strict_rejections >= strict_budget and lenient:
            log("[V] %d strict rejections: validating the remaining %d runs of %s on observations only" % (strict_rejections, len(remaining), label))
            strict_mode = False
    shutil.rmtree(work, ignore_errors=True)
    return res


# ---------------------------------------------------------------------------------------------
# findings, replays, evidence, verdicts
# ---------------------------------------------------------------------------------------------
def load_findings():
    if not os.path.exists(FINDINGS):
        return {"known": [], "fixed": []}
    return json.load(open(FINDINGS))


def write_replay(pid, payload):
    os.makedirs(REPLAYS, exist_ok=True)
    blob = json.dumps(payload, sort_keys=True)
    h = hashlib.sha1(blob.encode()).hexdigest()[:12]
    p = os.path.join(REPLAYS, "%s-%s.json" % (pid, h))
    with open(p, "w") as f:
        f.write(json.dumps(payload, indent=1))
    return p


def write_evidence(pid, tier, seed, coverage, assumptions, wall, violations, level="model_checking"):
    os.makedirs(EVID, exist_ok=True)
    ev = {"property_id": pid, "tier": tier, "seed": int(seed), "level": level, "coverage": coverage,
          "assumptions": assumptions, "wall_s": round(wall, 1), "violations": int(violations)}
    with open(os.path.join(EVID, pid + ".json"), "w") as f:
        json.dump(ev, f, indent=1)
    return ev


class Verdict:
    """Collects violations for one check invocation and produces the exit code."""

    def __init__(self, pid):
        self.pid = pid
        self.violations = []
        self.known = []
        self.findings = [f for f in load_findings().get("known", []) if f.get("property") == pid]

    def deviation(self, name, count, payload=None):
        """A named deviation action (spec Dev_/flag) was needed to explain `count` runs."""
        self.violation("deviation=%s" % name, payload or {"deviation": name, "runs": count})

    def violation(self, signature, payload):
        """signature: short string identifying what failed (scenario + observation)."""
        if signature in [s for s, _ in self.violations]:
            return
        for f in self.findings:
            if re.search(f["signature"], signature):
                if f["id"] not in [k["id"] for k in self.known]:
                    self.known.append(f)
                return
        path = write_replay(self.pid, dict(payload, property=self.pid, signature=signature))
        self.violations.append((signature, path))

    def finish(self):
        for f in self.known:
            log("KNOWN-FINDING: property=%s %s" % (self.pid, f["what"]))
        for sig, path in self.violations:
            log("VIOLATION property=%s replay=%s" % (self.pid, path))
            log("  signature: %s" % sig)
        return 1 if self.violations else 0
