"""C11: the Pg specification (forward map, scope index, world listeners, reverse relations, exit path)."""
import json
import os
import time

import vlib
from vlib import log

PROPS = ["C11"]

ASSUME = [
    "free-running runs (pg-free): interleavings inside one entry region are reached by chance on real threads, not enumerated; only "
    "call / return lines and the final snapshot are validated",
    "sequential consistency at the granularity of lock regions; inside one map/world entry region only relation-mutex steps "
    "of other threads are interleaved (the join region is split per actor in the model, other regions are atomic)",
    "two keys never block each other (DashMap shard sharing only removes interleavings); deadlock freedom of the lock order is "
    "argued in pg.rs, not checked here",
    "the exit sequence is driven as set_status(Stopping); set_status(Stopped) on a detached cell (no actor task, no post_stop)",
    "supervision ports keep accepting after the monitor stopped (detached cells keep their ports until the end of the run)",
    "notification order on one port is not constrained (the property speaks of delivery, the model keeps a bag per monitor)",
    "group listeners are those copied inside the region that changes the membership (the linearisation point); scope and "
    "all-scopes listeners are those found when notify_world_listeners reads them, later in the same call: for them 'at that "
    "time' is read at call granularity (a monitor_scope/demonitor_scope overlapping the call may or may not be told)",
]

MC_CFGS = ["MC_Pg_exit.cfg", "MC_Pg_mon.cfg", "MC_Pg_world.cfg", "MC_Pg_twokeys.cfg", "MC_Pg_stale.cfg"]
# deviations named in the specification that belong to this property
# StaleReverseMonitor (a demonitor racing with the first monitor leaves a stale key in the actor's reverse
# relation) is an internal bookkeeping leak that no public API shows and that the exit cleanup tolerates: C11 does not
# speak about it, so the specification ALLOWS it (named action, counted in evidence) and it is neither a violation
# nor a known finding. See DESIGN.md §6.
DEVIATIONS = {}


def _signature(viol):
    meta = json.loads(viol["run"][0]).get("meta", {})
    ev = viol.get("lenient_event") or viol.get("strict_event") or "{}"
    try:
        lab = json.loads(ev).get("a", "?")
    except Exception:
        lab = "?"
    return meta, ev, "pg %s first-unexplained=%s" % (meta.get("shape"), lab)


def _split(trace):
    runs, cur = [], None
    for ln in open(trace).read().splitlines():
        if ln.startswith('{"a":"reset"'):
            cur = [ln]
            runs.append(cur)
        elif cur is not None:
            cur.append(ln)
    return runs


def _suspicious(run):
    """Triage only (never a verdict): does the end-of-run observation look wrong on its face?
    A stopped actor still present somewhere, scope index != forward map, a leak after the run."""
    try:
        end = json.loads(run[-2])
        leak = json.loads(run[-1])
        if leak.get("a") != "obs.leak" or leak.get("d") != 0:
            return True
        snap, st = end["snap"], end["st"]
        dead = {a for a, v in st.items() if v >= 5}
        for e in snap["map"]:
            if dead & (set(e["mem"]) | set(e["ls"])):
                return True
        for e in snap["world"]:
            if dead & set(e["ls"]):
                return True
        if dead & {e["a"] for e in snap["rel"]}:
            return True
        fwd = {(e["sc"], e["gr"]) for e in snap["map"] if e["mem"]}
        idx = {(e["sc"], g) for e in snap["index"] for g in e["gs"]}
        if fwd != idx or any(not e["gs"] for e in snap["index"]):
            return True
        for q in end.get("q", []):
            mem = [e["mem"] for e in snap["map"] if (e["sc"], e["gr"]) == (q["sc"], q["gr"])]
            if sorted(q["mem"]) != sorted(mem[0] if mem else []):
                return True
    except Exception:
        return True
    return False


def _triage(trace, label, v, pid, limit=14):
    """validate_batch gives up after a few strictly-rejected runs. When every one of those was
    explained leniently (a change that reorders internal steps makes EVERY run diverge), look at the
    runs whose final observation is suspicious, plus a sample with per-step snapshots, leniently."""
    runs = _split(trace)
    sus = [r for r in runs if _suspicious(r)][:limit]
    rest = [r for r in runs if '"a":"obs.snap"' in "".join(r[1:4]) and r not in sus]
    step = max(1, len(rest) // limit)
    pick = sus + rest[::step][:limit]
    log("[V] triage: %d suspicious final observations, validating %d runs leniently" % (len(sus), len(pick)))
    w = vlib.workdir("triage_" + label)
    found = 0
    while pick and found < 3:
        f = os.path.join(w, "pick.ndjson")
        with open(f, "w") as o:
            for r in pick:
                o.write("\n".join(r) + "\n")
        lv = vlib.tlc_trace("Trace_Pg", "Trace_Pg.cfg", f, False, timeout=1200, name="triage_" + label)
        if lv.get("error") or lv["timeout"]:
            log(lv.get("error", "timeout"))
            raise vlib.ToolError("TLC lenient validation failed to run (triage %s)" % label)
        if lv["accepted"]:
            break
        at, pos, bad_i = lv["rejected_at"], 0, None
        for i, r in enumerate(pick):
            if pos < at <= pos + len(r):
                bad_i = i
                break
            pos += len(r)
        if bad_i is None:
            raise vlib.ToolError("cannot locate rejected line %s (triage)" % at)
        bad = pick[bad_i]
        viol = {"run": bad, "lenient_event_index": at - pos - 1, "lenient_event": bad[at - pos - 1]}
        log("[V] REJECTED (%s, triage): %s" % (label, viol["lenient_event"][:300]))
        meta, ev, sig = _signature(viol)
        v.violation(sig, {"family": "pg", "meta": meta, "trace": [json.loads(x) for x in bad],
                          "first_unexplained": viol["lenient_event_index"], "event": ev,
                          "replay_cmd": "./check %s --replay <this file>" % pid})
        found += 1
        pick = pick[bad_i + 1:]
    return found


def run(pid, tier, seed):
    t0 = time.time()
    v = vlib.Verdict(pid)
    # M: design check, one small scenario per configuration
    mcs = [vlib.mc_or_die("MC_Pg", cfg, workers=4, timeout=900, expect_actions=[]) for cfg in MC_CFGS]
    if tier == "thorough":
        mcs.append(vlib.mc_or_die("MC_Pg", "MC_Pg_big.cfg", workers=4, timeout=2400, expect_actions=[]))
    for m in mcs:
        if m["violated"]:
            log(m["tail"])
            raise vlib.ToolError("specification %s violates %s: fix the model" % (m["cfg"], m["violated"]))
    cov_union = {}
    for m in mcs:
        for a, c in m["coverage"].items():
            cov_union[a] = cov_union.get(a, 0) + c
    zero = sorted(a for a, c in cov_union.items() if c == 0)
    if zero:
        raise vlib.ToolError("vacuity: actions never taken in any Pg configuration: %s" % zero)
    # vacuity companions: the zombie must appear without the in-lock status check, quiescence and
    # the stale-reverse-entry situation must be reachable
    neg = [("MC_Pg_neg_nolock.cfg", "NoZombie"), ("MC_Pg_neg_stale.cfg", "NeverStale"), ("MC_Pg_neg_done.cfg", "NeverAllDone")]
    for cfg, want in neg:
        r = vlib.mc_or_die("MC_Pg", cfg, workers=4, timeout=600, expect_actions=[])
        if not r["violated"] or (want and r["violated"] != want):
            raise vlib.ToolError("vacuity: %s should violate %s, got %s" % (cfg, want or "a reachability invariant", r["violated"]))
    # V: implementation traces under enumerated / random schedules
    batches = [(1, seed)] if tier != "thorough" else [(2, seed * 1000 + i) for i in range(6)]
    tot = {"runs": 0, "events": 0, "nontrivial": 0, "strict": 0, "len": 0, "div": 0, "rej": 0, "tlc_states": 0, "bad": 0}
    samples = []
    devs = {}
    for bi, (scale, bseed) in enumerate(batches):
        w = vlib.workdir("pg_%s_%d" % (pid, bi))
        trace = os.path.join(w, "batch.ndjson")
        summ = vlib.harness(["pg", "--out", trace, "--tier", tier, "--scale", scale, "--seed", bseed])
        if summ.get("bad_runs"):
            log("[V] %d runs ended with a stuck or overrunning thread" % summ["bad_runs"])
        maxdiv = 8
        vb = vlib.validate_batch("Trace_Pg", "Trace_Pg.cfg", trace, "pg_%s_%d" % (pid, bi), max_divergences=maxdiv)
        log("[V] batch %d: %d runs, %d events, strict-accepted %d, divergences %d, rejected %d, deviations %s" % (
            bi, summ["runs"], vb["events"], vb["strict_accepted"], len(vb["divergences"]), len(vb["violations"]), vb["deviations"]))
        for viol in vb["violations"]:
            meta, ev, sig = _signature(viol)
            v.violation(sig, {"family": "pg", "meta": meta, "trace": [json.loads(x) for x in viol["run"]],
                              "first_unexplained": viol.get("lenient_event_index"), "event": ev,
                              "replay_cmd": "./check %s --replay <this file>" % pid})
        if not vb["violations"] and len(vb["divergences"]) >= maxdiv:
            tot["rej"] += _triage(trace, "pg_%s_%d" % (pid, bi), v, pid)
        for name, n in vb["deviations"].items():
            devs[name] = devs.get(name, 0) + n
        tot["runs"] += summ["runs"]
        tot["events"] += vb["events"]
        tot["nontrivial"] += summ["distinct_nontrivial"]
        tot["strict"] += vb["strict_accepted"]
        tot["len"] += vb.get("lenient_accepted", 0)
        tot["div"] += len(vb["divergences"])
        tot["rej"] += len(vb["violations"])
        tot["tlc_states"] += vb["tlc_states"]
        tot["bad"] += summ.get("bad_runs", 0)
        samples = samples or summ.get("samples", [])[:3]
    # V2: join / leave / monitor calls free running (real threads, no scheduler): reaches windows inside the index
    # helpers, each of which is one entry region for the hooks; call / return lines and the final snapshot only
    wf = vlib.workdir("pg_%s_free" % pid)
    tracef = os.path.join(wf, "batch_free.ndjson")
    summf = vlib.harness(["pg-free", "--out", tracef, "--tier", tier, "--seed", seed])
    vbf = vlib.validate_batch("Trace_Pg", "Trace_Pg.cfg", tracef, "pg_%s_free" % pid, start_lenient=True)
    log("[V] pg-free: %d runs, %d events: %d accepted on their observations, %d rejected, %d not validated" % (
        summf["runs"], vbf["events"], vbf["lenient_accepted"], len(vbf["violations"]), vbf["unvalidated"]))
    for viol in vbf["violations"]:
        meta, ev, sig = _signature(viol)
        v.violation("free-running " + sig, {"family": "pg-free", "meta": meta, "trace": [json.loads(x) for x in viol["run"]],
                                             "first_unexplained": viol.get("lenient_event_index"), "event": ev})
    tot["rej"] += len(vbf["violations"])
    for name, n in devs.items():
        if DEVIATIONS.get(name) == pid:
            v.deviation(name, n)
    cov = {
        "states": sum(m["states"] for m in mcs),
        "transitions": sum(m["transitions"] for m in mcs),
        "traces_validated_against_impl": tot["strict"] + tot["len"] + tot["div"],
        "lenient_only_accepted_runs": tot["len"],
        "samples": samples,
        "evaluations": tot["runs"] + summf["runs"],
        "free_running_runs": summf["runs"],
        "free_running_accepted": vbf["lenient_accepted"],
        "free_running_unvalidated": vbf["unvalidated"],
        "distinct_nontrivial": tot["nontrivial"],
        "rule": "one evaluation = one schedule of 3-4 threads x <= 2 public pg calls (join/leave/monitor/monitor_scope/"
                "demonitor*/the exit sequence/the six queries) on 3 detached cells (one with a remote-looking id), "
                "2 scopes x 2 groups with fresh names per run; 7 hand-written scenarios under DFS with preemption bound 1 "
                "and 2 (capped) plus seeded random schedules, and seeded random scenarios under random schedules; a "
                "snapshot of the four indexes is compared with the specification state at the end of every run (after "
                "every step in a third of the random runs), the six query functions whenever a scenario calls them; "
                "distinct = distinct event-sequence hash; non-trivial = contains at least one preemption",
        "events_validated": tot["events"],
        "strict_accepted_runs": tot["strict"],
        "divergences": tot["div"],
        "rejected_runs": tot["rej"],
        "deviation_runs": devs,
        "bad_runs": tot["bad"],
        "tlc_trace_states": tot["tlc_states"],
        "mc_configs": [{"cfg": m["cfg"], "states": m["states"], "transitions": m["transitions"], "wall_s": m["wall_s"],
                        "actions_covered": len([a for a, c in m["coverage"].items() if c > 0])} for m in mcs],
        "mc_actions_covered_union": len([a for a, c in cov_union.items() if c > 0]),
        "bounds": "M: 3 actors, 2 scopes x 2 groups, 3-4 threads x <= 2 calls, five scenarios (exit vs join with duplicates "
                  "and a repeated join; monitor that unregisters and exits; scope/world monitors; two keys with a racing "
                  "leave; demonitor racing with the first monitor + an already stopped actor; thorough adds a 4-thread "
                  "scenario with two exiting actors); V: same sizes",
        "exhaustive": False,
    }
    vlib.write_evidence(pid, tier, seed, cov, ASSUME, time.time() - t0, len(v.violations))
    return v.finish()


def replay(pid, path):
    rp = json.load(open(path))
    w = vlib.workdir("replay_" + pid)
    out = os.path.join(w, "replay.ndjson")
    meta = rp["meta"]
    if rp.get("family") == "pg-free" or meta.get("family") == "pg-free":
        # a free-running run has no schedule to re-execute: the recorded observations are validated again
        with open(out, "w") as f:
            for e in rp["trace"]:
                f.write(json.dumps(e, separators=(",", ":")) + "\n")
        vb = vlib.validate_batch("Trace_Pg", "Trace_Pg.cfg", out, "replay_" + pid, start_lenient=True)
        if vb["violations"]:
            log("recorded free-running trace is rejected by the specification")
            log("VIOLATION property=%s replay=%s" % (pid, path))
            return 1
        log("recorded free-running trace accepted")
        return 0
    summ = vlib.harness(["pg-replay", "--shape-json", json.dumps(meta["shape_json"]), "--sched", json.dumps(meta["sched"]), "--out", out])
    if summ.get("runs") != 1:
        raise vlib.ToolError("cannot replay: %s" % summ)
    vb = vlib.validate_batch("Trace_Pg", "Trace_Pg.cfg", out, "replay_" + pid)
    if vb["violations"]:
        log("VIOLATION property=%s replay=%s" % (pid, path))
        return 1
    v = vlib.Verdict(pid)
    for name, n in vb["deviations"].items():
        if DEVIATIONS.get(name) == pid:
            v.deviation(name, n)
    log("replay explained by the specification (strict=%d, divergences=%d, deviations=%s)" % (
        vb["strict_accepted"], len(vb["divergences"]), vb["deviations"]))
    return v.finish()
