#!/bin/bash
# run every registered check (quick tier by default) on the current tree; one line per check
TIER=${1:-quick}
cd /verif
for f in manifest/C*.json; do
  p=$(basename $f .json)
  s=$(date +%s)
  timeout 3000 ./check $p --tier $TIER > /tmp/all_$p.log 2>&1; rc=$?
  e=$(( $(date +%s) - s ))
  echo "$p rc=$rc ${e}s div=$(grep -c DIVERGENCE /tmp/all_$p.log) known=$(grep -c KNOWN-FINDING /tmp/all_$p.log)"
done
