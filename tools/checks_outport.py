"""C16: the OutputPort specification (v1: broadcast ring with per-receiver cursor and Lagged
skipping, one forwarding task per subscription; v2: command log consumed by one fan-out task in
batches, subscriptions applied at their position) bound to ractor/src/port/output.rs through engine
T, in the default build and in the `output-port-v2` build of the harness (feature v2port)."""
import enginet

PROPS = ["C16"]

ASSUME = [
    "engine T serialises the runtime at poll granularity; the specification is written at message granularity (finer), so "
    "every poll-level behaviour is one of its behaviours",
    "tokio broadcast behaves as documented; its ring holds the requested capacity rounded up to a power of two (10 -> 16), "
    "which is the Cap the traces are validated against; a receiver that fell out of the ring resumes at the oldest kept value",
    "converters are harness closures that log every value handed to a subscription, so what a forwarding task / the fan-out "
    "task reads, and in which order, is an observation; out.lagged(n) and out.batch(n) are cfg-only points",
    "`send` is a synchronous function on an unbounded / overwriting channel: 'never suspends the publisher' is checked as "
    "'Publish is always enabled' in M and by publishing bursts inside one poll in V",
]

PKG = {
    "family": "outport",
    "mc_module": "MC_OutputPort",
    "mc": [
        ("MC_OutputPort_v1q.cfg", ("quick", "thorough"), {}),
        ("MC_OutputPort_v2q.cfg", ("quick", "thorough"), {}),
        ("MC_OutputPort_v1dupq.cfg", ("quick", "thorough"), {}),
        ("MC_OutputPort_v2dupq.cfg", ("quick", "thorough"), {}),
        ("MC_OutputPort_v1.cfg", ("thorough",), {"workers": 8, "timeout": 2400}),
        ("MC_OutputPort_v2.cfg", ("thorough",), {"workers": 8, "timeout": 2400}),
        ("MC_OutputPort_v1dup.cfg", ("thorough",), {"workers": 8, "timeout": 2400}),
        ("MC_OutputPort_v2dup.cfg", ("thorough",), {"workers": 8, "timeout": 2400}),
    ],
    # the default (v1) build and the output-port-v2 build, both in both tiers
    "builds": [("", ("quick", "thorough")), ("v2port", ("quick", "thorough"))],
    "trace_module": "Trace_OutputPort",
    "trace_cfg": "Trace_OutputPort.cfg",
    "assume": ASSUME,
    "rule": "one evaluation = one (scenario, schedule) execution on the gated tokio runtime, per harness build (default = v1, "
            "v2port = output-port-v2): 1-3 probe subscriber actors, up to 5 subscriptions (filters all / even / odd, the same actor "
            "subscribed twice, subscriptions before / between / racing with publication, subscribers already dead), 1-2 publisher "
            "tasks publishing bursts of 1-3 or 17-22 values inside one poll, stop / kill of subscribers and drop of the port at "
            "scripted points; micro-scenarios by DFS over poll orders (preemption bound 3, capped) plus random orders, random "
            "scenarios under seeded random schedules; distinct = distinct event-sequence hash; non-trivial = at least one preemption",
}


def run(pid, tier, seed):
    return enginet.run(PKG, pid, tier, seed)


def replay(pid, path):
    return enginet.replay(PKG, pid, path)
