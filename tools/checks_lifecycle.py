"""C01 / C03 / C04 / C08: the Lifecycle specification (callback automaton, port priority, exit
classification, failed starts) bound to the real actor runtime through engine T."""
import json
import os
import time

import vlib
from vlib import log

PROPS = ["C01", "C03", "C04", "C08"]

ASSUME = [
    "engine T serialises the runtime at poll granularity (one task poll = one step); interleavings inside a poll "
    "(two OS threads in synchronous code) are covered by the specification's free interleaving in M and by engine H "
    "for the mailbox / wait / tree paths, not by these traces",
    "tokio primitives behave as documented (biased select!, oneshot, unbounded mpsc, JoinHandle::abort drops the future at "
    "the next scheduling point)",
    "the scripted harness actors log their own callback entry/exit; ractor-internal events come from cfg(ractor_verif) points",
    "C03 is read at pick granularity: an item dequeued before stop() returned may still start its handler",
]

# deviations (named in the trace specification) that belong to a property
DEV_OWNER = {"KillCarriesState": "C04"}


def run(pid, tier, seed):
    t0 = time.time()
    v = vlib.Verdict(pid)
    mcs = [vlib.mc_or_die("MC_Lifecycle", "MC_Lifecycle_small.cfg", workers=12, timeout=900),
           vlib.mc_or_die("MC_Lifecycle", "MC_Lifecycle_self.cfg", workers=12, timeout=900),
           vlib.mc_or_die("MC_Lifecycle", "MC_Lifecycle_kids.cfg", workers=12, timeout=900)]
    if tier == "thorough":
        mcs.append(vlib.mc_or_die("MC_Lifecycle", "MC_Lifecycle_local.cfg", workers=14, timeout=3000))
        mcs.append(vlib.mc_or_die("MC_Lifecycle", "MC_Lifecycle_tree.cfg", workers=14, timeout=3000))
    covered = set()
    for m in mcs:
        if m["violated"]:
            log(m["tail"])
            raise vlib.ToolError("specification %s violates %s: fix the model" % (m["cfg"], m["violated"]))
        covered |= {a for a, c in m["coverage"].items() if c > 0}
    w = vlib.workdir("lifecycle_" + pid)
    # the same scenario families on the default build and (C01: always; others: thorough tier) on the
    # async-trait build of ractor, which routes every callback through boxed dyn futures
    builds = [("", seed)]
    if pid == "C01" or tier == "thorough":
        builds.append(("asynctrait", int(seed) + 1000))
    vb = None
    summ = None
    for feat, sd in builds:
        trace = os.path.join(w, "batch_%s.ndjson" % (feat or "default"))
        sm = vlib.harness(["lifecycle", "--out", trace, "--tier", tier if not feat else "quick", "--seed", sd], features=feat)
        if sm.get("bad_runs"):
            log("[V] %s build: %d runs did not reach quiescence within the step budget" % (feat or "default", sm["bad_runs"]))
        one = vlib.validate_batch("Trace_Lifecycle", "Trace_Lifecycle.cfg", trace, "lifecycle_%s_%s" % (pid, feat or "default"))
        for viol in one["violations"]:
            meta = json.loads(viol["run"][0]).get("meta", {})
            ev = viol.get("lenient_event") or viol.get("strict_event") or "{}"
            try:
                j = json.loads(ev)
                lab = "%s(%s)" % (j.get("a", "?"), j.get("k", j.get("x", "")))
            except Exception:
                lab = "?"
            sig = "lifecycle%s first-unexplained=%s gen=%s" % ("/" + feat if feat else "", lab, json.dumps(meta.get("gen")))
            v.violation(sig, {"family": "lifecycle", "build": feat or "default", "meta": meta,
                              "trace": [json.loads(x) for x in viol["run"]],
                              "first_unexplained": viol.get("lenient_event_index"), "event": ev})
        if vb is None:
            vb, summ = one, sm
        else:
            for k in ("runs", "events", "strict_accepted", "lenient_accepted", "tlc_states", "unvalidated"):
                vb[k] += one[k]
            vb["divergences"] += one["divergences"]
            vb["violations"] += one["violations"]
            for k, n in one["deviations"].items():
                vb["deviations"][k] = vb["deviations"].get(k, 0) + n
            summ["runs"] += sm["runs"]
            summ["distinct_nontrivial"] += sm["distinct_nontrivial"]
    # messages that arrive in serialized form go through a different branch of handle_message (decode, then the same
    # handler): the decode family's runs are lifecycle runs too (Trace_DecodeDrop extends Trace_Lifecycle)
    if pid in ("C01", "C04"):
        trd = os.path.join(w, "batch_decode.ndjson")
        smd = vlib.harness(["decode", "--out", trd, "--tier", "quick", "--seed", seed])
        oned = vlib.validate_batch("Trace_DecodeDrop", "Trace_DecodeDrop.cfg", trd, "lifecycle_%s_decode" % pid)
        log("[V] serialized messages (decode family): %d runs, strict accepted %d, rejected %d" % (oned["runs"], oned["strict_accepted"], len(oned["violations"])))
        for viol in oned["violations"]:
            meta = json.loads(viol["run"][0]).get("meta", {})
            ev = viol.get("lenient_event") or viol.get("strict_event") or "{}"
            try:
                j = json.loads(ev)
                lab = "%s(%s)" % (j.get("a", "?"), j.get("k", j.get("x", "")))
            except Exception:
                lab = "?"
            v.violation("lifecycle/serialized first-unexplained=%s kinds=%s" % (lab, ",".join(meta.get("kinds", []))),
                        {"family": "decode", "meta": meta, "trace": [json.loads(x) for x in viol["run"]],
                         "first_unexplained": viol.get("lenient_event_index"), "event": ev})
        for k in ("runs", "events", "strict_accepted", "lenient_accepted", "tlc_states", "unvalidated"):
            vb[k] += oned[k]
        vb["divergences"] += oned["divergences"]
        summ["runs"] += smd["runs"]
    for name, n in vb["deviations"].items():
        if DEV_OWNER.get(name) == pid:
            v.deviation(name, n)
    cov = {
        "states": sum(m["states"] for m in mcs),
        "transitions": sum(m["transitions"] for m in mcs),
        "traces_validated_against_impl": vb["strict_accepted"] + vb["lenient_accepted"] + len(vb["divergences"]),
        "samples": summ.get("samples", [])[:3],
        "evaluations": summ["runs"],
        "distinct_nontrivial": summ["distinct_nontrivial"],
        "rule": "one evaluation = one (scenario, schedule) execution of scripted actors and client tasks on the gated tokio "
                "runtime; micro-scenarios by DFS over poll orders with preemption bound 2 (capped), random scenarios "
                "(callback scripts, spawn mode, disturbances: kill/stop/drain/abort/inject) with seeded random schedules; "
                "distinct = distinct event-sequence hash; non-trivial = at least one preemption",
        "events_validated": vb["events"],
        "strict_accepted_runs": vb["strict_accepted"],
        "lenient_only_accepted_runs": vb["lenient_accepted"],
        "unvalidated_runs": vb["unvalidated"],
        "divergences": len(vb["divergences"]),
        "rejected_runs": len(vb["violations"]),
        "deviation_runs": vb["deviations"],
        "tlc_trace_states": vb["tlc_states"],
        "mc_configs": [{"cfg": m["cfg"], "states": m["states"], "transitions": m["transitions"], "wall_s": m["wall_s"]} for m in mcs],
        "mc_actions_covered": sorted(covered),
        "builds": [f or "default" for f, _ in builds],
        "exhaustive": False,
    }
    vlib.write_evidence(pid, tier, seed, cov, ASSUME, time.time() - t0, len(v.violations))
    return v.finish()


def replay(pid, path):
    """Re-execute the recorded (scenario generator, schedule) on the current tree and validate the
    new trace; fall back to re-validating the recorded trace when the generator is unknown."""
    rp = json.load(open(path))
    w = vlib.workdir("replay_" + pid)
    out = os.path.join(w, "replay.ndjson")
    meta = rp.get("meta", {})
    done = False
    if meta.get("gen"):
        summ = vlib.harness(["lifecycle-replay", "--gen", json.dumps(meta["gen"]), "--sched", json.dumps(meta.get("sched", [])), "--out", out])
        done = summ.get("runs") == 1
    if not done:
        with open(out, "w") as f:
            for e in rp["trace"]:
                f.write(json.dumps(e, separators=(",", ":")) + "\n")
    mod = ("Trace_DecodeDrop", "Trace_DecodeDrop.cfg") if rp.get("family") == "decode" else ("Trace_Lifecycle", "Trace_Lifecycle.cfg")
    vb = vlib.validate_batch(mod[0], mod[1], out, "replay_" + pid)
    if vb["violations"]:
        log("%s trace is rejected by the specification at: %s" % ("re-executed" if done else "recorded",
            vb["violations"][0].get("lenient_event") or vb["violations"][0].get("strict_event")))
        log("VIOLATION property=%s replay=%s" % (pid, path))
        return 1
    log("%s trace accepted (strict=%d, divergences=%d)" % ("re-executed" if done else "recorded", vb["strict_accepted"], len(vb["divergences"])))
    return 0
