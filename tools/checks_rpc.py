"""C09: the Rpc specification (one reply port per call; where its sending half is - callee queue,
handler, callee state, helper task - and who still listens; callers with and without timeouts on
a virtual clock; multi_call groups; call_and_forward) bound to ractor/src/rpc.rs, port.rs and the
receiver flush of ActorPortSet through engine T."""
import enginet

PROPS = ["C09"]

ASSUME = [
    "engine T serialises the runtime at poll granularity on tokio's paused clock: virtual time moves only when no task is "
    "runnable, so 'an answer no later than T' is exact in virtual milliseconds; with a free-running clock (M, VirtualClock = "
    "FALSE) only 'no Timeout before the deadline' is claimed",
    "tokio primitives behave as documented (oneshot: a dropped sender wakes the receiver with an error; timeout polls the "
    "inner future before the deadline; unbounded mpsc; dropping a receiver drops what is queued)",
    "RpcReplyPort::send consumes the port, so a second reply on the same port is unrepresentable; the 'twice' policy is "
    "realised as one handler answering its own port and every port it stashed earlier",
    "multi_call's per-request sub-tasks are spawned on a JoinSet (not through ractor::concurrency), so they are not gated: "
    "they run as soon as woken and their completion is a silent step of the trace specification",
    "the fate of every reply port is observed through the harness token that carries it (its Drop is logged)",
]

PKG = {
    "family": "rpc",
    "mc_module": "MC_Rpc",
    "mc": [
        ("MC_Rpc_small.cfg", ("quick", "thorough"), {}),
        ("MC_Rpc_fwdq.cfg", ("quick", "thorough"), {}),
        ("MC_Rpc_multiq.cfg", ("quick", "thorough"), {}),
        ("MC_Rpc_free.cfg", ("quick", "thorough"), {}),
        ("MC_Rpc_multi3q.cfg", ("quick", "thorough"), {}),
        ("MC_Rpc_multi3.cfg", ("thorough",), {"workers": 8, "timeout": 2400}),
        ("MC_Rpc_fwd.cfg", ("thorough",), {"workers": 8, "timeout": 2400}),
        ("MC_Rpc_multi.cfg", ("thorough",), {"workers": 8, "timeout": 2400}),
    ],
    "builds": [("", ("quick", "thorough"))],
    "trace_module": "Trace_Rpc",
    "trace_cfg": "Trace_Rpc.cfg",
    "assume": ASSUME,
    "rule": "one evaluation = one (scenario, schedule) execution on the gated paused-clock tokio runtime: 1-4 scripted callee "
            "actors (reply policies prompt / late after a virtual sleep / never / hold then drop / stash in state / answer own and "
            "stashed ports / from a spawned helper task / helper drops / handler fails; callee 1 optionally supervised), a forward "
            "collector, up to 3 concurrent caller tasks using call!, call_t!, rpc::call, ActorRef::call, DerivedActorRef::call, "
            "rpc::multi_call, rpc::call_and_forward and forward! with timeouts none / below / at / above the reply time, and stop / "
            "kill / drain of callees and collector at scripted virtual times; multi_call over 3 and 4 callees whose outcomes complete at "
            "controlled virtual instants (every completion order for 3, reverse and five others for 4, mixes of reply / SenderError / "
            "Timeout), each result position compared with its own request; micro-scenarios by DFS over poll orders (preemption "
            "bound 3, capped) plus random orders, random scenarios under seeded random schedules; distinct = distinct event-sequence "
            "hash; non-trivial = at least one preemption",
}


def run(pid, tier, seed):
    return enginet.run(PKG, pid, tier, seed)


def replay(pid, path):
    return enginet.replay(PKG, pid, path)
