"""C17: the ClusterAuth specification (handshake state machines, session gate, advertised-pid allow list)
bound to the real code at two levels: the state machines stepped directly, and a real NodeSession on a real
NodeServer talking to an adversary task over an in-memory transport (engine T)."""
import json
import os
import time

import vlib
from vlib import log

PROPS = ["C17"]

ASSUME = [
    "one inbound frame = one atomic step of the session (a NodeSession handler runs alone on its state); the hops reader -> "
    "transport actor -> session actor are explored by the gated runtime but not modelled one by one",
    "sha256 is collision free for the purposes of the handshake: a digest computed without the cookie is a wrong digest",
    "one peer name per session, so the duplicate-connection election (C18) always keeps the session",
    "a single session is attacked at a time: digests the node itself computes on ANOTHER session are not available to the "
    "adversary (no cross-session reflection); see the note in the manifest",
    "observations are taken at quiescence (5 virtual ms after each adversary message, paused clock); ping timers (>= 1 s) never fire in a run",
    "the window in which a remotable actor exists but is not yet advertised cannot be produced from outside (registration notifies "
    "the session through its supervision port, which outranks messages); the specification covers it, the traces do not",
]


def _viols(v, vb, fam):
    for viol in vb["violations"]:
        meta = json.loads(viol["run"][0]).get("meta", {})
        ev = viol.get("lenient_event") or viol.get("strict_event") or "{}"
        try:
            j = json.loads(ev)
            lab = j.get("a", "?")
            if lab == "fsm.step":
                lab += "(%s.%s%s->%s)" % (j.get("c"), j.get("k"), ("." + j["p"]) if j.get("p") else "", j.get("to"))
        except Exception:
            lab = "?"
        key = meta.get("script") or meta.get("first") or meta.get("random")
        sig = "%s first-unexplained=%s roles=%s knows=%s script=%s" % (fam, lab, meta.get("roles", meta.get("role")), meta.get("knows"), json.dumps(key))
        v.violation(sig, {"family": fam, "meta": meta, "trace": [json.loads(x) for x in viol["run"]],
                          "first_unexplained": viol.get("lenient_event_index"), "event": ev})


def run(pid, tier, seed):
    t0 = time.time()
    v = vlib.Verdict(pid)
    mcs = [vlib.mc_or_die("MC_ClusterAuth", "MC_ClusterAuth_cookie.cfg", workers=4, timeout=300),
           vlib.mc_or_die("MC_ClusterAuth", "MC_ClusterAuth_nocookie.cfg", workers=4, timeout=300, expect_actions=["Open", "Recv"]),
           vlib.mc_or_die("MC_ClusterAuth", "MC_ClusterAuth_pair.cfg", workers=4, timeout=600)]
    # the named deviation must be reachable in the model exactly where it is claimed: with relaying, a peer
    # without the cookie authenticates (expected violation of NoCookieNoAuth)
    refl = vlib.tlc_mc("MC_ClusterAuth", "MC_ClusterAuth_reflect.cfg", workers=4, timeout=600)
    log("[M] MC_ClusterAuth MC_ClusterAuth_reflect.cfg (deviation DigestReflection): violated=%s (expected NoCookieNoAuth)" % refl["violated"])
    if refl["violated"] != "NoCookieNoAuth":
        raise vlib.ToolError("MC_ClusterAuth_reflect.cfg: expected NoCookieNoAuth to be violated, got %s" % refl["violated"])
    for m in mcs:
        if m["violated"]:
            log(m["tail"])
            raise vlib.ToolError("specification %s violates %s: fix the model" % (m["cfg"], m["violated"]))
        if m["zero_actions"]:
            raise vlib.ToolError("vacuity: actions never taken in %s: %s" % (m["cfg"], m["zero_actions"]))
    w = vlib.workdir("clusterauth_" + pid)
    parts = {}
    for fam in ("auth1", "auth2", "auth-reflect"):
        tr = os.path.join(w, fam + ".ndjson")
        summ = vlib.harness([fam, "--out", tr, "--tier", tier, "--seed", seed])
        if summ.get("bad_runs"):
            log("[V] %s: %d runs did not finish their script" % (fam, summ["bad_runs"]))
            raise vlib.ToolError("%s: %d runs did not finish their script" % (fam, summ["bad_runs"]))
        vb = vlib.validate_batch("Trace_ClusterAuth", "Trace_ClusterAuth.cfg", tr, fam.replace("-", "") + "_" + pid)
        log("[V] %s: %d runs, %d events, strict accepted %d, rejected %d, deviations %s (%.0fs)" % (
            fam, vb["runs"], vb["events"], vb["strict_accepted"], len(vb["violations"]), vb["deviations"], vb["wall_s"]))
        _viols(v, vb, fam)
        for name, n in vb["deviations"].items():
            v.deviation(name, n, {"deviation": name, "runs": n, "family": fam})
        parts[fam] = (summ, vb)
    if parts["auth2"][0].get("authenticated_runs", 0) == 0 or parts["auth1"][0].get("reached_ok", 0) == 0:
        raise vlib.ToolError("vacuity: no run completed the handshake")
    cov = {
        "states": sum(m["states"] for m in mcs),
        "transitions": sum(m["transitions"] for m in mcs),
        "traces_validated_against_impl": sum(x["strict_accepted"] + len(x["divergences"]) for _, x in parts.values()),
        "samples": parts["auth2"][0].get("samples", [])[:3],
        "evaluations": sum(s["runs"] for s, _ in parts.values()),
        "distinct_nontrivial": sum(s["distinct_nontrivial"] for s, _ in parts.values()),
        "rule": "auth1: one run = the subtree of all message sequences of length <= 4 (5 in thorough) below one first message over the 14 "
                "authentication message classes (+ start_challenge / Alive for the server), every edge one call of the real next(); plus seeded "
                "random sequences of length 8. auth2: one evaluation = one adversary script (every sequence of length <= 3 over the 33-symbol "
                "alphabet for both roles, with and without the cookie where a digest is involved; sampled length 4; honest handshake followed by "
                "every control/node message and pairs; random longer ones) against a real NodeSession, random poll order; "
                "non-trivial (auth2) = the session authenticated or closed. auth-reflect: two sessions (server-side + client-side) and an "
                "adversary without the cookie that relays the node's own digest between them, in the order that works and in orders that cannot",
        "parts": {k: {"runs": s["runs"], "events": x["events"], "strict_accepted_runs": x["strict_accepted"],
                      "divergences": len(x["divergences"]), "rejected_runs": len(x["violations"]), "tlc_trace_states": x["tlc_states"],
                      "distinct": s.get("distinct")} for k, (s, x) in parts.items()},
        "level1_sequences": parts["auth1"][0].get("sequences"),
        "level1_reached_ok": parts["auth1"][0].get("reached_ok"),
        "level2_authenticated_runs": parts["auth2"][0].get("authenticated_runs"),
        "deviation_runs": {k: x["deviations"] for k, (s, x) in parts.items() if x["deviations"]},
        "mc_expected_violation": {"cfg": "MC_ClusterAuth_reflect.cfg", "invariant": refl["violated"], "states": refl["states"]},
        "mc_configs": [{"cfg": m["cfg"], "states": m["states"], "transitions": m["transitions"], "wall_s": m["wall_s"]} for m in mcs],
        "exhaustive": False,
    }
    vlib.write_evidence(pid, tier, seed, cov, ASSUME, time.time() - t0, len(v.violations))
    return v.finish()


def replay(pid, path):
    rp = json.load(open(path))
    w = vlib.workdir("replay_" + pid)
    out = os.path.join(w, "replay.ndjson")
    with open(out, "w") as f:
        for e in rp["trace"]:
            f.write(json.dumps(e, separators=(",", ":")) + "\n")
    vb = vlib.validate_batch("Trace_ClusterAuth", "Trace_ClusterAuth.cfg", out, "replay_" + pid)
    if vb["violations"]:
        log("recorded trace is rejected by the specification at: %s" % (vb["violations"][0].get("lenient_event") or vb["violations"][0].get("strict_event")))
        log("VIOLATION property=%s replay=%s" % (pid, path))
        return 1
    log("recorded trace accepted")
    return 0
