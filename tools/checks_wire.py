"""C19 (scoped): framing (Framing specification bound to the session's frame reader), containment of
undecodable serialized payloads (decode-drop, Lifecycle's DropUndecodable path) and containment of a
framing error to its own session (two external sessions on one NodeServer, engine T)."""
import json
import os
import time

import vlib
from vlib import log

PROPS = ["C19"]

ASSUME = [
    "the byte source is modelled at the grain of one read(): it hands out between 1 and min(requested, available) bytes or EOF; "
    "Pending/wake-up behaviour of the transport is tokio's and is trusted",
    "prost decoding of a complete payload is a black box with two outcomes (valid / undecodable)",
    "lengths above 10^6 are reported to TLC as 10^6 (TLC integers are 32 bit); only the comparison with Max matters",
    "NOT decided here: 'encode then decode is the identity for every value of every supported type' and 'derived decoders never "
    "panic on any byte string' (pure data functions over unbounded inputs); a bounded enumeration is recorded as extra evidence only",
]


def _viols(v, vb, fam, keyf):
    for viol in vb["violations"]:
        meta = json.loads(viol["run"][0]).get("meta", {})
        ev = viol.get("lenient_event") or viol.get("strict_event") or "{}"
        try:
            lab = json.loads(ev).get("a", "?")
        except Exception:
            lab = "?"
        sig = "%s first-unexplained=%s %s" % (fam, lab, keyf(meta))
        v.violation(sig, {"family": fam, "meta": meta, "trace": [json.loads(x) for x in viol["run"]],
                          "first_unexplained": viol.get("lenient_event_index"), "event": ev})


def run(pid, tier, seed):
    t0 = time.time()
    v = vlib.Verdict(pid)
    mcs = [vlib.mc_or_die("MC_Framing", "MC_Framing_small.cfg", workers=4, timeout=300),
           vlib.mc_or_die("MC_ClusterAuth", "MC_ClusterAuth_pair.cfg", workers=4, timeout=600)]
    if tier == "thorough":
        mcs.append(vlib.mc_or_die("MC_Framing", "MC_Framing_big.cfg", workers=4, timeout=900))
    for m in mcs:
        if m["violated"]:
            log(m["tail"])
            raise vlib.ToolError("specification %s violates %s: fix the model" % (m["cfg"], m["violated"]))
        if m["zero_actions"]:
            raise vlib.ToolError("vacuity: actions never taken in %s: %s" % (m["cfg"], m["zero_actions"]))
    w = vlib.workdir("wire_" + pid)
    parts = {}
    # (a) framing: direct calls of the real reader
    tr = os.path.join(w, "framing.ndjson")
    sa = vlib.harness(["framing", "--out", tr, "--tier", tier, "--seed", seed])
    va = vlib.validate_batch("Trace_Framing", "Trace_Framing.cfg", tr, "framing_" + pid)
    _viols(v, va, "framing", lambda m: "frames=%s cut=%s chunk=%s" % (",".join(m.get("frames", [])), m.get("cut"), m.get("chunk")))
    parts["framing"] = (sa, va)
    log("[V] framing: %d runs, %d events, strict accepted %d, rejected %d" % (va["runs"], va["events"], va["strict_accepted"], len(va["violations"])))
    # (b) decode-drop: malformed serialized payloads interleaved with good ones; Send flavour under engine T,
    # thread-local flavour on its spawner thread
    for fam in ("decode", "decode-tl"):
        tr = os.path.join(w, fam + ".ndjson")
        sb = vlib.harness([fam, "--out", tr, "--tier", tier, "--seed", seed])
        if sb.get("bad_runs"):
            raise vlib.ToolError("%s: %d runs did not settle" % (fam, sb["bad_runs"]))
        vb = vlib.validate_batch("Trace_DecodeDrop", "Trace_DecodeDrop.cfg", tr, fam.replace("-", "") + "_" + pid)
        log("[V] %s: %d runs, %d events, strict accepted %d, rejected %d, deviations %s" % (
            fam, vb["runs"], vb["events"], vb["strict_accepted"], len(vb["violations"]), vb["deviations"]))
        _viols(v, vb, fam, lambda m: "flavour=%s codec=%s kinds=%s" % (m.get("flavour"), m.get("codec"), ",".join(m.get("kinds", []))))
        for name, n in vb["deviations"].items():
            v.deviation(name, n, {"deviation": name, "runs": n, "family": fam, "died": sb.get("died", [])[:4]})
        parts[fam] = (sb, vb)
    # (c) a framing error on one of two sessions of a real NodeServer
    tr = os.path.join(w, "wire-sessions.ndjson")
    sc = vlib.harness(["wire-sessions", "--out", tr, "--tier", tier, "--seed", seed])
    if sc.get("bad_runs"):
        raise vlib.ToolError("wire-sessions: %d runs did not finish their script" % sc["bad_runs"])
    vc = vlib.validate_batch("Trace_ClusterAuth", "Trace_ClusterAuth.cfg", tr, "wiresessions_" + pid)
    log("[V] wire-sessions: %d runs, %d events, strict accepted %d, rejected %d" % (vc["runs"], vc["events"], vc["strict_accepted"], len(vc["violations"])))
    _viols(v, vc, "wire-sessions", lambda m: "roles=%s script=%s" % (m.get("roles"), json.dumps(m.get("script"))))
    parts["wire-sessions"] = (sc, vc)
    # (d) "bounded" through the node's own listener: a real NodeServer with a small max_inbound_frame_size, raw TCP
    # connections on the loopback interface, scripted byte streams; judged on what a peer sees (answer / connection closed)
    tr = os.path.join(w, "wire-tcp.ndjson")
    st = vlib.harness(["wire-tcp", "--out", tr, "--tier", tier, "--seed", seed])
    if st.get("bad_runs"):
        log("[V] wire-tcp: %d connections could not be made; judging the %d that were" % (st["bad_runs"], st.get("runs", 0)))
    if st.get("runs"):
        vt = vlib.validate_batch("Trace_FramingTcp", "Trace_FramingTcp.cfg", tr, "wiretcp_" + pid, start_lenient=True)
        log("[V] wire-tcp: %d runs, %d events, accepted on observations %d, rejected %d" % (vt["runs"], vt["events"], vt["lenient_accepted"], len(vt["violations"])))
        _viols(v, vt, "wire-tcp", lambda m: "frames=%s eof=%s" % (m.get("frames"), m.get("eof")))
        vt["strict_accepted"] = vt["lenient_accepted"]      # (counted as validated traces below; this family has no internal points)
        parts["wire-tcp"] = (st, vt)
    else:
        # no loopback TCP in this environment: the family claims nothing then (the other families are unaffected)
        log("[V] wire-tcp: skipped, loopback TCP is not available here")
    # extras (evidence only; the claim stays scoped): bounded enumeration through a derived decoder, boundary round trips
    extra = vlib.harness(["codec-extra"])
    log("[X] codec extras: %d decoder inputs (%d ok, %d err, %d panics), %d round trips (%d failures)" % (
        extra["decoder_inputs"], extra["decoded_ok"], extra["decoded_err"], extra["decoder_panics"], extra["round_trips"], len(extra["round_trip_failures"])))
    if extra["decoder_panics"] or extra["round_trip_failures"]:
        v.violation("codec-extra panics=%d roundtrip=%s" % (extra["decoder_panics"], extra["round_trip_failures"][:3]),
                    {"family": "codec-extra", "meta": extra, "trace": []})
    runs = sum(s["runs"] for s, _ in parts.values())
    cov = {
        "states": sum(m["states"] for m in mcs),
        "transitions": sum(m["transitions"] for m in mcs),
        "traces_validated_against_impl": sum(x["strict_accepted"] + len(x["divergences"]) for _, x in parts.values()),
        "samples": sa.get("samples", [])[:3],
        "evaluations": runs,
        "distinct_nontrivial": sum(s["distinct_nontrivial"] for s, _ in parts.values()),
        "rule": "framing: one evaluation = one (stream of <= 3 frames with declared lengths from {0,1,6,Max=16,Max+1,2^40,u64::MAX} and "
                "class valid/undecodable, optional truncation point, chunking in {1,7,8,9,all,random per read}) fed to the real "
                "read_network_message; every read() request, frame.len / frame.buf point and result is validated against Framing; "
                "non-trivial = fragmented or truncated. decode: one evaluation = one plan of good / malformed serialized payloads (unknown "
                "variant, short / truncated / trailing arguments, huge length prefix, conversion that panics, CallReply, hand-written decoder "
                "returning Err or panicking) sent by 1-2 tasks to a probe actor under a random poll order (Send flavour) or one at a time to a "
                "thread-local probe; non-trivial = contains a malformed payload. wire-sessions: one evaluation = two sessions (every role pair) on "
                "one NodeServer, an oversize / undecodable / truncated frame or EOF on the first at every handshake stage, work on both afterwards",
        "parts": {k: {"runs": s["runs"], "events": x["events"], "strict_accepted_runs": x["strict_accepted"],
                      "divergences": len(x["divergences"]), "rejected_runs": len(x["violations"]),
                      "tlc_trace_states": x["tlc_states"]} for k, (s, x) in parts.items()},
        "deviation_runs": {k: x["deviations"] for k, (s, x) in parts.items() if x["deviations"]},
        "extras_not_part_of_the_claim": extra,
        "mc_configs": [{"cfg": m["cfg"], "states": m["states"], "transitions": m["transitions"], "wall_s": m["wall_s"]} for m in mcs],
        "exhaustive": False,
    }
    vlib.write_evidence(pid, tier, seed, cov, ASSUME, time.time() - t0, len(v.violations))
    return v.finish()


def replay(pid, path):
    rp = json.load(open(path))
    w = vlib.workdir("replay_" + pid)
    out = os.path.join(w, "replay.ndjson")
    with open(out, "w") as f:
        for e in rp["trace"]:
            f.write(json.dumps(e, separators=(",", ":")) + "\n")
    mod = {"framing": ("Trace_Framing", "Trace_Framing.cfg"), "decode": ("Trace_DecodeDrop", "Trace_DecodeDrop.cfg"),
           "decode-tl": ("Trace_DecodeDrop", "Trace_DecodeDrop.cfg"),
           "wire-sessions": ("Trace_ClusterAuth", "Trace_ClusterAuth.cfg"),
           "wire-tcp": ("Trace_FramingTcp", "Trace_FramingTcp.cfg")}[rp.get("family", "framing")]
    vb = vlib.validate_batch(mod[0], mod[1], out, "replay_" + pid)
    if vb["violations"]:
        log("recorded trace is rejected by the specification at: %s" % (vb["violations"][0].get("lenient_event") or vb["violations"][0].get("strict_event")))
        log("VIOLATION property=%s replay=%s" % (pid, path))
        return 1
    log("recorded trace accepted")
    return 0
