"""C12: the Timer specification (send_after / send_interval / exit_after / kill_after as spawned
tasks on a virtual clock, against the mailbox abstraction of one target actor) bound to
ractor/src/time.rs through engine T."""
import enginet

PROPS = ["C12"]

ASSUME = [
    "engine T serialises the runtime at poll granularity on tokio's paused clock: virtual time moves only when no task is "
    "runnable, so 'exactly at created + k*period' is a statement about the virtual clock; on a real clock only 'never early' "
    "is claimed (checked in M with VirtualClock = FALSE)",
    "tokio time primitives behave as documented (sleep, interval with the default Burst policy, JoinHandle::abort drops the "
    "task before its next poll)",
    "an executor stall (a CPU-bound handler or client holding the single executor thread) is produced on the virtual clock by "
    "tokio::time::advance inside one poll; it is the only way time passes over the deadline of a runnable timer task. Under "
    "stalls 'no drift' reads: the k-th deadline stays started + k*period, an operation happens at its deadline or at the end "
    "of the stall that covered it, missed ticks fire back to back (Burst), later ticks are on time again",
    "the target is the Lifecycle/Mailbox abstraction of an actor: send_message is accepted iff the status is below Draining; "
    "status check and enqueue are one step at poll granularity",
    "send_interval with a zero period panics inside tokio::time::interval and is outside the property's quantifier",
    "a target obtained from spawn_instant may still be Unstarted: send_message accepts (status < Draining) but ACTIVE_STATES does "
    "not contain Unstarted, so send_interval's loop ends at once; modelled as the named deviation IntervalDiesOnUnstarted "
    "(UnstartedKillsInterval = TRUE is the code as it is, FALSE the property-level reading, both model-checked)",
]

PKG = {
    "family": "timer",
    "mc_module": "MC_Timer",
    "mc": [
        ("MC_Timer_small.cfg", ("quick", "thorough"), {}),
        ("MC_Timer_drain.cfg", ("quick", "thorough"), {}),
        ("MC_Timer_exit.cfg", ("quick", "thorough"), {}),
        ("MC_Timer_kill.cfg", ("quick", "thorough"), {}),
        ("MC_Timer_free.cfg", ("quick", "thorough"), {}),
        ("MC_Timer_stall.cfg", ("quick", "thorough"), {}),
        ("MC_Timer_instant.cfg", ("quick", "thorough"), {}),
        ("MC_Timer_instantfix.cfg", ("quick", "thorough"), {}),
        ("MC_Timer_big.cfg", ("thorough",), {"workers": 8, "timeout": 1800}),
        ("MC_Timer_big2.cfg", ("thorough",), {"workers": 8, "timeout": 1800}),
    ],
    # timer-instant: timers armed on an instant-spawned, still Unstarted target; needs the named deviation
    # IntervalDiesOnUnstarted and therefore runs only when that finding is listed (manifest/_proposed_findings.json)
    "builds": [("", ("quick", "thorough")), ("", ("quick", "thorough"), "timer-instant", "IntervalDiesOnUnstarted")],
    "dev_owner": {"IntervalDiesOnUnstarted": "C12"},
    "trace_module": "Trace_Timer",
    "trace_cfg": "Trace_Timer.cfg",
    "assume": ASSUME,
    "rule": "one evaluation = one (scenario, schedule) execution on the gated paused-clock tokio runtime: a probe actor under a "
            "supervisor, 1-5 timers (send_after / send_interval / exit_after / kill_after through ActorCell, ActorRef and "
            "DerivedActorRef entry points; periods 0, 1, 5, 50 ms), client tasks that create / abort / join timers and stop / kill / "
            "drain / fail the target at scripted virtual times (before, at, after expiry); six scenarios with executor stalls over one or more deadlines (by the handler, by a client, two in a row, lateness 5 / 6 ms, "
            "between the call and the first poll) and random stalls in the random scenarios; two scenarios with three timers due at the same "
            "instant explored by an unbounded DFS to exhaustion (every poll order), micro-scenarios by DFS over poll orders "
            "(preemption bound 3, capped) plus random orders, random scenarios under seeded random schedules; distinct = distinct event-sequence hash; "
            "non-trivial = at least one preemption",
}


def run(pid, tier, seed):
    return enginet.run(PKG, pid, tier, seed)


def replay(pid, path):
    return enginet.replay(PKG, pid, path)
