//! Family `remoteactor` (C20): two real node servers joined by one relayed in-memory connection,
//! cluster-serializable probe actors, caller tasks that cast / call through the proxies
//! (`RemoteActor`s) of both sessions, a controller that makes probes join / leave a process group,
//! spawns a late probe, stops probes, releases held replies and cuts the connection. Engine T.
//!
//! Both node servers live in one process, so every probe is "local" to both and each session
//! advertises it to the other: direction "ab" = the proxy owned by A's session (requests travel
//! A -> B), "ba" = the proxy owned by B's session.
use crate::cluster2::{self, yield_once, Relay};
use crate::explore::{Explorer, Mode};
use crate::tdrv::{run_t, NoBetween};
use crate::trace::{Batch, Rng};
use ractor::rpc::CallResult;
use ractor::verif::{self, Ev, Val};
use ractor::{Actor, ActorCell, ActorProcessingErr, ActorRef, ActorStatus, RpcReplyPort};
use ractor_cluster::RactorClusterMessage;
use serde_json::{json, Map, Value};
use std::collections::HashMap;
use std::sync::{Arc, Mutex};
use std::time::Duration;

#[derive(RactorClusterMessage)]
pub enum ProbeMsg {
    /// (sender, seq)
    Cast(u32, u32),
    /// (sender, seq, ballast): a cast like any other, with a large argument
    CastPad(u32, u32, String),
    /// (sender, seq) -> sender * 1000 + seq
    #[rpc]
    Call(u32, u32, RpcReplyPort<u64>),
    /// answer the held calls: 0 = in arrival order, 1 = in reverse order
    Flush(u32),
}

/// a message type that cannot travel (not serializable): sending it to a remote reference must be refused
pub struct LocalOnly(pub u64);
impl ractor::Message for LocalOnly {}

pub struct Probe {
    pub x: usize,
    pub hold: bool,
}

fn kvs(k: &str, v: &str) -> (String, Val) {
    (k.to_string(), Val::S(v.to_string()))
}
fn kvi(k: &str, v: i64) -> (String, Val) {
    (k.to_string(), Val::I(v))
}
fn xn(x: usize) -> String {
    format!("x{}", x + 1)
}
fn sn(s: u32) -> String {
    format!("s{s}")
}

#[cfg_attr(feature = "asynctrait", ractor::async_trait)]
impl Actor for Probe {
    type Msg = ProbeMsg;
    type State = Vec<(u32, u32, RpcReplyPort<u64>)>;
    type Arguments = ();
    async fn pre_start(&self, _: ActorRef<ProbeMsg>, _: ()) -> Result<Self::State, ActorProcessingErr> {
        Ok(vec![])
    }
    async fn post_start(&self, _: ActorRef<ProbeMsg>, _: &mut Self::State) -> Result<(), ActorProcessingErr> {
        // runs on the actor's own task: tells the harness which task is this probe
        verif::emit_kv("obs.probe_task", 0, 0, vec![kvs("x", &xn(self.x))]);
        Ok(())
    }
    async fn handle(&self, _: ActorRef<ProbeMsg>, m: ProbeMsg, held: &mut Self::State) -> Result<(), ActorProcessingErr> {
        let x = xn(self.x);
        match m {
            ProbeMsg::Cast(s, q) => verif::emit_kv("obs.recv", 0, 0, vec![kvs("x", &x), kvs("k", "cast"), kvs("s", &sn(s)), kvi("q", q as i64)]),
            ProbeMsg::CastPad(s, q, pad) => {
                // the ballast arrives intact or the message is not a delivery of what was sent
                let good = pad.len() % 1024 == 0 && pad.bytes().all(|b| b == b'p');
                verif::emit_kv("obs.recv", 0, 0, vec![kvs("x", &x), kvs("k", if good { "cast" } else { "garbled" }), kvs("s", &sn(s)), kvi("q", q as i64)])
            }
            ProbeMsg::Call(s, q, port) => {
                verif::emit_kv("obs.recv", 0, 0, vec![kvs("x", &x), kvs("k", "call"), kvs("s", &sn(s)), kvi("q", q as i64)]);
                if self.hold {
                    held.push((s, q, port));
                } else {
                    verif::emit_kv("obs.reply", 0, 0, vec![kvs("x", &x), kvs("s", &sn(s)), kvi("q", q as i64)]);
                    let _ = port.send(s as u64 * 1000 + q as u64);
                }
            }
            ProbeMsg::Flush(mode) => {
                let mut v: Vec<_> = std::mem::take(held);
                if mode == 1 {
                    v.reverse();
                }
                for (s, q, port) in v {
                    verif::emit_kv("obs.reply", 0, 0, vec![kvs("x", &x), kvs("s", &sn(s)), kvi("q", q as i64)]);
                    let _ = port.send(s as u64 * 1000 + q as u64);
                }
            }
        }
        Ok(())
    }
}

#[derive(Clone, Debug)]
pub enum ROp {
    Cast { d: usize, x: usize },
    Call { d: usize, x: usize, timeout_ms: u64 },
    /// a message of a non-serializable type sent through the untyped cell of the proxy
    Wrong { d: usize, x: usize },
    /// `n` casts in a row, each carrying `kib` KiB of ballast (several of them are waiting for the session's writer at once)
    Burst { d: usize, x: usize, n: usize, kib: usize },
    Pause,
    Sleep(u64),
}

#[derive(Clone, Debug)]
pub enum COp {
    Join(usize),
    Leave(usize),
    SpawnLate,
    Stop(usize),
    Flush(usize, u32),
    Cut,
    Pause,
    Sleep(u64),
}

#[derive(Clone, Debug)]
pub struct Scenario {
    /// probes present from the start, whether each holds its replies until flushed
    pub hold: Vec<bool>,
    /// one more probe (index hold.len()) spawned by the controller
    pub late: bool,
    pub callers: Vec<Vec<ROp>>,
    pub ctl: Vec<COp>,
    pub cut_after_frames: Option<u64>,
    pub relay_seed: u64,
    /// one-way link latency (virtual ms) once the scenario proper starts
    pub latency_ms: u64,
}

const GROUP: &str = "verif-c20";
static RUN_SEQ: std::sync::atomic::AtomicU64 = std::sync::atomic::AtomicU64::new(0);

struct World {
    probes: Vec<Option<ActorRef<ProbeMsg>>>,
    sess: [Option<ActorCell>; 2],
    node_ids: [u64; 2],
    proxies: HashMap<(usize, usize), ActorCell>,
    relay: Option<Relay>,
    fin: Option<Value>,
    started: bool,
    /// free-running family: which probes were members of GROUP when the scenario proper started
    init_grp: Vec<bool>,
    /// free-running family: the remote references never came to reflect their originals (10 s)
    unsettled: bool,
}
type W = Arc<Mutex<World>>;

fn lookup(w: &W, d: usize, x: usize) -> Option<ActorCell> {
    let mut g = w.lock().unwrap();
    let pid = g.probes.get(x).and_then(|p| p.as_ref()).map(|p| p.get_id().pid())?;
    let found = g.sess[d].as_ref().and_then(|s| cluster2::proxy_of(s, pid));
    if let Some(c) = &found {
        g.proxies.insert((d, x), c.clone());
    }
    found.or_else(|| g.proxies.get(&(d, x)).cloned())
}

/// free-running family: the "begin" line of a call and the call's synchronous part (the send into the proxy's
/// mailbox, done by the first poll) happen under this lock, so that the order of the begin lines is the send order
static FREE_SEND_LOCK: std::sync::atomic::AtomicBool = std::sync::atomic::AtomicBool::new(false);

async fn caller(w: W, s: u32, ops: Vec<ROp>) {
    caller_impl(w, s, ops, false).await
}

async fn caller_impl(w: W, s: u32, ops: Vec<ROp>, free: bool) {
    let mut q = 0u32;
    let dn = ["ab", "ba"];
    for op in ops {
        yield_once().await;
        match op {
            ROp::Pause => {}
            ROp::Sleep(ms) => ractor::concurrency::sleep(Duration::from_millis(ms)).await,
            ROp::Cast { d, x } => {
                let Some(cell) = lookup(&w, d, x) else { continue };
                q += 1;
                let r: ActorRef<ProbeMsg> = cell.into();
                let ok = r.cast(ProbeMsg::Cast(s, q)).is_ok();
                verif::emit_kv("obs.send", 0, i64::from(ok), vec![kvs("s", &sn(s)), kvi("q", q as i64), kvs("k", "cast"), kvs("dir", dn[d]), kvs("x", &xn(x))]);
            }
            ROp::Burst { d, x, n, kib } => {
                let Some(cell) = lookup(&w, d, x) else { continue };
                let r: ActorRef<ProbeMsg> = cell.into();
                for _ in 0..n {
                    q += 1;
                    let ok = r.cast(ProbeMsg::CastPad(s, q, "p".repeat(kib * 1024))).is_ok();
                    verif::emit_kv("obs.send", 0, i64::from(ok), vec![kvs("s", &sn(s)), kvi("q", q as i64), kvs("k", "cast"), kvs("dir", dn[d]), kvs("x", &xn(x))]);
                }
            }
            ROp::Wrong { d, x } => {
                let Some(cell) = lookup(&w, d, x) else { continue };
                let ok = cell.send_message(LocalOnly(7)).is_ok();
                verif::emit_kv("obs.wrong", 0, i64::from(ok), vec![kvs("s", &sn(s)), kvs("dir", dn[d]), kvs("x", &xn(x))]);
            }
            ROp::Call { d, x, timeout_ms } => {
                let Some(cell) = lookup(&w, d, x) else { continue };
                q += 1;
                let r: ActorRef<ProbeMsg> = cell.into();
                let t0;
                let res = if free {
                    use std::sync::atomic::Ordering::SeqCst;
                    while FREE_SEND_LOCK.compare_exchange(false, true, SeqCst, SeqCst).is_err() {
                        std::hint::spin_loop();
                    }
                    verif::emit_kv("obs.call_begin", 0, 0, vec![kvs("s", &sn(s)), kvi("q", q as i64), kvs("k", "call"), kvs("dir", dn[d]), kvs("x", &xn(x))]);
                    t0 = tokio::time::Instant::now();
                    let mut fut = Box::pin(r.call(|tx| ProbeMsg::Call(s, q, tx), Some(Duration::from_millis(timeout_ms))));
                    let first = futures::poll!(fut.as_mut());
                    FREE_SEND_LOCK.store(false, SeqCst);
                    match first {
                        std::task::Poll::Ready(v) => v,
                        std::task::Poll::Pending => fut.await,
                    }
                } else {
                    verif::emit_kv("obs.call_begin", 0, 0, vec![kvs("s", &sn(s)), kvi("q", q as i64), kvs("k", "call"), kvs("dir", dn[d]), kvs("x", &xn(x))]);
                    t0 = tokio::time::Instant::now();
                    r.call(|tx| ProbeMsg::Call(s, q, tx), Some(Duration::from_millis(timeout_ms))).await
                };
                // at the deadline the caller's own timer races with the timers of the port converters
                // (which drop the port): "no answer" then shows as Timeout or as SenderError
                let at_deadline = t0.elapsed() >= Duration::from_millis(timeout_ms);
                let (kind, v) = match res {
                    Ok(CallResult::Success(v)) => ("ok", v),
                    Ok(CallResult::Timeout) => ("timeout", 0),
                    Ok(CallResult::SenderError) => ("senderr", 0),
                    Err(_) => ("refused", 0),
                };
                verif::emit_kv(
                    "obs.ret",
                    0,
                    0,
                    vec![kvs("s", &sn(s)), kvi("q", q as i64), kvs("r", kind), kvs("vs", &sn((v / 1000) as u32)), kvi("vq", (v % 1000) as i64), kvi("hit", i64::from(at_deadline))],
                );
            }
        }
    }
}

async fn controller(w: W, sc: Arc<Scenario>) {
    for op in sc.ctl.iter() {
        yield_once().await;
        match op {
            COp::Pause => {}
            COp::Sleep(ms) => ractor::concurrency::sleep(Duration::from_millis(*ms)).await,
            COp::Join(x) => {
                let p = w.lock().unwrap().probes.get(*x).cloned().flatten();
                if let Some(p) = p {
                    if p.get_status() == ActorStatus::Running && !ractor::pg::get_local_members(&GROUP.to_string()).iter().any(|c| c.get_id() == p.get_id()) {
                        verif::emit_kv("obs.join", 0, 0, vec![kvs("x", &xn(*x))]);
                        ractor::pg::join(GROUP.to_string(), vec![p.get_cell()]);
                    }
                }
            }
            COp::Leave(x) => {
                let p = w.lock().unwrap().probes.get(*x).cloned().flatten();
                if let Some(p) = p {
                    if ractor::pg::get_local_members(&GROUP.to_string()).iter().any(|c| c.get_id() == p.get_id()) {
                        verif::emit_kv("obs.leave", 0, 0, vec![kvs("x", &xn(*x))]);
                        ractor::pg::leave(GROUP.to_string(), vec![p.get_cell()]);
                    }
                }
            }
            COp::SpawnLate => {
                let x = sc.hold.len();
                if sc.late && w.lock().unwrap().probes[x].is_none() {
                    verif::emit_kv("obs.spawn", 0, 0, vec![kvs("x", &xn(x))]);
                    if let Ok((p, _)) = Actor::spawn(None, Probe { x, hold: false }, ()).await {
                        w.lock().unwrap().probes[x] = Some(p);
                    }
                }
            }
            COp::Stop(x) => {
                let p = w.lock().unwrap().probes.get(*x).cloned().flatten();
                if let Some(p) = p {
                    p.stop(Some("verif".into()));
                }
            }
            COp::Flush(x, mode) => {
                let p = w.lock().unwrap().probes.get(*x).cloned().flatten();
                if let Some(p) = p {
                    let _ = p.cast(ProbeMsg::Flush(*mode));
                }
            }
            COp::Cut => {
                let r = w.lock().unwrap().relay.clone();
                if let Some(r) = r {
                    verif::emit_kv("obs.cut", 0, 0, vec![]);
                    r.cut();
                }
            }
        }
    }
}

async fn main_task(w: W, sc: Arc<Scenario>) {
    let Some((a, _ha)) = cluster2::spawn_node("a", "cookie").await else { return };
    let Some((b, _hb)) = cluster2::spawn_node("b", "cookie").await else { return };
    // B's first session id is spent on a connection that is closed at once, so that the two real
    // sessions (and the proxies they own) have different node ids
    {
        let (dd, aa) = cluster2::pipe_pair("junk");
        drop(dd);
        let _ = b.cast(ractor_cluster::NodeServerMessage::ConnectionOpenedExternal { stream: Box::new(aa), is_server: true });
        let _ = ractor::call_t!(b, ractor_cluster::NodeServerMessage::GetSessions, 10_000);
    }
    let n0 = sc.hold.len();
    for x in 0..n0 {
        if let Ok((p, _)) = Actor::spawn(None, Probe { x, hold: sc.hold[x] }, ()).await {
            w.lock().unwrap().probes[x] = Some(p);
        }
    }
    let (dd, aa, relay) = cluster2::relayed_pair("c1", sc.relay_seed, None);
    w.lock().unwrap().relay = Some(relay.clone());
    cluster2::dial_with("c1", 7, dd, aa, &a, &b).await;
    // wait until both sessions are ready and hold a proxy for every initial probe
    let mut tries = 0;
    loop {
        tries += 1;
        if tries > 400 {
            return;
        }
        ractor::concurrency::sleep(Duration::from_millis(1)).await;
        let (Some(sa), Some(sb)) = (cluster2::ready_session(&a).await, cluster2::ready_session(&b).await) else { continue };
        {
            let mut g = w.lock().unwrap();
            g.sess = [Some(sa.0.get_cell()), Some(sb.0.get_cell())];
            g.node_ids = [sa.1, sb.1];
        }
        if (0..n0).all(|x| lookup(&w, 0, x).is_some() && lookup(&w, 1, x).is_some()) {
            break;
        }
    }
    {
        let g = w.lock().unwrap();
        if g.node_ids[0] == g.node_ids[1] {
            return;
        }
    }
    // frames are counted from here on
    if let Some(n) = sc.cut_after_frames {
        let mut g = relay.ctl.lock().unwrap();
        g.cut_after_frames = Some(g.frames + n);
    }
    relay.ctl.lock().unwrap().latency_ms = sc.latency_ms;
    w.lock().unwrap().started = true;
    verif::emit_kv("obs.start", 0, 0, vec![]);
    for (i, ops) in sc.callers.iter().enumerate() {
        let _ = ractor::concurrency::spawn_named(Some(&format!("caller{}", i + 1)), caller(w.clone(), i as u32 + 1, ops.clone()));
    }
    let _ = ractor::concurrency::spawn_named(Some("controller"), controller(w.clone(), sc.clone()));
    // final observation once everything is quiet (virtual time only moves when idle)
    ractor::concurrency::sleep(Duration::from_millis(850)).await;
    let members: Vec<ractor::ActorId> = ractor::pg::get_members(&GROUP.to_string()).iter().map(|c| c.get_id()).collect();
    let total = sc.hold.len() + usize::from(sc.late);
    let mut px = vec![];
    for d in 0..2 {
        for x in 0..total {
            let cell = lookup(&w, d, x);
            let (st, grp, refuses) = match &cell {
                None => ("none", 0, 0),
                Some(c) => {
                    let st = if c.get_status() == ActorStatus::Running { "live" } else if c.get_status() >= ActorStatus::Stopping { "stopped" } else { "starting" };
                    let grp = i64::from(members.contains(&c.get_id()));
                    let refuses = if st == "stopped" {
                        let r: ActorRef<ProbeMsg> = c.clone().into();
                        i64::from(r.cast(ProbeMsg::Cast(0, 0)).is_err())
                    } else {
                        0
                    };
                    (st, grp, refuses)
                }
            };
            let dir = if d == 0 { "ab" } else { "ba" };
            px.push(json!({"dir": dir, "x": xn(x), "st": st, "grp": grp, "refuses": refuses}));
        }
    }
    let mut pr = vec![];
    {
        let g = w.lock().unwrap();
        for x in 0..total {
            let (st, grp) = match &g.probes[x] {
                None => ("none", 0),
                Some(p) => (
                    if p.get_status() == ActorStatus::Running { "alive" } else { "dead" },
                    i64::from(members.contains(&p.get_id())),
                ),
            };
            pr.push(json!({"x": xn(x), "st": st, "grp": grp}));
        }
    }
    let up = cluster2::ready_session(&a).await.is_some() && cluster2::ready_session(&b).await.is_some();
    w.lock().unwrap().fin = Some(json!({"px": px, "pr": pr, "up": i64::from(up)}));
    verif::emit_kv("obs.final", 0, 0, vec![]);
    // leave nothing behind in the process-wide group
    let g = w.lock().unwrap();
    for p in g.probes.iter().flatten() {
        ractor::pg::leave(GROUP.to_string(), vec![p.get_cell()]);
    }
}

const KEEP: &[&str] = &[
    "obs.send", "obs.wrong", "obs.call_begin", "obs.ret", "obs.recv", "obs.reply", "obs.join", "obs.leave", "obs.spawn", "obs.cut", "proxy.fwd", "proxy.resolve",
    "sess.fwd", "sess.reply", "sess.ctl", "cleanup.pid",
];

fn kv_s(e: &Ev, k: &str) -> Option<String> {
    e.kv.iter().find(|(kk, _)| kk == k).and_then(|(_, v)| if let Val::S(s) = v { Some(s.clone()) } else { None })
}
fn kv_i(e: &Ev, k: &str) -> Option<i64> {
    e.kv.iter().find(|(kk, _)| kk == k).and_then(|(_, v)| if let Val::I(i) = v { Some(*i) } else { None })
}

fn base(a: &str, e: &Ev) -> Map<String, Value> {
    let mut m = Map::new();
    m.insert("a".into(), json!(a));
    m.insert("who".into(), json!(e.who));
    m.insert("obj".into(), json!(""));
    m.insert("d".into(), json!(e.d));
    m.insert("t".into(), json!(e.t));
    for k in ["x", "s", "k", "dir", "r", "vs"] {
        m.insert(k.into(), json!(kv_s(e, k).unwrap_or_default()));
    }
    for k in ["q", "vq", "tag", "ok", "hit"] {
        m.insert(k.into(), json!(kv_i(e, k).unwrap_or(0)));
    }
    m
}

pub fn one_run(sc: &Scenario, ex: &mut Explorer, dump: bool) -> (Vec<Value>, Value, bool) {
    let sc = Arc::new(sc.clone());
    let total = sc.hold.len() + usize::from(sc.late);
    let w: W = Arc::new(Mutex::new(World { probes: vec![None; total], sess: [None, None], node_ids: [0, 0], proxies: HashMap::new(), relay: None, fin: None, started: false, init_grp: vec![], unsettled: false }));
    let _ = RUN_SEQ.fetch_add(1, std::sync::atomic::Ordering::SeqCst);
    ractor_cluster::verif::clear_connection_ids();
    let (w2, sc2) = (w.clone(), sc.clone());
    let run = run_t(
        ex,
        40_000,
        950,
        &mut NoBetween,
        move || async move {
            let _ = ractor::concurrency::spawn_named(Some("main"), main_task(w2, sc2));
        },
        || {},
    );
    let g = w.lock().unwrap();
    let pid_x: HashMap<u64, usize> = g.probes.iter().enumerate().filter_map(|(x, p)| p.as_ref().map(|p| (p.get_id().pid(), x))).collect();
    let nid_d: HashMap<i64, &str> = [(g.node_ids[0] as i64, "ab"), (g.node_ids[1] as i64, "ba")].into_iter().collect();
    // which task runs which probe
    let mut probe_task: HashMap<String, usize> = HashMap::new();
    for e in &run.events {
        if e.a == "obs.probe_task" {
            if let Some(x) = kv_s(e, "x") {
                probe_task.insert(e.who.clone(), x[1..].parse::<usize>().unwrap_or(1) - 1);
            }
        }
    }
    let mut evs: Vec<Value> = vec![];
    let mut started = false;
    for e in &run.events {
        if dump && (e.a.starts_with("obs.") || e.a.starts_with("proxy.") || e.a.starts_with("sess.") || e.a == "cleanup.pid") {
            eprintln!("{:>5} {:>4} {:<16} obj={} d={} {:?}", e.t, e.who, e.a, e.obj, e.d, e.kv);
        }
        if e.a == "obs.start" {
            started = true;
            continue;
        }
        if e.a == "obs.final" {
            break;
        }
        if !started || !KEEP.contains(&e.a.as_str()) {
            continue;
        }
        let mut m = base(&e.a, e);
        match e.a.as_str() {
            "proxy.fwd" | "proxy.resolve" => {
                let (Some(x), Some(dir)) = (pid_x.get(&e.obj), kv_i(e, "node_id").and_then(|n| nid_d.get(&n))) else { continue };
                m.insert("x".into(), json!(xn(*x)));
                m.insert("dir".into(), json!(dir));
                m.insert("tag".into(), json!(e.d));
            }
            "sess.fwd" => {
                // a request frame handled by node B's session travelled a -> b
                let Some(x) = pid_x.get(&e.obj) else { continue };
                m.insert("x".into(), json!(xn(*x)));
                m.insert("dir".into(), json!(if kv_s(e, "node").as_deref() == Some("b@h") { "ab" } else { "ba" }));
                m.insert("tag".into(), json!(e.d));
            }
            "sess.reply" | "sess.ctl" => {
                // reply and control frames travel towards the session that owns the proxy
                let Some(x) = pid_x.get(&e.obj) else { continue };
                if e.a == "sess.ctl" && matches!(kv_s(e, "k").as_deref(), Some("join") | Some("leave")) && kv_s(e, "group").as_deref() != Some(GROUP) {
                    continue;
                }
                m.insert("x".into(), json!(xn(*x)));
                m.insert("dir".into(), json!(if kv_s(e, "node").as_deref() == Some("a@h") { "ab" } else { "ba" }));
                m.insert("tag".into(), json!(e.d));
            }
            "cleanup.pid" => {
                // only the probes' own exits (proxies carry the same pid)
                let Some(x) = probe_task.get(&e.who) else { continue };
                m.insert("a".into(), json!("obs.exit"));
                m.insert("x".into(), json!(xn(*x)));
            }
            _ => {}
        }
        evs.push(Value::Object(m));
    }
    let fin = g.fin.clone();
    let ok = fin.is_some();
    let f = fin.unwrap_or_else(|| json!({"px": [], "pr": [], "up": 0}));
    let mut m = Map::new();
    for (k, v) in [("a", json!("obs.end")), ("who", json!("drv")), ("obj", json!("")), ("d", json!(0)), ("t", json!(0))] {
        m.insert(k.into(), v);
    }
    for k in ["x", "s", "k", "dir", "r", "vs"] {
        m.insert(k.into(), json!(""));
    }
    for k in ["q", "vq", "tag", "ok", "hit"] {
        m.insert(k.into(), json!(0));
    }
    m.insert("ok".into(), json!(i64::from(ok)));
    m.insert("px".into(), f["px"].clone());
    m.insert("pr".into(), f["pr"].clone());
    m.insert("up".into(), f["up"].clone());
    evs.push(Value::Object(m));
    let bad = !ok || !run.quiescent || !g.started;
    let init: Vec<Value> = (0..total).map(|x| json!({"x": xn(x), "st": if x < sc.hold.len() { "alive" } else { "none" }, "grp": 0})).collect();
    let meta = json!({"family": "remoteactor", "scenario": format!("{:?}", sc), "init": init, "sched": ex.sched, "steps": run.steps, "quiescent": run.quiescent,
                      "started": g.started});
    (evs, meta, bad)
}

// ------------------------------------------------------------------------------------------------
// free-running variant: the same two nodes on a multi-thread runtime with the scheduler off. What engine T cannot
// interleave (two threads inside synchronous code, e.g. the pid registry's remove-then-notify against a session
// handling a request frame) happens here by real parallelism. Only observations whose position in the log is safe
// are kept: an intent is logged before its call, a result after it; a probe's exit is not logged at all - the
// controller logs the stop *request* and the specification takes the exit silently some time later.
// ------------------------------------------------------------------------------------------------
fn final_obs(w: &W, total: usize) -> Value {
    let members: Vec<ractor::ActorId> = ractor::pg::get_members(&GROUP.to_string()).iter().map(|c| c.get_id()).collect();
    let mut px = vec![];
    for d in 0..2 {
        for x in 0..total {
            let cell = lookup(w, d, x);
            let (st, grp, refuses) = match &cell {
                None => ("none", 0, 0),
                Some(c) => {
                    let st = if c.get_status() == ActorStatus::Running { "live" } else if c.get_status() >= ActorStatus::Stopping { "stopped" } else { "starting" };
                    let grp = i64::from(members.contains(&c.get_id()));
                    let refuses = if st == "stopped" {
                        let r: ActorRef<ProbeMsg> = c.clone().into();
                        i64::from(r.cast(ProbeMsg::Cast(0, 0)).is_err())
                    } else {
                        0
                    };
                    (st, grp, refuses)
                }
            };
            px.push(json!({"dir": if d == 0 { "ab" } else { "ba" }, "x": xn(x), "st": st, "grp": grp, "refuses": refuses}));
        }
    }
    let mut pr = vec![];
    let g = w.lock().unwrap();
    for x in 0..total {
        let (st, grp) = match &g.probes[x] {
            None => ("none", 0),
            Some(p) => (if p.get_status() == ActorStatus::Running { "alive" } else { "dead" }, i64::from(members.contains(&p.get_id()))),
        };
        pr.push(json!({"x": xn(x), "st": st, "grp": grp}));
    }
    json!({"px": px, "pr": pr})
}

async fn free_task(w: W, seed: u64, total: usize) {
    let mut rng = Rng(seed);
    let Some((a, _ha)) = cluster2::spawn_node("a", "cookie").await else { return };
    let Some((b, _hb)) = cluster2::spawn_node("b", "cookie").await else { return };
    {
        let (dd, aa) = cluster2::pipe_pair("junk");
        drop(dd);
        let _ = b.cast(ractor_cluster::NodeServerMessage::ConnectionOpenedExternal { stream: Box::new(aa), is_server: true });
        let _ = ractor::call_t!(b, ractor_cluster::NodeServerMessage::GetSessions, 10_000);
    }
    let mut handles = vec![];
    for x in 0..total {
        if let Ok((p, h)) = Actor::spawn(None, Probe { x, hold: false }, ()).await {
            w.lock().unwrap().probes[x] = Some(p);
            handles.push(h);
        }
    }
    // many groups make the session's start-up scan of the process groups long; a plain OS thread keeps joining and
    // leaving the probes to / from GROUP while the sessions are being established (what is joined when the sessions
    // are ready is the initial membership of the run, and the proxies have to mirror it)
    let run_no = RUN_SEQ.load(std::sync::atomic::Ordering::SeqCst);
    if let Some(p0) = w.lock().unwrap().probes[0].clone() {
        for g in 0..200 {
            ractor::pg::join(format!("verif-c20-ballast-{run_no}-{g}"), vec![p0.get_cell()]);
        }
    }
    let stop_join = Arc::new(std::sync::atomic::AtomicBool::new(false));
    let joiner = {
        let cells: Vec<ActorCell> = w.lock().unwrap().probes.iter().flatten().map(|p| p.get_cell()).collect();
        let sj = stop_join.clone();
        let mut jr = Rng(seed ^ 0x6a6f696e);
        std::thread::spawn(move || {
            // every probe joins GROUP at most once, at its own instant somewhere in the few milliseconds the sessions
            // need to come up: a join that the start-up scan misses is never repaired by a later one
            let mut member = vec![false; cells.len()];
            let mut plan: Vec<(u64, usize)> = vec![];
            for x in 0..cells.len() {
                if jr.below(4) > 0 {
                    plan.push((jr.below(5000) as u64, x));
                }
            }
            plan.sort();
            let t0 = std::time::Instant::now();
            for (at_us, x) in plan {
                while t0.elapsed() < Duration::from_micros(at_us) {
                    if sj.load(std::sync::atomic::Ordering::Relaxed) {
                        return member;
                    }
                    std::hint::spin_loop();
                }
                ractor::pg::join(GROUP.to_string(), vec![cells[x].clone()]);
                member[x] = true;
            }
            member
        })
    };
    let (dd, aa, relay) = cluster2::relayed_pair("c1", rng.next(), None);
    w.lock().unwrap().relay = Some(relay.clone());
    cluster2::dial_with("c1", 7, dd, aa, &a, &b).await;
    let mut tries = 0;
    loop {
        tries += 1;
        if tries > 3000 {
            stop_join.store(true, std::sync::atomic::Ordering::Relaxed);
            let _ = joiner.join();
            return;
        }
        ractor::concurrency::sleep(Duration::from_millis(1)).await;
        let (Some(sa), Some(sb)) = (cluster2::ready_session(&a).await, cluster2::ready_session(&b).await) else { continue };
        {
            let mut g = w.lock().unwrap();
            g.sess = [Some(sa.0.get_cell()), Some(sb.0.get_cell())];
            g.node_ids = [sa.1, sb.1];
        }
        if (0..total).all(|x| lookup(&w, 0, x).is_some() && lookup(&w, 1, x).is_some()) {
            break;
        }
    }
    tokio::time::sleep(Duration::from_micros(300 + rng.below(2000) as u64)).await;
    stop_join.store(true, std::sync::atomic::Ordering::Relaxed);
    let member = joiner.join().unwrap_or_default();
    w.lock().unwrap().init_grp = member;
    {
        let g = w.lock().unwrap();
        if g.node_ids[0] == g.node_ids[1] {
            return;
        }
    }
    w.lock().unwrap().started = true;
    if std::env::var("RAF_TIMING").is_ok() {
        eprintln!("ready after {} tries", tries);
    }
    verif::emit_kv("obs.start", 0, 0, vec![]);
    // background load through every proxy (not logged: sender s0)
    let stop_flood = Arc::new(std::sync::atomic::AtomicBool::new(false));
    let mut flooders = vec![];
    for d in 0..2 {
        for x in 0..total {
            let Some(cell) = lookup(&w, d, x) else { continue };
            let r: ActorRef<ProbeMsg> = cell.into();
            let sf = stop_flood.clone();
            flooders.push(tokio::spawn(async move {
                while !sf.load(std::sync::atomic::Ordering::Relaxed) {
                    for _ in 0..32 {
                        if r.cast(ProbeMsg::Cast(0, 0)).is_err() {
                            return;
                        }
                    }
                    tokio::task::yield_now().await;
                }
            }));
        }
    }
    // two callers, three calls each, to probes that may be stopping meanwhile
    let mut callers = vec![];
    for s in 1..=2u32 {
        let ops: Vec<ROp> = (0..3).map(|_| ROp::Call { d: rng.below(2), x: rng.below(total), timeout_ms: 250 }).collect();
        callers.push(tokio::spawn(caller_impl(w.clone(), s, ops, true)));
    }
    // the controller stops the probes one after the other
    let mut order: Vec<usize> = (0..total).collect();
    for i in (1..order.len()).rev() {
        order.swap(i, rng.below(i + 1));
    }
    let nstop = 1 + rng.below(total);
    for x in order.into_iter().take(nstop) {
        tokio::time::sleep(Duration::from_micros(200 + rng.below(1500) as u64)).await;
        let p = w.lock().unwrap().probes[x].clone();
        if let Some(p) = p {
            verif::emit_kv("obs.stopreq", 0, 0, vec![kvs("x", &xn(x))]);
            p.stop(Some("verif".into()));
        }
    }
    for c in callers {
        let _ = tokio::time::timeout(Duration::from_secs(20), c).await;
    }
    tokio::time::sleep(Duration::from_millis(2)).await;
    stop_flood.store(true, std::sync::atomic::Ordering::Relaxed);
    for f in flooders {
        let _ = f.await;
    }
    // every path is FIFO: once an (unlogged) call through a proxy has come back, everything sent that way before it
    // has reached the probe - no logged request is still on its way when the final observation is taken
    for d in 0..2 {
        for x in 0..total {
            let alive = w.lock().unwrap().probes[x].as_ref().map(|p| p.get_status() == ActorStatus::Running).unwrap_or(false);
            if !alive {
                continue;
            }
            if let Some(cell) = lookup(&w, d, x) {
                let r: ActorRef<ProbeMsg> = cell.into();
                let synced = matches!(r.call(|tx| ProbeMsg::Call(0, 0, tx), Some(Duration::from_secs(10))).await, Ok(CallResult::Success(_)));
                if !synced {
                    // the path to a live probe did not answer within 10 s (an overloaded machine): logged requests may still
                    // be on their way, the run cannot be judged and is dropped (counted in bad_runs)
                    return;
                }
            }
        }
    }
    // wait until the remote references reflect their originals (or give up: the final observation then shows it)
    let t0 = std::time::Instant::now();
    loop {
        let settled = {
            let probes: Vec<Option<ActorRef<ProbeMsg>>> = w.lock().unwrap().probes.clone();
            (0..total).all(|x| {
                let dead = probes[x].as_ref().map(|p| p.get_status() == ActorStatus::Stopped).unwrap_or(true);
                let running = probes[x].as_ref().map(|p| p.get_status() == ActorStatus::Running).unwrap_or(false);
                let members: Vec<ractor::ActorId> = ractor::pg::get_members(&GROUP.to_string()).iter().map(|c| c.get_id()).collect();
                let orig_in = probes[x].as_ref().map(|p| members.contains(&p.get_id())).unwrap_or(false);
                (0..2).all(|d| match lookup(&w, d, x) {
                    None => true,
                    Some(c) => {
                        (dead && c.get_status() == ActorStatus::Stopped)
                            || (running && c.get_status() == ActorStatus::Running && members.contains(&c.get_id()) == orig_in)
                    }
                })
            })
        };
        if settled {
            break;
        }
        if t0.elapsed() > Duration::from_secs(10) {
            w.lock().unwrap().unsettled = true;
            break;
        }
        tokio::time::sleep(Duration::from_millis(2)).await;
    }
    if std::env::var("RAF_TIMING").is_ok() {
        eprintln!("settled after {:?}", t0.elapsed());
    }
    tokio::time::sleep(Duration::from_millis(20)).await;
    let mut f = final_obs(&w, total);
    let up = cluster2::ready_session(&a).await.is_some() && cluster2::ready_session(&b).await.is_some();
    f["up"] = json!(i64::from(up));
    w.lock().unwrap().fin = Some(f);
    verif::emit_kv("obs.final", 0, 0, vec![]);
    a.stop(None);
    b.stop(None);
    for p in w.lock().unwrap().probes.iter().flatten() {
        p.stop(None);
    }
}

pub fn one_run_free(seed: u64) -> (Vec<Value>, Value, bool) {
    let total = 3;
    let w: W = Arc::new(Mutex::new(World { probes: vec![None; total], sess: [None, None], node_ids: [0, 0], proxies: HashMap::new(), relay: None, fin: None, started: false, init_grp: vec![], unsettled: false }));
    let _ = RUN_SEQ.fetch_add(1, std::sync::atomic::Ordering::SeqCst);
    ractor_cluster::verif::clear_connection_ids();
    verif::enable(true);
    let _ = verif::take_events();
    verif::sched_enable(false);
    let rt = tokio::runtime::Builder::new_multi_thread().worker_threads(4).enable_all().build().expect("runtime");
    rt.block_on(free_task(w.clone(), seed, total));
    let events = verif::take_events();
    verif::enable(false);
    rt.shutdown_background();
    verif::enable(true);
    let _ = verif::take_events();
    let g = w.lock().unwrap();
    let mut evs: Vec<Value> = vec![];
    let mut started = false;
    for e in &events {
        if e.a == "obs.start" {
            started = true;
            continue;
        }
        if e.a == "obs.final" {
            break;
        }
        if !started || !["obs.call_begin", "obs.ret", "obs.recv", "obs.reply", "obs.stopreq"].contains(&e.a.as_str()) {
            continue;
        }
        if kv_s(e, "s").as_deref() == Some("s0") {
            continue; // background load
        }
        evs.push(Value::Object(base(&e.a, e)));
    }
    let fin = g.fin.clone();
    let ok = fin.is_some();
    let f = fin.unwrap_or_else(|| json!({"px": [], "pr": [], "up": 0}));
    let mut m = Map::new();
    for (k, v) in [("a", json!("obs.end")), ("who", json!("drv")), ("obj", json!("")), ("d", json!(0)), ("t", json!(0))] {
        m.insert(k.into(), v);
    }
    for k in ["x", "s", "k", "dir", "r", "vs"] {
        m.insert(k.into(), json!(""));
    }
    for k in ["q", "vq", "tag", "ok", "hit"] {
        m.insert(k.into(), json!(0));
    }
    m.insert("ok".into(), json!(i64::from(ok)));
    m.insert("px".into(), f["px"].clone());
    m.insert("pr".into(), f["pr"].clone());
    m.insert("up".into(), f["up"].clone());
    evs.push(Value::Object(m));
    let init: Vec<Value> = (0..total).map(|x| json!({"x": xn(x), "st": "alive", "grp": i64::from(g.init_grp.get(x).copied().unwrap_or(false))})).collect();
    let meta = json!({"family": "remoteactor-free", "scenario": format!("free seed={seed}"), "init": init, "sched": [], "steps": 0, "quiescent": true, "started": g.started,
                      "unsettled": g.unsettled});
    (evs, meta, !ok || !g.started)
}

pub fn batch_free(out: &str, tier: &str, seed: u64) -> Value {
    let mut b = Batch::new(Some(out));
    let n = if tier == "thorough" { 600 } else { 120 };
    let mut rng = Rng(seed ^ 0x66726565);
    let mut bad_runs = 0u64;
    let mut unsettled_runs = 0u64;
    for _ in 0..n {
        let (evs, meta, bad) = one_run_free(rng.next());
        if bad {
            bad_runs += 1;
            continue; // the nodes never got ready: nothing was exercised
        }
        let unsettled = meta["unsettled"].as_bool().unwrap_or(false);
        b.run(meta, &evs);
        if unsettled {
            // every such run costs 10 s and is a rejection by itself: a handful is enough
            unsettled_runs += 1;
            if unsettled_runs >= 6 {
                break;
            }
        }
    }
    b.finish();
    json!({"family": "remoteactor-free", "runs": b.runs, "events": b.events, "distinct": b.hashes.len(), "distinct_nontrivial": b.hashes.len(), "bad_runs": bad_runs, "samples": b.samples})
}

// ------------------------------------------------------------------------------------------------
// scenarios
// ------------------------------------------------------------------------------------------------
pub fn micro_scenarios() -> Vec<Scenario> {
    use COp as C;
    use ROp::*;
    vec![
        // two callers through the same proxy, replies released in reverse order, one caller gives up early
        Scenario {
            hold: vec![true],
            late: false,
            callers: vec![
                vec![Call { d: 0, x: 0, timeout_ms: 5 }, Call { d: 0, x: 0, timeout_ms: 300 }],
                vec![Cast { d: 0, x: 0 }, Call { d: 0, x: 0, timeout_ms: 300 }, Cast { d: 0, x: 0 }],
            ],
            ctl: vec![C::Sleep(20), C::Flush(0, 1), C::Sleep(20), C::Flush(0, 0)],
            cut_after_frames: None,
            relay_seed: 1,
            latency_ms: 0,
        },
        // a slow link: the first caller gives up while the reply to its call is still in flight; the next
        // call through the same proxy is made before that late reply arrives (abandoned + outstanding calls)
        Scenario {
            hold: vec![true],
            late: false,
            callers: vec![
                vec![Call { d: 0, x: 0, timeout_ms: 25 }],
                vec![Sleep(26), Call { d: 0, x: 0, timeout_ms: 300 }, Call { d: 0, x: 0, timeout_ms: 300 }],
            ],
            ctl: vec![C::Sleep(22), C::Flush(0, 0), C::Sleep(40), C::Flush(0, 0), C::Sleep(40), C::Flush(0, 0)],
            cut_after_frames: None,
            relay_seed: 6,
            latency_ms: 10,
        },
        // the same in the other direction with two abandoned calls and a cast in between
        Scenario {
            hold: vec![true],
            late: false,
            callers: vec![
                vec![Call { d: 1, x: 0, timeout_ms: 12 }, Call { d: 1, x: 0, timeout_ms: 12 }, Cast { d: 1, x: 0 }, Call { d: 1, x: 0, timeout_ms: 200 }],
                vec![Sleep(14), Call { d: 1, x: 0, timeout_ms: 200 }],
            ],
            ctl: vec![C::Sleep(10), C::Flush(0, 0), C::Sleep(13), C::Flush(0, 1), C::Sleep(30), C::Flush(0, 0), C::Sleep(30), C::Flush(0, 0)],
            cut_after_frames: None,
            relay_seed: 7,
            latency_ms: 5,
        },
        // both directions at once, immediate replies, the probe joins and leaves the group meanwhile
        Scenario {
            hold: vec![false],
            late: false,
            callers: vec![vec![Call { d: 0, x: 0, timeout_ms: 300 }, Wrong { d: 0, x: 0 }, Cast { d: 0, x: 0 }], vec![Wrong { d: 1, x: 0 }, Call { d: 1, x: 0, timeout_ms: 300 }, Cast { d: 1, x: 0 }]],
            ctl: vec![C::Join(0), C::Pause, C::Leave(0), C::Join(0)],
            cut_after_frames: None,
            relay_seed: 2,
            latency_ms: 0,
        },
        // the original stops while requests are on their way
        Scenario {
            hold: vec![true],
            late: false,
            callers: vec![vec![Call { d: 0, x: 0, timeout_ms: 100 }, Cast { d: 0, x: 0 }, Call { d: 0, x: 0, timeout_ms: 100 }], vec![Cast { d: 1, x: 0 }, Call { d: 1, x: 0, timeout_ms: 100 }]],
            ctl: vec![C::Join(0), C::Pause, C::Stop(0)],
            cut_after_frames: None,
            relay_seed: 3,
            latency_ms: 0,
        },
        // the connection is cut while calls are outstanding
        Scenario {
            hold: vec![true],
            late: false,
            callers: vec![vec![Call { d: 0, x: 0, timeout_ms: 200 }, Cast { d: 0, x: 0 }], vec![Call { d: 1, x: 0, timeout_ms: 200 }]],
            ctl: vec![C::Join(0), C::Pause, C::Pause, C::Cut, C::Sleep(10), C::Flush(0, 0)],
            cut_after_frames: None,
            relay_seed: 4,
            latency_ms: 0,
        },
        // a late probe: proxies appear, join, get used, and the probe exits
        Scenario {
            hold: vec![false],
            late: true,
            callers: vec![vec![Pause, Pause, Call { d: 0, x: 1, timeout_ms: 100 }, Cast { d: 1, x: 1 }, Call { d: 0, x: 0, timeout_ms: 100 }]],
            ctl: vec![C::SpawnLate, C::Join(1), C::Sleep(5), C::Stop(1)],
            cut_after_frames: None,
            relay_seed: 5,
            latency_ms: 0,
        },
    ]
}

pub fn rand_scenario(rng: &mut Rng) -> Scenario {
    let n0 = 1 + rng.below(2);
    let late = rng.chance(1, 4);
    let total = n0 + usize::from(late);
    let hold: Vec<bool> = (0..n0).map(|_| rng.chance(1, 2)).collect();
    let ncallers = 1 + rng.below(3);
    let mut left = 6usize;
    let mut abandons = 0;
    let mut callers = vec![];
    for _ in 0..ncallers {
        let mut ops = vec![];
        let n = 1 + rng.below(3);
        for _ in 0..n {
            if left == 0 {
                break;
            }
            left -= 1;
            let d = rng.below(2);
            let x = rng.below(total);
            if rng.chance(1, 10) {
                ops.push(ROp::Wrong { d, x });
            }
            if rng.chance(2, 5) {
                ops.push(ROp::Cast { d, x });
            } else {
                let short = abandons < 2 && rng.chance(1, 3);
                abandons += usize::from(short);
                ops.push(ROp::Call { d, x, timeout_ms: if short { 3 } else { 150 } });
            }
            if rng.chance(1, 3) {
                ops.push(ROp::Pause);
            }
        }
        callers.push(ops);
    }
    let mut ctl = vec![];
    if late {
        ctl.push(COp::SpawnLate);
    }
    let nctl = 1 + rng.below(4);
    let mut cut = false;
    for _ in 0..nctl {
        let x = rng.below(total);
        ctl.push(match rng.below(12) {
            0 | 1 => COp::Join(x),
            2 => COp::Leave(x),
            3 => COp::Stop(x),
            4 if !cut => {
                cut = true;
                COp::Cut
            }
            5 | 6 => COp::Flush(x.min(n0 - 1), rng.below(2) as u32),
            7 => COp::Sleep(5),
            _ => COp::Pause,
        });
    }
    // held replies are eventually released
    for (x, h) in hold.iter().enumerate() {
        if *h {
            ctl.push(COp::Sleep(10));
            ctl.push(COp::Flush(x, rng.below(2) as u32));
        }
    }
    let cut_after_frames = if !cut && rng.chance(1, 6) { Some(1 + rng.below(8) as u64) } else { None };
    let latency_ms = [0, 0, 0, 2, 4, 9][rng.below(6)];
    Scenario { hold, late, callers, ctl, cut_after_frames, relay_seed: rng.next(), latency_ms }
}

pub fn batch(out: &str, tier: &str, seed: u64) -> Value {
    let mut b = Batch::new(Some(out));
    let thorough = tier == "thorough";
    let (dfs_cap, nrand, per) = if thorough { (800usize, 2500usize, 2usize) } else { (120usize, 450usize, 2usize) };
    let mut nontrivial = std::collections::HashSet::new();
    let mut bad_runs = 0u64;
    let mut steps = 0u64;
    for sc in micro_scenarios() {
        let mut ex = Explorer::new(Mode::Dfs { preempt_bound: Some(1) }, seed);
        let mut n = 0;
        loop {
            ex.begin_run();
            let (evs, meta, bad) = one_run(&sc, &mut ex, false);
            steps += meta["steps"].as_u64().unwrap_or(0);
            let h = b.run(meta, &evs);
            if ex.nontrivial {
                nontrivial.insert(h);
            }
            bad_runs += u64::from(bad);
            n += 1;
            if !ex.end_run() || n >= dfs_cap {
                break;
            }
        }
    }
    let mut rng = Rng(seed ^ 0x72656d6f);
    for _ in 0..nrand {
        let sc = rand_scenario(&mut rng);
        let mut ex = Explorer::new(Mode::Random, rng.next());
        for _ in 0..per {
            ex.begin_run();
            let (evs, meta, bad) = one_run(&sc, &mut ex, false);
            steps += meta["steps"].as_u64().unwrap_or(0);
            let h = b.run(meta, &evs);
            if ex.nontrivial {
                nontrivial.insert(h);
            }
            bad_runs += u64::from(bad);
        }
    }
    // bursts: several large casts wait for the session's writer task at the same moment (what it writes in one go is
    // then far larger than usual); every one of them has to arrive, in order, followed by the call
    for k in 0..(if thorough { 300 } else { 60 }) {
        let d = k % 2;
        let sc = Scenario {
            hold: vec![false],
            late: false,
            callers: vec![vec![ROp::Burst { d, x: 0, n: 5, kib: 24 }, ROp::Call { d, x: 0, timeout_ms: 300 }]],
            ctl: vec![COp::Join(0)],
            cut_after_frames: None,
            relay_seed: 40 + k as u64,
            latency_ms: (k as u64 / 2) % 2,
        };
        let mut ex = Explorer::new(Mode::Random, rng.next());
        ex.begin_run();
        let (evs, meta, bad) = one_run(&sc, &mut ex, false);
        steps += meta["steps"].as_u64().unwrap_or(0);
        let h = b.run(meta, &evs);
        if ex.nontrivial {
            nontrivial.insert(h);
        }
        bad_runs += u64::from(bad);
    }
    b.finish();
    json!({"family": "remoteactor", "runs": b.runs, "events": b.events, "distinct": b.hashes.len(), "distinct_nontrivial": nontrivial.len(),
           "bad_runs": bad_runs, "steps": steps, "samples": b.samples})
}

pub fn dispatch(cmd: &str, a: &HashMap<String, String>) -> Option<Value> {
    let (out, tier, seed) = crate::common(a);
    match cmd {
        "remoteactor" => Some(batch(&out, &tier, seed)),
        "remoteactor-free" => Some(batch_free(&out, &tier, seed)),
        "remoteactor-demo" => {
            let which: usize = a.get("scenario").and_then(|s| s.parse().ok()).unwrap_or(0);
            let sc = micro_scenarios()[which].clone();
            let mut ex = Explorer::new(Mode::Random, seed);
            ex.begin_run();
            let (evs, meta, bad) = one_run(&sc, &mut ex, a.contains_key("dump"));
            for e in &evs {
                println!("{e}");
            }
            eprintln!("meta steps={} bad={bad} started={}", meta["steps"], meta["started"]);
            Some(json!({"ok": true}))
        }
        _ => None,
    }
}
