//! Family `framing` (C19 a): (stream, chunking) pairs fed to the session's own frame reader
//! (`read_network_message` behind `verif::read_frame`) through a chunked in-memory byte source.
//! Direct calls, no scheduler: the source is always ready, the only nondeterminism is the input.
use crate::trace::{Batch, Rng};
use ractor::verif::{self, Ev, Val};
use ractor_cluster::verif::{encode_frame, node_proto, read_frame, FrameReader, NetworkMessage};
use serde_json::{json, Map, Value};
use std::pin::Pin;
use std::sync::atomic::{AtomicUsize, Ordering};
use std::sync::Arc;
use std::task::{Context, Poll};
use tokio::io::{AsyncRead, ReadBuf};

pub const MAX: u64 = 16;
/// lengths above this are reported as this value (TLC integers are 32 bit); only "> Max" matters
pub const CLAMP: u64 = 1_000_000;

#[derive(Clone, Debug, PartialEq)]
pub enum Chunk {
    K(usize),
    All,
    Rand(u64),
}

#[derive(Clone, Debug, PartialEq)]
pub struct Frame {
    pub len: u64,
    pub valid: bool,
}

/// A byte source that hands out at most k bytes per read and records what it was asked for
pub struct ChunkReader {
    data: Vec<u8>,
    pos: usize,
    chunk: Chunk,
    rng: Rng,
    pub maxreq: Arc<AtomicUsize>,
}

impl AsyncRead for ChunkReader {
    fn poll_read(mut self: Pin<&mut Self>, _cx: &mut Context<'_>, buf: &mut ReadBuf<'_>) -> Poll<std::io::Result<()>> {
        let req = buf.remaining();
        self.maxreq.fetch_max(req, Ordering::SeqCst);
        let avail = self.data.len() - self.pos;
        let k = match self.chunk {
            Chunk::K(k) => k,
            Chunk::All => usize::MAX,
            Chunk::Rand(_) => 1 + self.rng.below(11),
        };
        let n = req.min(k).min(avail);
        let p = self.pos;
        buf.put_slice(&self.data[p..p + n]);
        self.pos += n;
        verif::emit_kv("obs.read", 0, 0, vec![("req".into(), Val::I(req.min(CLAMP as usize) as i64)), ("n".into(), Val::I(n as i64))]);
        Poll::Ready(Ok(()))
    }
}

fn cast(to: u64, what: usize) -> NetworkMessage {
    NetworkMessage {
        message: Some(ractor_cluster::verif::meta_proto::network_message::Message::Node(node_proto::NodeMessage {
            msg: Some(node_proto::node_message::Msg::Cast(node_proto::Cast { to, what: vec![0xab; what], variant: String::new(), metadata: None })),
        })),
    }
}

/// A decodable payload of exactly `len` bytes that carries `id` (when there is room for it)
pub fn valid_payload(len: usize, id: u64) -> Option<(Vec<u8>, NetworkMessage)> {
    let mut cands = vec![
        NetworkMessage { message: None },
        NetworkMessage { message: Some(ractor_cluster::verif::meta_proto::network_message::Message::Node(node_proto::NodeMessage { msg: None })) },
        cast(0, 0),
        cast(id, 0),
    ];
    for n in 1..=len {
        cands.push(cast(id, n));
    }
    for m in cands {
        let f = encode_frame(&m);
        if f.len() - 8 == len {
            return Some((f[8..].to_vec(), m));
        }
    }
    None
}

fn base(a: &str) -> Map<String, Value> {
    let mut m = Map::new();
    m.insert("a".into(), json!(a));
    m.insert("who".into(), json!("r"));
    m.insert("obj".into(), json!(""));
    m.insert("d".into(), json!(0));
    m.insert("t".into(), json!(0));
    m
}

fn conv(e: &Ev) -> Option<Value> {
    let mut m = base(&e.a);
    match e.a.as_str() {
        "obs.read" => {
            for (k, v) in &e.kv {
                if let Val::I(i) = v {
                    m.insert(k.clone(), json!(i));
                }
            }
        }
        "frame.len" => {
            m.insert("len".into(), json!(e.obj.min(CLAMP)));
        }
        "frame.buf" => {
            m.insert("len".into(), json!(e.obj.min(CLAMP)));
            m.insert("got".into(), json!(e.d));
        }
        _ => return None,
    }
    Some(Value::Object(m))
}

/// One run: build the byte stream, cut it, read frames until the first error.
pub fn one_run(frames: &[Frame], cut: Option<usize>, chunk: &Chunk) -> (Vec<Value>, Value) {
    let mut data: Vec<u8> = vec![];
    let mut sent: Vec<Option<NetworkMessage>> = vec![];
    for (i, f) in frames.iter().enumerate() {
        data.extend_from_slice(&f.len.to_be_bytes());
        if f.len <= MAX {
            if f.valid {
                let (p, m) = valid_payload(f.len as usize, i as u64 + 1).expect("no valid payload of that length");
                data.extend_from_slice(&p);
                sent.push(Some(m));
            } else {
                data.extend(std::iter::repeat(0xffu8).take(f.len as usize));
                sent.push(None);
            }
        } else {
            sent.push(None);
        }
    }
    let total = data.len();
    let cut = cut.unwrap_or(total).min(total);
    data.truncate(cut);
    verif::enable(true);
    let _ = verif::take_events();
    let maxreq = Arc::new(AtomicUsize::new(0));
    let seed = if let Chunk::Rand(s) = chunk { *s } else { 0 };
    let rd = ChunkReader { data, pos: 0, chunk: chunk.clone(), rng: Rng(seed), maxreq: maxreq.clone() };
    let mut fr = FrameReader::new(Box::new(rd));
    let mut evs: Vec<Value> = vec![];
    let mut st = base("obs.stream");
    st.insert(
        "frames".into(),
        json!(frames.iter().map(|f| json!({"len": f.len.min(CLAMP), "cls": if f.valid { "valid" } else { "undecodable" }})).collect::<Vec<_>>()),
    );
    st.insert("cut".into(), json!(cut));
    st.insert("chunk".into(), json!(format!("{chunk:?}")));
    evs.push(Value::Object(st));
    let mut decoded = 0usize;
    let mut panicked = false;
    loop {
        let r = std::panic::catch_unwind(std::panic::AssertUnwindSafe(|| futures::executor::block_on(read_frame(&mut fr, MAX))));
        for e in verif::take_events() {
            if let Some(j) = conv(&e) {
                evs.push(j);
            }
        }
        let mut m = base("obs.result");
        match r {
            Ok(Ok(msg)) => {
                let same = sent.get(decoded).and_then(|x| x.as_ref()).map(|x| *x == msg).unwrap_or(false);
                decoded += 1;
                m.insert("ok".into(), json!(1));
                m.insert("kind".into(), json!(""));
                m.insert("idx".into(), json!(decoded));
                m.insert("same".into(), json!(i64::from(same)));
                evs.push(Value::Object(m));
            }
            Ok(Err(e)) => {
                let kind = if e.kind() == std::io::ErrorKind::UnexpectedEof { "eof" } else if e.kind() == std::io::ErrorKind::InvalidData { "invalid" } else { "other" };
                m.insert("ok".into(), json!(0));
                m.insert("kind".into(), json!(kind));
                m.insert("idx".into(), json!(0));
                m.insert("same".into(), json!(0));
                evs.push(Value::Object(m));
                break;
            }
            Err(_) => {
                panicked = true;
                m.insert("ok".into(), json!(0));
                m.insert("kind".into(), json!("panic"));
                m.insert("idx".into(), json!(0));
                m.insert("same".into(), json!(0));
                evs.push(Value::Object(m));
                break;
            }
        }
        if decoded > frames.len() + 1 {
            break;
        }
    }
    verif::enable(false);
    let mut end = base("obs.end");
    end.insert("decoded".into(), json!(decoded));
    end.insert("maxreq".into(), json!(maxreq.load(Ordering::SeqCst).min(CLAMP as usize)));
    evs.push(Value::Object(end));
    let meta = json!({"family": "framing", "frames": frames.iter().map(|f| format!("{}{}", f.len, if f.valid { "v" } else { "u" })).collect::<Vec<_>>(),
                      "cut": cut, "total": total, "chunk": format!("{chunk:?}"), "panicked": panicked});
    (evs, meta)
}

pub fn frame_options() -> Vec<Frame> {
    vec![
        Frame { len: 0, valid: true },
        Frame { len: 1, valid: false },
        Frame { len: 6, valid: true },
        Frame { len: 6, valid: false },
        Frame { len: MAX, valid: true },
        Frame { len: MAX, valid: false },
        Frame { len: MAX + 1, valid: true },
        Frame { len: 1u64 << 40, valid: true },
        Frame { len: u64::MAX, valid: true },
    ]
}

fn streams_upto(n: usize) -> Vec<Vec<Frame>> {
    let opts = frame_options();
    let mut all: Vec<Vec<Frame>> = vec![vec![]];
    let mut layer: Vec<Vec<Frame>> = vec![vec![]];
    for _ in 0..n {
        let mut next = vec![];
        for s in &layer {
            for o in &opts {
                let mut t = s.clone();
                t.push(o.clone());
                next.push(t);
            }
        }
        all.extend(next.iter().cloned());
        layer = next;
    }
    all
}

pub fn batch(out: &str, tier: &str, seed: u64) -> Value {
    let mut b = Batch::new(Some(out));
    let thorough = tier == "thorough";
    let chunks = [Chunk::K(1), Chunk::K(7), Chunk::K(8), Chunk::K(9), Chunk::All];
    let mut nontrivial = std::collections::HashSet::new();
    let mut run = |b: &mut Batch, s: &[Frame], cut: Option<usize>, c: &Chunk| {
        let (evs, meta) = one_run(s, cut, c);
        let h = b.run(meta, &evs);
        if *c != Chunk::All || cut.is_some() {
            nontrivial.insert(h);
        }
    };
    // every stream of up to 3 (thorough: 4) frames under every fixed chunk size
    for s in streams_upto(if thorough { 4 } else { 3 }) {
        for c in &chunks {
            run(&mut b, &s, None, c);
        }
    }
    // truncation at every byte position of a few streams
    let v = |len: u64| Frame { len, valid: true };
    let u = |len: u64| Frame { len, valid: false };
    let mut cut_streams = vec![vec![v(6)], vec![v(MAX), v(6)], vec![v(0), u(MAX)], vec![v(MAX), v(MAX)]];
    if thorough {
        cut_streams.extend(vec![vec![v(6), v(0), v(MAX)], vec![u(6), v(6)], vec![v(MAX + 1), v(6)], vec![v(6), v(u64::MAX)], vec![v(0), v(0), v(0)]]);
    }
    for s in &cut_streams {
        let total: usize = s.iter().map(|f| 8 + if f.len <= MAX { f.len as usize } else { 0 }).sum();
        for cut in 0..=total {
            for c in [Chunk::K(1), Chunk::K(7), Chunk::K(9), Chunk::All] {
                run(&mut b, s, Some(cut), &c);
            }
        }
    }
    // seeded random streams of 3 frames, random chunking per read, random cut
    let mut rng = Rng(seed ^ 0x6672616d);
    let opts = frame_options();
    let nrand = if thorough { 20000 } else { 250 };
    for _ in 0..nrand {
        let n = 1 + rng.below(3);
        let s: Vec<Frame> = (0..n).map(|_| opts[rng.below(opts.len())].clone()).collect();
        let total: usize = s.iter().map(|f| 8 + if f.len <= MAX { f.len as usize } else { 0 }).sum();
        let cut = if rng.chance(1, 2) { Some(rng.below(total + 1)) } else { None };
        let c = match rng.below(4) {
            0 => Chunk::Rand(rng.next()),
            1 => Chunk::Rand(rng.next()),
            2 => Chunk::K(1 + rng.below(12)),
            _ => chunks[rng.below(chunks.len())].clone(),
        };
        run(&mut b, &s, cut, &c);
    }
    b.finish();
    json!({"family": "framing", "runs": b.runs, "events": b.events, "distinct": b.hashes.len(),
           "distinct_nontrivial": nontrivial.len(), "bad_runs": 0, "samples": b.samples})
}

pub fn dispatch(cmd: &str, a: &std::collections::HashMap<String, String>) -> Option<Value> {
    let (out, tier, seed) = crate::common(a);
    match cmd {
        "framing" => Some(batch(&out, &tier, seed)),
        _ => None,
    }
}
