//! Family `registry` (C10), engine H: spawner threads racing `ActorCell::new` under one name
//! (`verif::detached::<A>(Some(name))`), each successful spawn later exiting on its thread
//! (`set_status(Stopping)` of the loop, `Detached::finish`, `wait()`), looker threads
//! (`registry::where_is` + status read, `where_is_pid`, `registered`), and a proxy thread: a named
//! cell created the way ractor_cluster's RemoteActor is (`ActorCell::new_remote`).
//! `registry-repro` reproduces the recorded finding through the public API on a plain tokio runtime.
use crate::explore::{Explorer, Mode};
use crate::hctl::{run_threads, HThread};
use crate::trace::{ev_json, Batch, Names, Rng};
use ractor::verif::{self, Val};
use ractor::{Actor, ActorId, ActorProcessingErr, ActorRef, ActorStatus, Message, SpawnErr, SupervisionEvent};
use serde_json::{json, Value};
use std::collections::HashMap;
use std::sync::atomic::{AtomicU64, Ordering};
use std::sync::{Arc, Mutex};

pub struct RMsg;
impl Message for RMsg {}

pub struct Dummy;
#[cfg_attr(feature = "asynctrait", ractor::async_trait)]
impl Actor for Dummy {
    type Msg = RMsg;
    type State = ();
    type Arguments = ();
    async fn pre_start(&self, _: ActorRef<RMsg>, _: ()) -> Result<(), ActorProcessingErr> {
        Ok(())
    }
}

fn kvs(k: &str, v: &str) -> (String, Val) {
    (k.to_string(), Val::S(v.to_string()))
}
fn kvi(k: &str, v: i64) -> (String, Val) {
    (k.to_string(), Val::I(v))
}

static RUN_SEQ: AtomicU64 = AtomicU64::new(0);

#[derive(Clone, Debug)]
pub struct Shape {
    pub spawners: usize,
    pub att: usize,
    /// per spawner: the processing loop's own set_status(Stopping) precedes the guard
    pub pre: Vec<bool>,
    pub lookers: usize,
    pub looks: usize,
    pub proxy: bool,
    /// (spawner index, attempt) whose pid registration is made to fail
    pub pidfault: Option<(usize, usize)>,
    /// per spawner: the guard is dropped without a terminal event (failed start / cancelled start) instead of finish(evt)
    pub noevt: Vec<bool>,
    /// a thread that calls drain() on whatever actor was created last (drain must never move a status backwards)
    pub drainer: bool,
}

const KEEP: &[&str] = &[
    "obs.spawn_begin", "new.named", "new.pid", "new.pidfail", "new.rollback", "obs.spawn_ret", "status.set", "cleanup.pid",
    "cleanup.name", "obs.exit_begin", "obs.waited", "obs.proxy_new", "obs.where_is", "obs.lookup_st", "obs.where_is_pid", "obs.registered",
    "obs.stuck", "obs.end", "obs.drain",
];

pub fn one_run(shape: &Shape, ex: &mut Explorer) -> (Vec<Value>, Value, bool) {
    one_run_impl(shape, ex, None)
}

/// `free`: Some(spin counts) runs the same threads uncontrolled (see `run_threads_free`); only shapes without lookers,
/// drainer and proxy qualify (every line such a shape logs sits at a safe position), and internal lines are dropped.
fn one_run_impl(shape: &Shape, ex: &mut Explorer, free: Option<Vec<u32>>) -> (Vec<Value>, Value, bool) {
    let tag = RUN_SEQ.fetch_add(1, Ordering::SeqCst);
    let name = format!("reg-N-{tag}");
    // every local actor id created in this run (for pid lookups and the final projection)
    let known: Arc<Mutex<Vec<ActorId>>> = Arc::new(Mutex::new(vec![]));
    let cells: Arc<Mutex<Vec<ractor::ActorCell>>> = Arc::new(Mutex::new(vec![]));
    let mut threads: Vec<HThread> = vec![];
    for i in 0..shape.spawners {
        let (name, known, sh, cells) = (name.clone(), known.clone(), shape.clone(), cells.clone());
        threads.push(HThread {
            role: format!("s{}", i + 1),
            f: Box::new(move || {
                for k in 1..=sh.att {
                    verif::emit("obs.spawn_begin", 0, 0);
                    if sh.pidfault == Some((i, k)) {
                        verif::inject_pid_fault();
                    }
                    match verif::detached::<Dummy>(Some(name.clone())) {
                        Err(e) => {
                            let err = match &e {
                                SpawnErr::ActorAlreadyRegistered(n) if n.contains("PID") => "pid",
                                SpawnErr::ActorAlreadyRegistered(_) => "dup",
                                _ => "other",
                            };
                            verif::emit_kv("obs.spawn_ret", 0, 0, vec![kvi("ok", 0), kvs("err", err), kvs("rs", ""), kvi("rk", 0)]);
                            verif::point("s.failed", 0, 0);
                        }
                        Ok(mut det) => {
                            let cell = det.cell.clone();
                            known.lock().unwrap().push(cell.get_id());
                            cells.lock().unwrap().push(cell.clone());
                            verif::emit_kv("obs.spawn_ret", cell.get_id().pid(), 0, vec![kvi("ok", 1), kvs("err", ""), kvs("rs", &format!("s{}", i + 1)), kvi("rk", k as i64)]);
                            det.set_status(ActorStatus::Starting);
                            det.set_status(ActorStatus::Running);
                            verif::point("s.live", 0, 0);
                            // end of the live window: the actor looks itself up once more before it begins to stop
                            let me = ractor::registry::where_is(name.clone()).map(|c| c.get_id() == cell.get_id()).unwrap_or(false);
                            let mypid = ractor::registry::where_is_pid(cell.get_id()).is_some();
                            verif::emit_kv("obs.exit_begin", cell.get_id().pid(), i64::from(me), vec![kvi("pidreg", i64::from(mypid))]);
                            if sh.pre[i] {
                                det.set_status(ActorStatus::Stopping);
                            }
                            if sh.noevt[i] {
                                det.drop_guard();
                            } else {
                                det.finish(SupervisionEvent::ActorTerminated(cell.clone(), None, None));
                            }
                            verif::block_on_mini(cell.wait(None)).expect("untimed wait");
                            verif::emit("obs.waited", cell.get_id().pid(), 0);
                            det.drop_ports();
                            verif::point("s.next", 0, 0);
                        }
                    }
                }
            }),
        });
    }
    for i in 0..shape.lookers {
        let (name, known, looks) = (name.clone(), known.clone(), shape.looks);
        threads.push(HThread {
            role: format!("l{}", i + 1),
            f: Box::new(move || {
                for j in 0..looks {
                    match (i + j) % 3 {
                        0 | 1 => {
                            let r = ractor::registry::where_is(name.clone());
                            let pid = r.as_ref().map(|c| c.get_id().pid() as i64).unwrap_or(-1);
                            verif::emit_kv("obs.where_is", 0, 0, vec![kvi("pid", pid)]);
                            verif::point("lk.got", 0, 0);
                            let st = r.as_ref().map(|c| c.get_status() as i64).unwrap_or(-1);
                            verif::emit_kv("obs.lookup_st", 0, 0, vec![kvi("st", if (0..5).contains(&st) { 2 } else { st })]);
                        }
                        _ => {
                            let last = known.lock().unwrap().last().copied();
                            match last {
                                Some(id) => {
                                    let found = ractor::registry::where_is_pid(id).is_some();
                                    verif::emit_kv("obs.where_is_pid", 0, 0, vec![kvi("pid", id.pid() as i64), kvi("found", i64::from(found))]);
                                }
                                None => {
                                    let d = ractor::registry::registered().contains(&name);
                                    verif::emit("obs.registered", 0, i64::from(d));
                                }
                            }
                        }
                    }
                    verif::point("lk.next", 0, 0);
                }
            }),
        });
    }
    if shape.drainer {
        let cells = cells.clone();
        threads.push(HThread {
            role: "d1".into(),
            f: Box::new(move || {
                for _ in 0..3 {
                    let c = cells.lock().unwrap().last().cloned();
                    if let Some(c) = c {
                        verif::emit("obs.drain", 0, 0);
                        let _ = c.drain();
                    }
                    verif::point("dr.next", 0, 0);
                }
            }),
        });
    }
    if shape.proxy {
        let name = name.clone();
        threads.push(HThread {
            role: "p1".into(),
            f: Box::new(move || {
                let id = ActorId::Remote { node_id: 7, pid: 1_000_000 + tag };
                let mut det = verif::detached_remote_named::<Dummy>(Some(name.clone()), id).expect("remote cell");
                let cell = det.cell.clone();
                verif::emit("obs.proxy_new", 0, 0);
                det.set_status(ActorStatus::Starting);
                det.set_status(ActorStatus::Running);
                verif::point("p.live", 0, 0);
                verif::emit_kv("obs.exit_begin", 0, -1, vec![kvi("pidreg", -1)]);
                det.finish(SupervisionEvent::ActorTerminated(cell.clone(), None, None));
                verif::block_on_mini(cell.wait(None)).expect("untimed wait");
                verif::emit("obs.waited", 0, 0);
                det.drop_ports();
            }),
        });
    }
    let is_free = free.is_some();
    let run = match &free {
        Some(spin) => crate::hctl::run_threads_free(threads, spin),
        None => run_threads(threads, ex, 3000),
    };
    let mut names = Names::default();
    names.who = run.names.who.clone();
    // label actors (role, attempt): the attempt counter of a role moves at obs.spawn_begin, the pid shows at new.named
    let mut attc: HashMap<String, i64> = HashMap::new();
    let mut label: HashMap<u64, (String, i64)> = HashMap::new();
    for e in &run.events {
        let role = names.who(&e.who);
        if e.a == "obs.spawn_begin" {
            *attc.entry(role).or_insert(0) += 1;
        } else if e.a == "new.named" {
            label.insert(e.obj, (role.clone(), *attc.get(&role).unwrap_or(&0)));
        }
    }
    let lab = |pid: i64| -> (String, i64) {
        if pid < 0 {
            ("none".to_string(), 0)
        } else {
            label.get(&(pid as u64)).cloned().unwrap_or(("other".to_string(), 0))
        }
    };
    let roles: Vec<String> = names.who.values().cloned().collect();
    let mut evs: Vec<Value> = vec![];
    for e in &run.events {
        if !KEEP.contains(&e.a.as_str()) {
            continue;
        }
        // only steps taken by this run's threads on their own actors
        if !roles.contains(&names.who(&e.who)) {
            continue;
        }
        if e.a == "status.set" && e.d < 5 {
            continue;
        }
        if is_free && !e.a.starts_with("obs.") {
            continue;
        }
        let mut j = ev_json(e, &names);
        let o = j.as_object_mut().unwrap();
        if is_free && e.a == "obs.spawn_ret" && o.get("ok").and_then(|x| x.as_i64()) == Some(0) {
            // logged some time after the call returned: the trace specification decides the failure silently, earlier
            o.insert("a".into(), json!("obs.spawn_ret_free"));
        }
        if e.a == "obs.where_is" || e.a == "obs.where_is_pid" {
            let pid = e.kv.iter().find(|(k, _)| k == "pid").and_then(|(_, v)| if let Val::I(i) = v { Some(*i) } else { None }).unwrap_or(-1);
            let (rs, rk) = lab(pid);
            o.insert("rs".into(), json!(rs));
            o.insert("rk".into(), json!(rk));
            o.remove("pid");
        }
        evs.push(j);
    }
    for s in &run.stuck {
        evs.push(json!({"a": "obs.stuck", "who": s, "obj": "", "d": 0, "t": 0}));
    }
    let holder = ractor::registry::where_is(name.clone()).map(|c| c.get_id().pid() as i64).unwrap_or(-1);
    let (rs, rk) = lab(holder);
    let pids: Vec<Value> = known
        .lock()
        .unwrap()
        .iter()
        .filter(|id| ractor::registry::where_is_pid(**id).is_some())
        .map(|id| {
            let (a, b) = lab(id.pid() as i64);
            json!([a, b])
        })
        .collect();
    evs.push(json!({"a": "obs.end", "who": "drv", "obj": "", "d": 0, "t": 0, "rs": rs, "rk": rk, "pids": pids}));
    let bad = run.overrun || !run.stuck.is_empty();
    // Cheap triage (the specification stays the judge): two spawns returned Ok with overlapping live windows, or a
    // where_is that does not return the only actor inside its live window (spawn returned .. exit begun).
    let mut live: Vec<(String, i64)> = vec![];
    let mut suspect = false;
    for e in &evs {
        let a = e.get("a").and_then(|x| x.as_str()).unwrap_or("");
        let who = e.get("who").and_then(|x| x.as_str()).unwrap_or("").to_string();
        let rs = e.get("rs").and_then(|x| x.as_str()).unwrap_or("").to_string();
        let rk = e.get("rk").and_then(|x| x.as_i64()).unwrap_or(0);
        match a {
            "obs.spawn_ret" if e.get("ok").and_then(|x| x.as_i64()) == Some(1) => {
                suspect |= !live.is_empty();
                live.push((rs, rk));
            }
            "obs.exit_begin" => {
                suspect |= e.get("d").and_then(|x| x.as_i64()) == Some(0) || e.get("pidreg").and_then(|x| x.as_i64()) == Some(0);
                live.retain(|(r, _)| *r != who)
            }
            "obs.where_is" => suspect |= live.len() == 1 && live[0] != (rs, rk),
            _ => {}
        }
    }
    let meta = json!({"family": if is_free { "registry-free" } else { "registry" }, "shape": format!("{shape:?}"), "sched": ex.sched, "steps": run.steps,
                      "stuck": run.stuck, "overrun": run.overrun, "suspect": suspect});
    (evs, meta, bad)
}

pub fn shapes(tier: &str) -> Vec<Shape> {
    let mut v = vec![
        // three concurrent spawns of one name, one lookup thread
        Shape { spawners: 3, att: 1, pre: vec![false, true, false], lookers: 1, looks: 2, proxy: false, pidfault: None, noevt: vec![false; 3], drainer: false },
        // re-spawns: the loser retries after the holder exited (graceful exit: two set_status(Stopping) calls)
        Shape { spawners: 2, att: 2, pre: vec![true, true], lookers: 1, looks: 3, proxy: false, pidfault: None, noevt: vec![false; 3], drainer: false },
        // failed pid registration rolls the name back while a competitor spawns
        Shape { spawners: 2, att: 2, pre: vec![false, true], lookers: 1, looks: 2, proxy: false, pidfault: Some((0, 1)), noevt: vec![false; 3], drainer: false },
        // a remote proxy carrying the same name exits next to a local holder
        Shape { spawners: 2, att: 1, pre: vec![true, false], lookers: 1, looks: 2, proxy: true, pidfault: None, noevt: vec![false; 3], drainer: false },
        // failed / cancelled starts (the guard goes without a terminal event) racing lookups and re-spawns
        Shape { spawners: 2, att: 2, pre: vec![false, false], lookers: 1, looks: 4, proxy: false, pidfault: None, noevt: vec![true, true, false], drainer: false },
        Shape { spawners: 1, att: 1, pre: vec![false], lookers: 2, looks: 3, proxy: false, pidfault: None, noevt: vec![true, false, false], drainer: false },
        // drain() calls racing exits and re-spawns under the name (a drain never moves a status backwards)
        Shape { spawners: 2, att: 2, pre: vec![true, false], lookers: 1, looks: 3, proxy: false, pidfault: None, noevt: vec![false; 3], drainer: true },
    ];
    if tier == "thorough" {
        v.push(Shape { spawners: 3, att: 2, pre: vec![true, false, true], lookers: 2, looks: 3, proxy: false, pidfault: Some((1, 1)), noevt: vec![false; 3], drainer: false });
        v.push(Shape { spawners: 3, att: 2, pre: vec![true, true, false], lookers: 1, looks: 3, proxy: true, pidfault: None, noevt: vec![false; 3], drainer: false });
    }
    v
}

pub fn batch(out: &str, tier: &str, seed: u64) -> Value {
    let mut b = Batch::new(Some(out));
    let (dfs_cap, rnd) = if tier == "thorough" { (3000usize, 2000usize) } else { (500usize, 250usize) };
    let mut nontrivial = std::collections::HashSet::new();
    let mut bad_runs = 0u64;
    let mut rng = Rng(seed ^ 0x72656773);
    for sh in shapes(tier) {
        for bound in [1u32, 2u32] {
            let mut ex = Explorer::new(Mode::Dfs { preempt_bound: Some(bound) }, seed);
            let mut n = 0;
            loop {
                ex.begin_run();
                let (evs, meta, bad) = one_run(&sh, &mut ex);
                let h = b.run(meta, &evs);
                if ex.nontrivial {
                    nontrivial.insert(h);
                }
                bad_runs += u64::from(bad);
                n += 1;
                if !ex.end_run() || n >= dfs_cap {
                    break;
                }
            }
        }
        let mut ex = Explorer::new(Mode::Random, rng.next());
        for _ in 0..rnd {
            ex.begin_run();
            let (evs, meta, bad) = one_run(&sh, &mut ex);
            let h = b.run(meta, &evs);
            if ex.nontrivial {
                nontrivial.insert(h);
            }
            bad_runs += u64::from(bad);
        }
    }
    b.finish();
    json!({"family": "registry", "runs": b.runs, "events": b.events, "distinct": b.hashes.len(),
           "distinct_nontrivial": nontrivial.len(), "bad_runs": bad_runs, "samples": b.samples})
}

// ------------------------------------------------------------------------------------------------
// Reproduction of the recorded finding through the public API (no hooks, no scheduling control)
// ------------------------------------------------------------------------------------------------
struct Quiet;
#[cfg_attr(feature = "asynctrait", ractor::async_trait)]
impl Actor for Quiet {
    type Msg = RMsg;
    type State = ();
    type Arguments = ();
    async fn pre_start(&self, _: ActorRef<RMsg>, _: ()) -> Result<(), ActorProcessingErr> {
        Ok(())
    }
    async fn handle_supervisor_evt(&self, _: ActorRef<RMsg>, _: SupervisionEvent, _: &mut ()) -> Result<(), ActorProcessingErr> {
        Ok(())
    }
}

/// A local actor registered as N keeps running; a remote-actor proxy that carries the same name N
/// (what ractor_cluster's NodeSession spawns for a remote group member named N) stops; afterwards
/// `where_is(N)` no longer finds the local actor, a second local actor can take N while the first is
/// alive, and the first one's exit then removes the second one's entry.
/// Free-running batch: several spawners race for one name over and over, on real threads.
pub fn batch_free(out: &str, tier: &str, seed: u64) -> Value {
    let mut b = Batch::new(Some(out));
    let mut rng = Rng(seed ^ 0x5eed_f4ee);
    let runs = if tier == "thorough" { 12000 } else { 3000 };
    let mut suspects = 0u64;
    for r in 0..runs {
        let n = 2 + (r % 2);
        let shape = Shape { spawners: n, att: 1 + (r / 3) % 2, pre: (0..n).map(|i| (i + r) % 2 == 0).collect(), lookers: 0, looks: 0, proxy: false,
                            pidfault: None, noevt: (0..n.max(3)).map(|i| (r / 7 + i) % 5 == 0).collect(), drainer: false };
        let spin: Vec<u32> = (0..n).map(|_| rng.below(60) as u32).collect();
        let mut ex = Explorer::new(Mode::Random, r as u64);
        ex.begin_run();
        let (evs, meta, _) = one_run_impl(&shape, &mut ex, Some(spin));
        if meta.get("suspect").and_then(|x| x.as_bool()) == Some(true) {
            suspects += 1;
        }
        b.run(meta, &evs);
    }
    b.finish();
    json!({"family": "registry-free", "runs": b.runs, "events": b.events, "distinct": b.hashes.len(), "suspects": suspects, "samples": b.samples})
}

pub fn repro() -> Value {
    verif::enable(false);
    let rt = tokio::runtime::Builder::new_current_thread().enable_all().build().expect("runtime");
    rt.block_on(async {
        let n = format!("repro-N-{}", std::process::id());
        let (sup, _) = Actor::spawn(None, Quiet, ()).await.expect("supervisor");
        let (l1, h1) = Actor::spawn(Some(n.clone()), Quiet, ()).await.expect("local actor");
        let found_before = ractor::registry::where_is(n.clone()).map(|c| c.get_id() == l1.get_id()).unwrap_or(false);
        let (proxy, hp) = ractor::ActorRuntime::<Quiet>::spawn_linked_remote(Some(n.clone()), Quiet, ActorId::Remote { node_id: 1, pid: 42 }, (), sup.get_cell())
            .await
            .expect("remote proxy");
        let found_with_proxy = ractor::registry::where_is(n.clone()).map(|c| c.get_id() == l1.get_id()).unwrap_or(false);
        proxy.stop(None);
        let _ = hp.await;
        let l1_status = format!("{:?}", l1.get_status());
        let found_after_proxy_exit = ractor::registry::where_is(n.clone()).is_some();
        // the name is now free although its holder is alive: a second spawn succeeds
        let second = Actor::spawn(Some(n.clone()), Quiet, ()).await;
        let second_ok = second.is_ok();
        let mut holder_after_first_exit = "n/a".to_string();
        let mut l2_status = "n/a".to_string();
        if let Ok((l2, h2)) = second {
            l1.stop(None);
            let _ = h1.await;
            holder_after_first_exit = match ractor::registry::where_is(n.clone()) {
                None => "none".into(),
                Some(c) if c.get_id() == l2.get_id() => "second".into(),
                Some(_) => "other".into(),
            };
            l2_status = format!("{:?}", l2.get_status());
            l2.stop(None);
            let _ = h2.await;
        }
        sup.stop(None);
        json!({"found_before": found_before, "found_with_proxy": found_with_proxy, "local_status_after_proxy_exit": l1_status,
               "found_after_proxy_exit": found_after_proxy_exit, "second_spawn_ok_while_first_alive": second_ok,
               "second_status_after_first_exit": l2_status, "holder_after_first_exit": holder_after_first_exit,
               "defect_reproduced": found_before && found_with_proxy && !found_after_proxy_exit})
    })
}

pub fn dispatch(cmd: &str, a: &HashMap<String, String>) -> Option<Value> {
    let (out, tier, seed) = crate::common(a);
    match cmd {
        "registry" => Some(batch(&out, &tier, seed)),
        "registry-free" => Some(batch_free(&out, &tier, seed)),
        "registry-repro" => Some(repro()),
        // re-execute one schedule of one shape on the current tree (violation replays)
        "registry-replay" => {
            let shape_str = a.get("shape-str").cloned().unwrap_or_default();
            let sched: Vec<usize> = serde_json::from_str(a.get("sched").map(|s| s.as_str()).unwrap_or("[]")).unwrap_or_default();
            let sh = shapes("thorough").into_iter().find(|s| format!("{s:?}") == shape_str);
            match sh {
                None => Some(json!({"runs": 0, "error": "unknown shape"})),
                Some(sh) => {
                    let mut b = Batch::new(Some(out.as_str()));
                    let mut ex = Explorer::new(Mode::Replay(sched), 0);
                    ex.begin_run();
                    let (evs, meta, _bad) = one_run(&sh, &mut ex);
                    b.run(meta, &evs);
                    b.finish();
                    Some(json!({"runs": 1}))
                }
            }
        }
        _ => None,
    }
}
