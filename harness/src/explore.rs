//! Schedule exploration shared by both engines: stateless DFS over choice points (with an optional
//! preemption bound), seeded random walks, and replay of a recorded schedule.
use crate::trace::Rng;

pub enum Mode {
    Dfs { preempt_bound: Option<u32> },
    Random,
    Replay(Vec<usize>),
}

pub struct Explorer {
    pub mode: Mode,
    stack: Vec<(usize, usize)>, // (number of options, chosen)
    pos: usize,
    preempts: u32,
    pub rng: Rng,
    pub sched: Vec<usize>,
    pub diverged: u64,
    pub nontrivial: bool,
    /// random mode: per-run probability (per mille) of letting the running process continue. 0 = uniform choice at
    /// every step; high values give long uninterrupted stretches with a switch at a uniformly spread position, which
    /// is what reaches "another thread acts exactly in the k-th window of a long sequence"
    sticky: u64,
}

impl Explorer {
    pub fn new(mode: Mode, seed: u64) -> Self {
        Explorer { mode, stack: vec![], pos: 0, preempts: 0, rng: Rng(seed), sched: vec![], diverged: 0, nontrivial: false, sticky: 0 }
    }
    pub fn begin_run(&mut self) {
        self.pos = 0;
        self.preempts = 0;
        self.sched.clear();
        self.nontrivial = false;
        if matches!(self.mode, Mode::Random) {
            self.sticky = [0, 0, 500, 800, 900, 950][self.rng.below(6)];
        }
    }
    /// Pick one of `n` options. If `cont` is true, option 0 means "keep running the same process"
    /// and any other option is a preemption.
    pub fn choose(&mut self, n: usize, cont: bool) -> usize {
        assert!(n > 0);
        let c = match &self.mode {
            Mode::Random => {
                if cont && n > 1 && self.sticky > 0 {
                    if (self.rng.below(1000) as u64) < self.sticky {
                        0
                    } else {
                        1 + self.rng.below(n - 1)
                    }
                } else {
                    self.rng.below(n)
                }
            }
            Mode::Replay(v) => {
                let c = v.get(self.pos).copied().unwrap_or(0);
                if c < n { c } else { 0 }
            }
            Mode::Dfs { preempt_bound } => {
                let eff = match preempt_bound {
                    Some(b) if cont && self.preempts >= *b => 1,
                    _ => n,
                };
                if self.pos < self.stack.len() {
                    if self.stack[self.pos].0 != eff {
                        // the run diverged from the recorded prefix: forget the deeper part
                        self.diverged += 1;
                        self.stack.truncate(self.pos);
                        self.stack.push((eff, 0));
                    }
                } else {
                    self.stack.push((eff, 0));
                }
                self.stack[self.pos].1
            }
        };
        if cont && c > 0 {
            self.preempts += 1;
            self.nontrivial = true;
        }
        self.pos += 1;
        self.sched.push(c);
        c
    }
    /// Finish a run; returns false when a DFS is exhausted (random/replay: always true, the caller counts).
    pub fn end_run(&mut self) -> bool {
        if let Mode::Dfs { .. } = self.mode {
            self.stack.truncate(self.pos);
            while let Some(top) = self.stack.last_mut() {
                if top.1 + 1 < top.0 {
                    top.1 += 1;
                    return true;
                }
                self.stack.pop();
            }
            return false;
        }
        true
    }
}
