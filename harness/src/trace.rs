//! Trace batches: ndjson, one event per line, runs separated by `reset` events.
use ractor::verif::{Ev, Val};
use serde_json::{json, Map, Value};
use std::collections::HashMap;
use std::io::Write;

pub struct Batch {
    out: Option<std::io::BufWriter<std::fs::File>>,
    pub runs: u64,
    pub events: u64,
    pub hashes: std::collections::HashSet<u64>,
    pub samples: Vec<Value>,
}

#[derive(Default, Clone)]
pub struct Names {
    pub who: HashMap<String, String>,
    pub pid: HashMap<u64, String>,
}

impl Names {
    pub fn who(&self, w: &str) -> String {
        self.who.get(w).cloned().unwrap_or_else(|| w.to_string())
    }
    pub fn pid(&self, p: u64) -> String {
        self.pid.get(&p).cloned().unwrap_or_else(|| format!("p{p}"))
    }
}

pub fn ev_json(e: &Ev, names: &Names) -> Value {
    let mut m = Map::new();
    m.insert("a".into(), json!(e.a));
    m.insert("who".into(), json!(names.who(&e.who)));
    let obj = if e.a.starts_with("task.") {
        format!("k{}", e.obj)
    } else {
        names.pid(e.obj)
    };
    m.insert("obj".into(), json!(obj));
    m.insert("d".into(), json!(e.d));
    m.insert("t".into(), json!(e.t));
    for (k, v) in &e.kv {
        let jv = match v {
            Val::I(i) => json!(i),
            Val::S(s) => json!(s),
            Val::L(l) => json!(l),
        };
        m.insert(k.clone(), jv);
    }
    Value::Object(m)
}

fn fnv(h: &mut u64, s: &str) {
    for b in s.as_bytes() {
        *h ^= *b as u64;
        *h = h.wrapping_mul(0x100000001b3);
    }
}

impl Batch {
    pub fn new(path: Option<&str>) -> Self {
        let out = path.map(|p| std::io::BufWriter::new(std::fs::File::create(p).expect("create trace file")));
        Batch { out, runs: 0, events: 0, hashes: Default::default(), samples: vec![] }
    }
    /// Write one run: reset line (with meta) followed by its events. Returns the run's content hash.
    pub fn run(&mut self, meta: Value, evs: &[Value]) -> u64 {
        let mut h: u64 = 0xcbf29ce484222325;
        let mut lines = Vec::with_capacity(evs.len() + 1);
        let mut r = Map::new();
        r.insert("a".into(), json!("reset"));
        r.insert("who".into(), json!("drv"));
        r.insert("obj".into(), json!(""));
        r.insert("d".into(), json!(0));
        r.insert("t".into(), json!(0));
        r.insert("run".into(), json!(self.runs));
        r.insert("meta".into(), meta);
        lines.push(Value::Object(r).to_string());
        for e in evs {
            let s = e.to_string();
            fnv(&mut h, &s);
            lines.push(s);
        }
        if self.samples.len() < 3 && !self.hashes.contains(&h) {
            self.samples.push(json!(evs
                .iter()
                .map(|e| {
                    let a = e.get("a").and_then(|x| x.as_str()).unwrap_or("");
                    let w = e.get("who").and_then(|x| x.as_str()).unwrap_or("");
                    format!("{w}:{a}")
                })
                .collect::<Vec<_>>()));
        }
        self.hashes.insert(h);
        if let Some(o) = self.out.as_mut() {
            for l in &lines {
                o.write_all(l.as_bytes()).unwrap();
                o.write_all(b"\n").unwrap();
            }
        }
        self.runs += 1;
        crate::PROGRESS.fetch_add(1, std::sync::atomic::Ordering::SeqCst);
        self.events += evs.len() as u64;
        h
    }
    pub fn finish(&mut self) {
        if let Some(o) = self.out.as_mut() {
            o.flush().unwrap();
        }
    }
}

/// Small deterministic RNG (splitmix64)
#[derive(Clone)]
pub struct Rng(pub u64);
impl Rng {
    pub fn next(&mut self) -> u64 {
        self.0 = self.0.wrapping_add(0x9E3779B97F4A7C15);
        let mut z = self.0;
        z = (z ^ (z >> 30)).wrapping_mul(0xBF58476D1CE4E5B9);
        z = (z ^ (z >> 27)).wrapping_mul(0x94D049BB133111EB);
        z ^ (z >> 31)
    }
    pub fn below(&mut self, n: usize) -> usize {
        if n <= 1 {
            0
        } else {
            (self.next() % n as u64) as usize
        }
    }
    pub fn chance(&mut self, num: u64, den: u64) -> bool {
        self.next() % den < num
    }
}
