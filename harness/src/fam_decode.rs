//! Family `decode` (C19 b): a cluster-enabled probe actor receives malformed `SerializedMessage`s
//! interleaved with good ones through `ActorCell::send_serialized`. Send flavour under engine T;
//! thread-local flavour (`decode-tl`) on its spawner thread with a real clock, one message at a time.
use crate::cluster_io::{pack, PMsg};
use crate::explore::{Explorer, Mode};
use crate::fam_lifecycle::yield_once;
use crate::tdrv::{run_t, NoBetween};
use crate::trace::{Batch, Rng};
use ractor::message::SerializedMessage;
use ractor::verif::{self, Ev, Val};
use ractor::{Actor, ActorCell, ActorProcessingErr, ActorRef, ActorStatus, Message};
use serde_json::{json, Map, Value};
use std::sync::{Arc, Mutex};

/// A message type with a hand-written codec whose decoder can fail or panic outside any guard
pub struct HMsg(pub u32);
impl Message for HMsg {
    fn serializable() -> bool {
        true
    }
    fn serialize(self) -> Result<SerializedMessage, ractor::message::BoxedDowncastErr> {
        Ok(SerializedMessage::Cast { variant: "ok".into(), args: self.0.to_be_bytes().to_vec(), metadata: None })
    }
    fn deserialize(m: SerializedMessage) -> Result<Self, ractor::message::BoxedDowncastErr> {
        match m {
            SerializedMessage::Cast { variant, args, .. } if variant == "ok" && args.len() == 4 => Ok(HMsg(u32::from_be_bytes([args[0], args[1], args[2], args[3]]))),
            SerializedMessage::Cast { variant, .. } if variant == "panic" => panic!("decoder panics"),
            _ => Err(ractor::message::BoxedDowncastErr),
        }
    }
}

pub trait Numbered: Message {
    fn number(&self) -> u32;
    fn finish(self);
    /// what the handler does with this (decodable) message: 0 = handles it, 1 = panics, 2 = returns Err
    fn fail_mode(&self) -> u8 {
        0
    }
}
impl Numbered for PMsg {
    fn number(&self) -> u32 {
        match self {
            PMsg::Tick(n) | PMsg::Text(n, _) | PMsg::Boom(n, _) | PMsg::Ask(n, _) => *n,
            PMsg::Unit => 0,
        }
    }
    fn fail_mode(&self) -> u8 {
        match self {
            PMsg::Text(_, t) if t == "PANIC" => 1,
            PMsg::Text(_, t) if t == "ERR" => 2,
            _ => 0,
        }
    }
    fn finish(self) {
        if let PMsg::Ask(n, r) = self {
            let _ = r.send(n + 1);
        }
    }
}
impl Numbered for HMsg {
    fn number(&self) -> u32 {
        self.0
    }
    fn finish(self) {}
}

fn kvs(k: &str, v: &str) -> (String, Val) {
    (k.to_string(), Val::S(v.to_string()))
}
fn kvi(k: &str, v: i64) -> (String, Val) {
    (k.to_string(), Val::I(v))
}
fn obs(label: &str, d: i64, mut kv: Vec<(String, Val)>) {
    kv.push(kvs("x", "A"));
    verif::emit_kv(label, 0, d, kv);
}
fn cb(kind: &str, m: Option<u32>) {
    let mut kv = vec![kvs("k", kind)];
    if let Some(m) = m {
        kv.push(kvi("m", m as i64));
    }
    obs("obs.cb_enter", 0, kv);
    obs("obs.tick", 0, vec![]);
    obs("obs.cb_exit", 0, vec![kvs("k", kind), kvs("o", "ok")]);
}

pub struct DProbe<M>(std::marker::PhantomData<fn() -> M>);
impl<M> Default for DProbe<M> {
    fn default() -> Self {
        DProbe(std::marker::PhantomData)
    }
}
#[cfg_attr(feature = "asynctrait", ractor::async_trait)]
impl<M: Numbered> Actor for DProbe<M> {
    type Msg = M;
    type State = ();
    type Arguments = ();
    async fn pre_start(&self, _: ActorRef<M>, _: ()) -> Result<(), ActorProcessingErr> {
        cb("pre_start", None);
        Ok(())
    }
    async fn post_start(&self, _: ActorRef<M>, _: &mut ()) -> Result<(), ActorProcessingErr> {
        cb("post_start", None);
        Ok(())
    }
    async fn handle(&self, _: ActorRef<M>, m: M, _: &mut ()) -> Result<(), ActorProcessingErr> {
        match m.fail_mode() {
            0 => {
                cb("handle", Some(m.number()));
                m.finish();
                Ok(())
            }
            mode => {
                // a decodable message whose handler fails: that is a handler failure like any other (the actor ends),
                // whatever form the message arrived in
                obs("obs.cb_enter", 0, vec![kvs("k", "handle"), kvi("m", m.number() as i64)]);
                obs("obs.tick", 0, vec![]);
                obs("obs.cb_exit", 0, vec![kvs("k", "handle"), kvs("o", if mode == 1 { "panic" } else { "err" })]);
                if mode == 1 {
                    panic!("handler panics");
                }
                Err("handler fails".into())
            }
        }
    }
}
pub const GOOD_P: &[&str] = &["tick", "text", "ask", "boom_ok", "tick", "text", "text_hpanic", "text_herr"];
pub const BAD_P: &[&str] = &["unknown", "short", "shortdata", "trailing", "panic", "convpanic", "hugelen", "callreply", "badcall", "unit_extra", "empty"];
pub const GOOD_H: &[&str] = &["h_ok"];
pub const BAD_H: &[&str] = &["h_err", "h_panic", "h_short"];

/// The serialized payload for plan entry `kind`, carrying number n
pub fn payload(kind: &str, n: u32) -> SerializedMessage {
    let nb = n.to_be_bytes();
    let cast = |variant: &str, args: Vec<u8>| SerializedMessage::Cast { variant: variant.to_string(), args, metadata: None };
    let cat = |a: Vec<u8>, b: Vec<u8>| {
        let mut v = a;
        v.extend(b);
        v
    };
    match kind {
        "tick" => cast("Tick", pack(&nb)),
        "text" => cast("Text", cat(pack(&nb), pack("h\u{e9}llo".as_bytes()))),
        "text_hpanic" => cast("Text", cat(pack(&nb), pack("PANIC".as_bytes()))),
        "text_herr" => cast("Text", cat(pack(&nb), pack("ERR".as_bytes()))),
        "boom_ok" => cast("Boom", cat(pack(&nb), pack(&[1]))),
        "ask" => {
            let (tx, _rx) = ractor::concurrency::oneshot();
            SerializedMessage::Call { variant: "Ask".into(), args: pack(&nb), reply: tx.into(), metadata: None }
        }
        "unknown" => cast("Nope", pack(&nb)),
        "short" => cast("Tick", vec![0, 0, 0]),
        "shortdata" => cast("Tick", cat(4u64.to_be_bytes().to_vec(), vec![1, 2])),
        "trailing" => cast("Tick", cat(pack(&nb), vec![0])),
        "panic" => cast("Boom", cat(pack(&nb), pack(&[0xEE]))),
        "convpanic" => cast("Tick", pack(&[1, 2])),
        "hugelen" => cast("Tick", cat(u64::MAX.to_be_bytes().to_vec(), nb.to_vec())),
        "callreply" => SerializedMessage::CallReply(n as u64, nb.to_vec()),
        "badcall" => {
            let (tx, _rx) = ractor::concurrency::oneshot();
            SerializedMessage::Call { variant: "Ask".into(), args: vec![], reply: tx.into(), metadata: None }
        }
        "unit_extra" => cast("Unit", vec![1]),
        "empty" => cast("Tick", vec![]),
        "h_ok" => cast("ok", nb.to_vec()),
        "h_err" => cast("nope", nb.to_vec()),
        "h_panic" => cast("panic", nb.to_vec()),
        _ => cast("ok", vec![1]),
    }
}

#[derive(Clone, Debug)]
pub struct Plan {
    pub hand: bool, // hand-written codec (HMsg) instead of the derived one (PMsg)
    pub kinds: Vec<&'static str>,
    pub senders: usize,
}
impl Plan {
    fn is_bad(&self, k: &str) -> bool {
        BAD_P.contains(&k) || BAD_H.contains(&k)
    }
    fn bad_numbers(&self) -> Vec<i64> {
        self.kinds.iter().enumerate().filter(|(_, k)| self.is_bad(k)).map(|(i, _)| i as i64 + 1).collect()
    }
}

const KEEP: &[&str] = &[
    "obs.plan", "obs.cb_enter", "obs.cb_exit", "obs.tick", "obs.send", "obs.spawn_call", "obs.start_ret", "port.msg", "decode.dropped",
    "guard.cleanup", "guard.done", "obs.join_begin", "obs.join_ret",
];

fn conv(e: &Ev, pid: u64) -> Option<Value> {
    if !KEEP.contains(&e.a.as_str()) {
        return None;
    }
    let has_x = e.kv.iter().any(|(k, _)| k == "x");
    if !has_x && e.obj != pid {
        return None;
    }
    let mut m = Map::new();
    m.insert("a".into(), json!(e.a));
    m.insert("who".into(), json!(e.who));
    m.insert("obj".into(), json!(""));
    m.insert("d".into(), json!(e.d));
    m.insert("t".into(), json!(e.t));
    m.insert("x".into(), json!("A"));
    for (k, v) in &e.kv {
        let jv = match v {
            Val::I(i) => json!(i),
            Val::S(s) => json!(s),
            Val::L(l) => json!(l),
        };
        m.insert(k.clone(), jv);
    }
    Some(Value::Object(m))
}

fn end_event(cell: &ActorCell, sent: usize) -> Value {
    json!({"a": "obs.end", "who": "drv", "obj": "", "d": 0, "t": 0, "x": "",
           "fin": [{"x": "A", "st": cell.get_status() as i64, "kids": cell.get_children().len(), "sup": cell.try_get_supervisor().is_some(), "sent": sent,
                    "reg": cell.get_name().and_then(ractor::registry::where_is).map(|h| h.get_id() == cell.get_id()).unwrap_or(false),
                    "named": cell.get_name().is_some(), "pg": false}], "q": 0})
}

struct Shared {
    cell: Option<ActorCell>,
    next: usize,
}

async fn sender(plan: Arc<Plan>, sh: Arc<Mutex<Shared>>, quota: usize) {
    for _ in 0..quota {
        yield_once().await;
        let (cell, n) = {
            let mut g = sh.lock().unwrap();
            if g.next >= plan.kinds.len() {
                return;
            }
            g.next += 1;
            (g.cell.clone(), g.next)
        };
        let Some(cell) = cell else { return };
        let r = cell.send_serialized(payload(plan.kinds[n - 1], n as u32));
        obs("obs.send", i64::from(r.is_ok()), vec![kvi("m", n as i64)]);
    }
}

async fn main_client<M: Numbered>(plan: Arc<Plan>, sh: Arc<Mutex<Shared>>) {
    verif::emit_kv("obs.plan", 0, 0, vec![kvs("x", "A"), kvs("flavour", "send"), ("bad".into(), Val::L(plan.bad_numbers()))]);
    obs("obs.spawn_call", 0, vec![]);
    let Ok((a, _h)) = Actor::spawn(None, DProbe::<M>::default(), ()).await else { return };
    sh.lock().unwrap().cell = Some(a.get_cell());
    obs("obs.start_ret", 1, vec![kvs("err", "")]);
    let per = plan.kinds.len().div_ceil(plan.senders);
    for i in 0..plan.senders {
        let _ = ractor::concurrency::spawn_named(Some(&format!("sender{i}")), sender(plan.clone(), sh.clone(), per + plan.kinds.len()));
    }
}

pub fn one_run(plan: &Plan, ex: &mut Explorer) -> (Vec<Value>, Value, bool) {
    let plan = Arc::new(plan.clone());
    let sh = Arc::new(Mutex::new(Shared { cell: None, next: 0 }));
    let (p2, s2) = (plan.clone(), sh.clone());
    let fin: Arc<Mutex<Option<Value>>> = Arc::new(Mutex::new(None));
    let (f2, s3, n) = (fin.clone(), sh.clone(), plan.kinds.len());
    let hand = plan.hand;
    let run = run_t(
        ex,
        5000,
        0,
        &mut NoBetween,
        move || async move {
            if hand {
                let _ = ractor::concurrency::spawn_named(Some("main"), main_client::<HMsg>(p2, s2));
            } else {
                let _ = ractor::concurrency::spawn_named(Some("main"), main_client::<PMsg>(p2, s2));
            }
        },
        move || {
            let g = s3.lock().unwrap();
            if let Some(c) = &g.cell {
                *f2.lock().unwrap() = Some(end_event(c, g.next.min(n)));
            }
        },
    );
    let pid = sh.lock().unwrap().cell.as_ref().map(|c| c.get_id().pid()).unwrap_or(0);
    let mut evs: Vec<Value> = run.events.iter().filter_map(|e| conv(e, pid)).collect();
    let ended = fin.lock().unwrap().is_some();
    if let Some(f) = fin.lock().unwrap().take() {
        evs.push(f);
    }
    if let Some(c) = sh.lock().unwrap().cell.take() {
        c.stop(None);
    }
    let meta = json!({"family": "decode", "flavour": "send", "codec": if plan.hand { "hand" } else { "derived" }, "kinds": plan.kinds, "senders": plan.senders,
                      "sched_len": ex.sched.len(), "quiescent": run.quiescent});
    (evs, meta, !run.quiescent || !ended)
}

pub fn rand_plan(rng: &mut Rng, hand: bool) -> Plan {
    let (good, bad) = if hand { (GOOD_H, BAD_H) } else { (GOOD_P, BAD_P) };
    let n = 2 + rng.below(6);
    let kinds = (0..n).map(|_| if rng.chance(1, 2) { good[rng.below(good.len())] } else { bad[rng.below(bad.len())] }).collect();
    Plan { hand, kinds, senders: 1 + rng.below(2) }
}

pub fn batch(out: &str, tier: &str, seed: u64) -> Value {
    let mut b = Batch::new(Some(out));
    let mut rng = Rng(seed ^ 0x6465636f);
    let mut bad_runs = 0u64;
    let mut nontrivial = std::collections::HashSet::new();
    let mut plans: Vec<Plan> = vec![];
    // every malformed kind sandwiched between good ones, both codecs
    for k in BAD_P {
        plans.push(Plan { hand: false, kinds: vec!["tick", k, "text", k, "ask"], senders: 1 });
        plans.push(Plan { hand: false, kinds: vec![k, "tick"], senders: 2 });
        plans.push(Plan { hand: false, kinds: vec!["tick", k, "text_hpanic", "tick"], senders: 1 });
        plans.push(Plan { hand: false, kinds: vec![k, "text_herr", k, "tick"], senders: 2 });
    }
    for k in BAD_H {
        plans.push(Plan { hand: true, kinds: vec!["h_ok", k, "h_ok", k, "h_ok"], senders: 1 });
        plans.push(Plan { hand: true, kinds: vec![k, "h_ok"], senders: 2 });
    }
    let nrand = if tier == "thorough" { 6000 } else { 400 };
    for i in 0..nrand {
        plans.push(rand_plan(&mut rng, i % 3 == 0));
    }
    let per = if tier == "thorough" { 6 } else { 2 };
    for p in &plans {
        for _ in 0..per {
            let mut ex = Explorer::new(Mode::Random, rng.next());
            ex.begin_run();
            let (evs, meta, bad) = one_run(p, &mut ex);
            let h = b.run(meta, &evs);
            if p.kinds.iter().any(|k| p.is_bad(k)) {
                nontrivial.insert(h);
            }
            if bad {
                bad_runs += 1;
            }
        }
    }
    b.finish();
    json!({"family": "decode", "runs": b.runs, "events": b.events, "distinct": b.hashes.len(), "distinct_nontrivial": nontrivial.len(),
           "bad_runs": bad_runs, "samples": b.samples})
}

// ------------------------------------------------------------------------------------------------
// thread-local flavour: real clock, one message at a time
// ------------------------------------------------------------------------------------------------
pub fn one_run_tl(plan: &Plan, spawner: &ractor::thread_local::ThreadLocalActorSpawner) -> (Vec<Value>, Value, bool) {
    use ractor::thread_local::ThreadLocalActor;
    let rt = tokio::runtime::Builder::new_current_thread().enable_all().build().expect("rt");
    verif::enable(true);
    let _ = verif::take_events();
    let mut all: Vec<Ev> = vec![];
    let mut survived = true;
    let mut cell_out: Option<ActorCell> = None;
    let mut sent = 0usize;
    rt.block_on(async {
        verif::emit_kv("obs.plan", 0, 0, vec![kvs("x", "A"), kvs("flavour", "local"), ("bad".into(), Val::L(plan.bad_numbers()))]);
        obs("obs.spawn_call", 0, vec![]);
        let r = if plan.hand {
            <DProbe<HMsg> as ThreadLocalActor>::spawn(None, (), spawner.clone()).await.map(|(a, h)| (a.get_cell(), h))
        } else {
            <DProbe<PMsg> as ThreadLocalActor>::spawn(None, (), spawner.clone()).await.map(|(a, h)| (a.get_cell(), h))
        };
        let Ok((cell, handle)) = r else { return };
        obs("obs.start_ret", 1, vec![kvs("err", "")]);
        cell_out = Some(cell.clone());
        for (i, k) in plan.kinds.iter().enumerate() {
            let n = i + 1;
            let expect_ok = (cell.get_status() as u8) < (ActorStatus::Draining as u8);
            obs("obs.send", i64::from(expect_ok), vec![kvi("m", n as i64)]);
            let r = cell.send_serialized(payload(k, n as u32));
            sent = n;
            if r.is_ok() != expect_ok {
                obs("obs.send_mismatch", 0, vec![]);
            }
            // wait (real time, bounded) until the actor has dealt with it: handler finished, dropped, or actor gone
            let mut settled = !r.is_ok();
            let mut since_taken = 0;
            for _ in 0..3000 {
                all.extend(verif::take_events());
                let sent_ok = all.iter().filter(|e| e.a == "obs.send" && e.d == 1).count();
                let taken = all.iter().filter(|e| e.a == "port.msg" && e.obj == cell.get_id().pid()).count();
                let exits = all.iter().filter(|e| e.a == "obs.cb_exit" && e.kv.iter().any(|(k, v)| k == "k" && *v == Val::S("handle".into()))).count();
                let drops = all.iter().filter(|e| e.a == "decode.dropped" && e.obj == cell.get_id().pid()).count();
                let dead = cell.get_status() == ActorStatus::Stopped && all.iter().any(|e| e.a == "guard.done" && e.obj == cell.get_id().pid());
                if settled || dead || (taken == sent_ok && exits + drops >= taken) {
                    settled = true;
                    break;
                }
                if taken == sent_ok {
                    // picked, neither handled nor reported nor fatal: a silent drop; the pick and its outcome are one poll
                    since_taken += 1;
                    if since_taken > 40 && cell.get_status() == ActorStatus::Running {
                        settled = true;
                        break;
                    }
                }
                tokio::time::sleep(std::time::Duration::from_millis(1)).await;
            }
            if !settled {
                obs("obs.unsettled", 0, vec![]);
            }
        }
        // grace for a dropped (never acknowledged) last message
        tokio::time::sleep(std::time::Duration::from_millis(5)).await;
        survived = cell.get_status() == ActorStatus::Running;
        if !survived {
            obs("obs.join_begin", 0, vec![]);
            let r = tokio::time::timeout(std::time::Duration::from_secs(2), handle).await;
            obs("obs.join_ret", 0, vec![kvs("r", if matches!(r, Ok(Ok(()))) { "ok" } else { "other" })]);
        }
        all.extend(verif::take_events());
    });
    verif::enable(false);
    let pid = cell_out.as_ref().map(|c| c.get_id().pid()).unwrap_or(0);
    let mismatch = all.iter().any(|e| e.a == "obs.send_mismatch" || e.a == "obs.unsettled");
    let mut evs: Vec<Value> = all.iter().filter_map(|e| conv(e, pid)).collect();
    let handled: Vec<i64> = all.iter().filter(|e| e.a == "obs.cb_enter").filter_map(|e| e.kv.iter().find(|(k, _)| k == "m").and_then(|(_, v)| if let Val::I(i) = v { Some(*i) } else { None })).collect();
    if let Some(c) = &cell_out {
        evs.push(end_event(c, sent));
        c.stop(None);
    }
    let meta = json!({"family": "decode-tl", "flavour": "local", "codec": if plan.hand { "hand" } else { "derived" }, "kinds": plan.kinds,
                      "survived": survived, "handled": handled, "expected_handled": plan.kinds.iter().enumerate().filter(|(_, k)| !plan.is_bad(k)).map(|(i, _)| i + 1).collect::<Vec<_>>()});
    (evs, meta, mismatch || cell_out.is_none())
}

pub fn batch_tl(out: &str, _tier: &str, _seed: u64) -> Value {
    let mut b = Batch::new(Some(out));
    let spawner = ractor::thread_local::ThreadLocalActorSpawner::new();
    let mut plans = vec![
        Plan { hand: false, kinds: vec!["tick", "text", "ask"], senders: 1 },
        Plan { hand: false, kinds: vec!["tick", "unknown", "tick"], senders: 1 },
        Plan { hand: false, kinds: vec!["trailing", "tick"], senders: 1 },
        Plan { hand: false, kinds: vec!["tick", "panic", "tick"], senders: 1 },
        Plan { hand: true, kinds: vec!["h_ok", "h_err", "h_ok"], senders: 1 },
        Plan { hand: true, kinds: vec!["h_ok", "h_panic", "h_ok"], senders: 1 },
    ];
    for k in BAD_P {
        plans.push(Plan { hand: false, kinds: vec!["tick", k, "text"], senders: 1 });
    }
    let mut bad_runs = 0u64;
    let mut died = vec![];
    for p in &plans {
        let (evs, meta, bad) = one_run_tl(p, &spawner);
        if meta["survived"] == false {
            died.push(json!({"kinds": p.kinds, "codec": meta["codec"], "handled": meta["handled"], "expected_handled": meta["expected_handled"]}));
        }
        b.run(meta, &evs);
        if bad {
            bad_runs += 1;
        }
    }
    b.finish();
    json!({"family": "decode-tl", "runs": b.runs, "events": b.events, "distinct": b.hashes.len(), "distinct_nontrivial": b.hashes.len(),
           "bad_runs": bad_runs, "actor_died_in": died.len(), "died": died, "samples": b.samples})
}

pub fn dispatch(cmd: &str, a: &std::collections::HashMap<String, String>) -> Option<Value> {
    let (out, tier, seed) = crate::common(a);
    match cmd {
        "decode" => Some(batch(&out, &tier, seed)),
        "decode-tl" => Some(batch_tl(&out, &tier, seed)),
        "codec-extra" => Some(codec_extra()),
        _ => None,
    }
}

// ------------------------------------------------------------------------------------------------
// extras (evidence only, NOT part of what the specification decides): bounded enumeration of byte
// strings through the derived decoder, round trips of boundary values of the built-in conversions
// ------------------------------------------------------------------------------------------------
fn rt<T: ractor::BytesConvertable + PartialEq + Clone + 'static>(v: T) -> bool {
    std::panic::catch_unwind(std::panic::AssertUnwindSafe(|| T::from_bytes(v.clone().into_bytes()) == v)).unwrap_or(false)
}

pub fn codec_extra() -> Value {
    // call variants bridge their reply port through a spawned task: a runtime must be current
    let rt = tokio::runtime::Builder::new_current_thread().enable_all().build().expect("rt");
    let _g = rt.enter();
    codec_extra_inner()
}

fn codec_extra_inner() -> Value {
    use ractor::BytesConvertable;
    let variants = ["Tick", "Text", "Boom", "Unit", "Ask", "Nope", ""];
    let mut inputs: Vec<Vec<u8>> = vec![vec![]];
    // (i) every byte string of length <= 3 over a small alphabet
    let alpha = [0x00u8, 0x01, 0x04, 0x08, 0xff];
    let mut layer: Vec<Vec<u8>> = vec![vec![]];
    for _ in 0..3 {
        let mut next = vec![];
        for s in &layer {
            for a in alpha {
                let mut t = s.clone();
                t.push(a);
                next.push(t);
            }
        }
        inputs.extend(next.iter().cloned());
        layer = next;
    }
    // (ii) one or two packed fields with declared length and actual data chosen independently
    let decl = [0u64, 1, 3, 4, 5, 8, 1 << 32, u64::MAX];
    let mut fields: Vec<Vec<u8>> = vec![];
    for d in decl {
        for actual in 0..6usize {
            for fill in [0x00u8, 0xEE, 0xff] {
                let mut f = d.to_be_bytes().to_vec();
                f.extend(std::iter::repeat(fill).take(actual));
                fields.push(f);
            }
        }
    }
    for f in &fields {
        inputs.push(f.clone());
    }
    for (i, f) in fields.iter().enumerate() {
        for g in fields.iter().skip(i % 7).step_by(7) {
            let mut t = f.clone();
            t.extend(g);
            inputs.push(t);
        }
    }
    let (mut ok, mut err, mut panics) = (0u64, 0u64, 0u64);
    let mut panicked: Vec<String> = vec![];
    for v in variants {
        for a in &inputs {
            for call in [false, true] {
                let m = if call {
                    let (tx, _rx) = ractor::concurrency::oneshot();
                    SerializedMessage::Call { variant: v.to_string(), args: a.clone(), reply: tx.into(), metadata: None }
                } else {
                    SerializedMessage::Cast { variant: v.to_string(), args: a.clone(), metadata: None }
                };
                match std::panic::catch_unwind(std::panic::AssertUnwindSafe(|| PMsg::deserialize(m))) {
                    Ok(Ok(_)) => ok += 1,
                    Ok(Err(_)) => err += 1,
                    Err(_) => {
                        panics += 1;
                        if panicked.len() < 5 {
                            panicked.push(format!("{v} call={call} args={a:?}"));
                        }
                    }
                }
            }
        }
    }
    // round trips of boundary values
    let mut rts = 0u64;
    let mut rt_fail: Vec<String> = vec![];
    macro_rules! ints {
        ($($t:ty),*) => {$(
            for v in [<$t>::MIN, <$t>::MAX, 0 as $t, 1 as $t, <$t>::MAX / 2] {
                rts += 1;
                if !rt(v) { rt_fail.push(format!("{} {}", stringify!($t), v)); }
                rts += 1;
                if !rt(vec![v, <$t>::MIN, <$t>::MAX]) { rt_fail.push(format!("Vec<{}> {}", stringify!($t), v)); }
            }
            rts += 1;
            if !rt(Vec::<$t>::new()) { rt_fail.push(format!("Vec<{}> empty", stringify!($t))); }
        )*};
    }
    ints!(u8, u16, u32, u64, u128, i8, i16, i32, i64, i128);
    for f in [0.0f64, -0.0, f64::MIN, f64::MAX, f64::INFINITY, f64::NEG_INFINITY, f64::NAN, f64::MIN_POSITIVE, 5e-324] {
        rts += 2;
        if f64::from_bytes(f.into_bytes()).to_bits() != f.to_bits() {
            rt_fail.push(format!("f64 {f}"));
        }
        let g = f as f32;
        if f32::from_bytes(g.into_bytes()).to_bits() != g.to_bits() {
            rt_fail.push(format!("f32 {g}"));
        }
    }
    for b in [true, false] {
        rts += 2;
        if !rt(b) || !rt(vec![b, !b, b]) {
            rt_fail.push(format!("bool {b}"));
        }
    }
    for c in ['\0', 'a', '\u{7f}', '\u{80}', '\u{7ff}', '\u{800}', '\u{d7ff}', '\u{e000}', '\u{ffff}', '\u{10000}', '\u{10ffff}'] {
        rts += 3;
        if !rt(c) || !rt(vec![c, 'x', c]) || !rt(format!("{c}-{c}")) {
            rt_fail.push(format!("char {:x}", c as u32));
        }
    }
    for s in ["", "a", "h\u{e9}llo", "\u{1F600}\u{10ffff}", "\0\0"] {
        rts += 1;
        if !rt(s.to_string()) {
            rt_fail.push(format!("String {s:?}"));
        }
    }
    rts += 2;
    if !rt(()) || !rt(vec![0u8; 70000]) {
        rt_fail.push("unit / large Vec<u8>".into());
    }
    // derived enum round trip (cast variants)
    for m in [PMsg::Tick(0), PMsg::Tick(u32::MAX), PMsg::Text(7, String::new()), PMsg::Text(u32::MAX, "h\u{e9}".into()), PMsg::Boom(3, crate::cluster_io::Touchy(9)), PMsg::Unit] {
        rts += 1;
        let n = m.number();
        let back = m.serialize().ok().and_then(|s| PMsg::deserialize(s).ok());
        if back.map(|b| b.number()) != Some(n) {
            rt_fail.push(format!("PMsg #{n}"));
        }
    }
    // factory jobs: key + options travel as metadata next to the inner message's own encoding. Keys whose encoding is
    // empty (unit, empty string, empty vector) make the metadata exactly as long as the options alone.
    macro_rules! jobs {
        ($($kt:ty => [$($k:expr),*]);* $(;)?) => {$($(
            for ttl in [None, Some(std::time::Duration::from_nanos(1)), Some(std::time::Duration::from_millis(1500))] {
                for viafm in [false, true] {
                    rts += 1;
                    let key: $kt = $k;
                    let job = ractor::factory::Job::<$kt, HMsg> { key: key.clone(), msg: HMsg(77), options: ractor::factory::JobOptions::new(ttl), accepted: None };
                    let sub = job.options.submit_time();
                    let back = std::panic::catch_unwind(std::panic::AssertUnwindSafe(|| {
                        if viafm {
                            ractor::factory::FactoryMessage::Dispatch(job).serialize().ok()
                                .and_then(|s| ractor::factory::FactoryMessage::<$kt, HMsg>::deserialize(s).ok())
                                .and_then(|m| if let ractor::factory::FactoryMessage::Dispatch(j) = m { Some(j) } else { None })
                        } else {
                            job.serialize().ok().and_then(|s| ractor::factory::Job::<$kt, HMsg>::deserialize(s).ok())
                        }
                    }));
                    let good = match back {
                        Ok(Some(j)) => {
                            let dt = |a: std::time::SystemTime, b: std::time::SystemTime| a.duration_since(b).unwrap_or_else(|e| e.duration()) < std::time::Duration::from_micros(1);
                            j.key == key && j.msg.0 == 77 && j.options.ttl() == ttl && dt(j.options.submit_time(), sub) && j.accepted.is_none()
                        }
                        _ => false,
                    };
                    if !good {
                        rt_fail.push(format!("Job<{}> key={:?} ttl={:?} via_factory_message={}", stringify!($kt), key, ttl, viafm));
                    }
                }
            }
        )*)*};
    }
    jobs!(() => [()]; String => [String::new(), "k".to_string(), "h\u{e9}llo".to_string()]; u64 => [0u64, u64::MAX];
          Vec<u8> => [Vec::<u8>::new(), vec![0u8], vec![1u8; 17]]; Vec<u32> => [Vec::<u32>::new(), vec![5u32, 6]]; bool => [true]);
    // bad job metadata: absent, or shorter than the options block, must be an error (never a panic); and a call reply is
    // never a job
    for meta in [None, Some(vec![]), Some(vec![0u8; 1]), Some(vec![0xffu8; 15])] {
        rts += 1;
        let m = SerializedMessage::Cast { variant: "ok".into(), args: 77u32.to_be_bytes().to_vec(), metadata: meta.clone() };
        match std::panic::catch_unwind(std::panic::AssertUnwindSafe(|| ractor::factory::Job::<u64, HMsg>::deserialize(m).is_err())) {
            Ok(true) => {}
            Ok(false) => rt_fail.push(format!("Job<u64> accepted metadata {:?}", meta)),
            Err(_) => rt_fail.push(format!("Job<u64> decoder panicked on metadata {:?}", meta)),
        }
    }
    for keylen in [0usize, 3, 7, 9] {
        // metadata with an options block and a key of the wrong width: u64 keys take what is there (documented: the numeric
        // conversions read a fixed width) -- it must not panic the decoder when the width is short
        rts += 1;
        let m = SerializedMessage::Cast { variant: "ok".into(), args: 77u32.to_be_bytes().to_vec(), metadata: Some(vec![0u8; 16 + keylen]) };
        let _ = keylen;
        let r = std::panic::catch_unwind(std::panic::AssertUnwindSafe(|| ractor::factory::Job::<String, HMsg>::deserialize(m).map(|j| j.key.len())));
        match r {
            Ok(Ok(n)) if n == keylen => {}
            other => rt_fail.push(format!("Job<String> metadata with {keylen}-byte key: {:?}", other.map(|x| x.ok()).ok())),
        }
    }
    json!({"family": "codec-extra", "decoder_inputs": inputs.len() * variants.len() * 2, "decoded_ok": ok, "decoded_err": err, "decoder_panics": panics, "panicked_inputs": panicked,
           "round_trips": rts, "round_trip_failures": rt_fail})
}
