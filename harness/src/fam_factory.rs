//! Families `leaky` and `factory` (C13, C14, C15).
//! `leaky`: every (refill, interval, max, initial) tuple over small values and boundary classes,
//! each with fixed and seeded-random call scripts, run through the real LeakyBucketRateLimiter on
//! the paused tokio clock; every call result and the public balance are recorded.
use crate::explore::{Explorer, Mode};
use crate::fam_lifecycle::yield_once;
use crate::tdrv::{run_t, NoBetween};
use crate::trace::{ev_json, Batch, Names, Rng};
use ractor::factory::queues::{DefaultQueue, PriorityManager, PriorityQueue, Queue, StandardPriority};
use ractor::factory::routing::{CustomHashFunction, CustomRouting, KeyPersistentRouting, QueuerRouting, RoundRobinRouting, Router, StickyQueuerRouting};
use ractor::factory::{
    DiscardHandler, DiscardMode, MessageRetryStrategy, RetriableMessage, DiscardReason, DiscardSettings, Factory, FactoryArguments, FactoryLifecycleHooks, FactoryMessage, Job,
    JobOptions, LeakyBucketRateLimiter, RateLimitedRouter, RateLimiter, UpdateSettingsRequest, WorkerBuilder, WorkerMessage, WorkerStartContext,
};
use ractor::verif::{self, Val};
use ractor::{Actor, ActorCell, ActorProcessingErr, ActorRef, Message, RpcReplyPort};
use serde_json::{json, Value};
use std::collections::HashMap;
use std::sync::{Arc, Mutex};
use std::time::Duration;

// ------------------------------------------------------------------------------------------------
// leaky bucket
// ------------------------------------------------------------------------------------------------
pub const BIG: i64 = 1_000_000;
pub const NO_INIT: i64 = 1_000_001;

#[derive(Clone, Debug)]
enum LOp {
    Adv(u64),
    Route, // check, bump when the check passed (what RateLimitedRouter does)
    Check,
    Bump,
}

fn clamp(v: usize) -> i64 {
    if v as u128 >= BIG as u128 {
        BIG
    } else {
        v as i64
    }
}
fn unclamp(v: i64) -> usize {
    if v >= BIG {
        usize::MAX
    } else {
        v as usize
    }
}

fn lev(a: &str, t: u64, extra: Value) -> Value {
    let mut m = json!({"a": a, "who": "drv", "obj": "", "d": 0, "t": t});
    for (k, v) in extra.as_object().unwrap() {
        m[k] = v.clone();
    }
    m
}

fn leaky_run(refill: i64, interval: i64, max: i64, initial: i64, script: &[LOp]) -> Vec<Value> {
    let rt = tokio::runtime::Builder::new_current_thread().enable_all().start_paused(true).build().expect("rt");
    let mut evs = vec![];
    rt.block_on(async {
        let t0 = tokio::time::Instant::now();
        let now = |t0: tokio::time::Instant| t0.elapsed().as_millis() as u64;
        let iv = if interval >= BIG { Duration::MAX } else { Duration::from_millis(interval as u64) };
        let mut lb = if initial == NO_INIT {
            LeakyBucketRateLimiter::builder().refill(unclamp(refill)).interval(iv).max(unclamp(max)).build()
        } else {
            LeakyBucketRateLimiter::builder().refill(unclamp(refill)).interval(iv).max(unclamp(max)).initial(unclamp(initial)).build()
        };
        evs.push(lev("lb.new", now(t0), json!({"refill": refill, "interval": interval, "max": max, "initial": initial, "bal": clamp(lb.balance)})));
        for op in script {
            match op {
                LOp::Adv(ms) => tokio::time::advance(Duration::from_millis(*ms)).await,
                LOp::Check => {
                    let ok = lb.check();
                    evs.push(lev("lb.check", now(t0), json!({"ok": i64::from(ok), "bal": clamp(lb.balance)})));
                }
                LOp::Bump => {
                    lb.bump();
                    evs.push(lev("lb.bump", now(t0), json!({"bal": clamp(lb.balance)})));
                }
                LOp::Route => {
                    let ok = lb.check();
                    evs.push(lev("lb.check", now(t0), json!({"ok": i64::from(ok), "bal": clamp(lb.balance)})));
                    if ok {
                        lb.bump();
                        evs.push(lev("lb.bump", now(t0), json!({"bal": clamp(lb.balance)})));
                    }
                }
            }
        }
    });
    evs
}

fn leaky_scripts(interval: i64, rng: &mut Rng, nrand: usize) -> Vec<Vec<LOp>> {
    let iv = if interval >= BIG { 3 } else { interval as u64 };
    let mut v = vec![
        // drain, just before the first deadline, exactly on it, far past it (several periods + remainder), same instant again
        vec![LOp::Route, LOp::Route, LOp::Route, LOp::Adv(iv.saturating_sub(1)), LOp::Route, LOp::Adv(1), LOp::Route, LOp::Route,
             LOp::Adv(2 * iv + 1), LOp::Route, LOp::Route, LOp::Route, LOp::Route, LOp::Adv(0), LOp::Check, LOp::Adv(iv), LOp::Check, LOp::Route],
        // bare bumps and checks
        vec![LOp::Bump, LOp::Bump, LOp::Check, LOp::Adv(iv), LOp::Bump, LOp::Check, LOp::Check, LOp::Adv(3 * iv), LOp::Check, LOp::Bump, LOp::Bump, LOp::Bump, LOp::Bump, LOp::Check],
    ];
    for _ in 0..nrand {
        let n = 8 + rng.below(8);
        let mut s = vec![];
        for _ in 0..n {
            s.push(match rng.below(8) {
                0 | 1 | 2 => LOp::Route,
                3 => LOp::Check,
                4 => LOp::Bump,
                _ => LOp::Adv([0u64, 1, 1, 2, 3, 5, 7][rng.below(7)]),
            });
        }
        v.push(s);
    }
    v
}

pub fn leaky_batch(out: &str, tier: &str, seed: u64) -> Value {
    let mut b = Batch::new(Some(out));
    let mut rng = Rng(seed ^ 0x6c65616b);
    let (refills, intervals, maxes, initials, nrand): (Vec<i64>, Vec<i64>, Vec<i64>, Vec<i64>, usize) = if tier == "thorough" {
        (vec![0, 1, 2, 3, 7, BIG], vec![0, 1, 2, 3, 4, 10, BIG], vec![0, 1, 2, 3, 5, BIG], vec![NO_INIT, 0, 1, 2, 3, 6, BIG], 3)
    } else {
        (vec![0, 1, 2, BIG], vec![0, 1, 2, 3, BIG], vec![0, 1, 3, BIG], vec![NO_INIT, 0, 1, 2, 5, BIG], 1)
    };
    let mut tuples = 0u64;
    for &r in &refills {
        for &i in &intervals {
            for &m in &maxes {
                for &n in &initials {
                    tuples += 1;
                    for (si, s) in leaky_scripts(i, &mut rng, nrand).iter().enumerate() {
                        let evs = leaky_run(r, i, m, n, s);
                        b.run(json!({"family": "leaky", "tuple": [r, i, m, n], "script": si, "ops": format!("{:?}", s)}), &evs);
                    }
                }
            }
        }
    }
    b.finish();
    json!({"family": "leaky", "runs": b.runs, "events": b.events, "tuples": tuples, "distinct": b.hashes.len(), "samples": b.samples})
}


// ------------------------------------------------------------------------------------------------
// factory: scenario language
// ------------------------------------------------------------------------------------------------
#[derive(Clone, Copy, Debug, PartialEq)]
pub enum Routing {
    Queuer,
    Sticky,
    KeyP,
    RoundRobin,
    Custom,
}
impl Routing {
    fn name(&self) -> &'static str {
        match self {
            Routing::Queuer => "queuer",
            Routing::Sticky => "sticky",
            Routing::KeyP => "keyp",
            Routing::RoundRobin => "rr",
            Routing::Custom => "custom",
        }
    }
}

/// how the worker ends the job
#[derive(Clone, Copy, Debug, PartialEq)]
pub enum Beh {
    Ok,
    Panic,
    Err,
    /// report completion, then kill itself (completion and death are both pending afterwards)
    KillAfter,
    /// kill itself in the middle of the job
    KillMid,
    /// report completion, then stop itself gracefully; its post_stop takes a few virtual ms, during which the
    /// actor is closed for messages (status Stopping) while the factory has not been told yet
    StopAfter,
    /// panic the first time the job is started, complete it on a later attempt (retriable jobs)
    PanicFirst,
}

pub struct JobMsg {
    pub id: i64,
    pub beh: Beh,
    pub yields: u8,
    pub sleep_ms: u64,
    /// how often a worker has started this job (a retried job is the same message object)
    pub tries: u32,
    /// call_job: the worker answers here when it completed the job
    pub reply: Option<RpcReplyPort<i64>>,
}
impl Message for JobMsg {}
/// every job of the harness travels as a RetriableMessage (strategy NoRetry for ordinary jobs)
pub type HMsg = RetriableMessage<u64, JobMsg>;

pub const MAXW: usize = 4;
pub const KEYS: [u64; 3] = [1, 2, 3];

#[derive(Clone, Debug)]
pub enum COp {
    Submit { id: i64, key: u64, ttl: Option<u64>, port: bool, beh: Beh, yields: u8, sleep_ms: u64 },
    /// a retriable job (RetriableMessage::from_job + retry hook), `retries` = MessageRetryStrategy::Count
    SubmitRetriable { id: i64, key: u64, ttl: Option<u64>, retries: usize, beh: Beh, sleep_ms: u64 },
    /// call_job / call_job_with_options: dispatch and wait for the worker's answer
    Call { id: i64, key: u64, ttl: Option<u64>, beh: Beh, sleep_ms: u64 },
    Adjust(usize),
    Drain,
    Update { limit: Option<(usize, bool)>, wc: Option<usize> }, // (limit, newest?)
    Handler(i64), // UpdateSettings{discard_handler}: installs a new handler with this identity (> 0)
    KillWorker(usize),
    /// the three public queries, one after the other (each waits for its reply)
    Query,
    Sleep(u64),
    Pause,
}

#[derive(Clone, Debug)]
pub struct FScn {
    pub routing: Routing,
    pub rl: Option<(usize, u64, usize, usize)>, // refill, interval ms, max, initial
    pub prioq: bool,
    pub nd_keys: Vec<u64>, // keys the priority manager declares non-discardable
    pub workers: usize,
    pub limit: Option<(usize, bool)>, // (limit, newest?)
    pub chash: [u64; 3],              // what the custom hash function returns per key
    pub hook_yield: bool,
    pub clients: Vec<Vec<COp>>,
    pub horizon_ms: u64,
}

fn prio_of(key: u64) -> usize {
    // key 1 -> Highest(0), key 2 -> Important(2), key 3 -> BestEffort(4)
    match key {
        1 => 0,
        2 => 2,
        _ => 4,
    }
}

// ------------------------------------------------------------------------------------------------
// the world of one run
// ------------------------------------------------------------------------------------------------
#[derive(Default)]
struct World {
    pid_inc: HashMap<u64, i64>,
    inc_cell: HashMap<i64, ActorCell>,
    slot_inc: HashMap<usize, i64>,
    next_inc: i64,
    factory_pid: u64,
}
type W = Arc<Mutex<World>>;

fn kvs(k: &str, v: &str) -> (String, Val) {
    (k.to_string(), Val::S(v.to_string()))
}
fn kvi(k: &str, v: i64) -> (String, Val) {
    (k.to_string(), Val::I(v))
}
fn obs(label: &str, d: i64, kv: Vec<(String, Val)>) {
    verif::emit_kv(label, 0, d, kv);
}

fn tagger(v: &dyn std::any::Any) -> i64 {
    if let Some(m) = v.downcast_ref::<HMsg>() {
        m.message.as_ref().map(|x| x.id).unwrap_or(-1)
    } else if let Some(m) = v.downcast_ref::<JobMsg>() {
        m.id
    } else if let Some(k) = v.downcast_ref::<u64>() {
        *k as i64
    } else {
        -1
    }
}

// ---- the worker: a plain actor speaking the worker protocol, so that it controls the order of
// "report completion" and "die"
struct HWorker {
    world: W,
}
struct HWState {
    wid: usize,
    inc: i64,
    factory: ActorRef<FactoryMessage<u64, HMsg>>,
    /// how long post_stop takes (set by a StopAfter job)
    close_ms: u64,
}

#[cfg_attr(feature = "asynctrait", ractor::async_trait)]
impl Actor for HWorker {
    type Msg = WorkerMessage<u64, HMsg>;
    type State = HWState;
    type Arguments = WorkerStartContext<u64, HMsg, ()>;

    async fn pre_start(&self, myself: ActorRef<Self::Msg>, ctx: Self::Arguments) -> Result<HWState, ActorProcessingErr> {
        let inc = {
            let mut w = self.world.lock().unwrap();
            w.next_inc += 1;
            let inc = w.next_inc;
            w.pid_inc.insert(myself.get_id().pid(), inc);
            w.inc_cell.insert(inc, myself.get_cell());
            w.slot_inc.insert(ctx.wid, inc);
            inc
        };
        obs("obs.w_new", 0, vec![kvi("wid", ctx.wid as i64), kvi("inc", inc)]);
        Ok(HWState { wid: ctx.wid, inc, factory: ctx.factory, close_ms: 0 })
    }

    async fn handle(&self, myself: ActorRef<Self::Msg>, msg: Self::Msg, st: &mut HWState) -> Result<(), ActorProcessingErr> {
        match msg {
            WorkerMessage::FactoryPing(t) => {
                let _ = st.factory.cast(FactoryMessage::WorkerPong(st.wid, t.elapsed()));
            }
            WorkerMessage::Dispatch(mut job) => {
                let key = job.key;
                let (id, mut beh, yields, sleep_ms) = {
                    let m = job.msg.message.as_mut().expect("a dispatched job carries its payload");
                    m.tries += 1;
                    (m.id, m.beh, m.yields, m.sleep_ms)
                };
                if beh == Beh::PanicFirst {
                    beh = if job.msg.message.as_ref().map(|m| m.tries).unwrap_or(0) <= 1 { Beh::Panic } else { Beh::Ok };
                }
                let base = |st: &HWState| vec![kvi("inc", st.inc), kvi("wid", st.wid as i64), kvi("key", key as i64), kvi("id", id)];
                obs("obs.w_start", 0, base(st));
                for _ in 0..yields {
                    yield_once().await;
                }
                if sleep_ms > 0 {
                    ractor::concurrency::sleep(Duration::from_millis(sleep_ms)).await;
                }
                let end = |st: &HWState, how: &str, d: i64| {
                    let mut kv = base(st);
                    kv.push(kvs("how", how));
                    obs("obs.w_end", d, kv);
                };
                match beh {
                    Beh::PanicFirst => unreachable!(),
                    Beh::Ok => {
                        if let Some(p) = job.msg.message.as_mut().and_then(|m| m.reply.take()) {
                            let _ = p.send(id);
                        }
                        job.msg.completed();
                        let ok = st.factory.cast(FactoryMessage::Finished(st.wid, key)).is_ok();
                        end(st, "ok", i64::from(ok));
                    }
                    Beh::KillAfter => {
                        job.msg.completed();
                        let ok = st.factory.cast(FactoryMessage::Finished(st.wid, key)).is_ok();
                        end(st, "ok", i64::from(ok));
                        myself.kill();
                        obs("obs.w_kill", 0, vec![kvi("inc", st.inc)]);
                    }
                    Beh::StopAfter => {
                        job.msg.completed();
                        let ok = st.factory.cast(FactoryMessage::Finished(st.wid, key)).is_ok();
                        end(st, "ok", i64::from(ok));
                        st.close_ms = 6 + (id as u64 % 3) * 7;
                        myself.stop(None);
                        obs("obs.w_stop", 0, vec![kvi("inc", st.inc)]);
                    }
                    Beh::Panic => {
                        end(st, "panic", 0);
                        panic!("job panics");
                    }
                    Beh::Err => {
                        end(st, "err", 0);
                        return Err("job fails".into());
                    }
                    Beh::KillMid => {
                        end(st, "killmid", 0);
                        myself.kill();
                        std::future::pending::<()>().await;
                    }
                }
            }
        }
        Ok(())
    }

    async fn post_stop(&self, _myself: ActorRef<Self::Msg>, st: &mut HWState) -> Result<(), ActorProcessingErr> {
        // from here on (status Stopping) casts to this worker fail; the supervisor hears of it only after post_stop
        obs("obs.w_closing", 0, vec![kvi("inc", st.inc)]);
        if st.close_ms > 0 {
            ractor::concurrency::sleep(Duration::from_millis(st.close_ms)).await;
        }
        Ok(())
    }
}

struct HBuilder {
    world: W,
}
impl WorkerBuilder<HWorker, ()> for HBuilder {
    fn build(&mut self, _wid: usize) -> (HWorker, ()) {
        (HWorker { world: self.world.clone() }, ())
    }
}

// the field is the handler's identity: 0 = installed at start, n > 0 = installed by the n-th COp::Handler
struct HDiscard(i64);
impl DiscardHandler<u64, HMsg> for HDiscard {
    fn discard(&self, reason: DiscardReason, job: &mut Job<u64, HMsg>) {
        let r = match reason {
            DiscardReason::TtlExpired => "ttl",
            DiscardReason::Loadshed => "loadshed",
            DiscardReason::Shutdown => "shutdown",
            DiscardReason::RateLimited => "ratelimited",
        };
        obs("obs.discard", 0, vec![kvi("id", tagger(&job.msg)), kvs("reason", r), kvi("h", self.0)]);
    }
}

struct HHooks {
    yields: bool,
}
#[cfg_attr(feature = "asynctrait", ractor::async_trait)]
impl FactoryLifecycleHooks<u64, HMsg> for HHooks {
    #[cfg(not(feature = "asynctrait"))]
    fn on_factory_started(&self, _f: ActorRef<FactoryMessage<u64, HMsg>>) -> futures::future::BoxFuture<'_, Result<(), ActorProcessingErr>> {
        Box::pin(async move {
            obs("obs.hook", 0, vec![kvs("name", "started")]);
            Ok(())
        })
    }
    #[cfg(not(feature = "asynctrait"))]
    fn on_factory_stopped(&self) -> futures::future::BoxFuture<'_, Result<(), ActorProcessingErr>> {
        Box::pin(async move {
            obs("obs.hook", 0, vec![kvs("name", "stopped")]);
            Ok(())
        })
    }
    #[cfg(not(feature = "asynctrait"))]
    fn on_factory_draining(&self, _f: ActorRef<FactoryMessage<u64, HMsg>>) -> futures::future::BoxFuture<'_, Result<(), ActorProcessingErr>> {
        let y = self.yields;
        Box::pin(async move {
            obs("obs.hook", 0, vec![kvs("name", "draining")]);
            if y {
                yield_once().await;
            }
            Ok(())
        })
    }
}

struct HHash {
    table: [u64; 3],
}
impl CustomHashFunction<u64> for HHash {
    fn hash(&self, key: &u64, _n: usize) -> usize {
        self.table[((*key as usize).max(1) - 1) % 3] as usize
    }
}

struct HPrio {
    nd: Vec<u64>,
}
impl PriorityManager<u64, StandardPriority> for HPrio {
    fn is_discardable(&self, key: &u64) -> bool {
        !self.nd.contains(key)
    }
    fn get_priority(&self, key: &u64) -> Option<StandardPriority> {
        Some(StandardPriority::from(prio_of(*key)))
    }
}
type PQ = PriorityQueue<u64, HMsg, StandardPriority, HPrio, 5>;

fn dsettings(l: Option<(usize, bool)>) -> DiscardSettings {
    match l {
        None => DiscardSettings::None,
        Some((limit, newest)) => DiscardSettings::Static { limit, mode: if newest { DiscardMode::Newest } else { DiscardMode::Oldest } },
    }
}

async fn start_with<R, Q>(sc: &FScn, w: &W, router: R, queue: Q) -> Option<ActorRef<FactoryMessage<u64, HMsg>>>
where
    R: Router<u64, HMsg>,
    Q: Queue<u64, HMsg>,
{
    let def = Factory::<u64, HMsg, (), HWorker, R, Q>::default();
    let args = FactoryArguments {
        num_initial_workers: sc.workers,
        queue,
        router,
        capacity_controller: None,
        dead_mans_switch: None,
        discard_handler: Some(Arc::new(HDiscard(0))),
        discard_settings: dsettings(sc.limit),
        lifecycle_hooks: Some(Box::new(HHooks { yields: sc.hook_yield })),
        worker_builder: Box::new(HBuilder { world: w.clone() }),
        stats: None,
    };
    match Actor::spawn(None, def, args).await {
        Ok((f, _h)) => Some(f),
        Err(_) => None,
    }
}

async fn start_q<R: Router<u64, HMsg>>(sc: &FScn, w: &W, router: R) -> Option<ActorRef<FactoryMessage<u64, HMsg>>> {
    if sc.prioq {
        start_with(sc, w, router, PQ::new(HPrio { nd: sc.nd_keys.clone() })).await
    } else {
        start_with(sc, w, router, DefaultQueue::<u64, HMsg>::default()).await
    }
}

async fn start_rl<R: Router<u64, HMsg>>(sc: &FScn, w: &W, router: R) -> Option<ActorRef<FactoryMessage<u64, HMsg>>> {
    match sc.rl {
        None => start_q(sc, w, router).await,
        Some((refill, iv, max, initial)) => {
            let rate_limiter = LeakyBucketRateLimiter::builder().refill(refill).interval(Duration::from_millis(iv)).max(max).initial(initial).build();
            start_q(sc, w, RateLimitedRouter { router, rate_limiter }).await
        }
    }
}

async fn start_factory(sc: &FScn, w: &W) -> Option<ActorRef<FactoryMessage<u64, HMsg>>> {
    match sc.routing {
        Routing::Queuer => start_rl(sc, w, QueuerRouting::<u64, HMsg>::default()).await,
        Routing::Sticky => start_rl(sc, w, StickyQueuerRouting::<u64, HMsg>::default()).await,
        Routing::KeyP => start_rl(sc, w, KeyPersistentRouting::<u64, HMsg>::default()).await,
        Routing::RoundRobin => start_rl(sc, w, RoundRobinRouting::<u64, HMsg>::default()).await,
        Routing::Custom => start_rl(sc, w, CustomRouting::<u64, HMsg, HHash>::new(HHash { table: sc.chash })).await,
    }
}

async fn client(sc: Arc<FScn>, w: W, f: ActorRef<FactoryMessage<u64, HMsg>>, ops: Vec<COp>, ci: usize) {
    for (oi, op) in ops.into_iter().enumerate() {
        yield_once().await;
        match op {
            COp::Pause => {}
            COp::Sleep(ms) => ractor::concurrency::sleep(Duration::from_millis(ms)).await,
            COp::Submit { id, key, ttl, port, beh, yields, sleep_ms } => {
                // the FactoryRef-style entry points, one per shape of job
                let payload = JobMsg { id, beh, yields, sleep_ms, tries: 0, reply: None };
                let mut rx = None;
                let ok = if port {
                    let mut job = Job::with_options(key, RetriableMessage::new(key, payload, MessageRetryStrategy::NoRetry), JobOptions::new(ttl.map(Duration::from_millis)));
                    let (tx, r) = ractor::concurrency::oneshot::<Option<Job<u64, HMsg>>>();
                    job.accepted = Some(RpcReplyPort::from(tx));
                    rx = Some(r);
                    f.dispatch_job(job).is_ok()
                } else if ttl.is_some() {
                    f.dispatch_with_options(key, RetriableMessage::new(key, payload, MessageRetryStrategy::NoRetry), JobOptions::new(ttl.map(Duration::from_millis))).is_ok()
                } else if id % 2 == 0 {
                    f.dispatch(key, RetriableMessage::new(key, payload, MessageRetryStrategy::NoRetry)).is_ok()
                } else {
                    f.submit_retriable_job(Job::new(key, payload), MessageRetryStrategy::NoRetry).is_ok()
                };
                let nd = sc.prioq && sc.nd_keys.contains(&key);
                obs(
                    "obs.submit",
                    i64::from(ok),
                    vec![
                        kvi("id", id),
                        kvi("key", key as i64),
                        kvi("ttl", ttl.map(|t| t as i64).unwrap_or(-1)),
                        kvi("port", i64::from(port)),
                        kvi("prio", if sc.prioq { prio_of(key) as i64 } else { 0 }),
                        kvi("nd", i64::from(nd)),
                        kvi("retries", 0),
                    ],
                );
                if let Some(rx) = rx {
                    let _ = ractor::concurrency::spawn_named(Some(&format!("waiter{ci}_{oi}")), async move {
                        let res = match rx.await {
                            Ok(None) => "accepted",
                            Ok(Some(_)) => "returned",
                            Err(_) => "dropped",
                        };
                        obs("obs.reply", 0, vec![kvi("id", id), kvs("res", res)]);
                    });
                }
            }
            COp::SubmitRetriable { id, key, ttl, retries, beh, sleep_ms } => {
                let payload = JobMsg { id, beh, yields: 0, sleep_ms, tries: 0, reply: None };
                let mut job = RetriableMessage::from_job(Job::with_options(key, payload, JobOptions::new(ttl.map(Duration::from_millis))), MessageRetryStrategy::Count(retries), f.clone());
                job.msg.set_retry_hook(move |_k: &u64| obs("obs.retry", 0, vec![kvi("id", id)]));
                let ok = match f.dispatch_job(job) {
                    Ok(()) => true,
                    Err(e) => {
                        // the factory is gone: the job comes back in the error; disarm it, or dropping it here would fire the hook
                        if let ractor::MessagingErr::SendErr(FactoryMessage::Dispatch(mut j)) = *e {
                            j.msg.completed();
                        }
                        false
                    }
                };
                let nd = sc.prioq && sc.nd_keys.contains(&key);
                obs(
                    "obs.submit",
                    i64::from(ok),
                    vec![
                        kvi("id", id),
                        kvi("key", key as i64),
                        kvi("ttl", ttl.map(|t| t as i64).unwrap_or(-1)),
                        kvi("port", 0),
                        kvi("prio", if sc.prioq { prio_of(key) as i64 } else { 0 }),
                        kvi("nd", i64::from(nd)),
                        kvi("retries", retries as i64),
                    ],
                );
            }
            COp::Call { id, key, ttl, beh, sleep_ms } => {
                let nd = sc.prioq && sc.nd_keys.contains(&key);
                let prioq = sc.prioq;
                let f2 = f.clone();
                // the builder runs right before the cast, in the same poll: the cast succeeds iff the factory still admits messages
                let build = move |port: RpcReplyPort<i64>| {
                    let ok = (f2.get_status() as i64) < (ractor::ActorStatus::Draining as i64);
                    obs(
                        "obs.submit",
                        i64::from(ok),
                        vec![kvi("id", id), kvi("key", key as i64), kvi("ttl", ttl.map(|t| t as i64).unwrap_or(-1)), kvi("port", 0),
                             kvi("prio", if prioq { prio_of(key) as i64 } else { 0 }), kvi("nd", i64::from(nd)), kvi("retries", 0)],
                    );
                    RetriableMessage::new(key, JobMsg { id, beh, yields: 0, sleep_ms, tries: 0, reply: Some(port) }, MessageRetryStrategy::NoRetry)
                };
                let r = match ttl {
                    None => f.call_job(key, build, None).await,
                    Some(t) => f.call_job_with_options(key, build, JobOptions::new(Some(Duration::from_millis(t))), None).await,
                };
                match r {
                    Ok(ractor::rpc::CallResult::Success(v)) => obs("obs.call_ret", 1, vec![kvi("id", id), kvi("v", v)]),
                    _ => obs("obs.call_ret", 0, vec![kvi("id", id), kvi("v", -1)]),
                }
            }
            COp::Adjust(n) => {
                let ok = f.adjust_worker_pool(n).is_ok();
                obs("obs.adjust", i64::from(ok), vec![kvi("n", n as i64)]);
            }
            COp::Drain => {
                let ok = f.drain_requests().is_ok();
                obs("obs.drain", i64::from(ok), vec![]);
            }
            COp::Update { limit, wc } => {
                let req = UpdateSettingsRequest {
                    discard_handler: None,
                    discard_settings: limit.map(|l| dsettings(Some(l))),
                    dead_mans_switch: None,
                    capacity_controller: None,
                    lifecycle_hooks: None,
                    stats: None,
                    worker_count: wc,
                };
                let ok = f.update_settings(req).is_ok();
                let (lim, mode) = match limit {
                    None => (-2, "same"),
                    Some((l, true)) => (l as i64, "newest"),
                    Some((l, false)) => (l as i64, "oldest"),
                };
                obs("obs.update", i64::from(ok), vec![kvi("lim", lim), kvs("mode", mode), kvi("wc", wc.map(|c| c as i64).unwrap_or(-1)), kvi("hg", 0)]);
            }
            COp::Handler(g) => {
                let req = UpdateSettingsRequest {
                    discard_handler: Some(Some(Arc::new(HDiscard(g)))),
                    discard_settings: None,
                    dead_mans_switch: None,
                    capacity_controller: None,
                    lifecycle_hooks: None,
                    stats: None,
                    worker_count: None,
                };
                let ok = f.update_settings(req).is_ok();
                obs("obs.update", i64::from(ok), vec![kvi("lim", -2), kvs("mode", "same"), kvi("wc", -1), kvi("hg", g)]);
            }
            COp::Query => {
                for kind in ["q_depth", "q_active", "q_cap"] {
                    if oi % 2 == 1 {
                        // through the async helpers: the cast happens in the same poll as this line; it succeeds iff the
                        // factory still admits messages
                        let ok = (f.get_status() as i64) < (ractor::ActorStatus::Draining as i64);
                        obs("obs.q_sent", i64::from(ok), vec![kvs("kind", kind)]);
                        let r = match kind {
                            "q_depth" => f.queue_depth(None).await,
                            "q_active" => f.active_workers(None).await,
                            _ => f.available_capacity(None).await,
                        };
                        match r {
                            Ok(ractor::rpc::CallResult::Success(v)) => obs("obs.q_reply", 1, vec![kvs("kind", kind), kvi("v", v as i64)]),
                            _ => obs("obs.q_reply", 0, vec![kvs("kind", kind), kvi("v", -1)]),
                        }
                        continue;
                    }
                    let (tx, rx) = ractor::concurrency::oneshot::<usize>();
                    let port = RpcReplyPort::from(tx);
                    let msg = match kind {
                        "q_depth" => FactoryMessage::GetQueueDepth(port),
                        "q_active" => FactoryMessage::GetNumActiveWorkers(port),
                        _ => FactoryMessage::GetAvailableCapacity(port),
                    };
                    let ok = f.cast(msg).is_ok();
                    obs("obs.q_sent", i64::from(ok), vec![kvs("kind", kind)]);
                    match rx.await {
                        Ok(v) => obs("obs.q_reply", 1, vec![kvs("kind", kind), kvi("v", v as i64)]),
                        Err(_) => obs("obs.q_reply", 0, vec![kvs("kind", kind), kvi("v", -1)]),
                    }
                }
            }
            COp::KillWorker(wid) => {
                let tgt = {
                    let g = w.lock().unwrap();
                    g.slot_inc.get(&wid).and_then(|inc| g.inc_cell.get(inc).map(|c| (*inc, c.clone())))
                };
                if let Some((inc, cell)) = tgt {
                    cell.kill();
                    obs("obs.w_kill", 0, vec![kvi("inc", inc)]);
                }
            }
        }
    }
}

const FKEEP: &[&str] = &[
    "obs.cfg", "obs.w_new", "obs.w_start", "obs.w_end", "obs.w_kill", "obs.w_stop", "obs.w_closing", "obs.discard", "obs.retry", "obs.hook", "obs.submit", "obs.call_ret", "obs.reply", "obs.adjust",
    "obs.drain", "obs.update", "obs.q_sent", "obs.q_reply", "factory.step", "factory.cast", "guard.cleanup",
];

fn hash_tables(sc: &FScn) -> (Value, Value) {
    // KeyPersistent: hash_with_max(key, n) for n = 1..MAXW (row per key); custom: hash(key) % n
    let kph: Vec<Vec<i64>> = KEYS.iter().map(|k| (1..=MAXW).map(|n| ractor::factory::hash::hash_with_max(k, n) as i64).collect()).collect();
    let ch: Vec<Vec<i64>> = (0..3).map(|i| (1..=MAXW).map(|n| (sc.chash[i] % n as u64) as i64).collect()).collect();
    (json!(kph), json!(ch))
}

static RUN_SEQ: std::sync::atomic::AtomicU64 = std::sync::atomic::AtomicU64::new(0);

pub fn factory_run(sc: &FScn, ex: &mut Explorer) -> (Vec<Value>, Value, bool) {
    verif::set_tagger(tagger);
    let _ = RUN_SEQ.fetch_add(1, std::sync::atomic::Ordering::SeqCst);
    let sc = Arc::new(sc.clone());
    let w: W = Arc::new(Mutex::new(World::default()));
    let fcell: Arc<Mutex<Option<ActorCell>>> = Arc::new(Mutex::new(None));
    let fin: Arc<Mutex<Value>> = Arc::new(Mutex::new(json!(null)));
    let (sc2, w2, fcell2) = (sc.clone(), w.clone(), fcell.clone());
    let (fin3, w3, fcell3) = (fin.clone(), w.clone(), fcell.clone());
    let run = run_t(
        ex,
        6000,
        sc.horizon_ms,
        &mut NoBetween,
        move || async move {
            // the starter task spawns the factory (its pre_start spawns the initial workers) and then the clients
            let (sc3, w4, fc) = (sc2.clone(), w2.clone(), fcell2.clone());
            let _ = ractor::concurrency::spawn_named(Some("starter"), async move {
                if let Some(f) = start_factory(&sc3, &w4).await {
                    w4.lock().unwrap().factory_pid = f.get_id().pid();
                    *fc.lock().unwrap() = Some(f.get_cell());
                    for (ci, ops) in sc3.clients.iter().enumerate() {
                        let _ = ractor::concurrency::spawn_named(Some(&format!("client{ci}")), client(sc3.clone(), w4.clone(), f.clone(), ops.clone(), ci));
                    }
                }
            });
        },
        move || {
            let g = w3.lock().unwrap();
            if let Some(fc) = fcell3.lock().unwrap().as_ref() {
                let mut live: Vec<i64> = fc
                    .get_children()
                    .iter()
                    .filter(|c| (c.get_status() as i64) < (ractor::ActorStatus::Stopping as i64))
                    .filter_map(|c| g.pid_inc.get(&c.get_id().pid()).copied())
                    .collect();
                live.sort_unstable();
                *fin3.lock().unwrap() = json!({"live": live, "fst": fc.get_status() as i64});
            }
        },
    );
    let g = w.lock().unwrap();
    let names = Names::default();
    let (kph, ch) = hash_tables(&sc);
    let mut evs: Vec<Value> = vec![];
    let rl = match sc.rl {
        None => json!([0, 0, 0, 0, 0]),
        Some((r, i, m, n)) => json!([1, r, i, m, n]),
    };
    let (lim, mode) = match sc.limit {
        None => (-1, "none"),
        Some((l, true)) => (l as i64, "newest"),
        Some((l, false)) => (l as i64, "oldest"),
    };
    evs.push(json!({"a": "obs.cfg", "who": "drv", "obj": "", "d": 0, "t": 0, "routing": sc.routing.name(), "rl": rl, "prioq": i64::from(sc.prioq),
                    "workers": sc.workers, "lim": lim, "mode": mode, "kph": kph, "ch": ch}));
    for e in &run.events {
        if !FKEEP.contains(&e.a.as_str()) {
            continue;
        }
        let mut j = ev_json(e, &names);
        let o = j.as_object_mut().unwrap();
        match e.a.as_str() {
            "guard.cleanup" => {
                if e.obj == g.factory_pid && g.factory_pid != 0 {
                    o.insert("a".into(), json!("obs.f_dead"));
                    o.insert("inc".into(), json!(0));
                } else if let Some(inc) = g.pid_inc.get(&e.obj) {
                    o.insert("a".into(), json!("obs.w_dead"));
                    o.insert("inc".into(), json!(inc));
                } else {
                    continue;
                }
            }
            "factory.cast" => {
                o.insert("inc".into(), json!(g.pid_inc.get(&e.obj).copied().unwrap_or(0)));
            }
            "factory.step" => {
                if e.obj != g.factory_pid {
                    continue;
                }
                let kind = o.get("kind").and_then(|k| k.as_str()).unwrap_or("").to_string();
                if kind.starts_with("sup_") {
                    let pid = o.get("a1").and_then(|x| x.as_i64()).unwrap_or(0) as u64;
                    o.insert("a1".into(), json!(g.pid_inc.get(&pid).copied().unwrap_or(0)));
                }
                let mut snap: Value = serde_json::from_str(o.get("snap").and_then(|s| s.as_str()).unwrap_or("{}")).unwrap_or(json!({}));
                if let Some(ws) = snap.get_mut("w").and_then(|x| x.as_array_mut()) {
                    for wv in ws.iter_mut() {
                        let pid = wv.get("pid").and_then(|x| x.as_u64()).unwrap_or(0);
                        let wo = wv.as_object_mut().unwrap();
                        wo.remove("pid");
                        wo.insert("inc".into(), json!(g.pid_inc.get(&pid).copied().unwrap_or(0)));
                    }
                }
                let so = snap.as_object_mut().unwrap();
                for (k, dv) in [("av", json!([])), ("inq", json!([])), ("last", json!(-1)), ("bal", json!(-1))] {
                    so.entry(k.to_string()).or_insert(dv);
                }
                o.insert("snap".into(), snap);
            }
            _ => {}
        }
        o.insert("obj".into(), json!(""));
        evs.push(j);
    }
    let fin = fin.lock().unwrap().clone();
    evs.push(json!({"a": "obs.end", "who": "drv", "obj": "", "d": 0, "t": sc.horizon_ms, "fin": fin}));
    let bad = !run.quiescent;
    let meta = json!({"family": "factory", "scenario": format!("{:?}", sc), "sched": ex.sched, "steps": run.steps, "quiescent": run.quiescent});
    (evs, meta, bad)
}

fn sub(id: i64, key: u64) -> COp {
    COp::Submit { id, key, ttl: None, port: false, beh: Beh::Ok, yields: 1, sleep_ms: 0 }
}
fn subb(id: i64, key: u64, beh: Beh) -> COp {
    COp::Submit { id, key, ttl: None, port: false, beh, yields: 1, sleep_ms: 0 }
}

fn base_scn(routing: Routing, workers: usize) -> FScn {
    FScn { routing, rl: None, prioq: false, nd_keys: vec![], workers, limit: None, chash: [7, 12, 5], hook_yield: false, clients: vec![], horizon_ms: 250 }
}

fn subs(id: i64, key: u64, beh: Beh, sleep_ms: u64) -> COp {
    COp::Submit { id, key, ttl: None, port: false, beh, yields: 0, sleep_ms }
}

/// Hand-written micro-scenarios explored by bounded DFS over poll orders
pub fn factory_micro(which: &str) -> Vec<FScn> {
    let mut v = vec![];
    let all = which == "all";
    if all || which == "plain" {
        let mut s = base_scn(Routing::Queuer, 2);
        s.clients = vec![vec![sub(1, 1), sub(2, 2), sub(3, 1)]];
        v.push(s);
    }
    if all || which == "stale" {
        // DESIGN §6 item 2: completion reported, then the worker kills itself; a second job of the key is
        // queued behind it and a third arrives while the second runs on the replacement
        for r in [Routing::Sticky, Routing::KeyP] {
            let mut s = base_scn(r, 2);
            s.clients = vec![vec![subb(1, 1, Beh::KillAfter), subs(2, 1, Beh::Ok, 60), COp::Sleep(20), sub(3, 1), COp::Sleep(10), COp::Adjust(3), sub(4, 1)]];
            v.push(s);
        }
    }
    if all || which == "stickyq" {
        // two jobs of one key wait in the factory queue; the second must follow the first to its worker
        let mut s = base_scn(Routing::Sticky, 2);
        s.clients = vec![vec![subs(1, 1, Beh::Ok, 20), subs(2, 2, Beh::Ok, 30), subs(3, 3, Beh::Ok, 40), subs(4, 3, Beh::Ok, 10), subs(5, 3, Beh::Ok, 0)]];
        v.push(s);
    }
    if all || which == "drainrepl" {
        // DESIGN §6 item 3: a draining slot's worker dies
        let mut s = base_scn(Routing::Queuer, 2);
        s.clients = vec![vec![subs(1, 1, Beh::Ok, 40), subs(2, 2, Beh::Panic, 20)], vec![COp::Sleep(5), COp::Adjust(1)]];
        v.push(s);
    }
    let job = |id: i64, key: u64, beh: Beh, sleep_ms: u64, port: bool, ttl: Option<u64>| COp::Submit { id, key, ttl, port, beh, yields: 0, sleep_ms };
    if all || which == "deaths" {
        for r in [Routing::Queuer, Routing::Sticky, Routing::KeyP, Routing::RoundRobin] {
            let mut s = base_scn(r, 2);
            s.clients = vec![vec![subb(1, 1, Beh::Panic), sub(2, 2), subb(3, 1, Beh::Err), subb(4, 3, Beh::KillMid), sub(5, 2), subb(6, 2, Beh::KillAfter), sub(7, 1)]];
            v.push(s);
        }
        // an idle worker killed from outside, then work arrives
        let mut s = base_scn(Routing::Queuer, 2);
        s.clients = vec![vec![COp::KillWorker(0), sub(1, 1), sub(2, 2), sub(3, 3)], vec![COp::Pause, COp::KillWorker(1)]];
        v.push(s);
    }
    if all || which == "resize" {
        for r in [Routing::Queuer, Routing::Sticky, Routing::KeyP, Routing::RoundRobin, Routing::Custom] {
            let mut s = base_scn(r, 2);
            s.clients = vec![
                vec![subs(1, 1, Beh::Ok, 30), subs(2, 2, Beh::Ok, 10), sub(3, 3), sub(4, 1), COp::Sleep(40), sub(5, 2), sub(6, 3)],
                vec![COp::Adjust(3), COp::Sleep(5), COp::Adjust(1), COp::Sleep(20), COp::Adjust(0), COp::Adjust(2)],
            ];
            v.push(s);
        }
    }
    if all || which == "drain" {
        for r in [Routing::Sticky, Routing::KeyP] {
            let mut s = base_scn(r, 2);
            s.hook_yield = true;
            s.clients = vec![
                vec![job(1, 1, Beh::Ok, 20, true, None), job(2, 1, Beh::Ok, 0, true, None), job(3, 2, Beh::Ok, 10, false, None), COp::Sleep(5), job(4, 2, Beh::Ok, 0, true, None), job(5, 3, Beh::Ok, 0, false, None)],
                vec![COp::Pause, COp::Drain, job(6, 1, Beh::Ok, 0, true, None)],
            ];
            v.push(s);
        }
    }
    if all || which == "retry" {
        let rj = |id: i64, key: u64, retries: usize, beh: Beh, sleep_ms: u64, ttl: Option<u64>| COp::SubmitRetriable { id, key, ttl, retries, beh, sleep_ms };
        // a worker dies mid-job: the job comes back while retries remain (PanicFirst succeeds the second time, Panic / KillMid
        // use their retries up and are then lost with the worker; a completed job is never seen again)
        for r in [Routing::Queuer, Routing::KeyP, Routing::Sticky] {
            let mut s = base_scn(r, 2);
            s.clients = vec![vec![rj(1, 1, 2, Beh::PanicFirst, 5, None), rj(2, 2, 1, Beh::Panic, 0, None), sub(3, 1), rj(4, 1, 1, Beh::Ok, 0, None), rj(5, 2, 2, Beh::KillMid, 3, None),
                                  rj(6, 1, 1, Beh::KillAfter, 0, None), COp::Sleep(20), rj(7, 2, 1, Beh::Err, 0, None)]];
            v.push(s);
        }
        // shed jobs re-submit themselves (the documented caveat): newest / oldest, factory queue and worker queue
        for (r, newest) in [(Routing::Queuer, true), (Routing::Queuer, false), (Routing::KeyP, true), (Routing::KeyP, false)] {
            let mut s = base_scn(r, 1);
            s.limit = Some((1, newest));
            s.clients = vec![vec![job(1, 1, Beh::Ok, 20, false, None), rj(2, 1, 2, Beh::Ok, 0, None), rj(3, 1, 2, Beh::Ok, 0, None), sub(4, 1), COp::Sleep(30), rj(5, 1, 1, Beh::Ok, 0, None)]];
            v.push(s);
        }
        // call_job / call_job_with_options: the caller waits for the worker's answer (or for the port to be dropped)
        for r in [Routing::Queuer, Routing::KeyP] {
            let mut s = base_scn(r, 1);
            s.limit = Some((1, true));
            s.clients = vec![vec![COp::Call { id: 1, key: 1, ttl: None, beh: Beh::Ok, sleep_ms: 10 }, COp::Call { id: 2, key: 1, ttl: Some(50), beh: Beh::Panic, sleep_ms: 0 },
                                  COp::Call { id: 3, key: 2, ttl: Some(2), beh: Beh::Ok, sleep_ms: 0 }],
                             vec![COp::Sleep(2), sub(4, 1), sub(5, 1), COp::Call { id: 6, key: 2, ttl: None, beh: Beh::Ok, sleep_ms: 0 }]];
            v.push(s);
        }
        // TTL: an expired job does not retry; rate limit and drain refusals do
        let mut s = base_scn(Routing::Queuer, 1);
        s.rl = Some((1, 50, 1, 1));
        s.clients = vec![vec![rj(1, 1, 1, Beh::Panic, 20, Some(10)), rj(2, 1, 2, Beh::Ok, 0, None), rj(3, 2, 1, Beh::Ok, 0, Some(500)), COp::Sleep(60), rj(4, 1, 3, Beh::PanicFirst, 0, None)]];
        v.push(s);
        for r in [Routing::Queuer, Routing::KeyP] {
            let mut s = base_scn(r, 1);
            s.limit = Some((2, false));
            s.clients = vec![vec![rj(1, 1, 1, Beh::Ok, 15, None), rj(2, 1, 2, Beh::Ok, 5, None), rj(3, 2, 1, Beh::Ok, 0, None), COp::Sleep(3), COp::Drain, rj(4, 1, 2, Beh::Ok, 0, None), rj(5, 2, 1, Beh::Ok, 0, None)]];
            v.push(s);
        }
    }
    if all || which == "closing" {
        // a worker reports completion and stops itself; while its post_stop runs it is closed for messages but the
        // factory has not been told.  Jobs dispatched to its slot in that window are parked for the replacement.
        // key-persistent: job 2 (key 1) is parked on slot 0, picked up by the replacement; then the pool grows so that
        // key 1 hashes to slot 1, and further key-1 jobs must still follow job 2 to slot 0
        let mut s = base_scn(Routing::KeyP, 1);
        s.clients = vec![vec![subb(1, 1, Beh::StopAfter), COp::Sleep(3), job(2, 1, Beh::Ok, 40, true, None), job(3, 2, Beh::Ok, 0, true, None), COp::Sleep(15), COp::Adjust(2),
                              job(4, 1, Beh::Ok, 5, true, None), job(5, 1, Beh::Ok, 0, false, None), job(6, 2, Beh::Ok, 0, false, None)]];
        v.push(s);
        // the same with two workers and a shrink instead of a grow (key 1: slot 1 of 2, slot 0 of 1)
        let mut s = base_scn(Routing::KeyP, 2);
        s.clients = vec![vec![subb(1, 1, Beh::StopAfter), COp::Sleep(3), job(2, 1, Beh::Ok, 40, true, None), job(3, 1, Beh::Ok, 0, true, None), COp::Sleep(15), COp::Adjust(1),
                              job(4, 1, Beh::Ok, 5, true, None), job(5, 2, Beh::Ok, 0, false, None)]];
        v.push(s);
        // custom hash (key 1 -> slot 1 of 2) and round robin (first pick is slot 1), with and without a worker queue limit
        for (r, lim) in [(Routing::Custom, None), (Routing::Custom, Some((1usize, true))), (Routing::RoundRobin, None), (Routing::RoundRobin, Some((1usize, true)))] {
            let mut s = base_scn(r, 2);
            s.limit = lim;
            s.clients = vec![vec![subb(1, 1, Beh::StopAfter), COp::Sleep(3), job(2, 1, Beh::Ok, 20, true, None), job(3, 1, Beh::Ok, 0, true, None), job(4, 1, Beh::Ok, 0, true, None),
                                  COp::Sleep(15), COp::Adjust(3), job(5, 1, Beh::Ok, 5, true, None), job(6, 2, Beh::Ok, 0, false, None)]];
            v.push(s);
        }
        // sticky: slot 0 is busy with another key, slot 1 closes; key-1 jobs arrive in the window
        let mut s = base_scn(Routing::Sticky, 2);
        s.clients = vec![vec![job(9, 2, Beh::Ok, 12, false, None), subb(1, 1, Beh::StopAfter), COp::Sleep(3), job(2, 1, Beh::Ok, 30, true, None), COp::Sleep(25), COp::Adjust(3),
                              job(4, 1, Beh::Ok, 5, true, None), job(5, 3, Beh::Ok, 0, false, None)]];
        v.push(s);
        // a StopAfter worker with more work already queued on its slot
        for r in [Routing::KeyP, Routing::RoundRobin] {
            let mut s = base_scn(r, 1);
            s.clients = vec![vec![job(1, 1, Beh::StopAfter, 10, true, None), job(2, 1, Beh::Ok, 5, true, None), job(3, 2, Beh::StopAfter, 0, true, None), COp::Sleep(12), job(4, 1, Beh::Ok, 0, true, None),
                                  COp::Sleep(30), job(5, 2, Beh::Ok, 0, true, None)]];
            v.push(s);
        }
    }
    // sticky: the parked job has no in-flight entry, a later job of its key goes to the other slot (Dev_ParkedJobNotSticky)
    if all || which == "closing" || which == "closing_sticky" {
        let mut s = base_scn(Routing::Sticky, 2);
        s.clients = vec![vec![job(9, 2, Beh::Ok, 8, false, None), subb(1, 1, Beh::StopAfter), COp::Sleep(3), job(2, 1, Beh::Ok, 30, true, None), COp::Sleep(2), job(3, 1, Beh::Ok, 30, true, None)]];
        v.push(s);
    }
    // DiscardMode::Oldest: jobs parked on the closed slot are not shed (Dev_ClosedWorkerQueueOverLimit)
    if all || which == "closing" || which == "closing_oldest" {
        for r in [Routing::Custom, Routing::KeyP] {
            let mut s = base_scn(r, 2);
            s.limit = Some((1usize, false));
            s.clients = vec![vec![subb(1, 1, Beh::StopAfter), COp::Sleep(3), job(2, 1, Beh::Ok, 20, true, None), job(3, 1, Beh::Ok, 0, true, None), job(4, 1, Beh::Ok, 0, true, None),
                                  COp::Sleep(15), COp::Adjust(3), job(5, 1, Beh::Ok, 5, true, None), job(6, 2, Beh::Ok, 0, false, None)]];
            v.push(s);
        }
    }
    if all || which == "shrinkupdate" {
        // a shrink leaves the busy out-of-pool worker retiring; new discard settings arrive meanwhile; the pool grows back
        // before that worker finished: the revived slot obeys the new per-worker limit like every other one
        for r in [Routing::KeyP, Routing::Custom] {
            let mut s = base_scn(r, 2);
            // key 1 hashes to worker 1 of 2 (key-persistent and custom tables)
            s.clients = vec![vec![job(1, 1, Beh::Ok, 60, false, None), COp::Sleep(3), COp::Adjust(1), COp::Update { limit: Some((1, true)), wc: None }, COp::Adjust(2), COp::Sleep(2),
                                  job(2, 1, Beh::Ok, 0, false, None), job(3, 1, Beh::Ok, 0, false, None), job(4, 1, Beh::Ok, 0, false, None), COp::Sleep(80), job(5, 1, Beh::Ok, 0, false, None)]];
            v.push(s);
        }
    }
    if all || which == "shrinkdrain" {
        // a pool shrink leaves the busy out-of-pool worker draining with accepted jobs in its own queue, then
        // DrainRequests arrives while every in-pool worker is idle: the factory must wait for that worker
        for r in [Routing::KeyP, Routing::Custom, Routing::RoundRobin, Routing::Sticky] {
            let mut s = base_scn(r, 2);
            let mut c0 = vec![];
            if r == Routing::Sticky {
                // occupy worker 0 briefly so that key 1 lands on worker 1 and stays there
                c0.push(job(9, 2, Beh::Ok, 2, true, None));
            }
            // key 1 hashes to worker 1 of 2 (key-persistent and custom tables); round-robin starts at worker 1
            c0.push(job(1, 1, Beh::Ok, 40, true, None));
            if r == Routing::RoundRobin {
                c0.push(job(8, 2, Beh::Ok, 0, true, None));
            }
            c0.push(job(2, 1, Beh::Ok, 5, true, None));
            if r == Routing::RoundRobin {
                c0.push(job(7, 2, Beh::Ok, 0, true, None));
            }
            c0.push(job(3, 1, Beh::Ok, 0, true, None));
            s.clients = vec![c0, vec![COp::Sleep(8), COp::Adjust(1), COp::Sleep(4), COp::Drain, COp::Sleep(3), job(6, 1, Beh::Ok, 0, true, None)]];
            v.push(s);
            // the same through UpdateSettings{worker_count}, three workers, two of them left draining
            let mut s = base_scn(r, 3);
            s.clients = vec![
                vec![job(1, 1, Beh::Ok, 30, true, None), job(2, 2, Beh::Ok, 35, true, None), job(3, 3, Beh::Ok, 25, true, None), job(4, 1, Beh::Ok, 5, true, None),
                     job(5, 2, Beh::Ok, 0, true, None), job(9, 3, Beh::Ok, 0, false, None)],
                vec![COp::Sleep(6), COp::Update { limit: None, wc: Some(1) }, COp::Sleep(2), COp::Drain],
            ];
            v.push(s);
        }
    }
    if all || which == "discard" {
        for (r, newest) in [(Routing::Queuer, true), (Routing::Queuer, false), (Routing::KeyP, true), (Routing::KeyP, false), (Routing::RoundRobin, false)] {
            let mut s = base_scn(r, 1);
            s.limit = Some((1, newest));
            s.clients = vec![vec![job(1, 1, Beh::Ok, 20, true, None), job(2, 1, Beh::Ok, 0, true, None), job(3, 2, Beh::Ok, 0, true, None), job(4, 1, Beh::Ok, 0, false, None),
                                  COp::Update { limit: Some((0, newest)), wc: None }, job(5, 2, Beh::Ok, 0, true, None), job(6, 3, Beh::Ok, 0, true, None)]];
            v.push(s);
        }
    }
    if all || which == "ttl" {
        // a new discard handler is installed while job 2 is parked (factory queue, or the worker's own queue for key-persistent
        // and sticky routing): its expiry, found much later, is reported to the handler installed last
        for r in [Routing::Queuer, Routing::KeyP, Routing::Sticky] {
            let mut s = base_scn(r, 1);
            s.horizon_ms = 320;
            s.clients = vec![vec![job(1, 1, Beh::Ok, 150, false, None), job(2, 1, Beh::Ok, 0, true, Some(20)), job(3, 2, Beh::Ok, 0, false, Some(500)), COp::Handler(1), COp::Sleep(30), job(4, 1, Beh::Ok, 0, true, Some(10)),
                                  COp::Sleep(130), job(5, 2, Beh::Ok, 0, false, Some(0))]];
            v.push(s);
        }
    }
    if all || which == "ratelim" {
        for r in [Routing::Queuer, Routing::KeyP] {
            let mut s = base_scn(r, 2);
            s.rl = Some((1, 50, 2, 1));
            s.clients = vec![vec![job(1, 1, Beh::Ok, 10, true, None), job(2, 2, Beh::Ok, 10, true, None), job(3, 1, Beh::Ok, 0, false, None), COp::Sleep(60), job(4, 2, Beh::Ok, 70, false, None),
                                  job(5, 1, Beh::Ok, 70, false, None), job(6, 3, Beh::Ok, 0, true, None), COp::Sleep(100), job(7, 3, Beh::Ok, 0, true, None)]];
            v.push(s);
        }
    }
    if all || which == "prio" {
        for newest in [true, false] {
            let mut s = base_scn(Routing::Queuer, 1);
            s.prioq = true;
            s.nd_keys = vec![1];
            s.limit = Some((2, newest));
            s.clients = vec![vec![job(1, 2, Beh::Ok, 30, false, None), job(2, 3, Beh::Ok, 0, true, None), job(3, 2, Beh::Ok, 0, true, None), job(4, 1, Beh::Ok, 0, true, None), job(5, 3, Beh::Ok, 0, true, None),
                                  job(6, 1, Beh::Ok, 0, true, None), job(7, 2, Beh::Ok, 0, false, None)]];
            v.push(s);
        }
    }
    // every scenario ends with the public queries, once mid-way and once near the horizon
    for s in v.iter_mut() {
        let h = s.horizon_ms;
        s.clients.push(vec![COp::Sleep(12), COp::Query, COp::Sleep(h - 60), COp::Query]);
    }
    v
}

pub fn rand_scn(rng: &mut Rng) -> FScn {
    let routing = [Routing::Queuer, Routing::Sticky, Routing::KeyP, Routing::RoundRobin, Routing::Custom][rng.below(5)];
    let fq = matches!(routing, Routing::Queuer | Routing::Sticky);
    let mut s = base_scn(routing, 1 + rng.below(3));
    if rng.chance(1, 4) {
        s.rl = Some((1 + rng.below(2), [20u64, 40, 60][rng.below(3)], 1 + rng.below(3), rng.below(3)));
    }
    if fq && rng.chance(1, 4) {
        s.prioq = true;
        if rng.chance(1, 2) {
            s.nd_keys = vec![KEYS[rng.below(3)]];
        }
    }
    if rng.chance(1, 2) {
        s.limit = Some((rng.below(3), rng.chance(1, 2)));
    }
    s.chash = [rng.next() % 1000, rng.next(), rng.next() % 7];
    s.hook_yield = rng.chance(1, 2);
    s.horizon_ms = 350;
    let nkeys = 1 + rng.below(3);
    let njobs = 3 + rng.below(6);
    let mut c0 = vec![];
    for id in 1..=njobs as i64 {
        let beh = match rng.below(20) {
            0 | 1 => Beh::Panic,
            2 => Beh::Err,
            3 | 4 => Beh::KillAfter,
            5 => Beh::KillMid,
            6 => Beh::StopAfter,
            _ => Beh::Ok,
        };
        let ttl = if rng.chance(1, 5) { Some([0u64, 5, 20, 200][rng.below(4)]) } else { None };
        c0.push(COp::Submit { id, key: KEYS[rng.below(nkeys)], ttl, port: rng.chance(2, 5), beh, yields: rng.below(3) as u8, sleep_ms: [0u64, 0, 5, 10, 30][rng.below(5)] });
        match rng.below(6) {
            0 => c0.push(COp::Sleep([1u64, 5, 10, 25][rng.below(4)])),
            1 => c0.push(COp::Pause),
            _ => {}
        }
    }
    let mut c1 = vec![];
    for _ in 0..rng.below(4) {
        c1.push(match rng.below(8) {
            0 | 1 | 2 => COp::Adjust(rng.below(MAXW + 1)),
            3 => COp::Update { limit: Some((rng.below(3), rng.chance(1, 2))), wc: None },
            4 => COp::Update { limit: if rng.chance(1, 2) { Some((rng.below(2), rng.chance(1, 2))) } else { None }, wc: Some(1 + rng.below(MAXW)) },
            5 => COp::KillWorker(rng.below(3)),
            6 => COp::Drain,
            _ => COp::Sleep([1u64, 5, 15, 40][rng.below(4)]),
        });
        if rng.chance(1, 2) {
            c1.push(COp::Sleep([1u64, 5, 15][rng.below(3)]));
        }
    }
    let mut c2 = vec![];
    if rng.chance(1, 2) {
        c2.push(COp::Sleep([0u64, 3, 12, 30][rng.below(4)]));
        c2.push(COp::Query);
    }
    c2.push(COp::Sleep(280));
    c2.push(COp::Query);
    s.clients = vec![c0, c1, c2];
    s
}

/// Random scenarios of one shape: busy workers with queued work, a pool shrink, then DrainRequests
pub fn rand_shrink_drain(rng: &mut Rng) -> FScn {
    let routing = [Routing::Sticky, Routing::KeyP, Routing::RoundRobin, Routing::Custom][rng.below(4)];
    let mut s = base_scn(routing, 2 + rng.below(2));
    if rng.chance(1, 4) {
        s.limit = Some((1 + rng.below(2), rng.chance(1, 2)));
    }
    s.chash = [rng.next() % 1000, rng.next(), rng.next() % 7];
    s.hook_yield = rng.chance(1, 2);
    s.horizon_ms = 350;
    let nkeys = 1 + rng.below(3);
    let njobs = 4 + rng.below(5);
    let mut c0 = vec![];
    for id in 1..=njobs as i64 {
        let beh = match rng.below(12) {
            0 => Beh::Panic,
            1 => Beh::KillAfter,
            2 => Beh::StopAfter,
            _ => Beh::Ok,
        };
        c0.push(COp::Submit { id, key: KEYS[rng.below(nkeys)], ttl: None, port: rng.chance(3, 4), beh, yields: rng.below(2) as u8, sleep_ms: [0u64, 5, 15, 30, 45][rng.below(5)] });
        if rng.chance(1, 6) {
            c0.push(COp::Sleep([1u64, 3, 10][rng.below(3)]));
        }
    }
    let to = 1 + rng.below(s.workers - 1);
    let shrink = if rng.chance(1, 2) { COp::Adjust(to) } else { COp::Update { limit: None, wc: Some(to) } };
    let mut c1 = vec![COp::Sleep([0u64, 2, 6, 12][rng.below(4)]), shrink];
    if rng.chance(2, 3) {
        c1.push(COp::Sleep([0u64, 1, 4, 10][rng.below(4)]));
    }
    c1.push(COp::Drain);
    if rng.chance(1, 3) {
        c1.push(COp::Sleep(2));
        c1.push(COp::Submit { id: 9, key: KEYS[rng.below(nkeys)], ttl: None, port: true, beh: Beh::Ok, yields: 0, sleep_ms: 0 });
    }
    s.clients = vec![c0, c1, vec![COp::Sleep(280), COp::Query]];
    s
}

/// Random scenarios whose jobs are mostly retriable
pub fn rand_retry(rng: &mut Rng) -> FScn {
    let routing = [Routing::Queuer, Routing::Sticky, Routing::KeyP, Routing::RoundRobin, Routing::Custom][rng.below(5)];
    let mut s = base_scn(routing, 1 + rng.below(3));
    if rng.chance(1, 3) {
        s.limit = Some((rng.below(3), rng.chance(1, 2)));
    }
    if rng.chance(1, 5) {
        s.rl = Some((1, [20u64, 40][rng.below(2)], 1 + rng.below(2), rng.below(2)));
    }
    s.chash = [rng.next() % 1000, rng.next(), rng.next() % 7];
    s.horizon_ms = 350;
    let nkeys = 1 + rng.below(3);
    let njobs = 3 + rng.below(6);
    let mut c0 = vec![];
    for id in 1..=njobs as i64 {
        let beh = match rng.below(12) {
            0 | 1 => Beh::PanicFirst,
            2 => Beh::Panic,
            3 => Beh::KillMid,
            4 => Beh::KillAfter,
            5 => Beh::Err,
            6 => Beh::StopAfter,
            _ => Beh::Ok,
        };
        let ttl = if rng.chance(1, 6) { Some([5u64, 20, 200][rng.below(3)]) } else { None };
        if rng.chance(3, 4) {
            c0.push(COp::SubmitRetriable { id, key: KEYS[rng.below(nkeys)], ttl, retries: rng.below(3), beh, sleep_ms: [0u64, 0, 5, 10, 30][rng.below(5)] });
        } else {
            c0.push(COp::Submit { id, key: KEYS[rng.below(nkeys)], ttl, port: rng.chance(1, 2), beh: if beh == Beh::PanicFirst { Beh::Panic } else { beh }, yields: 0, sleep_ms: [0u64, 5, 10][rng.below(3)] });
        }
        if rng.chance(1, 5) {
            c0.push(COp::Sleep([1u64, 5, 15][rng.below(3)]));
        }
    }
    let mut c1 = vec![];
    for _ in 0..rng.below(3) {
        c1.push(COp::Sleep([1u64, 5, 15, 40][rng.below(4)]));
        c1.push(match rng.below(5) {
            0 | 1 => COp::Adjust(rng.below(MAXW + 1)),
            2 => COp::Update { limit: Some((rng.below(3), rng.chance(1, 2))), wc: None },
            3 => COp::KillWorker(rng.below(3)),
            _ => COp::Drain,
        });
    }
    let mut c3 = vec![];
    for i in 0..rng.below(3) {
        c3.push(COp::Sleep([0u64, 2, 8][rng.below(3)]));
        c3.push(COp::Call { id: njobs as i64 + 1 + i as i64, key: KEYS[rng.below(nkeys)], ttl: if rng.chance(1, 3) { Some([5u64, 50][rng.below(2)]) } else { None },
                            beh: if rng.chance(1, 5) { Beh::Panic } else { Beh::Ok }, sleep_ms: [0u64, 5, 20][rng.below(3)] });
    }
    s.clients = vec![c0, c1, vec![COp::Sleep(280), COp::Query], c3];
    s
}

pub fn factory_batch(out: &str, tier: &str, seed: u64, which: &str) -> Value {
    let mut b = Batch::new(Some(out));
    let (dfs_cap, nrand, per) = if tier == "thorough" { (400usize, 3000usize, 3usize) } else { (40usize, 350usize, 2usize) };
    let mut nontrivial = std::collections::HashSet::new();
    let mut bad_runs = 0u64;
    let mut by_routing: HashMap<&'static str, u64> = HashMap::new();
    for sc in factory_micro(which) {
        let mut ex = Explorer::new(Mode::Dfs { preempt_bound: Some(2) }, seed);
        let mut n = 0;
        loop {
            ex.begin_run();
            let (evs, meta, bad) = factory_run(&sc, &mut ex);
            let h = b.run(meta, &evs);
            *by_routing.entry(sc.routing.name()).or_insert(0) += 1;
            if ex.nontrivial {
                nontrivial.insert(h);
            }
            if bad {
                bad_runs += 1;
            }
            n += 1;
            if !ex.end_run() || n >= dfs_cap {
                break;
            }
        }
    }
    if which == "all" || which == "random" {
        let mut rng = Rng(seed ^ 0x66616374);
        for _ in 0..nrand {
            let sc = rand_scn(&mut rng);
            let mut ex = Explorer::new(Mode::Random, rng.next());
            for _ in 0..per {
                ex.begin_run();
                let (evs, meta, bad) = factory_run(&sc, &mut ex);
                let h = b.run(meta, &evs);
                *by_routing.entry(sc.routing.name()).or_insert(0) += 1;
                if ex.nontrivial {
                    nontrivial.insert(h);
                }
                if bad {
                    bad_runs += 1;
                }
            }
        }
    }
    if which == "all" || which == "random" || which == "rretry" {
        let mut rng = Rng(seed ^ 0x7265_7472);
        for _ in 0..nrand / 4 {
            let sc = rand_retry(&mut rng);
            let mut ex = Explorer::new(Mode::Random, rng.next());
            for _ in 0..per {
                ex.begin_run();
                let (evs, meta, bad) = factory_run(&sc, &mut ex);
                let h = b.run(meta, &evs);
                *by_routing.entry(sc.routing.name()).or_insert(0) += 1;
                if ex.nontrivial {
                    nontrivial.insert(h);
                }
                if bad {
                    bad_runs += 1;
                }
            }
        }
    }
    if which == "all" || which == "random" || which == "rshrinkdrain" {
        // own generator and own stream, so that the scenarios above stay what they were
        let mut rng = Rng(seed ^ 0x7364_7261);
        for _ in 0..nrand / 5 {
            let sc = rand_shrink_drain(&mut rng);
            let mut ex = Explorer::new(Mode::Random, rng.next());
            for _ in 0..per {
                ex.begin_run();
                let (evs, meta, bad) = factory_run(&sc, &mut ex);
                let h = b.run(meta, &evs);
                *by_routing.entry(sc.routing.name()).or_insert(0) += 1;
                if ex.nontrivial {
                    nontrivial.insert(h);
                }
                if bad {
                    bad_runs += 1;
                }
            }
        }
    }
    b.finish();
    json!({"family": "factory", "runs": b.runs, "events": b.events, "distinct": b.hashes.len(), "by_routing": by_routing,
           "distinct_nontrivial": nontrivial.len(), "bad_runs": bad_runs, "samples": b.samples})
}

pub fn dispatch(cmd: &str, a: &std::collections::HashMap<String, String>) -> Option<Value> {
    let (out, tier, seed) = crate::common(a);
    match cmd {
        "leaky" => Some(leaky_batch(&out, &tier, seed)),
        "factory" => Some(factory_batch(&out, &tier, seed, a.get("which").map(|s| s.as_str()).unwrap_or("all"))),
        _ => None,
    }
}
