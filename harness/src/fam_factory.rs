//! Families `leaky` and `factory` (C13, C14, C15).
//! `leaky`: every (refill, interval, max, initial) tuple over small values and boundary classes,
//! each with fixed and seeded-random call scripts, run through the real LeakyBucketRateLimiter on
//! the paused tokio clock; every call result and the public balance are recorded.
use crate::trace::{Batch, Rng};
use ractor::factory::{LeakyBucketRateLimiter, RateLimiter};
use serde_json::{json, Value};
use std::time::Duration;

// ------------------------------------------------------------------------------------------------
// leaky bucket
// ------------------------------------------------------------------------------------------------
pub const BIG: i64 = 1_000_000;
pub const NO_INIT: i64 = 1_000_001;

#[derive(Clone, Debug)]
enum LOp {
    Adv(u64),
    Route, // check, bump when the check passed (what RateLimitedRouter does)
    Check,
    Bump,
}

fn clamp(v: usize) -> i64 {
    if v as u128 >= BIG as u128 {
        BIG
    } else {
        v as i64
    }
}
fn unclamp(v: i64) -> usize {
    if v >= BIG {
        usize::MAX
    } else {
        v as usize
    }
}

fn lev(a: &str, t: u64, extra: Value) -> Value {
    let mut m = json!({"a": a, "who": "drv", "obj": "", "d": 0, "t": t});
    for (k, v) in extra.as_object().unwrap() {
        m[k] = v.clone();
    }
    m
}

fn leaky_run(refill: i64, interval: i64, max: i64, initial: i64, script: &[LOp]) -> Vec<Value> {
    let rt = tokio::runtime::Builder::new_current_thread().enable_all().start_paused(true).build().expect("rt");
    let mut evs = vec![];
    rt.block_on(async {
        let t0 = tokio::time::Instant::now();
        let now = |t0: tokio::time::Instant| t0.elapsed().as_millis() as u64;
        let iv = if interval >= BIG { Duration::MAX } else { Duration::from_millis(interval as u64) };
        let mut lb = if initial == NO_INIT {
            LeakyBucketRateLimiter::builder().refill(unclamp(refill)).interval(iv).max(unclamp(max)).build()
        } else {
            LeakyBucketRateLimiter::builder().refill(unclamp(refill)).interval(iv).max(unclamp(max)).initial(unclamp(initial)).build()
        };
        evs.push(lev("lb.new", now(t0), json!({"refill": refill, "interval": interval, "max": max, "initial": initial, "bal": clamp(lb.balance)})));
        for op in script {
            match op {
                LOp::Adv(ms) => tokio::time::advance(Duration::from_millis(*ms)).await,
                LOp::Check => {
                    let ok = lb.check();
                    evs.push(lev("lb.check", now(t0), json!({"ok": i64::from(ok), "bal": clamp(lb.balance)})));
                }
                LOp::Bump => {
                    lb.bump();
                    evs.push(lev("lb.bump", now(t0), json!({"bal": clamp(lb.balance)})));
                }
                LOp::Route => {
                    let ok = lb.check();
                    evs.push(lev("lb.check", now(t0), json!({"ok": i64::from(ok), "bal": clamp(lb.balance)})));
                    if ok {
                        lb.bump();
                        evs.push(lev("lb.bump", now(t0), json!({"bal": clamp(lb.balance)})));
                    }
                }
            }
        }
    });
    evs
}

fn leaky_scripts(interval: i64, rng: &mut Rng, nrand: usize) -> Vec<Vec<LOp>> {
    let iv = if interval >= BIG { 3 } else { interval as u64 };
    let mut v = vec![
        // drain, just before the first deadline, exactly on it, far past it (several periods + remainder), same instant again
        vec![LOp::Route, LOp::Route, LOp::Route, LOp::Adv(iv.saturating_sub(1)), LOp::Route, LOp::Adv(1), LOp::Route, LOp::Route,
             LOp::Adv(2 * iv + 1), LOp::Route, LOp::Route, LOp::Route, LOp::Route, LOp::Adv(0), LOp::Check, LOp::Adv(iv), LOp::Check, LOp::Route],
        // bare bumps and checks
        vec![LOp::Bump, LOp::Bump, LOp::Check, LOp::Adv(iv), LOp::Bump, LOp::Check, LOp::Check, LOp::Adv(3 * iv), LOp::Check, LOp::Bump, LOp::Bump, LOp::Bump, LOp::Bump, LOp::Check],
    ];
    for _ in 0..nrand {
        let n = 8 + rng.below(8);
        let mut s = vec![];
        for _ in 0..n {
            s.push(match rng.below(8) {
                0 | 1 | 2 => LOp::Route,
                3 => LOp::Check,
                4 => LOp::Bump,
                _ => LOp::Adv([0u64, 1, 1, 2, 3, 5, 7][rng.below(7)]),
            });
        }
        v.push(s);
    }
    v
}

pub fn leaky_batch(out: &str, tier: &str, seed: u64) -> Value {
    let mut b = Batch::new(Some(out));
    let mut rng = Rng(seed ^ 0x6c65616b);
    let (refills, intervals, maxes, initials, nrand): (Vec<i64>, Vec<i64>, Vec<i64>, Vec<i64>, usize) = if tier == "thorough" {
        (vec![0, 1, 2, 3, 7, BIG], vec![0, 1, 2, 3, 4, 10, BIG], vec![0, 1, 2, 3, 5, BIG], vec![NO_INIT, 0, 1, 2, 3, 6, BIG], 3)
    } else {
        (vec![0, 1, 2, BIG], vec![0, 1, 2, 3, BIG], vec![0, 1, 3, BIG], vec![NO_INIT, 0, 1, 2, 5, BIG], 1)
    };
    let mut tuples = 0u64;
    for &r in &refills {
        for &i in &intervals {
            for &m in &maxes {
                for &n in &initials {
                    tuples += 1;
                    for (si, s) in leaky_scripts(i, &mut rng, nrand).iter().enumerate() {
                        let evs = leaky_run(r, i, m, n, s);
                        b.run(json!({"family": "leaky", "tuple": [r, i, m, n], "script": si, "ops": format!("{:?}", s)}), &evs);
                    }
                }
            }
        }
    }
    b.finish();
    json!({"family": "leaky", "runs": b.runs, "events": b.events, "tuples": tuples, "distinct": b.hashes.len(), "samples": b.samples})
}

pub fn dispatch(cmd: &str, a: &std::collections::HashMap<String, String>) -> Option<Value> {
    let (out, tier, seed) = crate::common(a);
    match cmd {
        "leaky" => Some(leaky_batch(&out, &tier, seed)),
        _ => None,
    }
}
