//! Families `auth1` (C17 level 1: the real handshake state machines stepped directly over the trie
//! of message sequences), `auth2` (C17 level 2: an adversary task against a real NodeSession opened
//! on a real NodeServer over an in-memory transport, engine T) and `wire-sessions` (C19 c: a framing
//! error on one of two sessions).
use crate::cluster_io::*;
use crate::explore::{Explorer, Mode};
use crate::tdrv::{run_t, NoBetween};
use crate::trace::{Batch, Rng};
use ractor::verif::{self, Val};
use ractor::{Actor, ActorRef, ActorStatus};
use ractor_cluster::node::{NodeConnectionMode, NodeServerSessionInformation};
use ractor_cluster::verif::{encode_frame, meta_proto, read_frame, ClientFsm, FrameReader, ServerFsm};
use ractor_cluster::{NodeEventSubscription, NodeServer, NodeServerMessage, NodeSessionMessage};
use serde_json::{json, Value};
use std::sync::{Arc, Mutex};
use std::time::Duration;
use tokio::io::AsyncWriteExt;

// ------------------------------------------------------------------------------------------------
// level 1
// ------------------------------------------------------------------------------------------------
enum Fsm {
    S(ServerFsm),
    C(ClientFsm),
}
impl Fsm {
    fn init(server: bool) -> Fsm {
        if server {
            Fsm::S(ServerFsm::init())
        } else {
            Fsm::C(ClientFsm::init())
        }
    }
    fn kind(&self) -> &'static str {
        match self {
            Fsm::S(f) => f.kind(),
            Fsm::C(f) => f.kind(),
        }
    }
    /// the challenge this machine currently expects a digest for
    fn pending(&self) -> Option<u32> {
        match self {
            Fsm::S(f) => f.pending_challenge().map(|x| x.0),
            Fsm::C(f) => f.pending_ack().map(|x| x.1),
        }
    }
    fn step(&self, s: &Sym, variant: u64) -> Option<Fsm> {
        if s.c == "op" {
            return match (self, s.k) {
                (Fsm::S(f), "StartChallenge") => Some(Fsm::S(f.start_challenge(COOKIE))),
                (Fsm::S(f), "Alive") if f.kind() == "HavePeerName" => Some(Fsm::S(ServerFsm::waiting_on_client_status())),
                _ => None,
            };
        }
        let m = auth_message(s, "peer@x", self.pending(), s.p == "good", variant);
        Some(match self {
            Fsm::S(f) => Fsm::S(f.next(m, COOKIE)),
            Fsm::C(f) => Fsm::C(f.next(m, COOKIE)),
        })
    }
}

fn l1_alphabet(server: bool) -> Vec<Sym> {
    let mut v = auth_alphabet();
    if server {
        v.push(sym("op", "StartChallenge", ""));
        v.push(sym("op", "Alive", ""));
    }
    v
}

fn step_event(depth: usize, s: &Sym, to: &str) -> Value {
    let mut m = base("fsm.step", "l1");
    m.insert("depth".into(), json!(depth));
    m.insert("c".into(), json!(s.c));
    m.insert("k".into(), json!(s.k));
    m.insert("p".into(), json!(s.p));
    m.insert("n".into(), json!(0));
    m.insert("to".into(), json!(to));
    Value::Object(m)
}
fn init_event(server: bool, to: &str) -> Value {
    let mut m = base("fsm.init", "l1");
    m.insert("role".into(), json!(if server { "server" } else { "client" }));
    m.insert("to".into(), json!(to));
    Value::Object(m)
}

fn trie(f: &Fsm, depth: usize, maxd: usize, alpha: &[Sym], evs: &mut Vec<Value>, ctr: &mut u64, oks: &mut u64) {
    for s in alpha {
        *ctr += 1;
        if let Some(nx) = f.step(s, *ctr) {
            evs.push(step_event(depth, s, nx.kind()));
            if nx.kind() == "Ok" {
                *oks += 1;
            }
            if depth < maxd {
                trie(&nx, depth + 1, maxd, alpha, evs, ctr, oks);
            }
        }
    }
}

pub fn batch_l1(out: &str, tier: &str, seed: u64) -> Value {
    let mut b = Batch::new(Some(out));
    let maxd = if tier == "thorough" { 5 } else { 4 };
    let mut seqs = 0u64;
    let mut oks = 0u64;
    for server in [true, false] {
        let alpha = l1_alphabet(server);
        // one run per first symbol: the whole subtree of sequences of length <= 4 below it
        for first in &alpha {
            let root = Fsm::init(server);
            let mut evs = vec![init_event(server, root.kind())];
            let mut ctr = seed;
            if let Some(nx) = root.step(first, ctr) {
                evs.push(step_event(1, first, nx.kind()));
                trie(&nx, 2, maxd, &alpha, &mut evs, &mut ctr, &mut oks);
            }
            seqs += evs.len() as u64 - 1;
            let meta = json!({"family": "auth1", "role": if server { "server" } else { "client" }, "first": format!("{first:?}"), "maxlen": maxd});
            b.run(meta, &evs);
        }
    }
    // seeded random sequences of length 8 (biased towards the expected next message half of the time)
    let nrand = if tier == "thorough" { 20000 } else { 1500 };
    let mut rng = Rng(seed ^ 0x61757468);
    for i in 0..nrand {
        let server = i % 2 == 0;
        let alpha = l1_alphabet(server);
        let mut f = Fsm::init(server);
        let mut evs = vec![init_event(server, f.kind())];
        let mut d = 1;
        while d <= 8 {
            let s = if rng.chance(1, 2) {
                let want: &[(&str, &str, &str)] = match f.kind() {
                    "WaitingOnPeerName" => &[("auth", "Name", "")],
                    "HavePeerName" => &[("op", "StartChallenge", ""), ("op", "Alive", "")],
                    "WaitingOnClientStatus" => &[("auth", "CS", "true")],
                    "WaitingOnClientChallengeReply" => &[("auth", "CCh", "good"), ("auth", "CCh", "bad")],
                    "WaitingForServerStatus" => &[("auth", "SS", "Ok"), ("auth", "SS", "Alive")],
                    "WaitingForServerChallenge" => &[("auth", "SCh", "")],
                    "WaitingForServerChallengeAck" => &[("auth", "SAck", "good"), ("auth", "SAck", "bad")],
                    _ => &[],
                };
                if want.is_empty() {
                    alpha[rng.below(alpha.len())].clone()
                } else {
                    let w = want[rng.below(want.len())];
                    sym(w.0, w.1, w.2)
                }
            } else {
                alpha[rng.below(alpha.len())].clone()
            };
            if let Some(nx) = f.step(&s, rng.next()) {
                evs.push(step_event(d, &s, nx.kind()));
                if nx.kind() == "Ok" {
                    oks += 1;
                }
                f = nx;
                d += 1;
            }
        }
        seqs += 1;
        b.run(json!({"family": "auth1", "role": if server { "server" } else { "client" }, "random": i}), &evs);
    }
    b.finish();
    json!({"family": "auth1", "runs": b.runs, "events": b.events, "distinct": b.hashes.len(), "distinct_nontrivial": b.hashes.len(),
           "sequences": seqs, "reached_ok": oks, "bad_runs": 0, "samples": b.samples})
}

// ------------------------------------------------------------------------------------------------
// level 2
// ------------------------------------------------------------------------------------------------
#[derive(Clone, Debug)]
pub struct Script {
    /// role of the NODE on each session opened by this run
    pub roles: Vec<bool>, // true = node is server
    pub knows: bool,
    pub pipelined: bool,
    pub steps: Vec<(usize, Sym)>,
}

struct Sub {
    opened: Arc<Mutex<Vec<ActorRef<NodeSessionMessage>>>>,
}
impl NodeEventSubscription for Sub {
    fn node_session_opened(&self, ses: NodeServerSessionInformation) {
        self.opened.lock().unwrap().push(ses.actor);
    }
    fn node_session_disconnected(&self, _: NodeServerSessionInformation) {}
    fn node_session_authenticated(&self, _: NodeServerSessionInformation) {}
}

#[derive(Default)]
struct Inbox {
    kinds: Vec<String>,
    /// challenge the node sent and expects a digest for (ServerChallenge.challenge / ClientChallenge.challenge)
    challenge: Option<u32>,
    /// digest the node put into its last ClientChallenge (its answer to the challenge we gave it)
    digest: Option<Vec<u8>>,
    closed: bool,
}

fn kvs(k: &str, v: &str) -> (String, Val) {
    (k.to_string(), Val::S(v.to_string()))
}
fn kvi(k: &str, v: i64) -> (String, Val) {
    (k.to_string(), Val::I(v))
}
fn kvl(k: &str, v: Vec<i64>) -> (String, Val) {
    (k.to_string(), Val::L(v))
}

async fn barrier() {
    ractor::concurrency::sleep(Duration::from_millis(5)).await;
}

struct World {
    node: ActorRef<NodeServerMessage>,
    opened: Arc<Mutex<Vec<ActorRef<NodeSessionMessage>>>>,
    inbox: Vec<Arc<Mutex<Inbox>>>,
    plog: Arc<Mutex<Vec<(String, u32)>>>,
    group: String,
}

async fn observe(w: &World, si: usize) {
    let ses = w.opened.lock().unwrap().get(si).cloned();
    let (mut auth, mut ready, mut kids, mut listed) = (-1i64, -1i64, 0i64, 0i64);
    if let Some(ses) = &ses {
        if let Ok(a) = ractor::call_t!(ses, NodeSessionMessage::GetAuthenticationState, 100) {
            auth = i64::from(a);
            if let Ok(r) = ractor::call_t!(ses, NodeSessionMessage::GetReadyState, 100) {
                ready = i64::from(r);
            }
        }
        kids = ses.get_children().iter().filter(|c| !c.get_id().is_local()).count() as i64;
        if let Ok(map) = ractor::call_t!(w.node, NodeServerMessage::GetSessions, 100) {
            listed = i64::from(map.values().any(|i| i.actor.get_id() == ses.get_id()));
        }
    }
    let pg = ractor::pg::get_members(&w.group).len() as i64;
    let recv: Vec<String> = std::mem::take(&mut w.inbox[si].lock().unwrap().kinds);
    let handled: Vec<(String, u32)> = std::mem::take(&mut *w.plog.lock().unwrap());
    let mut kv = vec![
        kvs("s", &format!("s{}", si + 1)),
        kvi("auth", auth),
        kvi("ready", ready),
        kvi("kids", kids),
        kvi("listed", listed),
        kvi("pg", pg),
        kvs("recv", &recv.join(",")),
        kvl("hp", handled.iter().map(|x| x.1 as i64).collect()),
        kvs("hk", &handled.iter().map(|x| x.0.clone()).collect::<Vec<_>>().join(",")),
    ];
    kv.push(kvi("hq", Q_HANDLED.swap(0, std::sync::atomic::Ordering::SeqCst) as i64));
    verif::emit_kv("obs.after", 0, 0, kv);
}

/// Remotable probe that also keeps a log the adversary can read
struct LogProbe {
    log: Arc<Mutex<Vec<(String, u32)>>>,
}
#[cfg_attr(feature = "asynctrait", ractor::async_trait)]
impl Actor for LogProbe {
    type Msg = PMsg;
    type State = ();
    type Arguments = ();
    async fn pre_start(&self, _: ActorRef<PMsg>, _: ()) -> Result<(), ractor::ActorProcessingErr> {
        Ok(())
    }
    async fn handle(&self, _: ActorRef<PMsg>, m: PMsg, _: &mut ()) -> Result<(), ractor::ActorProcessingErr> {
        let (k, n) = match &m {
            PMsg::Tick(n) => ("Cast", *n),
            PMsg::Text(n, _) => ("Text", *n),
            PMsg::Boom(n, _) => ("Boom", *n),
            PMsg::Unit => ("Unit", 0),
            PMsg::Ask(n, _) => ("Call", *n),
        };
        self.log.lock().unwrap().push((k.to_string(), n));
        if let PMsg::Ask(n, reply) = m {
            let _ = reply.send(n + 1);
        }
        Ok(())
    }
}

static RUN_SEQ: std::sync::atomic::AtomicU64 = std::sync::atomic::AtomicU64::new(0);

static LATE_Q: std::sync::atomic::AtomicU64 = std::sync::atomic::AtomicU64::new(0);

async fn adversary(sc: Script, pids: Arc<Mutex<(u64, u64)>>) {
    let tag = RUN_SEQ.fetch_add(1, std::sync::atomic::Ordering::SeqCst);
    Q_HANDLED.store(0, std::sync::atomic::Ordering::SeqCst);
    let plog = Arc::new(Mutex::new(vec![]));
    let Ok((p, _)) = Actor::spawn(None, LogProbe { log: plog.clone() }, ()).await else { return };
    let Ok((q, _)) = Actor::spawn(None, QProbe { name: "Q".into() }, ()).await else { return };
    *pids.lock().unwrap() = (p.get_id().pid(), q.get_id().pid());
    let server = NodeServer::new(0, COOKIE.to_string(), "node".to_string(), "localhost".to_string(), None, Some(NodeConnectionMode::Isolated))
        .with_listen_addr(std::net::IpAddr::V4(std::net::Ipv4Addr::LOCALHOST));
    let Ok((node, _)) = Actor::spawn(None, server, ()).await else {
        verif::emit("obs.nodefail", 0, 0);
        return;
    };
    let opened = Arc::new(Mutex::new(vec![]));
    let _ = node.cast(NodeServerMessage::SubscribeToEvents { id: "verif".into(), subscription: Box::new(Sub { opened: opened.clone() }) });
    let mut w = World { node: node.clone(), opened, inbox: vec![], plog, group: format!("verif-g{tag}") };
    verif::emit_kv("obs.plan", 0, 0, vec![kvi("knows", i64::from(sc.knows))]);
    let mut writers = vec![];
    for (si, is_server) in sc.roles.iter().enumerate() {
        let (a, b) = tokio::io::duplex(1 << 16);
        let _ = node.cast(NodeServerMessage::ConnectionOpenedExternal { stream: Box::new(Duplex { stream: a, label: format!("adv{si}") }), is_server: *is_server });
        let (rd, wr) = tokio::io::split(b);
        writers.push(Some(wr));
        let inbox = Arc::new(Mutex::new(Inbox::default()));
        w.inbox.push(inbox.clone());
        let _ = ractor::concurrency::spawn_named(Some(&format!("collector{si}")), async move {
            let mut fr = FrameReader::new(Box::new(rd));
            loop {
                match read_frame(&mut fr, 1 << 24).await {
                    Ok(m) => {
                        let mut g = inbox.lock().unwrap();
                        if let Some(meta_proto::network_message::Message::Auth(a)) = &m.message {
                            use ractor_cluster::verif::auth_proto::authentication_message::Msg;
                            match &a.msg {
                                Some(Msg::ServerChallenge(c)) => g.challenge = Some(c.challenge),
                                Some(Msg::ClientChallenge(c)) => {
                                    g.challenge = Some(c.challenge);
                                    g.digest = Some(c.digest.clone());
                                }
                                _ => {}
                            }
                        }
                        g.kinds.push(frame_kind(&m));
                    }
                    Err(_) => {
                        inbox.lock().unwrap().closed = true;
                        break;
                    }
                }
            }
        });
        barrier().await;
        verif::emit_kv("obs.open", 0, 0, vec![kvs("s", &format!("s{}", si + 1)), kvs("role", if *is_server { "server" } else { "client" })]);
        observe(&w, si).await;
    }
    LATE_Q.store(0, std::sync::atomic::Ordering::SeqCst);
    let peer = |si: usize| format!("peer{}@x", (b'A' + si as u8) as char);
    let mut serial = 0u32;
    let mut dirty = vec![false; sc.roles.len()];
    for (si, s) in &sc.steps {
        let si = *si;
        let digesty = s.c == "auth" && (s.k == "CCh" || s.k == "SAck");
        if s.p == "reflect" || s.p == "reflected" {
            barrier().await;
        }
        if sc.pipelined && (digesty || s.c == "x") && dirty[si] {
            barrier().await;
            observe(&w, si).await;
            dirty[si] = false;
        }
        // what is actually sent decides the label: a digest made without the cookie is a bad one
        let good = s.p == "good" && sc.knows;
        let mut label = s.clone();
        if digesty && !good && s.p != "reflected" {
            label.p = "bad";
        }
        let mut n = 0u32;
        let bytes: Vec<u8> = match s.c {
            "auth" => {
                let pending = w.inbox[si].lock().unwrap().challenge;
                let other = (0..sc.roles.len()).find(|j| *j != si);
                let m = if s.p == "reflect" {
                    // hand the node (as client) the challenge its own server-side session is waiting on
                    use ractor_cluster::verif::auth_proto as ap;
                    let x = other.and_then(|j| w.inbox[j].lock().unwrap().challenge).unwrap_or(1);
                    ap::AuthenticationMessage { msg: Some(ap::authentication_message::Msg::ServerChallenge(ap::Challenge {
                        name: peer(si), flags: flags(), challenge: x, connection_string: format!("{}:1", peer(si)) })) }
                } else if s.p == "reflected" {
                    // relay the digest the node computed on the other session
                    use ractor_cluster::verif::auth_proto as ap;
                    let d = other.and_then(|j| w.inbox[j].lock().unwrap().digest.clone()).unwrap_or_default();
                    ap::AuthenticationMessage { msg: Some(ap::authentication_message::Msg::ClientChallenge(ap::ChallengeReply { challenge: 5, digest: d })) }
                } else if digesty && s.p == "good" && !sc.knows {
                    // the adversary does its honest best with the cookie it has
                    let mut m = auth_message(s, &peer(si), pending, true, 0);
                    use ractor_cluster::verif::auth_proto::authentication_message::Msg;
                    // (the cookie it has may be a near miss: same first block, same prefix, one byte more)
                    let wc = [WRONG, WRONG_TAIL, WRONG_PREFIX, WRONG_LONGER][((serial as u64 + tag) % 4) as usize];
                    let d = ractor_cluster::verif::challenge_digest(wc, pending.unwrap_or(0));
                    match m.msg.as_mut() {
                        Some(Msg::ClientChallenge(c)) => c.digest = d,
                        Some(Msg::ServerAck(c)) => c.digest = d,
                        _ => {}
                    }
                    m
                } else {
                    auth_message(s, &peer(si), pending, good, serial as u64 + tag)
                };
                encode_frame(&net_auth(m))
            }
            "ctl" => encode_frame(&control_message(s, &w.group, &peer(si))),
            "node" => {
                serial += 1;
                n = serial;
                if serial == 1 {
                    // a second non-remotable actor, spawned now: whatever session is authenticated by now gets its
                    // pid-lifecycle event (sessions listen to those from authentication on)
                    if let Ok((q2, _)) = Actor::spawn(None, QProbe { name: "Q".into() }, ()).await {
                        LATE_Q.store(q2.get_id().pid(), std::sync::atomic::Ordering::SeqCst);
                    }
                    barrier().await;
                }
                let (pp, qq) = *pids.lock().unwrap();
                let to = match s.p {
                    "adv" => pp,
                    // the non-remotable target: the one that existed before the sessions, or the later one
                    "nonrem" => {
                        let late = LATE_Q.load(std::sync::atomic::Ordering::SeqCst);
                        if serial % 2 == 1 && late != 0 { late } else { qq }
                    }
                    "r1" => R1,
                    _ => 0xFFFF_FFF0,
                };
                encode_frame(&node_message(s, to, n))
            }
            _ => match (s.k, s.p) {
                ("BadFrame", "oversize") => (1u64 << 40).to_be_bytes().to_vec(),
                ("BadFrame", "undecodable") => {
                    let mut v = 4u64.to_be_bytes().to_vec();
                    v.extend_from_slice(&[0xff; 4]);
                    v
                }
                ("BadFrame", _) => {
                    let mut v = 10u64.to_be_bytes().to_vec();
                    v.extend_from_slice(&[0x0a, 0x00, 0x0a]);
                    v
                }
                _ => vec![],
            },
        };
        verif::emit_kv("env.send", 0, 0, vec![kvs("s", &format!("s{}", si + 1)), kvs("c", label.c), kvs("k", label.k), kvs("p", label.p), kvi("n", n as i64)]);
        if let Some(wr) = writers[si].as_mut() {
            let _ = wr.write_all(&bytes).await;
            let _ = wr.flush().await;
        }
        if s.c == "x" && (s.k == "Eof" || s.p == "truncated") {
            if let Some(mut wr) = writers[si].take() {
                let _ = wr.shutdown().await;
            }
        }
        dirty[si] = true;
        if !sc.pipelined {
            barrier().await;
            observe(&w, si).await;
            dirty[si] = false;
        }
    }
    barrier().await;
    for si in 0..sc.roles.len() {
        observe(&w, si).await;
    }
    let up = node.get_status() == ActorStatus::Running && ractor::call_t!(node, NodeServerMessage::GetSessions, 100).is_ok();
    verif::emit_kv("obs.end", 0, 0, vec![kvi("up", i64::from(up))]);
    node.stop(None);
    p.stop(None);
    q.stop(None);
}

const KEEP2: &[&str] = &["obs.plan", "obs.open", "env.send", "obs.after", "obs.end", "obs.nodefail"];

pub fn one_run(sc: &Script, ex: &mut Explorer) -> (Vec<Value>, Value, bool) {
    let pids = Arc::new(Mutex::new((0u64, 0u64)));
    let (sc2, pids2) = (sc.clone(), pids.clone());
    let run = run_t(
        ex,
        60000,
        900,
        &mut NoBetween,
        move || async move {
            let _ = ractor::concurrency::spawn_named(Some("adversary"), adversary(sc2, pids2));
        },
        || {},
    );
    let (pp, qq) = *pids.lock().unwrap();
    let mut evs: Vec<Value> = vec![];
    let mut dropped = 0i64;
    let mut ended = false;
    for e in &run.events {
        if e.a == "decode.dropped" && (e.obj == pp || e.obj == qq) {
            dropped += 1;
            continue;
        }
        if e.a == "obs.handled" {
            // the non-remotable probe handled something (it logs through the sink only)
            dropped += 1;
            continue;
        }
        if !KEEP2.contains(&e.a.as_str()) {
            continue;
        }
        let mut m = base(&e.a, "adv");
        m.insert("t".into(), json!(e.t));
        for (k, v) in &e.kv {
            let jv = match v {
                Val::I(i) => json!(i),
                Val::S(s) if k == "recv" || k == "hk" => json!(s.split(',').filter(|x| !x.is_empty()).collect::<Vec<_>>()),
                Val::S(s) => json!(s),
                Val::L(l) => json!(l),
            };
            m.insert(k.clone(), jv);
        }
        if e.a == "obs.after" {
            m.insert("hq".into(), json!(dropped));
            dropped = 0;
        }
        if e.a == "obs.end" {
            ended = true;
        }
        evs.push(Value::Object(m));
    }
    // a run that burns its whole step budget without reaching the end of its script is a node that
    // spins on the peer's bytes: recorded as an event no specification step explains
    let nodefail = run.events.iter().any(|e| e.a == "obs.nodefail");
    if !ended && !nodefail {
        let mut m = base("obs.wedged", "adv");
        m.insert("steps".into(), json!(run.steps));
        evs.push(Value::Object(m));
    }
    let bad = nodefail;
    let meta = json!({"family": "auth2", "roles": sc.roles.iter().map(|r| if *r { "server" } else { "client" }).collect::<Vec<_>>(),
                      "knows": sc.knows, "pipelined": sc.pipelined,
                      "script": sc.steps.iter().map(|(i, s)| format!("s{}:{}.{}{}{}", i + 1, s.c, s.k, if s.p.is_empty() { "" } else { "." }, s.p)).collect::<Vec<_>>(),
                      "sched_len": ex.sched.len(), "steps": run.steps, "ended": ended});
    (evs, meta, bad)
}

fn honest(server: bool) -> Vec<Sym> {
    if server {
        vec![sym("auth", "Name", ""), sym("auth", "CCh", "good")]
    } else {
        vec![sym("auth", "SS", "Ok"), sym("auth", "SCh", ""), sym("auth", "SAck", "good")]
    }
}

fn on(si: usize, v: Vec<Sym>) -> Vec<(usize, Sym)> {
    v.into_iter().map(|s| (si, s)).collect()
}

pub fn scripts_auth2(tier: &str, seed: u64) -> Vec<Script> {
    let thorough = tier == "thorough";
    let full = full_alphabet();
    let post: Vec<Sym> = ctl_alphabet().into_iter().chain(node_alphabet()).collect();
    let mut v = vec![];
    let mut rng = Rng(seed ^ 0x73657373);
    for server in [true, false] {
        // every sequence of length <= 3 over the full alphabet; sequences that carry a digest run with and without the
        // cookie, the others with a seeded choice
        let mut layer: Vec<Vec<Sym>> = vec![vec![]];
        for _ in 0..3 {
            let mut next = vec![];
            for s in &layer {
                for a in &full {
                    let mut t = s.clone();
                    t.push(a.clone());
                    next.push(t);
                }
            }
            for t in &next {
                let digesty = t.iter().any(|x| x.p == "good");
                let ks: Vec<bool> = if digesty { vec![true, false] } else { vec![rng.chance(1, 2)] };
                for knows in ks {
                    v.push(Script { roles: vec![server], knows, pipelined: rng.chance(1, 3), steps: on(0, t.clone()) });
                }
            }
            layer = next;
        }
        // a seeded sample of length-4 sequences
        for _ in 0..(if thorough { 20000 } else { 1000 }) {
            let t: Vec<Sym> = (0..4).map(|_| full[rng.below(full.len())].clone()).collect();
            v.push(Script { roles: vec![server], knows: rng.chance(1, 2), pipelined: rng.chance(1, 3), steps: on(0, t) });
        }
        // honest handshake, then every control / node message, then every pair (thorough) or a sample of pairs
        for a in &post {
            let mut t = honest(server);
            t.push(a.clone());
            v.push(Script { roles: vec![server], knows: true, pipelined: false, steps: on(0, t) });
        }
        for a in &post {
            for b2 in &post {
                if thorough || rng.chance(1, 3) {
                    let mut t = honest(server);
                    t.push(a.clone());
                    t.push(b2.clone());
                    v.push(Script { roles: vec![server], knows: true, pipelined: rng.chance(1, 2), steps: on(0, t) });
                }
            }
        }
        // the same handshake attempted without the cookie, followed by everything
        for a in &post {
            let mut t = honest(server);
            t.push(a.clone());
            v.push(Script { roles: vec![server], knows: false, pipelined: rng.chance(1, 2), steps: on(0, t) });
        }
        // random longer sequences: handshake prefix (complete, partial, or none), then up to 8 symbols
        let nrand = if thorough { 3000 } else { 300 };
        for _ in 0..nrand {
            let mut t = vec![];
            let h = honest(server);
            let keep = rng.below(h.len() + 2).min(h.len());
            t.extend(h.into_iter().take(keep));
            let n = 1 + rng.below(8);
            for _ in 0..n {
                let pool = if rng.chance(2, 3) { &post } else { &full };
                t.push(pool[rng.below(pool.len())].clone());
            }
            v.push(Script { roles: vec![server], knows: rng.chance(2, 3), pipelined: rng.chance(1, 2), steps: on(0, t) });
        }
    }
    v
}

/// C19 (c): two sessions on one node server; a transport fault hits the first one at some point
pub fn scripts_wire(tier: &str, seed: u64) -> Vec<Script> {
    let mut v = vec![];
    let mut rng = Rng(seed ^ 0x77697265);
    let faults = [sym("x", "BadFrame", "oversize"), sym("x", "BadFrame", "undecodable"), sym("x", "BadFrame", "truncated"), sym("x", "Eof", "")];
    let work = [sym("ctl", "Ping", ""), sym("node", "Cast", "adv"), sym("node", "Call", "adv"), sym("ctl", "PgJoin", ""), sym("ctl", "Spawn", "")];
    for r1 in [true, false] {
        for r2 in [true, false] {
            for f in &faults {
                // where in the first session's life the fault lands: before / during / after the handshake
                let h1 = honest(r1);
                for cutat in 0..=h1.len() {
                    for second_first in [true, false] {
                        let mut steps = vec![];
                        if second_first {
                            steps.extend(on(1, honest(r2)));
                        }
                        steps.extend(on(0, h1.iter().take(cutat).cloned().collect()));
                        if cutat == h1.len() {
                            steps.push((0, work[rng.below(work.len())].clone()));
                        }
                        steps.push((0, f.clone()));
                        if !second_first {
                            steps.extend(on(1, honest(r2)));
                        }
                        for w in &work {
                            if rng.chance(2, 3) {
                                steps.push((1, w.clone()));
                            }
                            if rng.chance(1, 3) {
                                steps.push((0, w.clone()));
                            }
                        }
                        v.push(Script { roles: vec![r1, r2], knows: true, pipelined: false, steps });
                    }
                }
            }
        }
    }
    let _ = (tier, seed);
    v
}

/// Named deviation DigestReflection: a peer without the cookie that is both dialled by the node (client-side
/// session) and connected to it (server-side session) relays the node's own digest.
pub fn scripts_reflect() -> Vec<Script> {
    let name = sym("auth", "Name", "");
    let ss_ok = sym("auth", "SS", "Ok");
    let refl = sym("auth", "SCh", "reflect");
    let relay = sym("auth", "CCh", "reflected");
    let after = vec![(0, sym("node", "Cast", "adv")), (0, sym("ctl", "Spawn", "")), (0, sym("node", "Call", "adv")), (1, sym("ctl", "Ping", ""))];
    let mut v = vec![];
    // the attack, and orders in which it cannot work (digest signed before the challenge existed; nothing signed)
    for order in [
        vec![(0, name.clone()), (1, ss_ok.clone()), (1, refl.clone()), (0, relay.clone())],
        vec![(1, ss_ok.clone()), (0, name.clone()), (1, refl.clone()), (0, relay.clone())],
        vec![(1, ss_ok.clone()), (1, refl.clone()), (0, name.clone()), (0, relay.clone())],
        vec![(0, name.clone()), (1, ss_ok.clone()), (0, relay.clone())],
        vec![(0, name.clone()), (1, refl.clone()), (0, relay.clone())],
    ] {
        let mut steps = order;
        steps.extend(after.clone());
        v.push(Script { roles: vec![true, false], knows: false, pipelined: false, steps });
    }
    v
}

pub fn batch_l2(out: &str, seed: u64, scripts: Vec<Script>, family: &str, per: usize) -> Value {
    let mut b = Batch::new(Some(out));
    let mut nontrivial = std::collections::HashSet::new();
    let mut bad_runs = 0u64;
    let mut rng = Rng(seed ^ 0x6c32);
    let mut authed = 0u64;
    for sc in &scripts {
        for _ in 0..per {
            let mut ex = Explorer::new(Mode::Random, rng.next());
            ex.begin_run();
            let (evs, mut meta, bad) = one_run(sc, &mut ex);
            meta["family"] = json!(family);
            if evs.iter().any(|e| e["a"] == "obs.after" && e["auth"] == 1) {
                authed += 1;
            }
            let moved = evs.iter().any(|e| e["a"] == "obs.after" && e["auth"] != 0);
            let h = b.run(meta, &evs);
            if moved {
                nontrivial.insert(h);
            }
            if bad {
                bad_runs += 1;
            }
        }
    }
    b.finish();
    json!({"family": family, "runs": b.runs, "events": b.events, "distinct": b.hashes.len(), "scripts": scripts.len(),
           "distinct_nontrivial": nontrivial.len(), "bad_runs": bad_runs, "authenticated_runs": authed, "samples": b.samples})
}

pub fn dispatch(cmd: &str, a: &std::collections::HashMap<String, String>) -> Option<Value> {
    let (out, tier, seed) = crate::common(a);
    match cmd {
        "auth1" => Some(batch_l1(&out, &tier, seed)),
        "auth2" => Some(batch_l2(&out, seed, scripts_auth2(&tier, seed), "auth2", 1)),
        "auth-reflect" => Some(batch_l2(&out, seed, scripts_reflect(), "auth-reflect", 2)),
        "wire-sessions" => Some(batch_l2(&out, seed, scripts_wire(&tier, seed), "wire-sessions", if tier == "thorough" { 24 } else { 2 })),
        _ => None,
    }
}
