//! Family `outport` (C16): ractor::OutputPort (default broadcast implementation, or the
//! `output-port-v2` fan-out implementation when the harness is built with feature `v2port`) between
//! publisher client tasks and probe subscriber actors, engine T. Message k of the stream has payload k;
//! the converters are harness closures that log every value handed to a subscription.
use crate::explore::{Explorer, Mode};
use crate::fam_lifecycle::yield_once;
use crate::tdrv::{run_t, NoBetween};
use crate::trace::{ev_json, Batch, Names, Rng};
use ractor::verif::{self, Val};
use ractor::{Actor, ActorProcessingErr, ActorRef, Message, OutputPort};
use serde_json::{json, Value};
use std::collections::HashMap;
use std::sync::{Arc, Mutex};

pub const IMPL: &str = if cfg!(feature = "v2port") { "v2" } else { "v1" };

#[derive(Clone)]
pub struct PMsg(u64);
impl Message for PMsg {}
pub struct SMsg(usize, u64);
impl Message for SMsg {}

fn kvs(k: &str, v: &str) -> (String, Val) {
    (k.to_string(), Val::S(v.to_string()))
}
fn kvi(k: &str, v: i64) -> (String, Val) {
    (k.to_string(), Val::I(v))
}
fn obs(label: &str, x: &str, d: i64, mut kv: Vec<(String, Val)>) {
    kv.push(kvs("x", x));
    verif::emit_kv(label, 0, d, kv);
}
fn sname(i: usize) -> String {
    format!("s{}", i + 1)
}
fn aname(i: usize) -> String {
    ["A", "B", "C"][i].to_string()
}

#[derive(Clone, Copy, Debug, PartialEq)]
pub enum Filt {
    All,
    Even,
    Odd,
}
impl Filt {
    fn s(self) -> &'static str {
        match self {
            Filt::All => "all",
            Filt::Even => "even",
            Filt::Odd => "odd",
        }
    }
    fn pass(self, k: u64) -> bool {
        match self {
            Filt::All => true,
            Filt::Even => k % 2 == 0,
            Filt::Odd => k % 2 == 1,
        }
    }
}

#[derive(Clone, Debug, PartialEq)]
pub enum COp {
    Pause,
    /// n messages in one poll (send must never suspend the publisher)
    Publish(usize),
    Subscribe { s: usize, to: usize, f: Filt },
    Stop(usize),
    Kill(usize),
    DropPort,
}
#[derive(Clone, Debug)]
pub struct Scenario {
    pub nactors: usize,
    pub clients: Vec<Vec<COp>>,
}

#[derive(Default)]
struct World {
    port: Option<Arc<OutputPort<PMsg>>>,
    actors: Vec<Option<ActorRef<SMsg>>>,
    pids: HashMap<u64, String>,
    np: u64,
}
type W = Arc<Mutex<World>>;

struct SubActor {
    name: String,
    w: W,
}
#[cfg_attr(feature = "asynctrait", ractor::async_trait)]
impl Actor for SubActor {
    type Msg = SMsg;
    type State = ();
    type Arguments = ();
    async fn pre_start(&self, myself: ActorRef<SMsg>, _: ()) -> Result<(), ActorProcessingErr> {
        self.w.lock().unwrap().pids.insert(myself.get_id().pid(), self.name.clone());
        Ok(())
    }
    async fn handle(&self, _myself: ActorRef<SMsg>, m: SMsg, _: &mut ()) -> Result<(), ActorProcessingErr> {
        obs("obs.recv", &self.name, 0, vec![kvs("s", &sname(m.0)), kvi("k", m.1 as i64)]);
        Ok(())
    }
}

async fn client(w: W, ops: Vec<COp>) {
    for op in ops {
        yield_once().await;
        match op {
            COp::Pause => {}
            COp::Publish(n) => {
                for _ in 0..n {
                    let mut g = w.lock().unwrap();
                    let Some(port) = g.port.clone() else { break };
                    g.np += 1;
                    let k = g.np;
                    drop(g);
                    port.send(PMsg(k));
                    obs("obs.publish", "", 0, vec![kvi("k", k as i64)]);
                }
            }
            COp::Subscribe { s, to, f } => {
                let (port, a) = {
                    let g = w.lock().unwrap();
                    (g.port.clone(), g.actors[to].clone())
                };
                if let (Some(port), Some(a)) = (port, a) {
                    let sn = sname(s);
                    port.subscribe(a, move |m: PMsg| {
                        let pass = f.pass(m.0);
                        obs("obs.conv", &sn, 0, vec![kvi("k", m.0 as i64), kvi("m", i64::from(pass))]);
                        pass.then_some(SMsg(s, m.0))
                    });
                    obs("obs.subscribe", &sname(s), 0, vec![kvs("tg", &aname(to)), kvs("f", f.s())]);
                }
            }
            COp::Stop(i) => {
                let a = w.lock().unwrap().actors[i].clone();
                if let Some(a) = a {
                    a.stop(None);
                    obs("obs.stop", &aname(i), 0, vec![]);
                }
            }
            COp::Kill(i) => {
                let a = w.lock().unwrap().actors[i].clone();
                if let Some(a) = a {
                    a.kill();
                    obs("obs.kill", &aname(i), 0, vec![]);
                }
            }
            COp::DropPort => {
                let p = w.lock().unwrap().port.take();
                if let Some(p) = p {
                    obs("obs.drop_port", "", 0, vec![]);
                    drop(p);
                }
            }
        }
    }
}

const KEEP_OBS: &[&str] = &["obs.publish", "obs.subscribe", "obs.conv", "obs.recv", "obs.stop", "obs.kill", "obs.drop_port"];
const KEEP_ACT: &[&str] = &["port.stop", "sig.handled", "guard.cleanup"];

pub fn one_run(sc: &Scenario, ex: &mut Explorer) -> (Vec<Value>, Value, bool) {
    let sc = Arc::new(sc.clone());
    let w: W = Arc::new(Mutex::new(World { actors: vec![None; sc.nactors], ..Default::default() }));
    let fin: Arc<Mutex<Value>> = Arc::new(Mutex::new(json!(null)));
    let (sc2, w2) = (sc.clone(), w.clone());
    let (fin2, w4) = (fin.clone(), w.clone());
    let run = run_t(
        ex,
        6000,
        0,
        &mut NoBetween,
        move || async move {
            let _ = ractor::concurrency::spawn_named(Some("boot"), async move {
                for i in 0..sc2.nactors {
                    let (a, _) = SubActor::spawn(None, SubActor { name: aname(i), w: w2.clone() }, ()).await.expect("sub actor");
                    w2.lock().unwrap().actors[i] = Some(a);
                }
                // v2 spawns its fan-out task here
                w2.lock().unwrap().port = Some(Arc::new(OutputPort::default()));
                for (ci, ops) in sc2.clients.iter().enumerate() {
                    let _ = ractor::concurrency::spawn_named(Some(&format!("client{ci}")), client(w2.clone(), ops.clone()));
                }
            });
        },
        move || {
            let g = w4.lock().unwrap();
            let acts: Vec<Value> =
                g.actors.iter().enumerate().filter_map(|(i, a)| a.as_ref().map(|a| json!({"x": aname(i), "st": a.get_status() as i64}))).collect();
            *fin2.lock().unwrap() = json!({"actors": acts, "np": g.np});
        },
    );
    let g = w.lock().unwrap();
    let names = Names::default();
    // v1: the forwarding task of a subscription is the task spawned by the poll that logs obs.subscribe
    let mut task_sub: HashMap<u64, String> = HashMap::new();
    let mut last_new: Option<(String, u64)> = None;
    for e in &run.events {
        if e.a == "task.new" {
            last_new = Some((e.who.clone(), e.obj));
        } else if e.a == "obs.subscribe" {
            if let (Some((who, id)), Some((_, Val::S(x)))) = (last_new.take(), e.kv.iter().find(|(k, _)| k == "x")) {
                if who == e.who && IMPL == "v1" {
                    task_sub.insert(id, x.clone());
                }
            }
        }
    }
    let mut evs: Vec<Value> = vec![];
    for e in &run.events {
        let a = e.a.as_str();
        let mut j = ev_json(e, &names);
        let o = j.as_object_mut().unwrap();
        if KEEP_OBS.contains(&a) {
        } else if KEEP_ACT.contains(&a) {
            match g.pids.get(&e.obj) {
                Some(x) => {
                    o.insert("x".into(), json!(x));
                }
                None => continue,
            }
        } else if a == "out.batch" {
            o.insert("x".into(), json!(""));
        } else if a == "out.lagged" {
            let id: u64 = e.who.strip_prefix('k').and_then(|s| s.parse().ok()).unwrap_or(0);
            match task_sub.get(&id) {
                Some(x) => {
                    o.insert("x".into(), json!(x));
                }
                None => continue,
            }
        } else if a == "task.done" || a == "task.dropped" || a == "task.panicked" {
            match task_sub.get(&e.obj) {
                Some(x) => {
                    o.insert("a".into(), json!("obs.fwd_done"));
                    o.insert("x".into(), json!(x));
                }
                None => continue,
            }
        } else {
            continue;
        }
        evs.push(j);
    }
    let fin = fin.lock().unwrap().clone();
    evs.push(json!({"a": "obs.end", "who": "drv", "obj": "", "d": 0, "t": 0, "x": "", "fin": fin}));
    let bad = !run.quiescent;
    let meta = json!({"family": "outport", "impl": IMPL, "scenario": format!("{:?}", sc), "sched": ex.sched, "steps": run.steps, "quiescent": run.quiescent});
    drop(g);
    (evs, meta, bad)
}

// ------------------------------------------------------------------------------------------------
// scenarios
// ------------------------------------------------------------------------------------------------
pub fn micro_scenarios() -> Vec<Scenario> {
    use COp::*;
    let sub = |s, to, f| Subscribe { s, to, f };
    vec![
        // two subscribers, a third subscription arriving mid-stream, a subscriber killed mid-stream
        Scenario {
            nactors: 2,
            clients: vec![
                vec![sub(0, 0, Filt::All), sub(1, 1, Filt::Even), Publish(1), Publish(2), Publish(1), Publish(2)],
                vec![Pause, sub(2, 0, Filt::Odd)],
                vec![Pause, Pause, Kill(1)],
            ],
        },
        // a burst larger than the v1 ring in one poll, then more in separate polls: lag
        Scenario {
            nactors: 2,
            clients: vec![vec![sub(0, 0, Filt::All), sub(1, 1, Filt::Even), Publish(20), Publish(3), Publish(9), Publish(9), Publish(2)]],
        },
        // a stopped subscriber must not hold the others back
        Scenario {
            nactors: 3,
            clients: vec![
                vec![sub(0, 0, Filt::All), sub(1, 1, Filt::All), sub(2, 2, Filt::Odd), Publish(2), Publish(2), Publish(2)],
                vec![Pause, Stop(1)],
            ],
        },
        // the port is dropped while values are still in flight
        Scenario {
            nactors: 2,
            clients: vec![vec![sub(0, 0, Filt::All), Publish(3), sub(1, 1, Filt::All), Publish(2), DropPort], vec![Pause, Pause, Publish(1)]],
        },
        // the same actor subscribed twice, two publishers
        Scenario {
            nactors: 1,
            clients: vec![vec![sub(0, 0, Filt::All), Publish(2), sub(1, 0, Filt::All), Publish(2)], vec![Pause, Publish(1), Publish(1)]],
        },
        // subscribe racing with publication, a subscriber that is already dead when it is subscribed
        Scenario {
            nactors: 2,
            clients: vec![vec![Publish(1), Publish(1), Publish(1), Publish(1)], vec![sub(0, 0, Filt::All), Pause, sub(1, 1, Filt::Even)], vec![Kill(1)]],
        },
    ]
}

pub fn rand_scenario(rng: &mut Rng) -> Scenario {
    let nactors = 1 + rng.below(3);
    let nsubs = 1 + rng.below(4);
    let mut clients: Vec<Vec<COp>> = vec![];
    let mut subs: Vec<COp> = (0..nsubs)
        .map(|s| COp::Subscribe {
            s,
            to: rng.below(nactors),
            f: match rng.below(4) {
                0 | 1 => Filt::All,
                2 => Filt::Even,
                _ => Filt::Odd,
            },
        })
        .collect();
    let npubs = 1 + rng.below(2);
    let burst = rng.chance(1, 4);
    for p in 0..npubs {
        let mut c = vec![];
        // most subscriptions are made by the first publisher before / between its bursts
        let nops = 2 + rng.below(4);
        for _ in 0..nops {
            if p == 0 && !subs.is_empty() && rng.chance(1, 2) {
                c.push(subs.remove(0));
            }
            c.push(COp::Publish(if burst && rng.chance(1, 3) { 17 + rng.below(6) } else { 1 + rng.below(3) }));
            if rng.chance(1, 4) {
                c.push(COp::Pause);
            }
        }
        clients.push(c);
    }
    if !subs.is_empty() {
        let mut c = vec![];
        for s in subs.drain(..) {
            if rng.chance(1, 2) {
                c.push(COp::Pause);
            }
            c.push(s);
        }
        clients.push(c);
    }
    for _ in 0..rng.below(3) {
        let mut c = vec![];
        for _ in 0..rng.below(4) {
            c.push(COp::Pause);
        }
        c.push(match rng.below(5) {
            0 | 1 => COp::Stop(rng.below(nactors)),
            2 | 3 => COp::Kill(rng.below(nactors)),
            _ => COp::DropPort,
        });
        clients.push(c);
    }
    Scenario { nactors, clients }
}

pub fn batch(out: &str, tier: &str, seed: u64) -> Value {
    let mut b = Batch::new(Some(out));
    let (dfs_cap, nmicro, nrand, per) = if tier == "thorough" { (3000usize, 2500usize, 6000usize, 3usize) } else { (300usize, 250usize, 600usize, 2usize) };
    let mut nontrivial = std::collections::HashSet::new();
    let mut bad_runs = 0u64;
    let mut exhausted = 0u64;
    let mut go = |b: &mut Batch, sc: &Scenario, ex: &mut Explorer| {
        ex.begin_run();
        let (evs, meta, bad) = one_run(sc, ex);
        let h = b.run(meta, &evs);
        if ex.nontrivial {
            nontrivial.insert(h);
        }
        if bad {
            bad_runs += 1;
        }
    };
    for sc in micro_scenarios() {
        let mut ex = Explorer::new(Mode::Dfs { preempt_bound: Some(3) }, seed);
        let mut n = 0;
        loop {
            go(&mut b, &sc, &mut ex);
            n += 1;
            if !ex.end_run() {
                exhausted += 1;
                break;
            }
            if n >= dfs_cap {
                break;
            }
        }
        let mut ex = Explorer::new(Mode::Random, seed.wrapping_mul(0x9E3779B97F4A7C15) ^ 0x6d6963726f);
        for _ in 0..nmicro {
            go(&mut b, &sc, &mut ex);
        }
    }
    let mut rng = Rng(seed ^ 0x6f7574);
    for _ in 0..nrand {
        let sc = rand_scenario(&mut rng);
        let mut ex = Explorer::new(Mode::Random, rng.next());
        for _ in 0..per {
            go(&mut b, &sc, &mut ex);
        }
    }
    b.finish();
    drop(go);
    json!({"family": "outport", "impl": IMPL, "runs": b.runs, "events": b.events, "distinct": b.hashes.len(), "distinct_nontrivial": nontrivial.len(),
           "bad_runs": bad_runs, "dfs_exhausted": exhausted, "samples": b.samples})
}

pub fn dispatch(cmd: &str, a: &std::collections::HashMap<String, String>) -> Option<Value> {
    let (out, tier, seed) = crate::common(a);
    match cmd {
        "outport" => Some(batch(&out, &tier, seed)),
        _ => None,
    }
}
