//! Family `suptree` (C05): the supervision tree.
//!  * `suptree-h` (engine H): detached cells; one controlled thread per exiting actor runs that
//!    cell's exit sequence (handle_signal's sweep, the lifecycle guard's cleanup), environment
//!    threads link / unlink / relink / kill / drain concurrently.
//!  * `suptree-t` (engine T): whole scripted actors (the lifecycle family's ScriptActor) in a tree of
//!    depth 3, spawn_linked / spawn_linked_instant racing exits of every cause at every node.
//! Both write the alphabet of spec/Trace_SupTree.tla.
use crate::explore::{Explorer, Mode};
use crate::fam_lifecycle as lc;
use crate::hctl::{run_threads, HThread};
use crate::tdrv::{run_t, NoBetween};
use crate::trace::{ev_json, Batch, Names, Rng};
use ractor::verif::{self, Detached, Ev, Val};
use ractor::{Actor, ActorCell, ActorProcessingErr, ActorRef, ActorStatus, Message, SupervisionEvent};
use serde_json::{json, Value};
use std::collections::HashMap;
use std::sync::{Arc, Mutex};

pub struct TM;
impl Message for TM {}
pub struct Dummy;
#[cfg_attr(feature = "asynctrait", ractor::async_trait)]
impl Actor for Dummy {
    type Msg = TM;
    type State = ();
    type Arguments = ();
    async fn pre_start(&self, _: ActorRef<TM>, _: ()) -> Result<(), ActorProcessingErr> {
        Ok(())
    }
}

fn kvs(k: &str, v: &str) -> (String, Val) {
    (k.to_string(), Val::S(v.to_string()))
}
fn kvi(k: &str, v: i64) -> (String, Val) {
    (k.to_string(), Val::I(v))
}
fn aname(i: usize) -> String {
    format!("a{}", i + 1)
}

// ------------------------------------------------------------------------------------------------
// engine H
// ------------------------------------------------------------------------------------------------

/// What the thread standing for an actor's own task does
#[derive(Clone, Debug, PartialEq)]
pub enum Plan {
    /// no task: the cell just sits there
    Idle,
    /// failure / cancellation: the guard's cleanup at once
    Fail,
    /// graceful: Stopping, (post_stop: one poll of the signal port), cleanup
    Stop,
    /// reacts to a Kill only: polls the signal port `polls` times; `in_loop`: the kill lands in the
    /// message loop (Stopping is stored between handle_signal and the guard)
    OnKill { polls: usize, in_loop: bool },
}

#[derive(Clone, Debug, PartialEq)]
pub enum EOp {
    Link(usize, usize),
    Unlink(usize, usize),
    Kill(usize),
    Drain(usize),
}

#[derive(Clone, Debug)]
pub struct HShape {
    pub sup: Vec<Option<usize>>,
    /// initial status: 1 Starting, 2 Running, 4 Draining
    pub st: Vec<u8>,
    pub plans: Vec<Plan>,
    pub threads: Vec<Vec<EOp>>,
}

const KEEP_H: &[&str] = &[
    "obs.call", "obs.ret", "obs.exit_begin", "link.done", "unlink.done", "drain.status", "status.set", "obs.sig_taken", "guard.cleanup",
    "term.kill", "take.done", "term.take", "guard.terminated", "guard.notified", "guard.supread", "guard.unlinked",
    "guard.done", "obs.exit_done",
];

fn name_of(names: &Names, cell: &ActorCell) -> String {
    names.pid(cell.get_id().pid())
}

/// projected implementation state of one cell (public APIs + cfg-only accessors)
fn project(names: &Names, x: &str, cell: &ActorCell, sigp: i64) -> Value {
    let mut kids: Vec<String> = cell.get_children().iter().map(|c| name_of(names, c)).collect();
    kids.sort();
    let sup = cell.try_get_supervisor().map(|s| name_of(names, &s)).unwrap_or_else(|| "none".into());
    json!({"x": x, "st": cell.get_status() as i64, "sup": sup, "kids": kids,
           "closed": i64::from(verif::children_closed(cell)), "sigp": sigp})
}

/// rewrite pid-valued fields into actor names
fn fix_fields(e: &Ev, j: &mut Value, names: &Names) {
    let o = j.as_object_mut().unwrap();
    if let Some(v) = o.get("sup").and_then(|v| v.as_i64()) {
        o.insert("sup".into(), json!(names.pid(v as u64)));
    }
    if e.a.starts_with("obs.") {
        o.insert("obj".into(), json!(""));
    }
    if e.a == "guard.supread" {
        o.insert("sup".into(), json!(names.pid(e.d as u64)));
        o.insert("d".into(), json!(0));
    }
}

fn terminal_evt(cell: &ActorCell) -> SupervisionEvent {
    SupervisionEvent::ActorTerminated(cell.clone(), None, None)
}

pub fn one_run_h(shape: &HShape, ex: &mut Explorer, gen: &Value) -> (Vec<Value>, Value, bool) {
    let n = shape.sup.len();
    let mut dets: Vec<Detached> = (0..n).map(|_| verif::detached::<Dummy>(None).expect("detached")).collect();
    let cells: Vec<ActorCell> = dets.iter().map(|d| d.cell.clone()).collect();
    let mut names = Names::default();
    for (i, c) in cells.iter().enumerate() {
        names.pid.insert(c.get_id().pid(), aname(i));
    }
    // statuses below Draining first, then the links, then the drains (a draining actor cannot be linked)
    for (i, d) in dets.iter_mut().enumerate() {
        d.set_status(ActorStatus::Starting);
        if shape.st[i] >= 2 {
            d.set_status(ActorStatus::Running);
            d.mark_running();
        }
    }
    for (c, s) in shape.sup.iter().enumerate() {
        if let Some(s) = s {
            cells[c].link(cells[*s].clone());
        }
    }
    for i in 0..n {
        if shape.st[i] == 4 {
            let _ = cells[i].drain();
        }
    }
    let init: Vec<Value> = (0..n)
        .map(|i| {
            json!({"x": aname(i), "st": cells[i].get_status() as i64,
                   "sup": shape.sup[i].map(aname).unwrap_or_else(|| "none".into()),
                   "me": i64::from(matches!(shape.plans[i], Plan::Fail | Plan::Stop))})
        })
        .collect();
    let slots: Vec<Arc<Mutex<Option<Detached>>>> = dets.drain(..).map(|d| Arc::new(Mutex::new(Some(d)))).collect();
    let mut threads: Vec<HThread> = vec![];
    for (i, plan) in shape.plans.iter().enumerate() {
        if *plan == Plan::Idle {
            continue;
        }
        let slot = slots[i].clone();
        let plan = plan.clone();
        threads.push(HThread {
            role: aname(i),
            f: Box::new(move || {
                let mut det = slot.lock().unwrap().take().expect("cell");
                let evt = terminal_evt(&det.cell);
                let mut exited = false;
                match plan {
                    Plan::Idle => {}
                    Plan::Fail => {
                        verif::emit("obs.exit_begin", 0, 0);
                        det.finish(evt);
                        exited = true;
                    }
                    Plan::Stop => {
                        verif::emit("obs.exit_begin", 0, 0);
                        det.set_status(ActorStatus::Stopping);
                        verif::point("act.poll", 0, 0);
                        if det.try_recv_signal() {
                            verif::emit("obs.sig_taken", 0, 0);
                            det.terminate();
                        }
                        det.finish(evt);
                        exited = true;
                    }
                    Plan::OnKill { polls, in_loop } => {
                        for k in 0..polls {
                            verif::point("act.poll", 0, k as i64);
                            if det.try_recv_signal() {
                                verif::emit("obs.sig_taken", 0, 0);
                                det.terminate();
                                if in_loop {
                                    det.set_status(ActorStatus::Stopping);
                                }
                                det.finish(evt);
                                exited = true;
                                break;
                            }
                        }
                    }
                }
                if exited {
                    verif::emit("obs.exit_done", 0, 0);
                }
                *slot.lock().unwrap() = Some(det);
            }),
        });
    }
    for (t, ops) in shape.threads.iter().enumerate() {
        let cells = cells.clone();
        let ops = ops.clone();
        threads.push(HThread {
            role: format!("t{}", t + 1),
            f: Box::new(move || {
                for (k, op) in ops.iter().enumerate() {
                    if k > 0 {
                        verif::point("h.op", 0, k as i64);
                    }
                    // every call / return also records the statuses the caller could read at that moment
                    let note = |label: &str, kind: &str, c: usize, s: Option<usize>, r: i64| {
                        verif::emit_kv(
                            label,
                            0,
                            0,
                            vec![
                                kvs("k", kind),
                                kvs("c", &aname(c)),
                                kvs("s", &s.map(aname).unwrap_or_else(|| "none".into())),
                                kvi("r", r),
                                kvi("cst", cells[c].get_status() as i64),
                                kvi("sst", s.map(|s| cells[s].get_status() as i64).unwrap_or(9)),
                            ],
                        );
                    };
                    let call = |kind: &str, c: usize, s: Option<usize>| note("obs.call", kind, c, s, 0);
                    let ret = |kind: &str, c: usize, s: Option<usize>, r: i64| note("obs.ret", kind, c, s, r);
                    match *op {
                        EOp::Link(c, s) => {
                            call("link", c, Some(s));
                            cells[c].link(cells[s].clone());
                            // what a caller can see of the outcome, with nothing in between
                            let linked = cells[c].try_get_supervisor().is_some_and(|p| p.get_id() == cells[s].get_id())
                                && cells[s].get_children().iter().any(|k| k.get_id() == cells[c].get_id());
                            ret("link", c, Some(s), i64::from(linked));
                        }
                        EOp::Unlink(c, s) => {
                            call("unlink", c, Some(s));
                            cells[c].unlink(cells[s].clone());
                            ret("unlink", c, Some(s), 0);
                        }
                        EOp::Kill(x) => {
                            call("kill", x, None);
                            cells[x].kill();
                            ret("kill", x, None, 0);
                        }
                        EOp::Drain(x) => {
                            call("drain", x, None);
                            let _ = cells[x].drain();
                            ret("drain", x, None, 0);
                        }
                    }
                }
            }),
        });
    }
    // a run of these shapes takes well under 200 steps; a run that reaches the budget is spinning
    let run = run_threads(threads, ex, 800);
    names.who = run.names.who.clone();
    let mut evs: Vec<Value> = vec![];
    for e in run.events.iter().filter(|e| KEEP_H.contains(&e.a.as_str())) {
        let mut j = ev_json(e, &names);
        fix_fields(e, &mut j, &names);
        evs.push(j);
    }
    // final projection; a cell whose thread never came back cannot be observed
    let mut fin = vec![];
    let mut missing = false;
    for (i, slot) in slots.iter().enumerate() {
        match slot.try_lock().ok().and_then(|mut g| g.take()) {
            Some(mut d) => {
                let sigp = i64::from(d.try_recv_signal());
                fin.push(project(&names, &aname(i), &cells[i], sigp));
                dets.push(d);
            }
            None => missing = true,
        }
    }
    let bad = run.overrun || !run.stuck.is_empty() || missing;
    if !missing {
        evs.push(json!({"a": "obs.end", "who": "drv", "obj": "", "d": 0, "t": 0, "q": 0, "fin": fin}));
    }
    // tidy up (not part of the run): cells that did not exit are taken out of the registries by
    // publishing Stopped and are then leaked together with their guard -- running terminate() here
    // could spin for ever on a child-set cycle if the code under test fails to close child sets
    verif::enable(false);
    for mut d in dets.drain(..) {
        d.drop_ports();
        if d.cell.get_status() != ActorStatus::Stopped {
            d.set_status(ActorStatus::Stopped);
            std::mem::forget(d);
        }
    }
    verif::enable(true);
    let _ = verif::take_events();
    let meta = json!({"family": "suptree-h", "gen": gen, "shape": format!("{shape:?}"), "sched": ex.sched, "steps": run.steps,
                      "overrun": run.overrun, "init": init});
    (evs, meta, bad)
}

fn sh(sup: &[Option<usize>], st: &[u8], plans: &[Plan], threads: &[&[EOp]]) -> HShape {
    HShape { sup: sup.to_vec(), st: st.to_vec(), plans: plans.to_vec(), threads: threads.iter().map(|t| t.to_vec()).collect() }
}

/// hand-written shapes explored by bounded DFS
pub fn micro_h() -> Vec<HShape> {
    use EOp::*;
    use Plan::*;
    let k1 = OnKill { polls: 1, in_loop: true };
    let k2 = OnKill { polls: 2, in_loop: true };
    let ks = OnKill { polls: 2, in_loop: false };
    vec![
        // 0: a link racing the supervisor's failure exit
        sh(&[None, None], &[2, 2], &[Fail, Idle], &[&[Link(1, 0)]]),
        // 1: chain a1 <- a2 <- a3, root fails, the middle reacts to its Kill while the root still sweeps
        sh(&[None, Some(0), Some(1)], &[2, 2, 2], &[Fail, k2.clone(), Idle], &[]),
        // 2: kill path: early sweep (child set closed while still Running) racing a link and the link of a grandchild
        sh(&[None, Some(0), None], &[2, 2, 2], &[k2.clone(), Idle, Idle], &[&[Kill(0)], &[Link(2, 0)]]),
        // 3: relink from an exiting supervisor to another one, racing the sweep
        sh(&[None, Some(0), None], &[2, 2, 2], &[Fail, k1.clone(), Idle], &[&[Link(1, 2)]]),
        // 4: unlink racing the sweep; the child exits on its own as well
        sh(&[None, Some(0)], &[2, 2], &[Stop, Fail], &[&[Unlink(1, 0)]]),
        // 5: a child that is already draining when its supervisor goes (DESIGN 6.1)
        sh(&[None, Some(0)], &[2, 4], &[Fail, Idle], &[]),
        // 6: the same one level down, supervisor killed, drain racing the sweep
        sh(&[None, Some(0), Some(1)], &[2, 2, 2], &[k1.clone(), ks.clone(), Idle], &[&[Kill(0)], &[Drain(2)]]),
        // 7: spawn-like link (child still Starting) racing a graceful stop with a kill during post_stop
        sh(&[None, None], &[2, 1], &[Stop, Idle], &[&[Link(1, 0)], &[Kill(0)]]),
        // 8: drain of the supervisor racing a link; then unlink
        sh(&[None, None], &[2, 2], &[Idle, Idle], &[&[Drain(0)], &[Link(1, 0), Unlink(1, 0)]]),
        // 9: two exits at once: parent and child both fail, grandchild linked meanwhile
        sh(&[None, Some(0), None], &[2, 2, 2], &[Fail, Fail, Idle], &[&[Link(2, 1)]]),
        // 10: a child already taken by the sweep is relinked under a sibling the sweep has not reached yet:
        // it is found and visited a second time
        sh(&[None, Some(0), Some(0)], &[2, 2, 2], &[Fail, Idle, Idle], &[&[Link(2, 1)], &[Link(1, 2)]]),
        // 11: a child handed over to another supervisor; a late unlink naming the old (exiting / exited) supervisor
        // changes nothing; the child then fails under its new supervisor
        sh(&[None, Some(0), None], &[2, 2, 2], &[Stop, Fail, Idle], &[&[Link(1, 2), Unlink(1, 0)]]),
        // 12: the same with the unlink on its own thread (it may also come first, when it is still a real unlink)
        sh(&[None, Some(0), None], &[2, 2, 2], &[Fail, Idle, Idle], &[&[Link(1, 2)], &[Unlink(1, 0)], &[Kill(1)]]),
    ]
}

/// a random shape: a forest of depth <= 3 over 3..5 actors, some exiting, 1..3 environment threads
pub fn rand_h(rng: &mut Rng) -> HShape {
    let n = 3 + rng.below(3);
    let mut sup: Vec<Option<usize>> = vec![None; n];
    let mut depth = vec![1usize; n];
    for i in 1..n {
        if rng.chance(3, 4) {
            let p = rng.below(i);
            if depth[p] < 3 {
                sup[i] = Some(p);
                depth[i] = depth[p] + 1;
            }
        }
    }
    let st: Vec<u8> = (0..n)
        .map(|i| match rng.below(8) {
            0 => 4,
            1 if sup[i].is_none() => 1,
            _ => 2,
        })
        .collect();
    let mut plans: Vec<Plan> = (0..n)
        .map(|_| match rng.below(8) {
            0 | 1 => Plan::Fail,
            2 => Plan::Stop,
            3 | 4 => Plan::OnKill { polls: 1 + rng.below(2), in_loop: rng.chance(2, 3) },
            _ => Plan::Idle,
        })
        .collect();
    if plans.iter().all(|p| *p == Plan::Idle) {
        plans[0] = Plan::Fail;
    }
    let nt = 1 + rng.below(3);
    let mut threads = vec![];
    for _ in 0..nt {
        let mut ops = vec![];
        for _ in 0..(1 + rng.below(2)) {
            let a = rng.below(n);
            let mut b = rng.below(n);
            if b == a {
                b = (a + 1) % n;
            }
            ops.push(match rng.below(8) {
                0 | 1 | 2 => EOp::Link(a, b),
                3 => EOp::Unlink(a, if rng.chance(1, 2) { sup[a].unwrap_or(b) } else { b }),
                4 | 5 => EOp::Kill(a),
                6 => EOp::Drain(a),
                _ => EOp::Link(b, a),
            });
        }
        threads.push(ops);
    }
    HShape { sup, st, plans, threads }
}

// ------------------------------------------------------------------------------------------------
// engine T: whole actors
// ------------------------------------------------------------------------------------------------

const KEEP_T_INTERNAL: &[&str] = &[
    "link.done", "unlink.done", "drain.status", "status.set", "sig.handled", "guard.cleanup", "term.kill", "take.done",
    "term.take", "guard.terminated", "guard.notified", "guard.supread", "guard.unlinked", "guard.done",
];

static RUN_SEQ: std::sync::atomic::AtomicU64 = std::sync::atomic::AtomicU64::new(0);

fn base(a: &str, who: &str, obj: &str, d: i64, t: u64) -> serde_json::Map<String, Value> {
    let mut m = serde_json::Map::new();
    m.insert("a".into(), json!(a));
    m.insert("who".into(), json!(who));
    m.insert("obj".into(), json!(obj));
    m.insert("d".into(), json!(d));
    m.insert("t".into(), json!(t));
    m
}
fn op_ev(a: &str, who: &str, t: u64, k: &str, c: &str, s: &str, r: i64) -> Value {
    let mut m = base(a, who, "", 0, t);
    m.insert("k".into(), json!(k));
    m.insert("c".into(), json!(c));
    m.insert("s".into(), json!(s));
    m.insert("r".into(), json!(r));
    m.insert("cst".into(), json!(9));
    m.insert("sst".into(), json!(9));
    Value::Object(m)
}

/// Run one lifecycle-style scenario and translate what happened into the SupTree alphabet:
/// client operations become obs.call / obs.ret pairs of an environment thread, the internal notes
/// and points of an exit are attributed to the exiting actor.
pub fn one_run_t(sc: &lc::Scenario, ex: &mut Explorer, gen: &Value) -> (Vec<Value>, Value, bool) {
    let sc = Arc::new(sc.clone());
    let n = sc.actors.len();
    let w: Arc<Mutex<lc::World>> = Arc::new(Mutex::new(lc::World {
        cells: vec![None; n],
        loops: (0..n).map(|_| None).collect(),
        loop_abort: (0..n).map(|_| None).collect(),
        spawner_abort: (0..n).map(|_| None).collect(),
        nsent: vec![0; n],
        pids: HashMap::new(),
        ..Default::default()
    }));
    let run_tag = format!("c5r{}", RUN_SEQ.fetch_add(1, std::sync::atomic::Ordering::SeqCst));
    w.lock().unwrap().run_tag = run_tag.clone();
    let (sc2, w2, tag2) = (sc.clone(), w.clone(), run_tag.clone());
    let fin: Arc<Mutex<Vec<Value>>> = Arc::new(Mutex::new(vec![]));
    let (fin2, w4, sc4) = (fin.clone(), w.clone(), sc.clone());
    let run = run_t(
        ex,
        4000,
        0,
        &mut NoBetween,
        move || async move {
            for (ci, ops) in sc2.clients.iter().enumerate() {
                let (s3, w3, t3) = (sc2.clone(), w2.clone(), tag2.clone());
                let ops = ops.clone();
                let _ = ractor::concurrency::spawn_named(Some(&format!("client{ci}")), lc::client(s3, w3, ops, t3));
            }
        },
        move || {
            // the projection is taken while the runtime is alive (dropping it tears every actor down)
            let g = w4.lock().unwrap();
            let mut nm = Names::default();
            for (pid, name) in g.pids.iter() {
                nm.pid.insert(*pid, name.clone());
            }
            let mut f = fin2.lock().unwrap();
            for (i, c) in g.cells.iter().enumerate() {
                if let Some(c) = c {
                    f.push(project(&nm, &sc4.actors[i].name, c, 2));
                }
            }
        },
    );
    let mut names = Names::default();
    {
        let g = w.lock().unwrap();
        for (pid, name) in g.pids.iter() {
            names.pid.insert(*pid, name.clone());
        }
    }
    // task id -> client thread id
    let mut client_of: HashMap<String, String> = HashMap::new();
    for e in &run.events {
        if e.a == "task.new" {
            let nm = e.kv.iter().find(|(k, _)| k == "name").and_then(|(_, v)| if let Val::S(s) = v { Some(s.clone()) } else { None }).unwrap_or_default();
            if let Some(ci) = nm.strip_prefix("client") {
                if let Ok(ci) = ci.parse::<usize>() {
                    client_of.insert(format!("k{}", e.obj), format!("t{}", ci + 1));
                }
            }
        }
    }
    let sup_name = |x: &str| -> String {
        sc.actors.iter().find(|a| a.name == x).and_then(|a| a.sup).map(|s| sc.actors[s].name.clone()).unwrap_or_else(|| "none".into())
    };
    let known = |x: &str| sc.actors.iter().any(|a| a.name == x);
    let kvstr = |e: &Ev, k: &str| -> String {
        e.kv.iter().find(|(kk, _)| kk == k).and_then(|(_, v)| if let Val::S(s) = v { Some(s.clone()) } else { None }).unwrap_or_default()
    };
    let mut evs: Vec<Value> = vec![];
    let mut spawning: HashMap<String, bool> = HashMap::new(); // child -> spawn operation open
    let mut exiting: HashMap<String, String> = HashMap::new(); // raw who -> actor whose sweep / cleanup runs there
    let mut drain_open: HashMap<String, String> = HashMap::new(); // raw who -> drain target
    let mut begun: std::collections::HashSet<String> = Default::default(); // actors whose exit has been announced
    for e in &run.events {
        let a = e.a.as_str();
        let raw = e.who.clone();
        let role = client_of.get(&raw).cloned();
        match a {
            "obs.spawn_call" => {
                let x = kvstr(e, "x");
                if sup_name(&x) != "none" {
                    spawning.insert(x.clone(), true);
                    evs.push(op_ev("obs.call", &format!("s_{x}"), e.t, "spawn", &x, &sup_name(&x), 0));
                }
            }
            "obs.start_ret" => {
                let x = kvstr(e, "x");
                if spawning.remove(&x).is_some() {
                    evs.push(op_ev("obs.ret", &format!("s_{x}"), e.t, "spawn", &x, &sup_name(&x), e.d));
                }
            }
            "obs.kill" => {
                let x = kvstr(e, "x");
                let who = role.clone().unwrap_or_else(|| format!("s_{x}"));
                evs.push(op_ev("obs.call", &who, e.t, "kill", &x, "none", 0));
                evs.push(op_ev("obs.ret", &who, e.t, "kill", &x, "none", 0));
            }
            "obs.drain" => {
                let x = kvstr(e, "x");
                if let Some(who) = role.clone() {
                    if drain_open.remove(&raw).is_some() {
                        evs.push(op_ev("obs.ret", &who, e.t, "drain", &x, "none", 0));
                    }
                }
            }
            "drain.close" => {
                // first point inside drain(): the call has begun
                let x = names.pid(e.obj);
                if let Some(who) = role.clone() {
                    if known(&x) {
                        drain_open.insert(raw.clone(), x.clone());
                        evs.push(op_ev("obs.call", &who, e.t, "drain", &x, "none", 0));
                    }
                }
            }
            _ if KEEP_T_INTERNAL.contains(&a) => {
                let objn = names.pid(e.obj);
                if !known(&objn) {
                    continue;
                }
                let who = match a {
                    "status.set" | "sig.handled" | "guard.cleanup" | "guard.terminated" | "guard.notified" | "guard.supread"
                    | "guard.unlinked" | "guard.done" => {
                        if a == "sig.handled" || a == "guard.cleanup" {
                            exiting.insert(raw.clone(), objn.clone());
                        }
                        if a == "guard.done" {
                            exiting.remove(&raw);
                        }
                        objn.clone()
                    }
                    "term.kill" | "take.done" | "term.take" => match exiting.get(&raw) {
                        Some(x) => x.clone(),
                        None => continue,
                    },
                    "unlink.done" => match exiting.get(&raw) {
                        Some(x) if *x == objn => x.clone(),
                        _ => role.clone().unwrap_or_else(|| "t9".into()),
                    },
                    "link.done" => {
                        if spawning.contains_key(&objn) {
                            format!("s_{objn}")
                        } else {
                            role.clone().unwrap_or_else(|| "t9".into())
                        }
                    }
                    "drain.status" => match role.clone() {
                        Some(r) if drain_open.contains_key(&raw) => r,
                        _ => continue,
                    },
                    _ => continue,
                };
                // observations derived from the exit's own brackets: the task picked up its Kill /
                // is about to end on its own / is gone
                let begins = a == "guard.cleanup" || (a == "status.set" && e.d == ActorStatus::Stopping as i64);
                if a == "sig.handled" {
                    begun.insert(objn.clone());
                    evs.push(Value::Object(base("obs.sig_taken", &objn, "", 0, e.t)));
                    continue;
                }
                if begins && begun.insert(objn.clone()) {
                    evs.push(Value::Object(base("obs.exit_begin", &objn, "", 0, e.t)));
                }
                let mut j = ev_json(e, &names);
                fix_fields(e, &mut j, &names);
                j.as_object_mut().unwrap().insert("who".into(), json!(who));
                evs.push(j);
                if a == "guard.done" {
                    evs.push(Value::Object(base("obs.exit_done", &objn, "", 0, e.t)));
                }
            }
            _ => {}
        }
    }
    let finj: Vec<Value> = fin.lock().unwrap().clone();
    evs.push(json!({"a": "obs.end", "who": "drv", "obj": "", "d": 0, "t": 0, "q": i64::from(run.quiescent), "fin": finj}));
    let init: Vec<Value> = sc.actors.iter().map(|a| json!({"x": a.name, "st": 0, "sup": "none", "me": 1})).collect();
    let bad = !run.quiescent;
    let meta = json!({"family": "suptree-t", "gen": gen, "scenario": format!("{:?}", sc), "sched": ex.sched, "steps": run.steps,
                      "quiescent": run.quiescent, "init": init});
    (evs, meta, bad)
}

fn actor(name: &str, sup: Option<usize>, instant: bool, helper: bool, script: lc::Script) -> lc::ActorSpec {
    lc::ActorSpec { name: name.into(), sup, instant, helper, script }
}

/// hand-written T scenarios explored by bounded DFS
pub fn micro_t() -> Vec<lc::Scenario> {
    use lc::COp::*;
    use lc::Op;
    let quiet = || lc::Script { sup: vec![Op::Tick], ..Default::default() };
    let forever = || lc::Script { handle: vec![vec![Op::Sleep(100_000_000)]], sup: vec![Op::Tick], ..Default::default() };
    let slow_pre = || lc::Script { pre: vec![Op::Tick, Op::Yield, Op::Tick], post: vec![Op::Yield], sup: vec![Op::Tick], ..Default::default() };
    vec![
        // 0: DESIGN 6.1 -- supervisor S, linked child C whose handler awaits for ever, C.drain(), S.kill()
        lc::Scenario {
            actors: vec![actor("a1", None, false, false, quiet()), actor("a2", Some(0), false, false, forever())],
            clients: vec![vec![Spawn(0), Spawn(1), Send(1), Pause, Drain(1), Kill(0), Pause, Status(1)]],
        },
        // 1: spawn_linked of a grandchild racing the kill of the root of a depth-3 chain
        lc::Scenario {
            actors: vec![actor("a1", None, false, false, quiet()), actor("a2", Some(0), false, false, quiet()), actor("a3", Some(1), false, true, slow_pre())],
            clients: vec![vec![Spawn(0), Spawn(1), Spawn(2), Pause, Status(2)], vec![Pause, Pause, Kill(0)]],
        },
        // 2: the same with spawn_linked_instant and a graceful stop of the middle actor
        lc::Scenario {
            actors: vec![actor("a1", None, false, false, quiet()), actor("a2", Some(0), false, false, quiet()), actor("a3", Some(1), true, false, slow_pre())],
            clients: vec![vec![Spawn(0), Spawn(1), Spawn(2), Pause, Status(2)], vec![Pause, Pause, Stop(1)]],
        },
        // 3: the loop task of the middle actor is aborted while a child is being spawned under it
        lc::Scenario {
            actors: vec![actor("a1", None, false, false, quiet()), actor("a2", Some(0), false, false, quiet()), actor("a3", Some(1), false, true, slow_pre())],
            clients: vec![vec![Spawn(0), Spawn(1), Spawn(2), Pause, Status(2)], vec![Pause, Pause, AbortLoop(1)]],
        },
        // 4: the supervisor drains (refuses new children from then on) while a child starts under it
        lc::Scenario {
            actors: vec![actor("a1", None, false, false, quiet()), actor("a2", Some(0), false, true, slow_pre())],
            clients: vec![vec![Spawn(0), Spawn(1), Pause, Status(1)], vec![Pause, Drain(0)]],
        },
    ]
}

/// a random T scenario: chain a1 <- a2 <- a3 plus a4 under a1 or a2; spawns (linked, some instant, some
/// through an abortable helper) race exits of every cause at random nodes
pub fn rand_t(rng: &mut Rng) -> lc::Scenario {
    use lc::COp::*;
    use lc::Op;
    let body = |rng: &mut Rng| -> Vec<Op> {
        match rng.below(4) {
            0 => vec![Op::Tick, Op::Yield, Op::Tick],
            1 => vec![Op::Yield],
            _ => vec![Op::Tick],
        }
    };
    let script = |rng: &mut Rng, may_fail: bool| -> lc::Script {
        let mut handle = vec![body(rng), body(rng)];
        if may_fail && rng.chance(1, 4) {
            handle[1].push(if rng.chance(1, 2) { Op::Panic } else { Op::Err });
        }
        if rng.chance(1, 8) {
            handle[0] = vec![Op::Sleep(100_000_000)];
        }
        lc::Script { pre: body(rng), post: body(rng), handle, sup: vec![Op::Tick], pstop: if rng.chance(1, 3) { vec![Op::Yield] } else { vec![] } }
    };
    let four = rng.chance(1, 2);
    let mut actors = vec![
        actor("a1", None, false, false, script(rng, false)),
        actor("a2", Some(0), rng.chance(1, 4), rng.chance(1, 3), script(rng, true)),
        actor("a3", Some(1), rng.chance(1, 3), rng.chance(1, 2), script(rng, true)),
    ];
    if four {
        let p = rng.below(2);
        actors.push(actor("a4", Some(p), rng.chance(1, 3), rng.chance(1, 2), script(rng, true)));
    }
    let n = actors.len();
    let mut c0 = vec![Spawn(0), Spawn(1), Spawn(2)];
    if four {
        c0.push(Spawn(3));
    }
    for _ in 0..rng.below(3) {
        c0.push(Send(1 + rng.below(n - 1)));
    }
    c0.push(Pause);
    c0.push(Status(n - 1));
    let mut clients = vec![c0];
    let nd = 1 + rng.below(2);
    for _ in 0..nd {
        let mut c = vec![];
        for _ in 0..rng.below(4) {
            c.push(Pause);
        }
        for _ in 0..(1 + rng.below(2)) {
            let tgt = rng.below(n);
            c.push(match rng.below(10) {
                0 | 1 | 2 => Kill(tgt),
                3 | 4 => Stop(tgt),
                5 => Drain(tgt),
                6 => AbortLoop(tgt),
                7 => AbortSpawner(tgt),
                8 => Send(tgt),
                _ => Kill(0),
            });
            if rng.chance(1, 2) {
                c.push(Pause);
            }
        }
        clients.push(c);
    }
    lc::Scenario { actors, clients }
}

// ------------------------------------------------------------------------------------------------
// batches
// ------------------------------------------------------------------------------------------------
struct Acc {
    b: Batch,
    nontrivial: std::collections::HashSet<u64>,
    bad_runs: u64,
}
impl Acc {
    fn add(&mut self, r: (Vec<Value>, Value, bool), ex: &Explorer) {
        let h = self.b.run(r.1, &r.0);
        if ex.nontrivial {
            self.nontrivial.insert(h);
        }
        if r.2 {
            self.bad_runs += 1;
        }
    }
}

fn dfs<F: FnMut(&mut Explorer) -> (Vec<Value>, Value, bool)>(acc: &mut Acc, bound: u32, cap: usize, seed: u64, mut f: F) {
    let mut ex = Explorer::new(Mode::Dfs { preempt_bound: Some(bound) }, seed);
    let mut k = 0;
    loop {
        ex.begin_run();
        let r = f(&mut ex);
        let bad = r.2;
        acc.add(r, &ex);
        k += 1;
        // a run that hit its step budget leaves parked threads behind: do not keep exploring that shape
        if bad || !ex.end_run() || k >= cap {
            break;
        }
    }
}

pub fn batch_h(out: &str, tier: &str, seed: u64) -> Value {
    let mut acc = Acc { b: Batch::new(Some(out)), nontrivial: Default::default(), bad_runs: 0 };
    let (dfs_cap, nrand, per) = if tier == "thorough" { (5000usize, 4000usize, 4usize) } else { (300usize, 1000usize, 2usize) };
    for (i, shp) in micro_h().iter().enumerate() {
        let gen = json!({"kind": "hmicro", "idx": i});
        for bound in [1u32, 2u32] {
            dfs(&mut acc, bound, dfs_cap, seed, |ex| one_run_h(shp, ex, &gen));
        }
    }
    let mut rng = Rng(seed ^ 0x7375_7074);
    for _ in 0..nrand {
        let s = rng.next();
        let shp = rand_h(&mut Rng(s));
        let gen = json!({"kind": "hrand", "seed": s.to_string()});
        let mut ex = Explorer::new(Mode::Random, rng.next());
        for _ in 0..per {
            ex.begin_run();
            let r = one_run_h(&shp, &mut ex, &gen);
            let bad = r.2;
            acc.add(r, &ex);
            if bad {
                break;
            }
        }
    }
    acc.b.finish();
    json!({"family": "suptree-h", "runs": acc.b.runs, "events": acc.b.events, "distinct": acc.b.hashes.len(),
           "distinct_nontrivial": acc.nontrivial.len(), "bad_runs": acc.bad_runs, "samples": acc.b.samples})
}

pub fn batch_t(out: &str, tier: &str, seed: u64) -> Value {
    let mut acc = Acc { b: Batch::new(Some(out)), nontrivial: Default::default(), bad_runs: 0 };
    let (dfs_cap, nrand, per) = if tier == "thorough" { (2500usize, 3000usize, 3usize) } else { (150usize, 500usize, 2usize) };
    for (i, sc) in micro_t().iter().enumerate() {
        let gen = json!({"kind": "tmicro", "idx": i});
        dfs(&mut acc, 2, dfs_cap, seed, |ex| one_run_t(sc, ex, &gen));
    }
    let mut rng = Rng(seed ^ 0x7375_7474);
    for _ in 0..nrand {
        let s = rng.next();
        let sc = rand_t(&mut Rng(s));
        let gen = json!({"kind": "trand", "seed": s.to_string()});
        let mut ex = Explorer::new(Mode::Random, rng.next());
        for _ in 0..per {
            ex.begin_run();
            let r = one_run_t(&sc, &mut ex, &gen);
            acc.add(r, &ex);
        }
    }
    acc.b.finish();
    json!({"family": "suptree-t", "runs": acc.b.runs, "events": acc.b.events, "distinct": acc.b.hashes.len(),
           "distinct_nontrivial": acc.nontrivial.len(), "bad_runs": acc.bad_runs, "samples": acc.b.samples})
}

/// Re-execute one recorded run: `gen` names the shape / scenario, `sched` the schedule
pub fn replay(gen: &Value, sched: Vec<usize>, out: &str) -> Value {
    let mut b = Batch::new(Some(out));
    let mut ex = Explorer::new(Mode::Replay(sched), 0);
    ex.begin_run();
    let kind = gen.get("kind").and_then(|k| k.as_str()).unwrap_or("");
    let idx = gen.get("idx").and_then(|k| k.as_u64()).unwrap_or(0) as usize;
    let seed: u64 = gen.get("seed").and_then(|k| k.as_str()).and_then(|s| s.parse().ok()).unwrap_or(0);
    let r = match kind {
        "hmicro" => micro_h().get(idx).map(|s| one_run_h(s, &mut ex, gen)),
        "hrand" => Some(one_run_h(&rand_h(&mut Rng(seed)), &mut ex, gen)),
        "tmicro" => micro_t().get(idx).map(|s| one_run_t(s, &mut ex, gen)),
        "trand" => Some(one_run_t(&rand_t(&mut Rng(seed)), &mut ex, gen)),
        _ => None,
    };
    match r {
        Some((evs, meta, _)) => {
            b.run(meta, &evs);
            b.finish();
            json!({"runs": 1})
        }
        None => json!({"runs": 0, "error": "unknown generator"}),
    }
}

pub fn dispatch(cmd: &str, a: &std::collections::HashMap<String, String>) -> Option<Value> {
    let (out, tier, seed) = crate::common(a);
    match cmd {
        "suptree-h" => Some(batch_h(&out, &tier, seed)),
        "suptree-t" => Some(batch_t(&out, &tier, seed)),
        "suptree-replay" => {
            let gen: Value = serde_json::from_str(a.get("gen").map(|s| s.as_str()).unwrap_or("{}")).unwrap_or(json!({}));
            let sched: Vec<usize> = serde_json::from_str(a.get("sched").map(|s| s.as_str()).unwrap_or("[]")).unwrap_or_default();
            Some(replay(&gen, sched, &out))
        }
        _ => None,
    }
}
