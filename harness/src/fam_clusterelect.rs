//! Family `clusterelect` (C18):
//!  (a) the session election function called directly on every small candidate set (every order),
//!  (b) the node server's session table (register / check / commit / is_elected) driven directly,
//!  (c) two real node servers joined by several in-memory connections under engine T.
use crate::cluster2::{self, yield_once};
use crate::explore::{Explorer, Mode};
use crate::tdrv::{run_t, NoBetween};
use crate::trace::{Batch, Rng};
use ractor::verif::{Ev, Val};
use ractor_cluster::verif::VerifNodeState;
use serde_json::{json, Map, Value};
use std::collections::HashMap;
use std::sync::{Arc, Mutex};

/// every event of this family carries the same base fields
fn base(a: &str) -> Map<String, Value> {
    let mut m = Map::new();
    m.insert("a".into(), json!(a));
    m.insert("who".into(), json!("drv"));
    m.insert("obj".into(), json!(""));
    m.insert("d".into(), json!(0));
    m.insert("t".into(), json!(0));
    m.insert("node".into(), json!(""));
    m.insert("c".into(), json!(""));
    m
}
fn ev(a: &str, f: &[(&str, Value)]) -> Value {
    let mut m = base(a);
    for (k, v) in f {
        m.insert((*k).into(), v.clone());
    }
    Value::Object(m)
}

// ------------------------------------------------------------------------------------------------
// (a) election function
// ------------------------------------------------------------------------------------------------
fn permutations(n: usize) -> Vec<Vec<usize>> {
    fn rec(cur: &mut Vec<usize>, used: &mut Vec<bool>, n: usize, out: &mut Vec<Vec<usize>>) {
        if cur.len() == n {
            out.push(cur.clone());
            return;
        }
        for i in 0..n {
            if !used[i] {
                used[i] = true;
                cur.push(i);
                rec(cur, used, n, out);
                cur.pop();
                used[i] = false;
            }
        }
    }
    let mut out = vec![];
    rec(&mut vec![], &mut vec![false; n], n, &mut out);
    out
}

/// Every candidate set of size 1..=max (direction, nonce in 0..=2, every assignment of distinct ids),
/// every name relation, every order of the candidate vector. One event per set (first order) plus one
/// per order whose result differs (order dependence shows up as extra, rejected, events).
fn fn_batch(b: &mut Batch, max: usize) -> (u64, u64) {
    let names = [("a@h", "b@h"), ("b@h", "a@h"), ("a@h", "c@h"), ("c@h", "b@h"), ("b@h", "b@h")];
    let mut calls = 0u64;
    let mut evs: Vec<Value> = vec![];
    let mut sets = 0u64;
    for m in 1..=max {
        let perms = permutations(m);
        let combos = 6usize.pow(m as u32);
        for combo in 0..combos {
            let mut dn = vec![];
            let mut x = combo;
            for _ in 0..m {
                dn.push(((x % 6) / 3 == 1, (x % 3) as u64));
                x /= 6;
            }
            for idp in &perms {
                // ids: spread out so that rank, not value, matters
                let cands: Vec<(u64, bool, u64)> = (0..m).map(|i| (10 + 7 * idp[i] as u64, dn[i].0, dn[i].1)).collect();
                for (this, peer) in names {
                    sets += 1;
                    let mut first: Option<Vec<u64>> = None;
                    for ord in &perms {
                        let v: Vec<(u64, bool, u64)> = ord.iter().map(|&i| cands[i]).collect();
                        let mut r = ractor_cluster::verif::elect(this, peer, v.clone());
                        calls += 1;
                        let raw = r.clone();
                        r.sort_unstable();
                        let differs = first.as_ref().map(|f| *f != r).unwrap_or(true);
                        if differs {
                            if first.is_none() {
                                first = Some(r.clone());
                            }
                            evs.push(ev(
                                "fn.elect",
                                &[
                                    ("this", json!(this)),
                                    ("peer", json!(peer)),
                                    ("cands", json!(v.iter().map(|c| json!([c.0, i64::from(c.1), c.2])).collect::<Vec<_>>())),
                                    ("res", json!(raw)),
                                ],
                            ));
                        }
                    }
                }
            }
            if evs.len() >= 2000 {
                b.run(json!({"family": "clusterelect", "kind": "fn", "upto": combo, "size": m}), &evs);
                evs.clear();
            }
        }
    }
    if !evs.is_empty() {
        b.run(json!({"family": "clusterelect", "kind": "fn"}), &evs);
    }
    (sets, calls)
}

// ------------------------------------------------------------------------------------------------
// (b) session table
// ------------------------------------------------------------------------------------------------
#[derive(Clone, Debug)]
struct TSess {
    srv: bool,
    peer: &'static str,
    nonce: u64,
}

/// ops: (session index, step) with step 0 = open, 1 = update, 2 = commit, 3 = ready, 4 = gone
fn table_run(this: &'static str, sess: &[TSess], ops: &[(usize, u8)]) -> Vec<Value> {
    let mut st = VerifNodeState::new(this);
    let mut pid: Vec<Option<u64>> = vec![None; sess.len()];
    let label = |i: usize| format!("c{}", i + 1);
    let mut evs = vec![];
    let lab_of = |pid: &Vec<Option<u64>>, p: u64| -> String { pid.iter().position(|x| *x == Some(p)).map(label).unwrap_or_default() };
    for &(i, step) in ops {
        let c = label(i);
        match step {
            0 => {
                let p = st.open(sess[i].srv);
                pid[i] = Some(p);
                evs.push(ev("obs.opened", &[("node", json!(this)), ("c", json!(c)), ("id", json!(p)), ("srv", json!(i64::from(sess[i].srv)))]));
            }
            1 => {
                // an update for a session that was never opened / already exited must be refused
                let p = pid[i].unwrap_or(1 << 40);
                let known = st.update(p, sess[i].peer, sess[i].nonce);
                evs.push(ev("ns.update", &[("node", json!(this)), ("c", json!(c)), ("d", json!(i64::from(known))), ("peer", json!(sess[i].peer)), ("nonce", json!(sess[i].nonce))]));
            }
            2 => {
                let p = pid[i].unwrap_or(1 << 40);
                match st.commit(p) {
                    None => evs.push(ev("tb.commit_none", &[("node", json!(this)), ("c", json!(c))])),
                    Some((survives, losers)) => {
                        let ll: Vec<String> = losers.iter().map(|l| lab_of(&pid, *l)).collect();
                        evs.push(ev("tb.commit", &[("node", json!(this)), ("c", json!(c)), ("d", json!(i64::from(survives))), ("losers", json!(ll))]));
                        if survives {
                            evs.push(ev("obs.authenticated", &[("node", json!(this)), ("c", json!(c))]));
                        }
                    }
                }
            }
            3 => {
                let p = pid[i].unwrap_or(1 << 40);
                let el = st.is_elected(p);
                evs.push(ev("tb.ready", &[("node", json!(this)), ("c", json!(c)), ("d", json!(i64::from(el)))]));
                if el {
                    evs.push(ev("obs.ready", &[("node", json!(this)), ("c", json!(c))]));
                }
            }
            _ => {
                if let Some(p) = pid[i] {
                    let known = st.gone(p);
                    evs.push(ev("ns.gone", &[("node", json!(this)), ("c", json!(c)), ("d", json!(i64::from(known)))]));
                    if known {
                        evs.push(ev("obs.disconnected", &[("node", json!(this)), ("c", json!(c))]));
                    }
                }
            }
        }
        // queries after every step: the reply a session with each (peer, nonce) would get, each
        // session's candidate verdict, and what GetSessions would list
        for (j, s) in sess.iter().enumerate() {
            evs.push(ev("tb.check", &[("node", json!(this)), ("peer", json!(s.peer)), ("nonce", json!(s.nonce)), ("reply", json!(st.check(s.peer, s.nonce)))]));
            if let Some(p) = pid[j] {
                evs.push(ev("tb.cc", &[("node", json!(this)), ("c", json!(label(j))), ("reply", json!(st.check_candidate(p)))]));
            }
        }
        let vis: Vec<String> = st.visible().iter().map(|p| lab_of(&pid, *p)).collect();
        evs.push(ev("tb.visible", &[("node", json!(this)), ("vis", json!(vis))]));
    }
    evs.push(ev("tb.end", &[]));
    evs
}

fn interleavings(lens: &[usize]) -> Vec<Vec<usize>> {
    fn rec(left: &mut Vec<usize>, cur: &mut Vec<usize>, out: &mut Vec<Vec<usize>>) {
        if left.iter().all(|x| *x == 0) {
            out.push(cur.clone());
            return;
        }
        for i in 0..left.len() {
            if left[i] > 0 {
                left[i] -= 1;
                cur.push(i);
                rec(left, cur, out);
                cur.pop();
                left[i] += 1;
            }
        }
    }
    let mut out = vec![];
    rec(&mut lens.to_vec(), &mut vec![], &mut out);
    out
}

fn table_batch(b: &mut Batch, tier: &str, seed: u64) -> u64 {
    let mut rng = Rng(seed ^ 0x7461626c);
    let mut runs = 0u64;
    let chain: [u8; 5] = [0, 1, 2, 3, 4];
    let to_ops = |order: &[usize], n: usize, skip_ready: bool| -> Vec<(usize, u8)> {
        let mut pos = vec![0usize; n];
        let mut ops = vec![];
        for &i in order {
            let mut st = chain[pos[i]];
            if skip_ready && st == 3 {
                pos[i] += 1;
                st = chain[pos[i]];
            }
            ops.push((i, st));
            pos[i] += 1;
        }
        ops
    };
    if tier == "thorough" {
        // two sessions of one peer: every world, every interleaving of open/update/commit/gone
        for this in ["a@h", "b@h"] {
            let peer: &'static str = if this == "a@h" { "b@h" } else { "a@h" };
            for w in 0..36usize {
                let s = |x: usize| TSess { srv: x / 3 == 1, peer, nonce: (x % 3) as u64 };
                let sess = vec![s(w % 6), s(w / 6)];
                for order in interleavings(&[4, 4]) {
                    let evs = table_run(this, &sess, &to_ops(&order, 2, true));
                    b.run(json!({"family": "clusterelect", "kind": "table", "this": this, "sess": format!("{sess:?}"), "order": order}), &evs);
                    runs += 1;
                }
            }
        }
    }
    let nrand = if tier == "thorough" { 3000 } else { 500 };
    for _ in 0..nrand {
        let this: &'static str = if rng.chance(1, 2) { "a@h" } else { "b@h" };
        let n = 2 + rng.below(3);
        let peers: [&'static str; 2] = if this == "a@h" { ["b@h", "c@h"] } else { ["a@h", "c@h"] };
        let sess: Vec<TSess> =
            (0..n).map(|_| TSess { srv: rng.chance(1, 2), peer: if rng.chance(1, 5) { peers[1] } else { peers[0] }, nonce: rng.below(3) as u64 }).collect();
        // a random interleaving of the per-session chains; sometimes out of order (commit before update, ...)
        let mut left = vec![5usize; n];
        let mut order = vec![];
        while left.iter().any(|x| *x > 0) {
            let i = rng.below(n);
            if left[i] > 0 {
                left[i] -= 1;
                order.push(i);
            }
        }
        let mut ops = to_ops(&order, n, false);
        if rng.chance(1, 4) {
            let k = rng.below(ops.len());
            let j = rng.below(ops.len());
            ops.swap(k, j);
        }
        let evs = table_run(this, &sess, &ops);
        b.run(json!({"family": "clusterelect", "kind": "table", "this": this, "sess": format!("{sess:?}"), "ops": format!("{ops:?}")}), &evs);
        runs += 1;
    }
    runs
}

// ------------------------------------------------------------------------------------------------
// (c) protocol runs
// ------------------------------------------------------------------------------------------------

/// One dialled connection of a scenario
#[derive(Clone, Debug)]
pub struct Dial {
    /// 'A', 'B': a real node dials the other one; 'X': an impostor node that claims B's name with the
    /// wrong cookie dials A; 'S': a raw peer that only sends a Name claiming to be B, to A
    pub from: char,
    pub nonce: u64,
    /// virtual milliseconds the dialler task waits before dialling
    pub delay_ms: u64,
    /// which dialler task performs it
    pub task: usize,
}

#[derive(Clone, Debug)]
pub struct Scenario {
    pub dials: Vec<Dial>,
}

const KEEP: &[&str] = &["ns.update", "ns.check", "ns.commit", "ns.ready", "ns.gone", "obs.opened", "obs.authenticated", "obs.ready", "obs.disconnected"];

fn kv_s(e: &Ev, k: &str) -> String {
    e.kv.iter().find(|(kk, _)| kk == k).and_then(|(_, v)| if let Val::S(s) = v { Some(s.clone()) } else { None }).unwrap_or_default()
}
fn kv_i(e: &Ev, k: &str) -> i64 {
    e.kv.iter().find(|(kk, _)| kk == k).and_then(|(_, v)| if let Val::I(i) = v { Some(*i) } else { None }).unwrap_or(0)
}

pub fn one_run(sc: &Scenario, ex: &mut Explorer, dump: bool) -> (Vec<Value>, Value, bool) {
    let sc = Arc::new(sc.clone());
    type Vis = Option<Vec<(String, bool, u64, bool)>>;
    let fin: Arc<Mutex<Option<(Vis, Vis)>>> = Arc::new(Mutex::new(None));
    let sc2 = sc.clone();
    let fin2 = fin.clone();
    ractor_cluster::verif::clear_connection_ids();
    let run = run_t(
        ex,
        20_000,
        900,
        &mut NoBetween,
        move || async move {
            let _ = ractor::concurrency::spawn_named(Some("main"), async move {
                let Some((a, _ha)) = cluster2::spawn_node("a", "cookie").await else { return };
                let Some((b, _hb)) = cluster2::spawn_node("b", "cookie").await else { return };
                let needs_x = sc2.dials.iter().any(|d| d.from == 'X');
                let x = if needs_x { cluster2::spawn_node_named("b", "wrong-cookie", "x").await.map(|p| p.0) } else { None };
                let ntasks = sc2.dials.iter().map(|d| d.task).max().unwrap_or(0) + 1;
                for t in 0..ntasks {
                    let (a, b, x, sc3) = (a.clone(), b.clone(), x.clone(), sc2.clone());
                    let _ = ractor::concurrency::spawn_named(Some(&format!("dial{t}")), async move {
                        for (i, d) in sc3.dials.iter().enumerate() {
                            if d.task != t {
                                continue;
                            }
                            if d.delay_ms > 0 {
                                ractor::concurrency::sleep(std::time::Duration::from_millis(d.delay_ms)).await;
                            } else {
                                yield_once().await;
                            }
                            let conn = format!("c{}", i + 1);
                            match d.from {
                                'A' => cluster2::dial(&conn, d.nonce, &a, &b).await,
                                'B' => cluster2::dial(&conn, d.nonce, &b, &a).await,
                                'X' => {
                                    if let Some(x) = &x {
                                        cluster2::dial(&conn, d.nonce, x, &a).await
                                    }
                                }
                                _ => cluster2::spoof_name(&conn, "b@h", d.nonce, &a).await,
                            }
                        }
                    });
                }
                // final observation once everything is quiet (virtual time only moves when idle)
                ractor::concurrency::sleep(std::time::Duration::from_millis(800)).await;
                let va = cluster2::visible_sessions(&a).await;
                let vb = cluster2::visible_sessions(&b).await;
                *fin2.lock().unwrap() = Some((va, vb));
            });
        },
        || {},
    );
    // the impostor's node server reports under tag "x": drop everything its task recorded
    let xwho: Vec<String> = run.events.iter().filter(|e| e.a.starts_with("obs.") && kv_s(e, "node") == "x").map(|e| e.who.clone()).collect();
    // session pid -> connection label, per node server task
    let mut lab: HashMap<(String, u64), String> = HashMap::new();
    for e in &run.events {
        if e.a == "obs.opened" {
            lab.insert((e.who.clone(), e.obj), kv_s(e, "label"));
        }
    }
    let mut evs: Vec<Value> = vec![];
    for e in &run.events {
        if dump {
            eprintln!("{:>5} {:>4} {:<18} obj={} d={} {:?}", e.t, e.who, e.a, e.obj, e.d, e.kv);
        }
        if !KEEP.contains(&e.a.as_str()) || xwho.contains(&e.who) {
            continue;
        }
        let c = lab.get(&(e.who.clone(), e.obj)).cloned().unwrap_or_default();
        let node = kv_s(e, "node");
        let mut f: Vec<(&str, Value)> = vec![("who", json!(e.who)), ("t", json!(e.t)), ("d", json!(e.d)), ("node", json!(node)), ("c", json!(c))];
        match e.a.as_str() {
            "obs.opened" => {
                f.push(("id", json!(e.obj)));
                f.push(("srv", json!(kv_i(e, "srv"))));
            }
            "ns.update" => {
                f.push(("peer", json!(kv_s(e, "peer"))));
                f.push(("nonce", json!(kv_i(e, "nonce"))));
            }
            "ns.check" => {
                f.push(("peer", json!(kv_s(e, "peer"))));
                f.push(("nonce", json!(kv_i(e, "nonce"))));
                f.push(("reply", json!(kv_s(e, "reply"))));
            }
            "ns.commit" => {
                let losers: Vec<String> = e
                    .kv
                    .iter()
                    .find(|(k, _)| k == "losers")
                    .and_then(|(_, v)| if let Val::L(l) = v { Some(l.clone()) } else { None })
                    .unwrap_or_default()
                    .iter()
                    .map(|p| lab.get(&(e.who.clone(), *p as u64)).cloned().unwrap_or_default())
                    .collect();
                f.push(("losers", json!(losers)));
            }
            _ => {}
        }
        evs.push(ev(&e.a, &f));
    }
    let fin = fin.lock().unwrap().clone();
    let enc = |v: &Vis| -> Value {
        json!(v.as_ref().map(|v| v.iter().map(|(l, s, p, r)| json!({"label": l, "srv": i64::from(*s), "pid": p, "rdy": i64::from(*r)})).collect::<Vec<_>>()).unwrap_or_default())
    };
    let ok = matches!(&fin, Some((Some(_), Some(_))));
    let (fa, fb) = match &fin {
        Some((a, b)) => (enc(a), enc(b)),
        None => (json!([]), json!([])),
    };
    let outsiders: Vec<String> = sc.dials.iter().enumerate().filter(|(_, d)| d.from == 'X' || d.from == 'S').map(|(i, _)| format!("c{}", i + 1)).collect();
    let expect = sc.dials.iter().any(|d| d.from == 'A' || d.from == 'B');
    evs.push(ev("obs.end", &[("ok", json!(i64::from(ok))), ("fa", fa), ("fb", fb), ("outsiders", json!(outsiders)), ("expect", json!(i64::from(expect)))]));
    let bad = !ok || !run.quiescent;
    let dials: Vec<Value> = sc.dials.iter().map(|x| json!([x.from.to_string(), x.nonce, x.delay_ms, x.task])).collect();
    let meta = json!({"family": "clusterelect", "kind": "proto", "dials": dials, "sched": ex.sched, "steps": run.steps, "quiescent": run.quiescent});
    (evs, meta, bad)
}

fn d(from: char, nonce: u64, delay_ms: u64, task: usize) -> Dial {
    Dial { from, nonce, delay_ms, task }
}

/// two-connection scenarios explored by bounded DFS
pub fn dfs_scenarios() -> Vec<Scenario> {
    vec![
        // simultaneous dial from both sides
        Scenario { dials: vec![d('A', 1, 0, 0), d('B', 2, 0, 1)] },
        // the same node dials twice: distinct nonces, repeated nonce, legacy peers without a nonce
        Scenario { dials: vec![d('A', 2, 0, 0), d('A', 1, 0, 1)] },
        Scenario { dials: vec![d('B', 1, 0, 0), d('B', 1, 0, 1)] },
        Scenario { dials: vec![d('A', 0, 0, 0), d('A', 0, 0, 1)] },
        // a second dial from the other side once the first link is up
        Scenario { dials: vec![d('A', 1, 0, 0), d('B', 1, 20, 1)] },
        // an outsider claiming B's name next to the real link
        Scenario { dials: vec![d('B', 1, 0, 0), d('S', 1, 0, 1)] },
        Scenario { dials: vec![d('A', 1, 0, 0), d('X', 2, 0, 1)] },
        // the outsider's claim (lower nonce, registered first) is on the table when the real peers connect
        Scenario { dials: vec![d('S', 1, 0, 0), d('B', 2, 20, 1)] },
        Scenario { dials: vec![d('S', 0, 0, 0), d('A', 1, 20, 1)] },
    ]
}

pub fn rand_scenario(rng: &mut Rng) -> Scenario {
    let k = 2 + rng.below(2);
    let mut dials = vec![];
    for i in 0..k {
        let from = match rng.below(10) {
            0..=3 => 'A',
            4..=7 => 'B',
            8 => 'X',
            _ => 'S',
        };
        let delay = if rng.chance(1, 3) { 10 * (1 + rng.below(4)) as u64 } else { 0 };
        dials.push(d(from, rng.below(3) as u64, delay, if rng.chance(1, 2) { i } else { 0 }));
    }
    if !dials.iter().any(|x| x.from == 'A' || x.from == 'B') {
        dials[0].from = 'A';
    }
    // tasks must be numbered densely
    let mut used: Vec<usize> = dials.iter().map(|x| x.task).collect();
    used.sort_unstable();
    used.dedup();
    for x in dials.iter_mut() {
        x.task = used.iter().position(|u| *u == x.task).unwrap();
    }
    Scenario { dials }
}

pub fn batch(out: &str, tier: &str, seed: u64) -> Value {
    let mut b = Batch::new(Some(out));
    let thorough = tier == "thorough";
    let (sets, calls) = fn_batch(&mut b, if thorough { 4 } else { 3 });
    let fn_runs = b.runs;
    let table_runs = table_batch(&mut b, tier, seed);
    b.samples.clear();
    let (dfs_cap, nrand, per) = if thorough { (1500usize, 1500usize, 3usize) } else { (120usize, 260usize, 2usize) };
    let mut nontrivial = std::collections::HashSet::new();
    let mut bad_runs = 0u64;
    let mut proto_runs = 0u64;
    let mut steps = 0u64;
    for sc in dfs_scenarios() {
        let mut ex = Explorer::new(Mode::Dfs { preempt_bound: Some(1) }, seed);
        let mut n = 0;
        loop {
            ex.begin_run();
            let (evs, meta, bad) = one_run(&sc, &mut ex, false);
            steps += meta["steps"].as_u64().unwrap_or(0);
            let h = b.run(meta, &evs);
            if ex.nontrivial {
                nontrivial.insert(h);
            }
            bad_runs += u64::from(bad);
            proto_runs += 1;
            n += 1;
            if !ex.end_run() || n >= dfs_cap {
                break;
            }
        }
    }
    let mut rng = Rng(seed ^ 0x656c6563);
    for _ in 0..nrand {
        let sc = rand_scenario(&mut rng);
        let mut ex = Explorer::new(Mode::Random, rng.next());
        for _ in 0..per {
            ex.begin_run();
            let (evs, meta, bad) = one_run(&sc, &mut ex, false);
            steps += meta["steps"].as_u64().unwrap_or(0);
            let h = b.run(meta, &evs);
            if ex.nontrivial {
                nontrivial.insert(h);
            }
            bad_runs += u64::from(bad);
            proto_runs += 1;
        }
    }
    b.finish();
    json!({"family": "clusterelect", "runs": b.runs, "events": b.events, "distinct": b.hashes.len(), "distinct_nontrivial": nontrivial.len(),
           "bad_runs": bad_runs, "fn_sets": sets, "fn_calls": calls, "fn_runs": fn_runs, "table_runs": table_runs, "proto_runs": proto_runs,
           "proto_steps": steps, "samples": b.samples})
}

pub fn dispatch(cmd: &str, a: &HashMap<String, String>) -> Option<Value> {
    let (out, tier, seed) = crate::common(a);
    match cmd {
        "clusterelect" => Some(batch(&out, &tier, seed)),
        "clusterelect-demo" => {
            let which: usize = a.get("scenario").and_then(|s| s.parse().ok()).unwrap_or(0);
            let sc = dfs_scenarios()[which].clone();
            let mut ex = Explorer::new(Mode::Random, seed);
            ex.begin_run();
            let (evs, meta, bad) = one_run(&sc, &mut ex, a.contains_key("dump"));
            for e in &evs {
                println!("{e}");
            }
            eprintln!("meta steps={} bad={bad}", meta["steps"]);
            Some(json!({"ok": true}))
        }
        // re-execute one protocol run: --scenario-json '[["A",1,0,0],...]' --sched '[..]'
        "clusterelect-replay" => {
            let dials: Vec<(String, u64, u64, usize)> = serde_json::from_str(a.get("dials").map(|s| s.as_str()).unwrap_or("[]")).unwrap_or_default();
            let sched: Vec<usize> = serde_json::from_str(a.get("sched").map(|s| s.as_str()).unwrap_or("[]")).unwrap_or_default();
            let sc = Scenario { dials: dials.iter().map(|x| d(x.0.chars().next().unwrap_or('A'), x.1, x.2, x.3)).collect() };
            let mut b = Batch::new(Some(&out));
            let mut ex = Explorer::new(Mode::Replay(sched), seed);
            ex.begin_run();
            let (evs, meta, _) = one_run(&sc, &mut ex, a.contains_key("dump"));
            b.run(meta, &evs);
            b.finish();
            Some(json!({"runs": 1}))
        }
        _ => None,
    }
}
