//! Family `exitwait` (C06).
//!  * engine H: the lifecycle guard of a detached, fully enrolled cell (name, pid, process group,
//!    supervisor, children) run by thread "x", an optional racing `set_status` caller "r", waiter
//!    threads `w<i>` under `block_on_mini(cell.wait(None))` (optionally with a harness-driven
//!    timeout fired by thread `m<i>`), every waiter snapshotting the world at return.
//!  * engine T: a real named actor in a process group with a supervisor (and a child), client tasks
//!    using wait / stop_and_wait / kill_and_wait / drain_and_wait / the join handle.
//! Both write the same event vocabulary, validated against spec/Trace_ExitWait.tla.
use crate::explore::{Explorer, Mode};
use crate::hctl::{run_threads, HThread};
use crate::tdrv::{run_t, NoBetween};
use crate::trace::{ev_json, Batch, Names, Rng};
use ractor::verif::{self, Detached, Val};
use ractor::{Actor, ActorCell, ActorProcessingErr, ActorRef, ActorStatus, Message, SupervisionEvent};
use serde_json::{json, Value};
use std::collections::HashMap;
use std::future::Future;
use std::pin::Pin;
use std::sync::atomic::{AtomicBool, AtomicU64, Ordering};
use std::sync::{Arc, Mutex};
use std::task::{Context, Poll, Waker};
use std::time::Duration;

pub struct EMsg(pub u32);
impl Message for EMsg {}

pub struct Dummy;
#[cfg_attr(feature = "asynctrait", ractor::async_trait)]
impl Actor for Dummy {
    type Msg = EMsg;
    type State = ();
    type Arguments = ();
    async fn pre_start(&self, _: ActorRef<EMsg>, _: ()) -> Result<(), ActorProcessingErr> {
        Ok(())
    }
}

fn kvs(k: &str, v: &str) -> (String, Val) {
    (k.to_string(), Val::S(v.to_string()))
}
fn kvi(k: &str, v: i64) -> (String, Val) {
    (k.to_string(), Val::I(v))
}

static RUN_SEQ: AtomicU64 = AtomicU64::new(0);

/// Emits `obs.wait_pending` whenever the wrapped wait future returns Pending (the Notified was
/// enqueued / is still enqueued): the one step of `wait()` that has no point of its own.
pub struct PollObs<F>(pub Pin<Box<F>>);
impl<F: Future> Future for PollObs<F> {
    type Output = F::Output;
    fn poll(mut self: Pin<&mut Self>, cx: &mut Context<'_>) -> Poll<F::Output> {
        match self.0.as_mut().poll(cx) {
            Poll::Ready(v) => Poll::Ready(v),
            Poll::Pending => {
                verif::emit("obs.wait_pending", 0, 0);
                Poll::Pending
            }
        }
    }
}

#[derive(Default)]
pub struct TimerShared {
    fired: AtomicBool,
    waker: Mutex<Option<Waker>>,
}
/// tokio::time::timeout's poll order (value first, then the delay) with a delay that a harness
/// thread fires.
pub struct TimeoutLike<F> {
    inner: Pin<Box<F>>,
    timer: Arc<TimerShared>,
}
impl<F: Future> Future for TimeoutLike<F> {
    type Output = Result<F::Output, ()>;
    fn poll(mut self: Pin<&mut Self>, cx: &mut Context<'_>) -> Poll<Self::Output> {
        if let Poll::Ready(v) = self.inner.as_mut().poll(cx) {
            return Poll::Ready(Ok(v));
        }
        *self.timer.waker.lock().unwrap() = Some(cx.waker().clone());
        if self.timer.fired.load(Ordering::SeqCst) {
            return Poll::Ready(Err(()));
        }
        Poll::Pending
    }
}

// ------------------------------------------------------------------------------------------------
// engine H
// ------------------------------------------------------------------------------------------------
#[derive(Clone, Debug)]
pub struct Shape {
    /// per waiter: true = the wait carries a (harness-fired) timeout
    pub waiters: Vec<bool>,
    pub rounds: usize,
    pub kids: usize,
    pub named: bool,
    pub inpg: bool,
    pub sup: bool,
    /// the processing loop's own set_status(Stopping) precedes the guard
    pub pre: bool,
    pub post_stop: bool,
    /// finish(evt) (true) or guard drop without an event (false)
    pub evt: bool,
    pub racer: bool,
    /// repeated set_status after the guard: 0 = none, 5, 6
    pub late: u8,
}

struct Side {
    det: Detached,
    hits: i64,
}

struct World {
    cell: ActorCell,
    name: Option<String>,
    group: String,
    sup: Option<Arc<Mutex<Side>>>,
    kids: Vec<Arc<Mutex<Side>>>,
}

impl World {
    /// what a waiter can see at the instant its wait returns
    fn snapshot(&self) -> Vec<(String, Val)> {
        let id = self.cell.get_id();
        let st = self.cell.get_status() as i64;
        let name = self.name.as_ref().map(|n| ractor::registry::where_is(n.clone()).map(|c| c.get_id() == id).unwrap_or(false)).unwrap_or(false);
        let pid = ractor::registry::where_is_pid(id).is_some();
        let mem = ractor::pg::get_members(&self.group).iter().any(|c| c.get_id() == id);
        let linked = self.cell.try_get_supervisor().is_some();
        let supsent = match &self.sup {
            None => 0,
            Some(s) => {
                let mut g = s.lock().unwrap();
                while g.det.try_recv_supervision().is_some() {
                    g.hits += 1;
                }
                g.hits
            }
        };
        let mut kidsig = 0;
        for k in &self.kids {
            let mut g = k.lock().unwrap();
            if g.det.try_recv_signal() {
                g.hits = 1;
            }
            kidsig += g.hits;
        }
        vec![
            kvi("st", if st < 5 { 2 } else { st }),
            kvi("name", i64::from(name)),
            kvi("pid", i64::from(pid)),
            kvi("mem", i64::from(mem)),
            kvi("linked", i64::from(linked)),
            kvi("supsent", supsent),
            kvi("suphandled", -1),
            kvi("kidsig", kidsig),
        ]
    }
}

const KEEP: &[&str] = &[
    "obs.wait_begin", "wait.created", "wait.checked", "obs.wait_pending", "wait.done", "obs.wait_timeout", "obs.wait_ret",
    "obs.timer_fire", "status.set", "cleanup.pid", "cleanup.name", "cleanup.pgmon", "cleanup.pgleave", "obs.ps_begin",
    "obs.ps_end", "guard.cleanup", "term.take", "term.kill", "guard.terminated", "guard.notified", "guard.unlinked",
    "notify.waiters", "notify.one", "guard.done", "obs.sup_evt", "obs.join_begin", "obs.join_done", "obs.stuck", "obs.end",
];
/// labels of the exiting side: attributed to the actor, whoever's stack they ran on
const XLABELS: &[&str] = &[
    "status.set", "cleanup.pid", "cleanup.name", "cleanup.pgmon", "cleanup.pgleave", "guard.cleanup", "term.take", "term.kill",
    "guard.terminated", "guard.notified", "guard.unlinked", "notify.waiters", "notify.one", "guard.done",
];

/// Cheap triage (the specification stays the judge): does some wait that returned Ok carry a snapshot that is not
/// the fully stopped picture? Such runs are handed to the validator first.
fn suspect(evs: &[Value], supsent: Option<i64>, kids: Option<i64>) -> bool {
    evs.iter().any(|e| {
        let g = |k: &str| e.get(k).and_then(|v| v.as_i64()).unwrap_or(0);
        e.get("a").and_then(|a| a.as_str()) == Some("obs.wait_ret")
            && g("ok") == 1
            && (g("st") != 6 || g("name") != 0 || g("pid") != 0 || g("mem") != 0 || g("linked") != 0
                || supsent.map(|x| g("supsent") != x).unwrap_or(false)
                || kids.map(|x| g("kidsig") != x).unwrap_or(false))
    })
}

fn reset_meta(family: &str, named: bool, inpg: bool, sup: bool, kids: usize, racer: bool, late: bool, owed: bool) -> Value {
    // racer / late: whether this run has the extra set_status callers at all (the specification must not invent them)
    json!({"family": family, "named": i64::from(named), "inpg": i64::from(inpg), "hsup": i64::from(sup), "kids": kids,
           "racer": i64::from(racer), "late": i64::from(late),
           // owed: whether the exit of this run owes the supervisor a terminal event (finish(evt), or a guard that was armed
           // by mark_running - every actor whose start succeeded)
           "owed": i64::from(owed)})
}

pub fn one_run_h(shape: &Shape, ex: &mut Explorer) -> (Vec<Value>, Value, bool) {
    let tag = RUN_SEQ.fetch_add(1, Ordering::SeqCst);
    let name = shape.named.then(|| format!("ew-A-{tag}"));
    let group = format!("ew-g-{tag}");
    let det: Detached = verif::detached::<Dummy>(name.clone()).expect("detached");
    let cell = det.cell.clone();
    det.set_status(ActorStatus::Starting);
    det.set_status(ActorStatus::Running);
    let mut names = Names::default();
    names.pid.insert(cell.get_id().pid(), "A".into());
    let sup = shape.sup.then(|| {
        let s = verif::detached::<Dummy>(None).expect("detached sup");
        s.set_status(ActorStatus::Starting);
        s.set_status(ActorStatus::Running);
        cell.link(s.cell.clone());
        names.pid.insert(s.cell.get_id().pid(), "S".into());
        Arc::new(Mutex::new(Side { det: s, hits: 0 }))
    });
    let mut kids = vec![];
    for k in 0..shape.kids {
        let kd = verif::detached::<Dummy>(None).expect("detached kid");
        kd.set_status(ActorStatus::Starting);
        kd.set_status(ActorStatus::Running);
        kd.cell.link(cell.clone());
        // the last of several children (and an only child of a shape that exits from pre_start) is already draining
        // when its supervisor goes: it is signalled like the others
        if k + 1 == shape.kids && (shape.kids >= 2 || shape.pre) {
            kd.set_status(ActorStatus::Draining);
        }
        names.pid.insert(kd.cell.get_id().pid(), format!("k{}", k + 1));
        kids.push(Arc::new(Mutex::new(Side { det: kd, hits: 0 })));
    }
    if shape.inpg {
        ractor::pg::join(group.clone(), vec![cell.clone()]);
        ractor::pg::monitor(format!("{group}-m"), cell.clone());
    }
    let world = Arc::new(World { cell: cell.clone(), name, group: group.clone(), sup, kids });

    let mut threads: Vec<HThread> = vec![];
    {
        let sh = shape.clone();
        let cell = cell.clone();
        threads.push(HThread {
            role: "x".into(),
            f: Box::new(move || {
                let mut det = det;
                if sh.pre {
                    det.set_status(ActorStatus::Stopping);
                    if sh.post_stop {
                        verif::emit("obs.ps_begin", 0, 0);
                        verif::point("x.ps", 0, 0);
                        verif::emit("obs.ps_end", 0, 0);
                        verif::point("x.ps_done", 0, 0);
                    }
                }
                if sh.evt {
                    det.finish(SupervisionEvent::ActorTerminated(cell.clone(), None, Some("bye".into())));
                } else {
                    det.drop_guard();
                }
                match sh.late {
                    5 => {
                        det.set_status(ActorStatus::Stopping);
                    }
                    6 => {
                        det.set_status(ActorStatus::Stopped);
                    }
                    _ => {}
                }
                det.drop_ports();
            }),
        });
    }
    if shape.racer {
        let cell = cell.clone();
        threads.push(HThread {
            role: "r".into(),
            f: Box::new(move || {
                verif::cell_set_status(&cell, ActorStatus::Stopping);
            }),
        });
    }
    let mut timers = vec![];
    for (i, timed) in shape.waiters.iter().enumerate() {
        let w = world.clone();
        let rounds = shape.rounds;
        let timer = Arc::new(TimerShared::default());
        if *timed {
            timers.push((i, timer.clone()));
        }
        let timed = *timed;
        threads.push(HThread {
            role: format!("w{}", i + 1),
            f: Box::new(move || {
                for _ in 0..rounds {
                    verif::emit_kv("obs.wait_begin", 0, 0, vec![kvi("timed", i64::from(timed)), kvs("kind", "wait")]);
                    let ok = if timed {
                        let f = TimeoutLike { inner: Box::pin(PollObs(Box::pin(w.cell.wait(None)))), timer: timer.clone() };
                        verif::block_on_mini(f).is_ok()
                    } else {
                        verif::block_on_mini(PollObs(Box::pin(w.cell.wait(None)))).is_ok()
                    };
                    if !ok {
                        verif::emit("obs.wait_timeout", 0, 0);
                    }
                    let mut kv = w.snapshot();
                    kv.push(kvi("ok", i64::from(ok)));
                    verif::emit_kv("obs.wait_ret", 0, 0, kv);
                    verif::point("w.next", 0, 0);
                }
            }),
        });
    }
    for (i, timer) in timers {
        threads.push(HThread {
            role: format!("m{}", i + 1),
            f: Box::new(move || {
                timer.fired.store(true, Ordering::SeqCst);
                verif::emit_kv("obs.timer_fire", 0, 0, vec![kvs("w", &format!("w{}", i + 1))]);
                if let Some(w) = timer.waker.lock().unwrap().take() {
                    w.wake();
                }
            }),
        });
    }
    let run = run_threads(threads, ex, 3000);
    names.who = run.names.who.clone();
    let mut evs: Vec<Value> = vec![];
    for e in &run.events {
        if !KEEP.contains(&e.a.as_str()) {
            continue;
        }
        if XLABELS.contains(&e.a.as_str()) && !names.pid.contains_key(&e.obj) {
            continue;
        }
        if e.a == "status.set" && (e.d < 5 || names.pid(e.obj) != "A") {
            continue;
        }
        evs.push(ev_json(e, &names));
    }
    // a waiter left blocked when nothing can run any more; xdone = the exiter thread ran to its end
    let xdone = i64::from(!run.stuck.contains(&"x".to_string()) && !run.overrun);
    for s in &run.stuck {
        evs.push(json!({"a": "obs.stuck", "who": s, "obj": "", "d": 0, "t": 0, "xdone": xdone}));
    }
    let mut end = serde_json::Map::new();
    for (k, v) in [("a", json!("obs.end")), ("who", json!("drv")), ("obj", json!("")), ("d", json!(0)), ("t", json!(0))] {
        end.insert(k.into(), v);
    }
    for (k, v) in world.snapshot() {
        end.insert(k, match v {
            Val::I(i) => json!(i),
            Val::S(s) => json!(s),
            Val::L(l) => json!(l),
        });
    }
    // "exit cleanup runs once": how many times the cleanup block of set_status ran for the actor
    let ncleanup = evs.iter().filter(|e| e["a"] == "cleanup.pid" && e["obj"] == "A").count();
    end.insert("ncleanup".into(), json!(ncleanup));
    evs.push(Value::Object(end));
    // tidy the global tables
    ractor::pg::leave(group.clone(), vec![cell.clone()]);
    ractor::pg::demonitor(format!("{group}-m"), cell.get_id());
    let bad = run.overrun || !run.stuck.is_empty();
    let mut meta = reset_meta("exitwait-h", shape.named, shape.inpg, shape.sup, shape.kids, shape.racer, shape.late != 0, shape.evt);
    let m = meta.as_object_mut().unwrap();
    m.insert("shape".into(), json!(format!("{shape:?}")));
    m.insert("sched".into(), json!(ex.sched));
    m.insert("steps".into(), json!(run.steps));
    m.insert("stuck".into(), json!(run.stuck));
    m.insert("overrun".into(), json!(run.overrun));
    m.insert("suspect".into(), json!(suspect(&evs, Some(i64::from(shape.sup && shape.evt)), Some(shape.kids as i64))));
    (evs, meta, bad)
}

pub fn shapes_h(tier: &str) -> Vec<Shape> {
    let full = |waiters: Vec<bool>, rounds, kids, pre, post_stop, evt, racer, late| Shape {
        waiters, rounds, kids, named: true, inpg: true, sup: true, pre, post_stop, evt, racer, late,
    };
    let mut v = vec![
        // kill-like exit: the guard's own call is elected; two plain waiters (the smallest shape in which a lost
        // wake-up can show: one waiter may be saved by the stored permit). Its bound-2 DFS is run to the end.
        full(vec![false, false], 1, 0, false, false, true, false, 0),
        // graceful exit with a child: loop's set_status(Stopping), post_stop, guard; late repeated Stopped
        full(vec![false, false], 1, 1, true, true, true, false, 6),
        // a timed waiter next to a plain one, two rounds (a timed-out wait is repeated)
        full(vec![true, false], 2, 0, true, false, true, false, 0),
        // concurrent second set_status(Stopping)
        full(vec![false], 1, 1, false, false, true, true, 5),
        // three waiters, guard dropped without an event (failed start / early cancel)
        full(vec![false, false, false], 1, 0, false, false, false, false, 0),
        // bare actor: no name, no group, no supervisor
        Shape { waiters: vec![false, true], rounds: 1, kids: 0, named: false, inpg: false, sup: false, pre: true, post_stop: true, evt: true, racer: false, late: 0 },
    ];
    if tier == "thorough" {
        v.push(full(vec![false, false, true], 2, 2, true, true, true, false, 6));
        v.push(full(vec![false, true], 2, 1, false, false, true, true, 0));
        v.push(full(vec![false, false, false], 2, 2, true, false, true, true, 5));
    }
    v
}

// ------------------------------------------------------------------------------------------------
// engine T
// ------------------------------------------------------------------------------------------------
#[derive(Clone, Debug, PartialEq)]
pub enum AOp {
    Tick,
    Yield,
    Sleep(u64),
    StopSelf,
    Err,
    Panic,
}

#[derive(Clone, Debug, PartialEq)]
pub enum WOp {
    Yield,
    Sleep(u64),
    Wait(Option<u64>),
    StopWait(Option<u64>),
    KillWait(Option<u64>),
    DrainWait(Option<u64>),
    Join,
    Stop,
    Kill,
    Drain,
    Abort,
    Send,
}

#[derive(Clone, Debug)]
pub struct TScenario {
    /// what post_start does (the actor is still Starting meanwhile)
    pub post: Vec<AOp>,
    pub kid: bool,
    pub handle: Vec<Vec<AOp>>,
    pub pstop: Vec<AOp>,
    pub clients: Vec<Vec<WOp>>,
}

#[derive(Default)]
struct TWorld {
    a: Option<ActorCell>,
    s: Option<ActorCell>,
    k: Option<ActorCell>,
    join: Option<ractor::concurrency::JoinHandle<()>>,
    abort: Option<tokio::task::AbortHandle>,
    name: String,
    group: String,
    suphandled: bool,
    nsent: u32,
    done: Vec<bool>,
}
type TW = Arc<Mutex<TWorld>>;

use crate::fam_lifecycle::yield_once;

struct EA {
    sc: Arc<TScenario>,
}
impl EA {
    async fn run(&self, ops: &[AOp], myself: &ActorRef<EMsg>) -> Result<(), ActorProcessingErr> {
        for op in ops {
            match op {
                AOp::Tick => {}
                AOp::Yield => yield_once().await,
                AOp::Sleep(ms) => ractor::concurrency::sleep(Duration::from_millis(*ms)).await,
                AOp::StopSelf => myself.stop(Some("self".into())),
                AOp::Err => return Err("err".into()),
                AOp::Panic => panic!("panic"),
            }
        }
        Ok(())
    }
}
#[cfg_attr(feature = "asynctrait", ractor::async_trait)]
impl Actor for EA {
    type Msg = EMsg;
    type State = ();
    type Arguments = ();
    async fn pre_start(&self, _: ActorRef<EMsg>, _: ()) -> Result<(), ActorProcessingErr> {
        Ok(())
    }
    async fn post_start(&self, myself: ActorRef<EMsg>, _: &mut ()) -> Result<(), ActorProcessingErr> {
        self.run(&self.sc.post, &myself).await
    }
    async fn handle(&self, myself: ActorRef<EMsg>, m: EMsg, _: &mut ()) -> Result<(), ActorProcessingErr> {
        if self.sc.handle.is_empty() {
            return Ok(());
        }
        let ops = self.sc.handle[(m.0 as usize - 1) % self.sc.handle.len()].clone();
        self.run(&ops, &myself).await
    }
    async fn post_stop(&self, myself: ActorRef<EMsg>, _: &mut ()) -> Result<(), ActorProcessingErr> {
        verif::emit("obs.ps_begin", 0, 0);
        let r = self.run(&self.sc.pstop, &myself).await;
        verif::emit("obs.ps_end", 0, 0);
        r
    }
}

struct ES {
    w: TW,
}
#[cfg_attr(feature = "asynctrait", ractor::async_trait)]
impl Actor for ES {
    type Msg = EMsg;
    type State = ();
    type Arguments = ();
    async fn pre_start(&self, _: ActorRef<EMsg>, _: ()) -> Result<(), ActorProcessingErr> {
        Ok(())
    }
    async fn handle_supervisor_evt(&self, _: ActorRef<EMsg>, e: SupervisionEvent, _: &mut ()) -> Result<(), ActorProcessingErr> {
        let about = match &e {
            SupervisionEvent::ActorTerminated(c, _, _) => Some(c.get_id()),
            SupervisionEvent::ActorFailed(c, _) => Some(c.get_id()),
            _ => None,
        };
        let mut g = self.w.lock().unwrap();
        if about.is_some() && about == g.a.as_ref().map(|a| a.get_id()) {
            g.suphandled = true;
            verif::emit("obs.sup_evt", 0, 0);
        }
        Ok(())
    }
}

fn t_snapshot(w: &TW) -> Vec<(String, Val)> {
    let g = w.lock().unwrap();
    let a = g.a.clone().expect("actor");
    let id = a.get_id();
    let st = a.get_status() as i64;
    let name = ractor::registry::where_is(g.name.clone()).map(|c| c.get_id() == id).unwrap_or(false);
    let pid = ractor::registry::where_is_pid(id).is_some();
    let mem = ractor::pg::get_members(&g.group).iter().any(|c| c.get_id() == id);
    let linked = a.try_get_supervisor().is_some();
    vec![
        kvi("st", if st < 5 { 2 } else { st }),
        kvi("name", i64::from(name)),
        kvi("pid", i64::from(pid)),
        kvi("mem", i64::from(mem)),
        kvi("linked", i64::from(linked)),
        kvi("supsent", -1),
        kvi("suphandled", i64::from(g.suphandled)),
        kvi("kidsig", -1),
    ]
}

async fn t_client(w: TW, idx: usize, ops: Vec<WOp>) {
    let a = w.lock().unwrap().a.clone().expect("actor");
    let dur = |ms: &Option<u64>| ms.map(Duration::from_millis);
    for op in ops {
        yield_once().await;
        let begin = |api: &str, to: &Option<u64>| {
            verif::emit_kv("obs.wait_begin", 0, 0, vec![kvi("timed", i64::from(to.is_some())), kvs("kind", "wait"), kvs("api", api)]);
        };
        // (ok, timed_out, waited)
        let res: Option<(bool, bool)> = match &op {
            WOp::Yield => None,
            WOp::Sleep(ms) => {
                ractor::concurrency::sleep(Duration::from_millis(*ms)).await;
                None
            }
            WOp::Stop => {
                a.stop(Some("r".into()));
                None
            }
            WOp::Kill => {
                a.kill();
                None
            }
            WOp::Drain => {
                let _ = a.drain();
                None
            }
            WOp::Abort => {
                if let Some(h) = w.lock().unwrap().abort.as_ref() {
                    h.abort();
                }
                None
            }
            WOp::Send => {
                let n = {
                    let mut g = w.lock().unwrap();
                    g.nsent += 1;
                    g.nsent
                };
                let _ = a.send_message(EMsg(n));
                None
            }
            WOp::Wait(to) => {
                begin("wait", to);
                let r = PollObs(Box::pin(a.wait(dur(to)))).await;
                Some((r.is_ok(), r.is_err()))
            }
            WOp::StopWait(to) => {
                begin("stop_and_wait", to);
                let r = PollObs(Box::pin(a.stop_and_wait(Some("sw".into()), dur(to)))).await;
                Some((r.is_ok(), matches!(r, Err(ractor::RactorErr::Timeout))))
            }
            WOp::KillWait(to) => {
                begin("kill_and_wait", to);
                let r = PollObs(Box::pin(a.kill_and_wait(dur(to)))).await;
                Some((r.is_ok(), matches!(r, Err(ractor::RactorErr::Timeout))))
            }
            WOp::DrainWait(to) => {
                begin("drain_and_wait", to);
                let r = PollObs(Box::pin(a.drain_and_wait(dur(to)))).await;
                Some((r.is_ok(), matches!(r, Err(ractor::RactorErr::Timeout))))
            }
            WOp::Join => {
                let h = w.lock().unwrap().join.take();
                match h {
                    None => None,
                    Some(h) => {
                        verif::emit_kv("obs.join_begin", 0, 0, vec![kvi("timed", 0), kvs("kind", "join"), kvs("api", "join")]);
                        let _ = h.await;
                        verif::emit("obs.join_done", 0, 0);
                        Some((true, false))
                    }
                }
            }
        };
        if let Some((ok, timed_out)) = res {
            if timed_out {
                verif::emit("obs.wait_timeout", 0, 0);
            }
            let mut kv = t_snapshot(&w);
            kv.push(kvi("ok", i64::from(ok)));
            kv.push(kvi("nowait", i64::from(!ok && !timed_out)));
            verif::emit_kv("obs.wait_ret", 0, 0, kv);
        }
    }
    w.lock().unwrap().done[idx] = true;
}

pub fn one_run_t(sc: &TScenario, ex: &mut Explorer) -> (Vec<Value>, Value, bool) {
    let sc = Arc::new(sc.clone());
    let tag = RUN_SEQ.fetch_add(1, Ordering::SeqCst);
    let w: TW = Arc::new(Mutex::new(TWorld {
        name: format!("ewt-A-{tag}"),
        group: format!("ewt-g-{tag}"),
        done: vec![false; sc.clients.len()],
        ..Default::default()
    }));
    let fin: Arc<Mutex<Vec<(String, Val)>>> = Arc::new(Mutex::new(vec![]));
    let (sc2, w2) = (sc.clone(), w.clone());
    let (fin2, w3) = (fin.clone(), w.clone());
    let run = run_t(
        ex,
        4000,
        0,
        &mut NoBetween,
        move || async move {
            let (s, _) = Actor::spawn(None, ES { w: w2.clone() }, ()).await.expect("spawn S");
            let name = w2.lock().unwrap().name.clone();
            let (a, h) = Actor::spawn_linked(Some(name), EA { sc: sc2.clone() }, (), s.get_cell()).await.expect("spawn A");
            let k = if sc2.kid {
                let (k, _) = Actor::spawn_linked(None, Dummy, (), a.get_cell()).await.expect("spawn K");
                Some(k.get_cell())
            } else {
                None
            };
            {
                let mut g = w2.lock().unwrap();
                ractor::pg::join(g.group.clone(), vec![a.get_cell()]);
                g.a = Some(a.get_cell());
                g.s = Some(s.get_cell());
                g.k = k;
                g.abort = Some(h.abort_handle());
                g.join = Some(h);
            }
            for (ci, ops) in sc2.clients.iter().enumerate() {
                let _ = ractor::concurrency::spawn_named(Some(&format!("client{ci}")), t_client(w2.clone(), ci, ops.clone()));
            }
        },
        move || {
            *fin2.lock().unwrap() = t_snapshot(&w3);
        },
    );
    let g = w.lock().unwrap();
    let mut names = Names::default();
    let apid = g.a.as_ref().map(|c| c.get_id().pid()).unwrap_or(0);
    names.pid.insert(apid, "A".into());
    if let Some(k) = &g.k {
        names.pid.insert(k.get_id().pid(), "k1".into());
    }
    for e in &run.events {
        if e.a == "task.new" {
            let nm = e.kv.iter().find(|(k, _)| k == "name").and_then(|(_, v)| if let Val::S(s) = v { Some(s.clone()) } else { None }).unwrap_or_default();
            if let Some(ci) = nm.strip_prefix("client") {
                if let Ok(ci) = ci.parse::<usize>() {
                    names.who.insert(format!("k{}", e.obj), format!("w{}", ci + 1));
                }
            }
        }
    }
    let mut evs: Vec<Value> = vec![];
    let mut xwho: Option<String> = None;
    for e in &run.events {
        if !KEEP.contains(&e.a.as_str()) {
            continue;
        }
        let mut j = ev_json(e, &names);
        let o = j.as_object_mut().unwrap();
        if XLABELS.contains(&e.a.as_str()) {
            let on_a = e.obj == apid;
            if on_a {
                xwho = Some(e.who.clone());
            }
            if on_a && e.a == "term.kill" {
                continue; // kill() of the actor itself inside terminate(): a no-op on the used signal port
            }
            let kid_step = (e.a == "term.take" || e.a == "term.kill") && names.pid.contains_key(&e.obj) && !on_a && xwho.as_deref() == Some(e.who.as_str());
            if !(on_a || kid_step) {
                continue;
            }
            if e.a == "status.set" && e.d < 5 {
                continue;
            }
            o.insert("who".into(), json!("x"));
        } else if e.a == "obs.ps_begin" || e.a == "obs.ps_end" {
            o.insert("who".into(), json!("x"));
        } else if e.a == "obs.sup_evt" {
            o.insert("who".into(), json!("S"));
        } else if e.a.starts_with("wait.") && e.obj != apid {
            continue;
        }
        evs.push(j);
    }
    let xdone = i64::from(g.a.as_ref().map(|a| a.get_status() == ActorStatus::Stopped).unwrap_or(false));
    for (ci, d) in g.done.iter().enumerate() {
        if !d {
            evs.push(json!({"a": "obs.stuck", "who": format!("w{}", ci + 1), "obj": "", "d": 0, "t": 0, "xdone": xdone}));
        }
    }
    let mut end = serde_json::Map::new();
    for (k, v) in [("a", json!("obs.end")), ("who", json!("drv")), ("obj", json!("")), ("d", json!(0)), ("t", json!(0))] {
        end.insert(k.into(), v);
    }
    for (k, v) in fin.lock().unwrap().iter() {
        end.insert(k.clone(), match v {
            Val::I(i) => json!(i),
            Val::S(s) => json!(s),
            Val::L(l) => json!(l),
        });
    }
    // "exit cleanup runs once": how many times the cleanup block of set_status ran for the actor
    let ncleanup = evs.iter().filter(|e| e["a"] == "cleanup.pid" && e["obj"] == "A").count();
    end.insert("ncleanup".into(), json!(ncleanup));
    evs.push(Value::Object(end));
    let bad = !run.quiescent || g.done.iter().any(|d| !d);
    let mut meta = reset_meta("exitwait-t", true, true, true, usize::from(sc.kid), false, false, true);
    let m = meta.as_object_mut().unwrap();
    m.insert("scenario".into(), json!(format!("{sc:?}")));
    m.insert("sched".into(), json!(ex.sched));
    m.insert("steps".into(), json!(run.steps));
    m.insert("quiescent".into(), json!(run.quiescent));
    m.insert("suspect".into(), json!(suspect(&evs, None, None)));
    m.insert("stuck".into(), json!(g.done.iter().enumerate().filter(|(_, d)| !**d).map(|(i, _)| format!("w{}", i + 1)).collect::<Vec<_>>()));
    (evs, meta, bad)
}

pub fn micro_t() -> Vec<TScenario> {
    let y = || vec![AOp::Tick, AOp::Yield, AOp::Tick];
    vec![
        // every waiting API at once against a graceful stop with a yielding post_stop
        TScenario {
            post: vec![],
            kid: true,
            handle: vec![vec![AOp::Tick]],
            pstop: y(),
            clients: vec![vec![WOp::StopWait(None)], vec![WOp::Wait(None)], vec![WOp::Yield, WOp::Join], vec![WOp::Yield, WOp::Yield, WOp::Wait(None)]],
        },
        // kill_and_wait racing a drain_and_wait, message in flight
        TScenario {
            post: vec![],
            kid: false,
            handle: vec![y()],
            pstop: vec![AOp::Yield],
            clients: vec![vec![WOp::Send, WOp::DrainWait(None)], vec![WOp::KillWait(None)], vec![WOp::Wait(None), WOp::Wait(None)]],
        },
        // a wait that times out while the actor is alive, repeated after a later stop
        TScenario {
            post: vec![],
            kid: true,
            handle: vec![],
            pstop: vec![AOp::Sleep(30)],
            clients: vec![vec![WOp::Wait(Some(20)), WOp::Wait(None)], vec![WOp::Sleep(50), WOp::Stop], vec![WOp::Sleep(60), WOp::Wait(Some(10)), WOp::Wait(Some(100))]],
        },
        // the task is cancelled while the actor is still inside post_start (status Starting): every waiter is released
        // and the supervisor is told
        TScenario {
            post: vec![AOp::Tick, AOp::Sleep(30), AOp::Tick],
            kid: true,
            handle: vec![],
            pstop: vec![],
            clients: vec![vec![WOp::Sleep(5), WOp::Abort, WOp::Wait(None)], vec![WOp::Wait(None)], vec![WOp::Sleep(10), WOp::Join]],
        },
        // handler failure and an aborted task as exit causes
        TScenario {
            post: vec![],
            kid: false,
            handle: vec![vec![AOp::Yield, AOp::Panic]],
            pstop: vec![],
            clients: vec![vec![WOp::Send], vec![WOp::Wait(None)], vec![WOp::Join], vec![WOp::Yield, WOp::Abort]],
        },
    ]
}

pub fn rand_t(rng: &mut Rng) -> TScenario {
    let aops = |rng: &mut Rng, fail: bool| -> Vec<AOp> {
        let mut v = vec![];
        for _ in 0..rng.below(3) {
            v.push(match rng.below(5) {
                0 | 1 => AOp::Yield,
                2 => AOp::Sleep(10 * (1 + rng.below(3) as u64)),
                3 => AOp::Tick,
                _ => {
                    if fail {
                        [AOp::StopSelf, AOp::Err, AOp::Panic][rng.below(3)].clone()
                    } else {
                        AOp::Tick
                    }
                }
            });
        }
        v
    };
    let to = |rng: &mut Rng| -> Option<u64> {
        if rng.chance(1, 3) {
            Some(10 * (1 + rng.below(6) as u64))
        } else {
            None
        }
    };
    let nclients = 2 + rng.below(3);
    let mut clients = vec![];
    let mut have_exit = false;
    for _ in 0..nclients {
        let mut ops = vec![];
        for _ in 0..(1 + rng.below(3)) {
            ops.push(match rng.below(14) {
                0 => WOp::Yield,
                1 => WOp::Sleep(10 * (1 + rng.below(5) as u64)),
                2 | 3 => WOp::Wait(to(rng)),
                4 => WOp::StopWait(to(rng)),
                5 => WOp::KillWait(to(rng)),
                6 => WOp::DrainWait(to(rng)),
                7 => WOp::Join,
                8 => WOp::Stop,
                9 => WOp::Kill,
                10 => WOp::Drain,
                11 => WOp::Abort,
                _ => WOp::Send,
            });
        }
        for o in &ops {
            if matches!(o, WOp::StopWait(_) | WOp::KillWait(_) | WOp::DrainWait(_) | WOp::Stop | WOp::Kill | WOp::Drain | WOp::Abort) {
                have_exit = true;
            }
            if matches!(o, WOp::Wait(None) | WOp::Join | WOp::StopWait(None) | WOp::KillWait(None) | WOp::DrainWait(None)) {
                break;
            }
        }
        clients.push(ops);
    }
    if !have_exit {
        // nobody is sure to reach an exit request (it may sit behind an unbounded wait): add one
        clients.push(vec![WOp::Sleep(25 + 25 * rng.below(8) as u64), [WOp::Stop, WOp::Kill, WOp::Drain, WOp::Abort][rng.below(4)].clone()]);
    }
    let post = if rng.chance(1, 4) { vec![[AOp::Yield, AOp::Sleep(10), AOp::Sleep(30)][rng.below(3)].clone()] } else { vec![] };
    TScenario { post, kid: rng.chance(1, 2), handle: (0..2).map(|_| aops(rng, true)).collect(), pstop: aops(rng, false), clients }
}

// ------------------------------------------------------------------------------------------------
// batches
// ------------------------------------------------------------------------------------------------
pub fn batch(out: &str, tier: &str, seed: u64) -> Value {
    let mut b = Batch::new(Some(out));
    let thorough = tier == "thorough";
    let (dfs_cap, rnd) = if thorough { (3000usize, 1500usize) } else { (250usize, 150usize) };
    let mut nontrivial = std::collections::HashSet::new();
    let mut bad_runs = 0u64;
    let (mut h_runs, mut t_runs) = (0u64, 0u64);
    let mut rng = Rng(seed ^ 0x65786974);
    // Enough is enough: a tree that leaves waiters stuck in run after run needs no more runs to be rejected, and every
    // stuck run leaves OS threads behind. The check reports a truncated batch. (Suspicious snapshots only order the
    // validation work and never truncate: the racer shapes produce legitimate ones.)
    const BAD_CAP: u64 = 40;
    let mut stuck_runs = 0u64;
    let mut record = |b: &mut Batch, evs: Vec<Value>, meta: Value, bad: bool, nt: bool| -> bool {
        let flagged = bad || meta.get("suspect").and_then(|v| v.as_bool()).unwrap_or(false);
        let h = b.run(meta, &evs);
        if nt {
            nontrivial.insert(h);
        }
        if flagged {
            bad_runs += 1;
        }
        if bad {
            stuck_runs += 1;
        }
        stuck_runs >= BAD_CAP
    };
    let mut truncated = false;
    for (si, sh) in shapes_h(tier).into_iter().enumerate() {
        for bound in [1u32, 2u32] {
            let mut ex = Explorer::new(Mode::Dfs { preempt_bound: Some(bound) }, seed);
            let mut n = 0;
            let cap = if si == 0 { 20000 } else { dfs_cap };
            loop {
                ex.begin_run();
                let (evs, meta, bad) = one_run_h(&sh, &mut ex);
                truncated |= record(&mut b, evs, meta, bad, ex.nontrivial);
                h_runs += 1;
                n += 1;
                if !ex.end_run() || n >= cap || truncated {
                    break;
                }
            }
        }
        let mut ex = Explorer::new(Mode::Random, rng.next());
        for _ in 0..rnd {
            if truncated {
                break;
            }
            ex.begin_run();
            let (evs, meta, bad) = one_run_h(&sh, &mut ex);
            truncated |= record(&mut b, evs, meta, bad, ex.nontrivial);
            h_runs += 1;
        }
    }
    let (t_dfs, t_rand, per) = if thorough { (2500usize, 2500usize, 3usize) } else { (200usize, 250usize, 2usize) };
    for sc in micro_t() {
        let mut ex = Explorer::new(Mode::Dfs { preempt_bound: Some(2) }, seed);
        let mut n = 0;
        loop {
            ex.begin_run();
            let (evs, meta, bad) = one_run_t(&sc, &mut ex);
            truncated |= record(&mut b, evs, meta, bad, ex.nontrivial);
            t_runs += 1;
            n += 1;
            if !ex.end_run() || n >= t_dfs || truncated {
                break;
            }
        }
    }
    for _ in 0..t_rand {
        if truncated {
            break;
        }
        let sc = rand_t(&mut rng);
        let mut ex = Explorer::new(Mode::Random, rng.next());
        for _ in 0..per {
            ex.begin_run();
            let (evs, meta, bad) = one_run_t(&sc, &mut ex);
            truncated |= record(&mut b, evs, meta, bad, ex.nontrivial);
            t_runs += 1;
        }
    }
    b.finish();
    drop(record);
    json!({"family": "exitwait", "runs": b.runs, "h_runs": h_runs, "t_runs": t_runs, "events": b.events, "distinct": b.hashes.len(),
           "distinct_nontrivial": nontrivial.len(), "bad_runs": bad_runs, "truncated": truncated, "samples": b.samples})
}

pub fn dispatch(cmd: &str, a: &HashMap<String, String>) -> Option<Value> {
    let (out, tier, seed) = crate::common(a);
    match cmd {
        "exitwait" => Some(batch(&out, &tier, seed)),
        // re-execute one engine-H schedule of one shape on the current tree (violation replays)
        "exitwait-replay" => {
            let shape_str = a.get("shape-str").cloned().unwrap_or_default();
            let sched: Vec<usize> = serde_json::from_str(a.get("sched").map(|s| s.as_str()).unwrap_or("[]")).unwrap_or_default();
            let sh = shapes_h("thorough").into_iter().chain(shapes_h("quick")).find(|s| format!("{s:?}") == shape_str);
            match sh {
                None => Some(json!({"runs": 0, "error": "unknown shape"})),
                Some(sh) => {
                    let mut b = Batch::new(Some(out.as_str()));
                    let mut ex = Explorer::new(Mode::Replay(sched), 0);
                    ex.begin_run();
                    let (evs, meta, _bad) = one_run_h(&sh, &mut ex);
                    b.run(meta, &evs);
                    b.finish();
                    Some(json!({"runs": 1}))
                }
            }
        }
        // size of the bounded DFS of one H shape (development aid)
        "exitwait-count" => {
            let i: usize = a.get("shape").and_then(|s| s.parse().ok()).unwrap_or(0);
            let bound: u32 = a.get("bound").and_then(|s| s.parse().ok()).unwrap_or(2);
            let sh = shapes_h(&tier)[i].clone();
            let mut ex = Explorer::new(Mode::Dfs { preempt_bound: Some(bound) }, seed);
            let (mut n, mut stuck) = (0u64, 0u64);
            loop {
                ex.begin_run();
                let (_e, _m, bad) = one_run_h(&sh, &mut ex);
                crate::PROGRESS.fetch_add(1, Ordering::SeqCst);
                n += 1;
                stuck += u64::from(bad);
                if !ex.end_run() || n >= 200000 {
                    break;
                }
            }
            Some(json!({"shape": format!("{sh:?}"), "bound": bound, "runs": n, "bad": stuck}))
        }
        _ => None,
    }
}
