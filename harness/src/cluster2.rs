//! Shared infrastructure of the cluster families (C18, C20): real `NodeServer`s running in one
//! process under engine T, joined by in-memory transports (tokio duplex pipes wrapped in a
//! `ClusterBidiStream`), optionally through a relay task that fragments / delays the byte stream
//! and can cut the connection at a frame boundary. Node events are recorded as observations.
use ractor::concurrency::JoinHandle;
use ractor::verif::{self, Val};
use ractor::{Actor, ActorRef};
use ractor_cluster::node::NodeServerSessionInformation;
use ractor_cluster::{BoxRead, BoxWrite, ClusterBidiStream, NodeEventSubscription, NodeServer, NodeServerMessage};
use std::sync::{Arc, Mutex};
use tokio::io::{AsyncReadExt, AsyncWriteExt, DuplexStream};

pub use crate::fam_lifecycle::yield_once;

pub fn kvs(k: &str, v: &str) -> (String, Val) {
    (k.to_string(), Val::S(v.to_string()))
}
pub fn kvi(k: &str, v: i64) -> (String, Val) {
    (k.to_string(), Val::I(v))
}

/// One end of an in-memory connection. Both ends carry the connection's name as `peer_label`, so
/// that `NodeServerSessionInformation::peer_addr` identifies the physical connection on both nodes.
pub struct Pipe {
    stream: DuplexStream,
    conn: String,
    side: String,
}

impl ClusterBidiStream for Pipe {
    fn split(self: Box<Self>) -> (BoxRead, BoxWrite) {
        let (r, w) = tokio::io::split(self.stream);
        (Box::new(r), Box::new(w))
    }
    fn peer_label(&self) -> Option<String> {
        Some(self.conn.clone())
    }
    fn local_label(&self) -> Option<String> {
        Some(format!("{}:{}", self.conn, self.side))
    }
}

/// A directly connected pair (dialler end, acceptor end)
pub fn pipe_pair(conn: &str) -> (Pipe, Pipe) {
    let (a, b) = tokio::io::duplex(64 * 1024);
    (Pipe { stream: a, conn: conn.to_string(), side: "d".into() }, Pipe { stream: b, conn: conn.to_string(), side: "a".into() })
}

/// Control block of a relayed connection
#[derive(Default)]
pub struct RelayCtl {
    /// cut the connection once this many frames were forwarded (both directions counted together)
    pub cut_after_frames: Option<u64>,
    /// cut now (checked at every frame boundary)
    pub cut_now: bool,
    pub frames: u64,
    pub closed: bool,
    /// one-way latency of the link in (virtual) milliseconds: every frame is forwarded that much after it was read
    pub latency_ms: u64,
}

/// Handle on a relayed connection: lets a scenario cut it
#[derive(Clone)]
pub struct Relay {
    pub ctl: Arc<Mutex<RelayCtl>>,
    stop: Arc<tokio::sync::Notify>,
}

impl Relay {
    pub fn cut(&self) {
        self.ctl.lock().unwrap().cut_now = true;
        self.stop.notify_waiters();
    }
    pub fn frames(&self) -> u64 {
        self.ctl.lock().unwrap().frames
    }
}

/// A connection whose bytes pass through two gated relay tasks (one per direction). A relay task
/// forwards whole frames, split into seeded fragments with a scheduling point between fragments,
/// and both directions go down together, at a frame boundary, when the connection is cut.
pub fn relayed_pair(conn: &str, seed: u64, cut_after_frames: Option<u64>) -> (Pipe, Pipe, Relay) {
    let (a, ra) = tokio::io::duplex(64 * 1024);
    let (rb, b) = tokio::io::duplex(64 * 1024);
    let (ra_r, ra_w) = tokio::io::split(ra);
    let (rb_r, rb_w) = tokio::io::split(rb);
    let relay = Relay { ctl: Arc::new(Mutex::new(RelayCtl { cut_after_frames, ..Default::default() })), stop: Arc::new(tokio::sync::Notify::new()) };
    for (dir, mut r, mut w, sd) in [("ab", ra_r, rb_w, seed), ("ba", rb_r, ra_w, seed ^ 0x5555)] {
        let ctl = relay.ctl.clone();
        let stop = relay.stop.clone();
        let name = format!("relay:{conn}:{dir}");
        let _ = ractor::concurrency::spawn_named(Some(&name), async move {
            let mut rng = crate::trace::Rng(sd);
            loop {
                if {
                    let g = ctl.lock().unwrap();
                    g.closed || g.cut_now
                } {
                    break;
                }
                // one frame: 8-byte big-endian length + payload
                let mut hdr = [0u8; 8];
                let got = tokio::select! {
                    biased;
                    _ = stop.notified() => None,
                    r = r.read_exact(&mut hdr) => Some(r),
                };
                let Some(Ok(_)) = got else { break };
                let len = u64::from_be_bytes(hdr) as usize;
                let mut payload = vec![0u8; len];
                if len > 0 && r.read_exact(&mut payload).await.is_err() {
                    break;
                }
                {
                    let mut g = ctl.lock().unwrap();
                    if g.closed || g.cut_now {
                        break;
                    }
                    if g.cut_after_frames.is_some_and(|n| g.frames >= n) {
                        // the scripted cut point: this frame and everything behind it is lost
                        g.cut_now = true;
                        verif::emit_kv("obs.cut", 0, g.frames as i64, vec![]);
                        break;
                    }
                    g.frames += 1;
                }
                let lat = ctl.lock().unwrap().latency_ms;
                if lat > 0 {
                    // a slow link: the frame is in flight for `lat` ms (a cut meanwhile loses it)
                    let cut = tokio::select! {
                        biased;
                        _ = stop.notified() => true,
                        _ = ractor::concurrency::sleep(std::time::Duration::from_millis(lat)) => false,
                    };
                    if cut {
                        break;
                    }
                }
                let mut buf = hdr.to_vec();
                buf.extend_from_slice(&payload);
                // seeded fragmentation: 1..=3 pieces, a scheduling point between pieces
                let pieces = 1 + rng.below(3);
                let mut off = 0;
                let mut failed = false;
                for p in 0..pieces {
                    let end = if p + 1 == pieces { buf.len() } else { off + rng.below(buf.len() - off + 1) };
                    if end > off {
                        if w.write_all(&buf[off..end]).await.is_err() {
                            failed = true;
                            break;
                        }
                        let _ = w.flush().await;
                    }
                    off = end;
                    if p + 1 < pieces {
                        yield_once().await;
                    }
                }
                if failed {
                    break;
                }
            }
            // closing: both directions go down together (a cut TCP connection)
            ctl.lock().unwrap().closed = true;
            stop.notify_waiters();
            let _ = w.shutdown().await;
        });
    }
    (Pipe { stream: a, conn: conn.to_string(), side: "d".into() }, Pipe { stream: b, conn: conn.to_string(), side: "a".into() }, relay)
}

/// Node-event subscription that records every callback as an observation
pub struct Sub {
    pub node: String,
}

fn ses_kv(node: &str, ses: &NodeServerSessionInformation) -> Vec<(String, Val)> {
    vec![
        kvs("node", node),
        kvs("label", &ses.peer_addr),
        kvi("srv", i64::from(ses.is_server)),
        kvs("peer", ses.peer_name.as_ref().map(|n| n.name.as_str()).unwrap_or("")),
    ]
}

impl NodeEventSubscription for Sub {
    fn node_session_opened(&self, ses: NodeServerSessionInformation) {
        verif::emit_kv("obs.opened", ses.actor.get_id().pid(), 0, ses_kv(&self.node, &ses));
    }
    fn node_session_disconnected(&self, ses: NodeServerSessionInformation) {
        verif::emit_kv("obs.disconnected", ses.actor.get_id().pid(), 0, ses_kv(&self.node, &ses));
    }
    fn node_session_authenticated(&self, ses: NodeServerSessionInformation) {
        verif::emit_kv("obs.authenticated", ses.actor.get_id().pid(), 0, ses_kv(&self.node, &ses));
    }
    fn node_session_ready(&self, ses: NodeServerSessionInformation) {
        verif::emit_kv("obs.ready", ses.actor.get_id().pid(), 0, ses_kv(&self.node, &ses));
    }
}

/// Spawn a node server `<name>@h` and subscribe an event recorder. Must run inside a gated task.
pub async fn spawn_node(name: &str, cookie: &str) -> Option<(ActorRef<NodeServerMessage>, JoinHandle<()>)> {
    let server = NodeServer::new(0, cookie.to_string(), name.to_string(), "h".to_string(), None, None)
        .with_listen_addr(std::net::IpAddr::V4(std::net::Ipv4Addr::LOCALHOST));
    let (node, handle) = Actor::spawn(None, server, ()).await.ok()?;
    node.cast(NodeServerMessage::SubscribeToEvents { id: "verif".into(), subscription: Box::new(Sub { node: format!("{name}@h") }) }).ok()?;
    // mailbox barrier: the subscription (and the listener's PortChanged) are in before anything is dialled
    let _ = ractor::call_t!(node, NodeServerMessage::GetSessions, 10_000).ok()?;
    Some((node, handle))
}

/// Dial `conn` from `from` to `to` over a direct in-memory pipe with the given connection nonce
pub async fn dial(conn: &str, nonce: u64, from: &ActorRef<NodeServerMessage>, to: &ActorRef<NodeServerMessage>) {
    let (d, a) = pipe_pair(conn);
    dial_with(conn, nonce, d, a, from, to).await
}

pub async fn dial_with(conn: &str, nonce: u64, d: Pipe, a: Pipe, from: &ActorRef<NodeServerMessage>, to: &ActorRef<NodeServerMessage>) {
    ractor_cluster::verif::set_connection_id_for(conn, nonce);
    let _ = ractor_cluster::client_connect_external(from, Box::new(d)).await;
    let _ = to.cast(NodeServerMessage::ConnectionOpenedExternal { stream: Box::new(a), is_server: true });
}

/// What GetSessions reports on a node: (label, is_server, session pid, ready) per visible session
pub async fn visible_sessions(node: &ActorRef<NodeServerMessage>) -> Option<Vec<(String, bool, u64, bool)>> {
    let m = ractor::call_t!(node, NodeServerMessage::GetSessions, 10_000).ok()?;
    let mut v = vec![];
    for (_, s) in m {
        let rdy = ractor::call_t!(s.actor, ractor_cluster::NodeSessionMessage::GetReadyState, 10_000).unwrap_or(false);
        v.push((s.peer_addr.clone(), s.is_server, s.actor.get_id().pid(), rdy));
    }
    v.sort();
    Some(v)
}

/// A node server whose events are recorded under `tag` (used for impostors that claim another node's name)
pub async fn spawn_node_named(name: &str, cookie: &str, tag: &str) -> Option<(ActorRef<NodeServerMessage>, JoinHandle<()>)> {
    let server = NodeServer::new(0, cookie.to_string(), name.to_string(), "h".to_string(), None, None)
        .with_listen_addr(std::net::IpAddr::V4(std::net::Ipv4Addr::LOCALHOST));
    let (node, handle) = Actor::spawn(None, server, ()).await.ok()?;
    node.cast(NodeServerMessage::SubscribeToEvents { id: "verif".into(), subscription: Box::new(Sub { node: tag.to_string() }) }).ok()?;
    let _ = ractor::call_t!(node, NodeServerMessage::GetSessions, 10_000).ok()?;
    Some((node, handle))
}

/// A raw peer that connects to `to`, sends nothing but a Name message claiming `claimed` and then
/// keeps the connection open without ever answering the challenge.
pub async fn spoof_name(conn: &str, claimed: &str, nonce: u64, to: &ActorRef<NodeServerMessage>) {
    use ractor_cluster::verif::{auth_proto, meta_proto, NetworkMessage};
    let (d, a) = pipe_pair(conn);
    let _ = to.cast(NodeServerMessage::ConnectionOpenedExternal { stream: Box::new(a), is_server: true });
    let frame = ractor_cluster::verif::encode_frame(&NetworkMessage {
        message: Some(meta_proto::network_message::Message::Auth(auth_proto::AuthenticationMessage {
            msg: Some(auth_proto::authentication_message::Msg::Name(auth_proto::NameMessage {
                name: claimed.to_string(),
                flags: Some(auth_proto::NodeFlags { version: 1 }),
                connection_string: "h:0".to_string(),
                connection_id: nonce,
            })),
        })),
    });
    let name = format!("spoof:{conn}");
    let _ = ractor::concurrency::spawn_named(Some(&name), async move {
        let mut s = d.stream;
        if s.write_all(&frame).await.is_err() {
            return;
        }
        let mut buf = [0u8; 256];
        loop {
            match s.read(&mut buf).await {
                Ok(0) | Err(_) => break,
                Ok(_) => {}
            }
        }
    });
}

/// The one visible session of a node, once it reports ready: (session actor, its node id)
pub async fn ready_session(node: &ActorRef<NodeServerMessage>) -> Option<(ActorRef<ractor_cluster::NodeSessionMessage>, u64)> {
    let m = ractor::call_t!(node, NodeServerMessage::GetSessions, 10_000).ok()?;
    for (id, s) in m {
        if ractor::call_t!(s.actor, ractor_cluster::NodeSessionMessage::GetReadyState, 10_000).unwrap_or(false) {
            return Some((s.actor.clone(), id as u64));
        }
    }
    None
}

/// The proxy a session holds for the remote actor with this pid (a child of the session)
pub fn proxy_of(session: &ractor::ActorCell, pid: u64) -> Option<ractor::ActorCell> {
    session.get_children().into_iter().find(|c| !c.get_id().is_local() && c.get_id().pid() == pid)
}
