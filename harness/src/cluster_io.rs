//! Shared pieces for the cluster families: the adversary's alphabet and frame builders, an
//! in-memory transport (`ClusterBidiStream` over `tokio::io::duplex`), probe actors.
use ractor::verif::{self, Val};
use ractor::{Actor, ActorProcessingErr, ActorRef, RpcReplyPort};
use ractor_cluster::verif::{auth_proto as ap, challenge_digest, control_proto as cp, meta_proto, node_proto as np, NetworkMessage};
use ractor_cluster::{BoxRead, BoxWrite, ClusterBidiStream};
use serde_json::{json, Map, Value};

/// longer than one SHA-256 block, so that every byte of it has to enter the digest
pub const COOKIE: &str = "the-cookie/0123456789abcdefghijklmnopqrstuvwxyz/0123456789ABCDEFGHIJKLMNOPQRSTUVWXYZ/tail-A";
pub const WRONG: &str = "not-the-cookie";
/// differs from COOKIE only in its last byte (beyond the first 64 bytes)
pub const WRONG_TAIL: &str = "the-cookie/0123456789abcdefghijklmnopqrstuvwxyz/0123456789ABCDEFGHIJKLMNOPQRSTUVWXYZ/tail-B";
/// COOKIE cut after 60 bytes, and COOKIE with one more byte
pub const WRONG_PREFIX: &str = "the-cookie/0123456789abcdefghijklmnopqrstuvwxyz/0123456789AB";
pub const WRONG_LONGER: &str = "the-cookie/0123456789abcdefghijklmnopqrstuvwxyz/0123456789ABCDEFGHIJKLMNOPQRSTUVWXYZ/tail-A+";

/// One adversary symbol: class, kind, parameter (names shared with spec/ClusterAuth.tla)
#[derive(Clone, Debug, PartialEq, Eq, Hash)]
pub struct Sym {
    pub c: &'static str,
    pub k: &'static str,
    pub p: &'static str,
}
pub const fn sym(c: &'static str, k: &'static str, p: &'static str) -> Sym {
    Sym { c, k, p }
}

pub fn auth_alphabet() -> Vec<Sym> {
    let mut v = vec![sym("auth", "Name", "")];
    for s in ["Ok", "OkSimultaneous", "NotOk", "NotAllowed", "Alive"] {
        v.push(sym("auth", "SS", s));
    }
    v.push(sym("auth", "CS", "true"));
    v.push(sym("auth", "CS", "false"));
    v.push(sym("auth", "SCh", ""));
    for k in ["CCh", "SAck"] {
        for d in ["good", "bad"] {
            v.push(sym("auth", k, d));
        }
    }
    v.push(sym("auth", "Empty", ""));
    v
}
pub fn ctl_alphabet() -> Vec<Sym> {
    ["Spawn", "PgJoin", "PgLeave", "Terminate", "Ready", "Ping", "Enum"].iter().map(|k| sym("ctl", k, "")).collect()
}
pub fn node_alphabet() -> Vec<Sym> {
    let mut v = vec![];
    for k in ["Cast", "Call", "Reply"] {
        for p in ["adv", "nonrem", "none", "r1"] {
            v.push(sym("node", k, p));
        }
    }
    v
}
pub fn full_alphabet() -> Vec<Sym> {
    let mut v = auth_alphabet();
    v.extend(ctl_alphabet());
    v.extend(node_alphabet());
    v
}

pub fn flags() -> Option<ap::NodeFlags> {
    Some(ap::NodeFlags { version: 1 })
}
pub fn name_msg(name: &str) -> ap::NameMessage {
    ap::NameMessage { name: name.to_string(), flags: flags(), connection_string: format!("{name}:1"), connection_id: 7 }
}
fn status_code(p: &str) -> i32 {
    match p {
        "Ok" => 0,
        "OkSimultaneous" => 1,
        "NotOk" => 2,
        "NotAllowed" => 3,
        _ => 4,
    }
}

/// A digest for `challenge`: right (real cookie) or one of several wrong ones
pub fn digest(good: bool, challenge: u32, variant: u64) -> Vec<u8> {
    if good {
        return challenge_digest(COOKIE, challenge);
    }
    match variant % 8 {
        0 => challenge_digest(WRONG, challenge),
        5 => challenge_digest(WRONG_TAIL, challenge),
        6 => challenge_digest(WRONG_PREFIX, challenge),
        7 => challenge_digest(WRONG_LONGER, challenge),
        1 => vec![],
        2 => {
            let mut d = challenge_digest(COOKIE, challenge);
            d.truncate(31);
            d
        }
        3 => {
            let mut d = challenge_digest(COOKIE, challenge);
            d[17] ^= 1;
            d
        }
        _ => challenge_digest(COOKIE, challenge.wrapping_add(1)),
    }
}

/// Build the authentication message for a symbol. `pending` is the challenge the receiving side
/// waits a digest for (None: it waits for none; any digest is then out of order anyway).
pub fn auth_message(s: &Sym, peer_name: &str, pending: Option<u32>, good: bool, variant: u64) -> ap::AuthenticationMessage {
    use ap::authentication_message::Msg;
    let ch = pending.unwrap_or(0);
    let msg = match s.k {
        "Name" => Some(Msg::Name(name_msg(peer_name))),
        "SS" => Some(Msg::ServerStatus(ap::ServerStatus { status: status_code(s.p) })),
        "CS" => Some(Msg::ClientStatus(ap::ClientStatus { status: s.p == "true" })),
        "SCh" => Some(Msg::ServerChallenge(ap::Challenge { name: peer_name.to_string(), flags: flags(), challenge: 4242, connection_string: format!("{peer_name}:1") })),
        "CCh" => Some(Msg::ClientChallenge(ap::ChallengeReply { challenge: 99, digest: digest(good, ch, variant) })),
        "SAck" => Some(Msg::ServerAck(ap::ChallengeAck { digest: digest(good, ch, variant) })),
        _ => None,
    };
    ap::AuthenticationMessage { msg }
}

pub fn net_auth(m: ap::AuthenticationMessage) -> NetworkMessage {
    NetworkMessage { message: Some(meta_proto::network_message::Message::Auth(m)) }
}
pub fn net_ctl(m: cp::control_message::Msg) -> NetworkMessage {
    NetworkMessage { message: Some(meta_proto::network_message::Message::Control(cp::ControlMessage { msg: Some(m) })) }
}
pub fn net_node(m: np::node_message::Msg) -> NetworkMessage {
    NetworkMessage { message: Some(meta_proto::network_message::Message::Node(np::NodeMessage { msg: Some(m) })) }
}

pub const R1: u64 = 1001;
pub fn control_message(s: &Sym, group: &str, asker: &str) -> NetworkMessage {
    use cp::control_message::Msg;
    let actors = vec![cp::Actor { pid: R1, name: None }];
    let scope = ractor::pg::DEFAULT_SCOPE.to_string();
    net_ctl(match s.k {
        "Spawn" => Msg::Spawn(cp::Spawn { actors }),
        "PgJoin" => Msg::PgJoin(cp::PgJoin { group: group.to_string(), actors, scope }),
        "PgLeave" => Msg::PgLeave(cp::PgLeave { group: group.to_string(), actors, scope }),
        "Terminate" => Msg::Terminate(cp::Terminate { ids: vec![R1] }),
        "Ready" => Msg::Ready(cp::Ready {}),
        "Ping" => Msg::Ping(cp::Ping { timestamp: None }),
        _ => Msg::EnumerateNodeSessions(name_msg(asker)),
    })
}

/// Name of a frame the node sent, in the vocabulary of the specification
pub fn frame_kind(m: &NetworkMessage) -> String {
    use meta_proto::network_message::Message as MM;
    match &m.message {
        None => "EmptyFrame".into(),
        Some(MM::Auth(a)) => {
            use ap::authentication_message::Msg;
            match &a.msg {
                None => "Empty".into(),
                Some(Msg::Name(_)) => "Name".into(),
                Some(Msg::ServerStatus(s)) => format!(
                    "SS.{}",
                    match s.status {
                        0 => "Ok",
                        1 => "OkSimultaneous",
                        2 => "NotOk",
                        3 => "NotAllowed",
                        _ => "Alive",
                    }
                ),
                Some(Msg::ClientStatus(c)) => format!("CS.{}", c.status),
                Some(Msg::ServerChallenge(_)) => "SCh".into(),
                Some(Msg::ClientChallenge(_)) => "CCh".into(),
                Some(Msg::ServerAck(_)) => "SAck".into(),
            }
        }
        Some(MM::Control(c)) => {
            use cp::control_message::Msg;
            match &c.msg {
                None => "EmptyCtl".into(),
                Some(Msg::Spawn(_)) => "Spawn".into(),
                Some(Msg::Terminate(_)) => "Terminate".into(),
                Some(Msg::Ping(_)) => "Ping".into(),
                Some(Msg::Pong(_)) => "Pong".into(),
                Some(Msg::PgJoin(_)) => "PgJoin".into(),
                Some(Msg::PgLeave(_)) => "PgLeave".into(),
                Some(Msg::EnumerateNodeSessions(_)) => "Enum".into(),
                Some(Msg::NodeSessions(_)) => "NodeSessions".into(),
                Some(Msg::Ready(_)) => "Ready".into(),
            }
        }
        Some(MM::Node(n)) => {
            use np::node_message::Msg;
            match &n.msg {
                None => "EmptyNode".into(),
                Some(Msg::Cast(_)) => "Cast".into(),
                Some(Msg::Call(_)) => "Call".into(),
                Some(Msg::Reply(_)) => "Reply".into(),
            }
        }
    }
}

// ------------------------------------------------------------------------------------------------
// in-memory transport
// ------------------------------------------------------------------------------------------------
pub struct Duplex {
    pub stream: tokio::io::DuplexStream,
    pub label: String,
}
impl ClusterBidiStream for Duplex {
    fn split(self: Box<Self>) -> (BoxRead, BoxWrite) {
        let (r, w) = tokio::io::split(self.stream);
        (Box::new(r), Box::new(w))
    }
    fn peer_label(&self) -> Option<String> {
        Some(self.label.clone())
    }
    fn local_label(&self) -> Option<String> {
        Some("node".into())
    }
}

// ------------------------------------------------------------------------------------------------
// probes
// ------------------------------------------------------------------------------------------------
/// An argument type whose conversion from bytes panics on a marker
#[derive(Debug, Clone, PartialEq)]
pub struct Touchy(pub u8);
impl ractor::BytesConvertable for Touchy {
    fn into_bytes(self) -> Vec<u8> {
        vec![self.0]
    }
    fn from_bytes(b: Vec<u8>) -> Self {
        if b.first() == Some(&0xEE) {
            panic!("touchy conversion");
        }
        Touchy(b[0])
    }
}

/// The cluster-serializable message of the remotable probe
#[derive(ractor_cluster::RactorClusterMessage)]
pub enum PMsg {
    Tick(u32),
    Text(u32, String),
    Boom(u32, Touchy),
    Unit,
    #[rpc]
    Ask(u32, RpcReplyPort<u32>),
}

/// Plain (local only) message of the non-remotable probe
pub struct QMsg;
// not serializable (so its actor does not support remoting), but anything that is handed to it in serialized form
// would decode: a frame a session wrongly forwards to this actor shows up in its handler
impl ractor::Message for QMsg {
    fn serializable() -> bool {
        false
    }
    fn deserialize(_: ractor::message::SerializedMessage) -> Result<Self, ractor::message::BoxedDowncastErr> {
        Ok(QMsg)
    }
}

fn kvs(k: &str, v: &str) -> (String, Val) {
    (k.to_string(), Val::S(v.to_string()))
}
fn kvi(k: &str, v: i64) -> (String, Val) {
    (k.to_string(), Val::I(v))
}

/// Remotable probe: logs every message it handles (`obs.handled`, x = probe name)
pub struct Probe {
    pub name: String,
}
#[cfg_attr(feature = "asynctrait", ractor::async_trait)]
impl Actor for Probe {
    type Msg = PMsg;
    type State = ();
    type Arguments = ();
    async fn pre_start(&self, _: ActorRef<PMsg>, _: ()) -> Result<(), ActorProcessingErr> {
        Ok(())
    }
    async fn handle(&self, _: ActorRef<PMsg>, m: PMsg, _: &mut ()) -> Result<(), ActorProcessingErr> {
        let (k, n) = match &m {
            PMsg::Tick(n) => ("Cast", *n),
            PMsg::Text(n, _) => ("Text", *n),
            PMsg::Boom(n, _) => ("Boom", *n),
            PMsg::Unit => ("Unit", 0),
            PMsg::Ask(n, _) => ("Call", *n),
        };
        verif::emit_kv("obs.handled", 0, n as i64, vec![kvs("x", &self.name), kvs("k", k), kvi("m", n as i64)]);
        if let PMsg::Ask(n, reply) = m {
            let _ = reply.send(n + 1);
        }
        Ok(())
    }
}

/// messages handled by non-remotable probes since the last reading (nothing a peer sends may ever get there)
pub static Q_HANDLED: std::sync::atomic::AtomicU64 = std::sync::atomic::AtomicU64::new(0);

pub struct QProbe {
    pub name: String,
}
#[cfg_attr(feature = "asynctrait", ractor::async_trait)]
impl Actor for QProbe {
    type Msg = QMsg;
    type State = ();
    type Arguments = ();
    async fn pre_start(&self, _: ActorRef<QMsg>, _: ()) -> Result<(), ActorProcessingErr> {
        Ok(())
    }
    async fn handle(&self, _: ActorRef<QMsg>, _: QMsg, _: &mut ()) -> Result<(), ActorProcessingErr> {
        Q_HANDLED.fetch_add(1, std::sync::atomic::Ordering::SeqCst);
        verif::emit_kv("obs.handled", 0, 0, vec![kvs("x", &self.name), kvs("k", "Q"), kvi("m", 0)]);
        Ok(())
    }
}

/// one packed argument of the derived wire format: u64 big-endian length, then the bytes
pub fn pack(arg: &[u8]) -> Vec<u8> {
    let mut v = (arg.len() as u64).to_be_bytes().to_vec();
    v.extend_from_slice(arg);
    v
}

/// (variant, args) of a cast probe message as the derived serializer produces it
pub fn wire_of(m: PMsg) -> (String, Vec<u8>) {
    use ractor::Message;
    match m.serialize().expect("serialize") {
        ractor::message::SerializedMessage::Cast { variant, args, .. } => (variant, args),
        _ => unreachable!(),
    }
}

pub fn node_message(s: &Sym, to: u64, n: u32) -> NetworkMessage {
    use np::node_message::Msg;
    net_node(match s.k {
        "Cast" => {
            let (variant, what) = wire_of(PMsg::Tick(n));
            Msg::Cast(np::Cast { to, what, variant, metadata: None })
        }
        "Call" => Msg::Call(np::Call { to, what: pack(&n.to_be_bytes()), tag: n as u64, timeout_ms: Some(200), variant: "Ask".into(), metadata: None }),
        _ => Msg::Reply(np::CallReply { to, tag: n as u64, what: vec![0, 0, 0, 1] }),
    })
}

pub fn base(a: &str, who: &str) -> Map<String, Value> {
    let mut m = Map::new();
    m.insert("a".into(), json!(a));
    m.insert("who".into(), json!(who));
    m.insert("obj".into(), json!(""));
    m.insert("d".into(), json!(0));
    m.insert("t".into(), json!(0));
    m
}
