//! Family `wire-tcp` (C19, "bounded" through the node's own listener): a real `NodeServer` with a small
//! `max_inbound_frame_size` accepts raw TCP connections on the loopback interface; the harness writes scripted byte
//! streams (frames with a declared length, all / part / none of their payload) and observes from outside what a peer
//! can see: whether the node answered and whether it closed the connection. Free running (real sockets, real clock).
use crate::cluster_io::{name_msg, net_auth};
use crate::trace::{Batch, Rng};
use ractor::Actor;
use ractor_cluster::verif::{auth_proto as ap, encode_frame};
use ractor_cluster::NodeServer;
use serde_json::{json, Value};
use std::time::Duration;
use tokio::io::{AsyncReadExt, AsyncWriteExt};

pub const LIMIT: u64 = 64;
const CLAMP: u64 = 1_000_000;

#[derive(Clone, Debug)]
struct F {
    /// declared length
    len: u64,
    /// "valid" (a Name message, whatever `len` says is replaced by its real length) | "undecodable"
    cls: &'static str,
    /// payload bytes actually written (<= len; nothing for an oversize frame)
    sent: u64,
}

fn free_port() -> u16 {
    std::net::TcpListener::bind("127.0.0.1:0").and_then(|l| l.local_addr()).map(|a| a.port()).unwrap_or(0)
}

async fn one(port: u16, frames: &[F], eof: bool) -> Option<(Vec<Value>, Value)> {
    let mut s = tokio::net::TcpStream::connect(("127.0.0.1", port)).await.ok()?;
    let _ = s.set_nodelay(true);
    let mut bytes: Vec<u8> = vec![];
    let mut fj = vec![];
    for f in frames {
        if f.cls == "valid" {
            let fr = encode_frame(&net_auth(ap::AuthenticationMessage { msg: Some(ap::authentication_message::Msg::Name(name_msg("p@x"))) }));
            fj.push(json!({"len": fr.len() as u64 - 8, "cls": "valid"}));
            bytes.extend(fr);
        } else {
            bytes.extend(f.len.to_be_bytes());
            bytes.extend(std::iter::repeat(0xffu8).take(f.sent as usize));
            fj.push(json!({"len": f.len.min(CLAMP), "cls": "undecodable"}));
        }
    }
    let cut = bytes.len();
    s.write_all(&bytes).await.ok()?;
    let _ = s.flush().await;
    if eof {
        let _ = s.shutdown().await;
    }
    // what the peer sees: bytes from the node (an answer), and the end of the stream (the node closed the connection).
    // "Still open" is only concluded after 3 s without either.
    let mut replied = false;
    let mut closed = false;
    let mut buf = [0u8; 4096];
    let t0 = std::time::Instant::now();
    while t0.elapsed() < Duration::from_secs(3) {
        match tokio::time::timeout(Duration::from_millis(500), s.read(&mut buf)).await {
            Ok(Ok(0)) | Ok(Err(_)) => {
                closed = true;
                break;
            }
            Ok(Ok(_)) => replied = true,
            Err(_) => {}
        }
    }
    let b = |a: &str| -> serde_json::Map<String, Value> {
        let mut m = serde_json::Map::new();
        for (k, v) in [("a", json!(a)), ("who", json!("h")), ("obj", json!("")), ("d", json!(0)), ("t", json!(0))] {
            m.insert(k.into(), v);
        }
        m
    };
    let mut st = b("obs.stream");
    st.insert("frames".into(), json!(fj));
    st.insert("cut".into(), json!(cut));
    st.insert("hold".into(), json!(i64::from(!eof)));
    let mut en = b("obs.end");
    en.insert("closed".into(), json!(i64::from(closed)));
    en.insert("replied".into(), json!(i64::from(replied)));
    let meta = json!({"family": "wire-tcp", "frames": format!("{frames:?}"), "eof": eof, "limit": LIMIT});
    Some((vec![Value::Object(st), Value::Object(en)], meta))
}

fn scripts(tier: &str, seed: u64) -> Vec<(Vec<F>, bool)> {
    let und = |len: u64, sent: u64| F { len, cls: "undecodable", sent };
    let valid = || F { len: 0, cls: "valid", sent: 0 };
    let mut v = vec![];
    // the frame under test: around the limit, complete / partial / header only; oversize frames carry no payload
    let mut tests = vec![
        und(1, 1), und(1, 0), und(LIMIT - 1, LIMIT - 1), und(LIMIT, LIMIT), und(LIMIT, LIMIT - 1), und(LIMIT, 0),
        und(LIMIT + 1, 0), und(4 * LIMIT, 0), und(1 << 20, 0), und((16 << 20) + 1, 0), und(u64::MAX, 0),
    ];
    if tier == "thorough" {
        let mut rng = Rng(seed ^ 0x746370);
        for _ in 0..20 {
            let len = 1 + rng.below(3 * LIMIT as usize) as u64;
            let sent = if len > LIMIT { 0 } else { rng.below(len as usize + 1) as u64 };
            tests.push(und(len, sent));
        }
    }
    for t in &tests {
        for eof in [false, true] {
            v.push((vec![t.clone()], eof));
            v.push((vec![valid(), t.clone()], eof));
        }
    }
    v.push((vec![valid()], false));
    v.push((vec![], true));
    v
}

pub fn batch(out: &str, tier: &str, seed: u64) -> Value {
    let mut b = Batch::new(Some(out));
    let rt = tokio::runtime::Builder::new_multi_thread().worker_threads(2).enable_all().build().expect("runtime");
    ractor::verif::enable(true);
    ractor::verif::sched_enable(false);
    let mut bad = 0u64;
    rt.block_on(async {
        let port = free_port();
        let server = NodeServer::new(port, "cookie".to_string(), "tcp@h".to_string(), "localhost".to_string(), None, None)
            .with_listen_addr("127.0.0.1".parse().unwrap())
            .with_max_inbound_frame_size(LIMIT);
        let Ok((node, handle)) = Actor::spawn(None, server, ()).await else {
            bad += 1;
            return;
        };
        tokio::time::sleep(Duration::from_millis(50)).await;
        // connections are independent: a few at a time
        let all = scripts(tier, seed);
        for chunk in all.chunks(8) {
            let mut js = vec![];
            for (frames, eof) in chunk.iter().cloned() {
                js.push(tokio::spawn(async move { one(port, &frames, eof).await }));
            }
            for j in js {
                match j.await {
                    Ok(Some((evs, meta))) => {
                        b.run(meta, &evs);
                    }
                    _ => bad += 1,
                }
            }
        }
        node.stop(None);
        let _ = tokio::time::timeout(Duration::from_secs(5), handle).await;
    });
    rt.shutdown_background();
    let _ = ractor::verif::take_events();
    b.finish();
    json!({"family": "wire-tcp", "runs": b.runs, "events": b.events, "distinct": b.hashes.len(), "distinct_nontrivial": b.hashes.len(), "bad_runs": bad, "samples": b.samples})
}

pub fn dispatch(cmd: &str, a: &std::collections::HashMap<String, String>) -> Option<Value> {
    let (out, tier, seed) = crate::common(a);
    match cmd {
        "wire-tcp" => Some(batch(&out, &tier, seed)),
        _ => None,
    }
}
