//! Family `lifecycle` (C01, C03, C04, C08): scripted actors in a small supervision forest, scripted
//! client tasks (spawn / send / stop / kill / drain / inject / abort / probes), engine T.
use crate::explore::{Explorer, Mode};
use crate::tdrv::{run_t, NoBetween};
use crate::trace::{ev_json, Batch, Names, Rng};
use ractor::concurrency::JoinHandle;
use ractor::verif::{self, Val};
use ractor::{Actor, ActorCell, ActorProcessingErr, ActorRef, Message, SpawnErr, SupervisionEvent};
use serde_json::{json, Value};
use std::collections::HashMap;
use std::future::Future;
use std::pin::Pin;
use std::sync::{Arc, Mutex};
use std::task::{Context, Poll};

pub struct LMsg(pub u32);
impl Message for LMsg {}

#[derive(Clone, Debug, PartialEq)]
pub enum Op {
    Tick,
    Yield,
    Sleep(u64),
    SendSelf,
    KillSelf,
    StopSelf,
    Err,
    Panic,
    /// join the scenario's process group (side effect a failed start must not leave behind)
    JoinPg,
}

#[derive(Clone, Debug, Default)]
pub struct Script {
    pub pre: Vec<Op>,
    pub post: Vec<Op>,
    pub handle: Vec<Vec<Op>>, // by message number (cycled)
    pub sup: Vec<Op>,
    pub pstop: Vec<Op>,
}

#[derive(Clone, Debug)]
pub struct ActorSpec {
    pub name: String,
    pub sup: Option<usize>,
    pub instant: bool,
    /// spawn runs in a helper task (so that it can be aborted mid pre_start)
    pub helper: bool,
    pub script: Script,
}

#[derive(Clone, Debug, PartialEq)]
pub enum COp {
    Spawn(usize),
    Send(usize),
    Kill(usize),
    Stop(usize),
    Drain(usize),
    /// ActorCell::stop_children / drain_children of actor i
    StopKids(usize),
    DrainKids(usize),
    /// stop_children_and_wait / drain_children_and_wait of actor i (no timeout)
    StopKidsWait(usize),
    DrainKidsWait(usize),
    Inject(usize),
    AbortLoop(usize),
    AbortSpawner(usize),
    Status(usize),
    Join(usize),
    /// Monitor(monitor, target)
    Monitor(usize, usize),
    Unmonitor(usize, usize),
    /// spawn a second actor under the name of actor i (must fail while i is registered)
    SpawnClash(usize),
    Pause,
}

#[derive(Clone, Debug)]
pub struct Scenario {
    pub actors: Vec<ActorSpec>,
    pub clients: Vec<Vec<COp>>,
}

#[derive(Default)]
pub struct World {
    pub cells: Vec<Option<ActorCell>>,
    pub loops: Vec<Option<JoinHandle<()>>>,
    pub loop_abort: Vec<Option<tokio::task::AbortHandle>>,
    pub spawner_abort: Vec<Option<tokio::task::AbortHandle>>,
    pub nsent: Vec<u32>,
    pub pids: HashMap<u64, String>,
    /// spawner thread for thread-local actors (actors named "L"), created on first use
    pub spawner: Option<ractor::thread_local::ThreadLocalActorSpawner>,
    /// number of spawn calls of thread-local actors in flight (work the gate scheduler cannot see)
    pub spawning: usize,
    pub run_tag: String,
}
type W = Arc<Mutex<World>>;

pub struct YieldOnce(bool);
impl Future for YieldOnce {
    type Output = ();
    fn poll(mut self: Pin<&mut Self>, cx: &mut Context<'_>) -> Poll<()> {
        if self.0 {
            Poll::Ready(())
        } else {
            self.0 = true;
            cx.waker().wake_by_ref();
            Poll::Pending
        }
    }
}
pub fn yield_once() -> YieldOnce {
    YieldOnce(false)
}

fn kvs(k: &str, v: &str) -> (String, Val) {
    (k.to_string(), Val::S(v.to_string()))
}
fn kvi(k: &str, v: i64) -> (String, Val) {
    (k.to_string(), Val::I(v))
}
fn obs(label: &str, x: &str, d: i64, mut kv: Vec<(String, Val)>) {
    kv.push(kvs("x", x));
    verif::emit_kv(label, 0, d, kv);
}

pub struct ScriptActor {
    pub idx: usize,
    pub name: String,
    pub script: Script,
    pub world: W,
}

#[derive(Clone)]
pub struct Cfg {
    pub idx: usize,
    pub name: String,
    pub script: Script,
    pub world: W,
}

impl ScriptActor {
    fn cfg(&self) -> Cfg {
        Cfg { idx: self.idx, name: self.name.clone(), script: self.script.clone(), world: self.world.clone() }
    }
    async fn run_ops(&self, kind: &str, ops: &[Op], myself: &ActorRef<LMsg>, extra: Vec<(String, Val)>) -> Result<(), ActorProcessingErr> {
        run_ops(&self.cfg(), kind, ops, myself, extra).await
    }
}

pub async fn run_ops(this: &Cfg, kind: &str, ops: &[Op], myself: &ActorRef<LMsg>, extra: Vec<(String, Val)>) -> Result<(), ActorProcessingErr> {
    {
        let self_ = this;
        let x = self_.name.as_str();
        let mut kv = vec![kvs("k", kind)];
        kv.extend(extra);
        obs("obs.cb_enter", x, 0, kv);
        for op in ops {
            match op {
                Op::Tick => obs("obs.tick", x, 0, vec![]),
                Op::Yield => {
                    obs("obs.yield", x, 0, vec![]);
                    yield_once().await;
                    obs("obs.resume", x, 0, vec![]);
                }
                Op::Sleep(ms) => {
                    obs("obs.yield", x, 0, vec![]);
                    ractor::concurrency::sleep(std::time::Duration::from_millis(*ms)).await;
                    obs("obs.resume", x, 0, vec![]);
                }
                Op::SendSelf => {
                    let n = {
                        let mut w = self_.world.lock().unwrap();
                        if w.nsent[self_.idx] >= 6 {
                            drop(w);
                            obs("obs.tick", x, 0, vec![]);
                            continue;
                        }
                        w.nsent[self_.idx] += 1;
                        w.nsent[self_.idx]
                    };
                    let r = myself.send_message(LMsg(n));
                    obs("obs.send", x, i64::from(r.is_ok()), vec![kvi("m", n as i64)]);
                }
                Op::JoinPg => {
                    let tag = self_.world.lock().unwrap().run_tag.clone();
                    ractor::pg::join(format!("g@{tag}"), vec![myself.get_cell()]);
                    obs("obs.joinpg", x, 0, vec![]);
                }
                Op::KillSelf => {
                    myself.kill();
                    obs("obs.kill", x, 0, vec![]);
                }
                Op::StopSelf => {
                    myself.stop(Some("self".into()));
                    obs("obs.stop", x, 0, vec![kvs("reason", "self")]);
                }
                Op::Err => {
                    obs("obs.cb_exit", x, 0, vec![kvs("k", kind), kvs("o", "err")]);
                    return Err("err".into());
                }
                Op::Panic => {
                    obs("obs.cb_exit", x, 0, vec![kvs("k", kind), kvs("o", "panic")]);
                    panic!("panic");
                }
            }
        }
        obs("obs.cb_exit", x, 0, vec![kvs("k", kind), kvs("o", "ok")]);
        Ok(())
    }
}

#[cfg_attr(feature = "asynctrait", ractor::async_trait)]
impl Actor for ScriptActor {
    type Msg = LMsg;
    type State = ();
    type Arguments = ();
    async fn pre_start(&self, myself: ActorRef<LMsg>, _: ()) -> Result<(), ActorProcessingErr> {
        {
            let mut w = self.world.lock().unwrap();
            w.pids.insert(myself.get_id().pid(), self.name.clone());
            if w.cells[self.idx].is_none() {
                w.cells[self.idx] = Some(myself.get_cell());
            }
        }
        self.run_ops("pre_start", &self.script.pre, &myself, vec![]).await
    }
    async fn post_start(&self, myself: ActorRef<LMsg>, _: &mut ()) -> Result<(), ActorProcessingErr> {
        self.run_ops("post_start", &self.script.post, &myself, vec![]).await
    }
    async fn post_stop(&self, myself: ActorRef<LMsg>, _: &mut ()) -> Result<(), ActorProcessingErr> {
        self.run_ops("post_stop", &self.script.pstop, &myself, vec![]).await
    }
    async fn handle(&self, myself: ActorRef<LMsg>, m: LMsg, _: &mut ()) -> Result<(), ActorProcessingErr> {
        let ops: Vec<Op> = if self.script.handle.is_empty() {
            vec![Op::Tick]
        } else {
            self.script.handle[(m.0 as usize - 1) % self.script.handle.len()].clone()
        };
        self.run_ops("handle", &ops, &myself, vec![kvi("m", m.0 as i64)]).await
    }
    async fn handle_supervisor_evt(&self, myself: ActorRef<LMsg>, e: SupervisionEvent, _: &mut ()) -> Result<(), ActorProcessingErr> {
        let extra = sup_extra(&self.world, &e);
        self.run_ops("handle_sup", &self.script.sup, &myself, extra).await
    }
}

pub fn sup_extra(world: &W, e: &SupervisionEvent) -> Vec<(String, Val)> {
    {
        let name_of = |c: &ActorCell| -> String {
            world.lock().unwrap().pids.get(&c.get_id().pid()).cloned().unwrap_or_else(|| format!("p{}", c.get_id().pid()))
        };
        match e {
            SupervisionEvent::ActorStarted(c) => vec![kvs("ek", "started"), kvs("about", &name_of(c)), kvi("hs", 0), kvs("reason", "")],
            SupervisionEvent::ActorTerminated(c, st, r) => vec![
                kvs("ek", "terminated"),
                kvs("about", &name_of(c)),
                kvi("hs", i64::from(st.is_some())),
                kvs("reason", r.as_deref().unwrap_or("")),
            ],
            SupervisionEvent::ActorFailed(c, err) => vec![kvs("ek", "failed"), kvs("about", &name_of(c)), kvi("hs", 0), kvs("reason", &format!("{err}"))],
            SupervisionEvent::ProcessGroupChanged(_) => vec![kvs("ek", "inject"), kvs("about", "none"), kvi("hs", 0), kvs("reason", "")],
            _ => vec![kvs("ek", "other"), kvs("about", "none"), kvi("hs", 0), kvs("reason", "")],
        }
    }
}

/// The same scripted behaviour as a native thread-local actor (ractor::thread_local)
#[derive(Default)]
pub struct LocalScriptActor;
impl ractor::thread_local::ThreadLocalActor for LocalScriptActor {
    type Msg = LMsg;
    type State = Cfg;
    type Arguments = Cfg;
    async fn pre_start(&self, myself: ActorRef<LMsg>, c: Cfg) -> Result<Cfg, ActorProcessingErr> {
        {
            let mut w = c.world.lock().unwrap();
            w.pids.insert(myself.get_id().pid(), c.name.clone());
            if w.cells[c.idx].is_none() {
                w.cells[c.idx] = Some(myself.get_cell());
            }
        }
        run_ops(&c, "pre_start", &c.script.pre, &myself, vec![]).await?;
        Ok(c)
    }
    async fn post_start(&self, myself: ActorRef<LMsg>, c: &mut Cfg) -> Result<(), ActorProcessingErr> {
        run_ops(c, "post_start", &c.script.post, &myself, vec![]).await
    }
    async fn post_stop(&self, myself: ActorRef<LMsg>, c: &mut Cfg) -> Result<(), ActorProcessingErr> {
        run_ops(c, "post_stop", &c.script.pstop, &myself, vec![]).await
    }
    async fn handle(&self, myself: ActorRef<LMsg>, m: LMsg, c: &mut Cfg) -> Result<(), ActorProcessingErr> {
        let ops: Vec<Op> = if c.script.handle.is_empty() { vec![Op::Tick] } else { c.script.handle[(m.0 as usize - 1) % c.script.handle.len()].clone() };
        run_ops(c, "handle", &ops, &myself, vec![kvi("m", m.0 as i64)]).await
    }
    async fn handle_supervisor_evt(&self, myself: ActorRef<LMsg>, e: SupervisionEvent, c: &mut Cfg) -> Result<(), ActorProcessingErr> {
        let extra = sup_extra(&c.world, &e);
        run_ops(c, "handle_sup", &c.script.sup, &myself, extra).await
    }
}

fn spawn_err_kind(e: &SpawnErr) -> &'static str {
    match e {
        SpawnErr::StartupFailed(_) => "startup_failed",
        SpawnErr::ActorAlreadyStarted => "already_started",
        SpawnErr::ActorAlreadyRegistered(_) => "already_registered",
    }
}

async fn do_spawn(sc: Arc<Scenario>, w: W, idx: usize, run_tag: String) {
    let spec = sc.actors[idx].clone();
    let actor = ScriptActor { idx, name: spec.name.clone(), script: spec.script.clone(), world: w.clone() };
    let sup_cell: Option<ActorCell> = spec.sup.and_then(|s| w.lock().unwrap().cells[s].clone());
    let x = spec.name.clone();
    let tname = Some(format!("{}@{}", spec.name, run_tag));
    if spec.name == "L" {
        do_spawn_local(spec, w, idx, sup_cell, tname).await;
        return;
    }
    if spec.sup.is_some() && sup_cell.is_none() {
        obs("obs.start_ret", &x, 0, vec![kvs("err", "no_supervisor")]);
        return;
    }
    obs("obs.spawn_call", &x, 0, vec![]);
    if spec.instant {
        let r = match (&spec.sup, sup_cell) {
            (Some(_), Some(sc)) => ractor::ActorRuntime::spawn_linked_instant(tname, actor, (), sc),
            (Some(_), None) => {
                obs("obs.start_ret", &x, 0, vec![kvs("err", "no_supervisor")]);
                return;
            }
            (None, _) => ractor::ActorRuntime::spawn_instant(tname, actor, ()),
        };
        match r {
            Err(e) => obs("obs.start_ret", &x, 0, vec![kvs("err", spawn_err_kind(&e))]),
            Ok((aref, join)) => {
                {
                    let mut g = w.lock().unwrap();
                    g.pids.insert(aref.get_id().pid(), x.clone());
                    g.cells[idx] = Some(aref.get_cell());
                    g.spawner_abort[idx] = Some(join.abort_handle());
                }
                obs("obs.spawn_ret", &x, 1, vec![]);
                match join.await {
                    Ok(Ok(h)) => {
                        {
                            let mut g = w.lock().unwrap();
                            g.loop_abort[idx] = Some(h.abort_handle());
                            g.loops[idx] = Some(h);
                        }
                        obs("obs.start_ret", &x, 1, vec![kvs("err", "")]);
                    }
                    Ok(Err(e)) => obs("obs.start_ret", &x, 0, vec![kvs("err", spawn_err_kind(&e))]),
                    Err(_) => obs("obs.start_ret", &x, 0, vec![kvs("err", "join_error")]),
                }
            }
        }
    } else {
        let r = match (&spec.sup, sup_cell) {
            (Some(_), Some(sc)) => ScriptActor::spawn_linked(tname, actor, (), sc).await,
            (Some(_), None) => {
                obs("obs.start_ret", &x, 0, vec![kvs("err", "no_supervisor")]);
                return;
            }
            (None, _) => ScriptActor::spawn(tname, actor, ()).await,
        };
        match r {
            Ok((aref, h)) => {
                let mut g = w.lock().unwrap();
                g.pids.insert(aref.get_id().pid(), x.clone());
                g.cells[idx] = Some(aref.get_cell());
                g.loop_abort[idx] = Some(h.abort_handle());
                g.loops[idx] = Some(h);
                drop(g);
                obs("obs.start_ret", &x, 1, vec![kvs("err", "")]);
            }
            Err(e) => obs("obs.start_ret", &x, 0, vec![kvs("err", spawn_err_kind(&e))]),
        }
    }
}

/// thread-local flavour: the actor lives on the spawner's own thread and runtime
async fn do_spawn_local(spec: ActorSpec, w: W, idx: usize, sup_cell: Option<ActorCell>, tname: Option<String>) {
    use ractor::thread_local::ThreadLocalActor;
    let x = spec.name.clone();
    if spec.sup.is_some() && sup_cell.is_none() {
        obs("obs.start_ret", &x, 0, vec![kvs("err", "no_supervisor")]);
        return;
    }
    let cfg = Cfg { idx, name: spec.name.clone(), script: spec.script.clone(), world: w.clone() };
    let spawner = {
        let mut g = w.lock().unwrap();
        if g.spawner.is_none() {
            g.spawner = Some(ractor::thread_local::ThreadLocalActorSpawner::new());
        }
        g.spawning += 1;
        g.spawner.clone().unwrap()
    };
    struct Dec(W);
    impl Drop for Dec {
        fn drop(&mut self) {
            self.0.lock().unwrap().spawning -= 1;
        }
    }
    let _dec = Dec(w.clone());
    obs("obs.spawn_call", &x, 0, vec![]);
    if spec.instant {
        let r = match sup_cell {
            Some(sc) => LocalScriptActor::spawn_linked_instant(tname, cfg, sc, spawner),
            None => LocalScriptActor::spawn_instant(tname, cfg, spawner),
        };
        match r {
            Err(e) => obs("obs.start_ret", &x, 0, vec![kvs("err", spawn_err_kind(&e))]),
            Ok((aref, join)) => {
                {
                    let mut g = w.lock().unwrap();
                    g.pids.insert(aref.get_id().pid(), x.clone());
                    g.cells[idx] = Some(aref.get_cell());
                    g.spawner_abort[idx] = Some(join.abort_handle());
                }
                obs("obs.spawn_ret", &x, 1, vec![]);
                match join.await {
                    Ok(Ok(h)) => {
                        {
                            let mut g = w.lock().unwrap();
                            g.loop_abort[idx] = Some(h.abort_handle());
                            g.loops[idx] = Some(h);
                        }
                        obs("obs.start_ret", &x, 1, vec![kvs("err", "")]);
                    }
                    Ok(Err(e)) => obs("obs.start_ret", &x, 0, vec![kvs("err", spawn_err_kind(&e))]),
                    Err(_) => obs("obs.start_ret", &x, 0, vec![kvs("err", "join_error")]),
                }
            }
        }
    } else {
        let r = match sup_cell {
            Some(sc) => LocalScriptActor::spawn_linked(tname, cfg, sc, spawner).await,
            None => LocalScriptActor::spawn(tname, cfg, spawner).await,
        };
        match r {
            Ok((aref, h)) => {
                let mut g = w.lock().unwrap();
                g.pids.insert(aref.get_id().pid(), x.clone());
                g.cells[idx] = Some(aref.get_cell());
                g.loop_abort[idx] = Some(h.abort_handle());
                g.loops[idx] = Some(h);
                drop(g);
                obs("obs.start_ret", &x, 1, vec![kvs("err", "")]);
            }
            Err(e) => obs("obs.start_ret", &x, 0, vec![kvs("err", spawn_err_kind(&e))]),
        }
    }
}

pub async fn client(sc: Arc<Scenario>, w: W, ops: Vec<COp>, run_tag: String) {
    for op in ops {
        yield_once().await;
        match op {
            COp::Pause => {}
            COp::Spawn(i) => {
                if sc.actors[i].helper && !sc.actors[i].instant {
                    let (sc2, w2, tag2) = (sc.clone(), w.clone(), run_tag.clone());
                    let h = ractor::concurrency::spawn_named(Some(&format!("sp:{}@{}", sc.actors[i].name, run_tag)), async move {
                        do_spawn(sc2, w2, i, tag2).await;
                    });
                    w.lock().unwrap().spawner_abort[i] = Some(h.abort_handle());
                } else {
                    do_spawn(sc.clone(), w.clone(), i, run_tag.clone()).await;
                }
            }
            COp::Send(i) => {
                let cell = w.lock().unwrap().cells[i].clone();
                if let Some(c) = cell {
                    let n = {
                        let mut g = w.lock().unwrap();
                        g.nsent[i] += 1;
                        g.nsent[i]
                    };
                    let r = c.send_message(LMsg(n));
                    obs("obs.send", &sc.actors[i].name, i64::from(r.is_ok()), vec![kvi("m", n as i64)]);
                }
            }
            COp::Kill(i) => {
                let cell = w.lock().unwrap().cells[i].clone();
                if let Some(c) = cell {
                    c.kill();
                    obs("obs.kill", &sc.actors[i].name, 0, vec![]);
                }
            }
            COp::Stop(i) => {
                let cell = w.lock().unwrap().cells[i].clone();
                if let Some(c) = cell {
                    c.stop(Some("r".into()));
                    obs("obs.stop", &sc.actors[i].name, 0, vec![kvs("reason", "r")]);
                }
            }
            COp::Drain(i) => {
                let cell = w.lock().unwrap().cells[i].clone();
                if let Some(c) = cell {
                    let _ = c.drain();
                    obs("obs.drain", &sc.actors[i].name, 0, vec![]);
                }
            }
            COp::StopKids(i) => {
                let cell = w.lock().unwrap().cells[i].clone();
                if let Some(c) = cell {
                    c.stop_children(Some("r".into()));
                    obs("obs.stop_kids", &sc.actors[i].name, 0, vec![kvs("reason", "r")]);
                }
            }
            COp::DrainKids(i) => {
                let cell = w.lock().unwrap().cells[i].clone();
                if let Some(c) = cell {
                    c.drain_children();
                    obs("obs.drain_kids", &sc.actors[i].name, 0, vec![]);
                }
            }
            COp::StopKidsWait(i) | COp::DrainKidsWait(i) => {
                let cell = w.lock().unwrap().cells[i].clone();
                if let Some(c) = cell {
                    let stop = matches!(op, COp::StopKidsWait(_));
                    // the children of the moment, by their scenario names
                    let kid_ids: Vec<ractor::ActorId> = c.get_children().iter().map(|k| k.get_id()).collect();
                    let names: Vec<String> = {
                        let g = w.lock().unwrap();
                        g.cells.iter().enumerate().filter_map(|(j, k)| k.as_ref().filter(|k| kid_ids.contains(&k.get_id())).map(|_| sc.actors[j].name.clone())).collect()
                    };
                    for n in &names {
                        obs("obs.kid_intent", n, 0, vec![kvs("op", if stop { "stop" } else { "drain" })]);
                    }
                    if stop {
                        c.stop_children_and_wait(Some("r".into()), None).await;
                    } else {
                        c.drain_children_and_wait(None).await;
                    }
                    for n in &names {
                        obs("obs.kid_waited", n, 0, vec![]);
                    }
                }
            }
            COp::Inject(i) => {
                let cell = w.lock().unwrap().cells[i].clone();
                if let Some(c) = cell {
                    let ok = verif::inject_supervision(
                        &c,
                        SupervisionEvent::ProcessGroupChanged(ractor::pg::GroupChangeMessage::Join("verif".into(), "inject".into(), vec![])),
                    );
                    obs("obs.inject", &sc.actors[i].name, i64::from(ok), vec![]);
                }
            }
            COp::AbortLoop(i) => {
                let g = w.lock().unwrap();
                if let Some(h) = g.loop_abort[i].as_ref() {
                    if !h.is_finished() {
                        obs("obs.abort", &sc.actors[i].name, 0, vec![kvs("role", "loop")]);
                        h.abort();
                    }
                }
            }
            COp::AbortSpawner(i) => {
                let g = w.lock().unwrap();
                if let Some(h) = g.spawner_abort[i].as_ref() {
                    if !h.is_finished() {
                        obs("obs.abort", &sc.actors[i].name, 0, vec![kvs("role", "spawner")]);
                        h.abort();
                    }
                }
            }
            COp::Monitor(m, i) | COp::Unmonitor(m, i) => {
                let (mc, tc) = {
                    let g = w.lock().unwrap();
                    (g.cells[m].clone(), g.cells[i].clone())
                };
                if let (Some(mc), Some(tc)) = (mc, tc) {
                    if matches!(op, COp::Monitor(..)) {
                        mc.monitor(tc);
                        obs("obs.monitor", &sc.actors[i].name, 0, vec![kvs("by", &sc.actors[m].name)]);
                    } else {
                        mc.unmonitor(tc);
                        obs("obs.unmonitor", &sc.actors[i].name, 0, vec![kvs("by", &sc.actors[m].name)]);
                    }
                }
            }
            COp::SpawnClash(i) => {
                // only contend for a name whose owner has been created (never pre-empt the real spawn)
                if w.lock().unwrap().cells[i].is_none() {
                    continue;
                }
                let name = format!("{}@{}", sc.actors[i].name, run_tag);
                let other = ScriptActor { idx: i, name: "clash".into(), script: Script::default(), world: Arc::new(Mutex::new(World::default())) };
                // spawn_instant: the name registration (the part under test) is synchronous
                match ractor::ActorRuntime::spawn_instant(Some(name), other, ()) {
                    Err(SpawnErr::ActorAlreadyRegistered(_)) => obs("obs.clash", &sc.actors[i].name, 1, vec![]),
                    Err(_) => obs("obs.clash", &sc.actors[i].name, 2, vec![]),
                    Ok((aref, _join)) => {
                        // the name was free: remove the stray actor again before anything else happens
                        obs("obs.clash", &sc.actors[i].name, 0, vec![]);
                        aref.kill();
                        let _ = aref.wait(None).await;
                        obs("obs.clash_done", &sc.actors[i].name, 0, vec![]);
                    }
                }
            }
            COp::Status(i) => {
                let cell = w.lock().unwrap().cells[i].clone();
                if let Some(c) = cell {
                    obs("obs.status", &sc.actors[i].name, c.get_status() as i64, vec![]);
                }
            }
            COp::Join(i) => {
                let h = w.lock().unwrap().loops[i].take();
                if let Some(h) = h {
                    obs("obs.join_begin", &sc.actors[i].name, 0, vec![]);
                    let r = h.await;
                    let kind = match &r {
                        Ok(()) => "ok",
                        Err(e) if e.is_cancelled() => "cancelled",
                        Err(_) => "panic",
                    };
                    obs("obs.join_ret", &sc.actors[i].name, 0, vec![kvs("r", kind)]);
                }
            }
        }
    }
}

const KEEP: &[&str] = &[
    "obs.cb_enter", "obs.cb_exit", "obs.tick", "obs.yield", "obs.resume", "obs.send", "obs.kill", "obs.stop", "obs.drain", "obs.stop_kids", "obs.drain_kids", "obs.kid_intent", "obs.kid_waited",
    "obs.inject", "obs.abort", "obs.monitor", "obs.unmonitor", "obs.joinpg", "obs.clash", "obs.clash_done", "obs.status", "obs.join_begin", "obs.join_ret", "obs.spawn_call", "obs.spawn_ret", "obs.start_ret",
    "port.stop", "port.sup", "port.msg", "port.drain", "sig.handled", "guard.cleanup", "guard.done", "task.dropped",
    "decode.dropped", "obs.end", "task.panicked", "tl.start",
];

static RUN_SEQ: std::sync::atomic::AtomicU64 = std::sync::atomic::AtomicU64::new(0);

pub fn one_run(sc: &Scenario, ex: &mut Explorer, gen: Value) -> (Vec<Value>, Value, bool) {
    let sc = Arc::new(sc.clone());
    let n = sc.actors.len();
    let w: W = Arc::new(Mutex::new(World {
        cells: vec![None; n],
        loops: (0..n).map(|_| None).collect(),
        loop_abort: (0..n).map(|_| None).collect(),
        spawner_abort: (0..n).map(|_| None).collect(),
        nsent: vec![0; n],
        pids: HashMap::new(),
        spawner: None,
        spawning: 0,
        run_tag: String::new(),
    }));
    let run_tag = format!("r{}", RUN_SEQ.fetch_add(1, std::sync::atomic::Ordering::SeqCst));
    w.lock().unwrap().run_tag = run_tag.clone();
    let (sc2, w2, tag2) = (sc.clone(), w.clone(), run_tag.clone());
    let fin: Arc<Mutex<Vec<Value>>> = Arc::new(Mutex::new(vec![]));
    let (fin2, w4, sc4) = (fin.clone(), w.clone(), sc.clone());
    let has_local = sc.actors.iter().any(|a| a.name == "L");
    let setup = move || async move {
            for (ci, ops) in sc2.clients.iter().enumerate() {
                let (s3, w3, t3) = (sc2.clone(), w2.clone(), tag2.clone());
                let ops = ops.clone();
                let _ = ractor::concurrency::spawn_named(Some(&format!("client{ci}")), client(s3, w3, ops, t3));
            }
    };
    let at_end = move || {
            // final observation: status and links of every actor the scenario got hold of
            let g = w4.lock().unwrap();
            let mut f = fin2.lock().unwrap();
            for (i, c) in g.cells.iter().enumerate() {
                if let Some(c) = c {
                    let reg = c.get_name().and_then(ractor::registry::where_is).map(|h| h.get_id() == c.get_id()).unwrap_or(false);
                    let pg = ractor::pg::get_members(&format!("g@{}", g.run_tag)).iter().any(|m| m.get_id() == c.get_id());
                    f.push(json!({"x": sc4.actors[i].name, "st": c.get_status() as i64,
                                  "kids": c.get_children().len(), "sup": c.try_get_supervisor().is_some(), "reg": reg, "named": c.get_name().is_some(), "pg": pg}));
                }
            }
    };
    let run = if has_local {
        // thread-local actors run on the spawner's thread: real clock, settled = no spawn call in flight
        let w5 = w.clone();
        let r = crate::tdrv::run_t_real(ex, 3000, 25, setup, at_end, move || w5.lock().unwrap().spawning == 0);
        // let the thread-local leftovers wind down (the scheduler is removed: they run freely now)
        let cells: Vec<ActorCell> = w.lock().unwrap().cells.iter().flatten().cloned().collect();
        for c in cells {
            c.kill();
        }
        w.lock().unwrap().spawner = None;
        r
    } else {
        run_t(ex, 3000, 0, &mut NoBetween, setup, at_end)
    };
    // map: task id -> (actor, role) from task.new names; pid -> actor name
    let mut names = Names::default();
    let g = w.lock().unwrap();
    for (pid, name) in g.pids.iter() {
        names.pid.insert(*pid, name.clone());
    }
    let mut task_role: HashMap<u64, (String, String)> = HashMap::new();
    let mut seen_named: HashMap<String, u32> = HashMap::new();
    for e in &run.events {
        if e.a == "task.new" {
            let nm = e.kv.iter().find(|(k, _)| k == "name").and_then(|(_, v)| if let Val::S(s) = v { Some(s.clone()) } else { None }).unwrap_or_default();
            if let Some(rest) = nm.strip_prefix("sp:") {
                let actor = rest.split('@').next().unwrap_or("").to_string();
                task_role.insert(e.obj, (actor, "spawner".into()));
            } else if nm.contains('@') {
                let actor = nm.split('@').next().unwrap_or("").to_string();
                let idx = sc.actors.iter().position(|a| a.name == actor);
                let cnt = seen_named.entry(actor.clone()).or_insert(0);
                *cnt += 1;
                let instant = idx.map(|i| sc.actors[i].instant).unwrap_or(false);
                let role = if instant && *cnt == 1 { "spawner" } else { "loop" };
                task_role.insert(e.obj, (actor, role.into()));
            }
        }
    }
    // an internal event about a pid the harness has not learned yet (thread-local start before
    // pre_start ran) belongs to the actor whose spawn call the same task just announced
    let mut last_spawn_call: HashMap<String, String> = HashMap::new();
    for e in &run.events {
        if e.a == "obs.spawn_call" {
            if let Some((_, Val::S(x))) = e.kv.iter().find(|(k, _)| k == "x") {
                last_spawn_call.insert(e.who.clone(), x.clone());
            }
        } else if e.a == "obs.start_ret" {
            last_spawn_call.remove(&e.who);
        } else if (e.a == "tl.start" || e.a == "guard.cleanup") && !names.pid.contains_key(&e.obj) {
            if let Some(x) = last_spawn_call.get(&e.who) {
                names.pid.insert(e.obj, x.clone());
            }
        }
    }
    let mut evs: Vec<Value> = vec![];
    for e in &run.events {
        if !KEEP.contains(&e.a.as_str()) {
            continue;
        }
        let mut j = ev_json(e, &names);
        let o = j.as_object_mut().unwrap();
        if e.a == "task.dropped" || e.a == "task.panicked" {
            match task_role.get(&e.obj) {
                Some((actor, role)) => {
                    o.insert("a".into(), json!(if e.a == "task.dropped" { "obs.task_dropped" } else { "obs.task_panicked" }));
                    o.insert("x".into(), json!(actor));
                    o.insert("role".into(), json!(role));
                }
                None => continue,
            }
        } else if !o.contains_key("x") {
            let x = names.pid.get(&e.obj).cloned();
            match x {
                Some(x) => {
                    o.insert("x".into(), json!(x));
                }
                None => continue, // an actor outside this scenario
            }
        }
        evs.push(j);
    }
    let fin = fin.lock().unwrap().clone();
    evs.push(json!({"a": "obs.end", "who": "drv", "obj": "", "d": 0, "t": 0, "x": "", "fin": fin, "q": i64::from(run.quiescent)}));
    let bad = !run.quiescent;
    let meta = json!({"family": "lifecycle", "scenario": format!("{:?}", sc), "sched": ex.sched, "steps": run.steps,
                      "quiescent": run.quiescent, "gen": gen});
    drop(g);
    (evs, meta, bad)
}

// ------------------------------------------------------------------------------------------------
// scenario generation
// ------------------------------------------------------------------------------------------------
fn rand_ops(rng: &mut Rng, allow_fail: bool, selfops: bool) -> Vec<Op> {
    let mut v = vec![];
    let n = rng.below(3);
    if rng.chance(1, 5) {
        v.push(Op::JoinPg);
    }
    for _ in 0..n {
        let c = rng.below(if selfops { 7 } else { 4 });
        v.push(match c {
            0 | 1 => Op::Tick,
            2 | 3 => Op::Yield,
            4 => Op::SendSelf,
            5 => Op::KillSelf,
            _ => Op::StopSelf,
        });
    }
    if allow_fail && rng.chance(1, 6) {
        v.push(if rng.chance(1, 2) { Op::Err } else { Op::Panic });
    } else if rng.chance(1, 3) {
        v.push(Op::Tick);
    }
    v
}

pub fn rand_scenario(rng: &mut Rng) -> Scenario {
    rand_scenario_flavour(rng, false)
}

pub fn rand_scenario_flavour(rng: &mut Rng, local: bool) -> Scenario {
    // S supervises A; sometimes B under A
    let three = rng.chance(1, 4);
    let mk_script = |rng: &mut Rng, fail: bool, selfops: bool| Script {
        pre: rand_ops(rng, fail, false),
        post: rand_ops(rng, fail, selfops),
        handle: (0..2).map(|_| rand_ops(rng, fail, selfops)).collect(),
        sup: rand_ops(rng, false, false),
        pstop: rand_ops(rng, fail, false),
    };
    let mut actors = vec![
        ActorSpec { name: "S".into(), sup: None, instant: false, helper: false, script: Script { sup: vec![Op::Tick], ..Default::default() } },
        ActorSpec { name: "A".into(), sup: Some(0), instant: rng.chance(1, 3), helper: rng.chance(1, 3), script: mk_script(rng, true, true) },
    ];
    if local {
        // the child under test is a native thread-local actor
        actors[1].name = "L".into();
    }
    let three = three && !local;
    if three {
        actors.push(ActorSpec { name: "B".into(), sup: Some(1), instant: rng.chance(1, 4), helper: false, script: { let f = rng.chance(1, 3); mk_script(rng, f, false) } });
    }
    let with_mon = rng.chance(1, 3);
    let mon_idx = actors.len();
    if with_mon {
        actors.push(ActorSpec { name: "M".into(), sup: None, instant: false, helper: false, script: Script { sup: vec![Op::Tick], ..Default::default() } });
    }
    let mut c0 = vec![COp::Spawn(0)];
    if with_mon {
        c0.push(COp::Spawn(mon_idx));
    }
    c0.push(COp::Spawn(1));
    if with_mon {
        c0.push(COp::Monitor(mon_idx, 1));
    }
    if three {
        c0.push(COp::Spawn(2));
        if with_mon && rng.chance(1, 2) {
            c0.push(COp::Monitor(mon_idx, 2));
        }
    }
    for _ in 0..rng.below(3) {
        c0.push(COp::Send(1));
    }
    c0.push(COp::Status(1));
    c0.push(COp::Join(1));
    c0.push(COp::Status(1));
    let mut clients = vec![c0];
    // disturbers
    let mut c1 = vec![];
    let nd = 1 + rng.below(3);
    for _ in 0..nd {
        let tgt = if three && rng.chance(1, 4) { 2 } else if rng.chance(1, 8) { 0 } else { 1 };
        c1.push(match rng.below(10) {
            9 => {
                if rng.chance(1, 2) {
                    COp::SpawnClash(tgt)
                } else if rng.chance(1, 2) {
                    COp::StopKids(0)
                } else {
                    COp::DrainKids(0)
                }
            }
            0 | 1 => COp::Kill(tgt),
            2 | 3 => COp::Stop(tgt),
            4 => COp::Drain(tgt),
            5 => COp::Inject(1),
            6 => COp::AbortLoop(tgt),
            7 => COp::AbortSpawner(1),
            _ => COp::Send(1),
        });
        if rng.chance(1, 2) {
            c1.push(COp::Pause);
        }
    }
    clients.push(c1);
    if rng.chance(1, 2) {
        let mut c2 = vec![COp::Pause];
        for _ in 0..(1 + rng.below(2)) {
            c2.push(match rng.below(if with_mon { 6 } else { 4 }) {
                0 => COp::Send(1),
                1 => COp::Inject(1),
                2 => COp::Status(1),
                3 => COp::Stop(1),
                4 => COp::Unmonitor(mon_idx, 1),
                _ => COp::Monitor(mon_idx, 1),
            });
        }
        clients.push(c2);
    }
    Scenario { actors, clients }
}

/// Hand-written micro-scenarios explored exhaustively (bounded DFS)
pub fn micro_scenarios() -> Vec<Scenario> {
    let s = |sup: Vec<Op>| ActorSpec { name: "S".into(), sup: None, instant: false, helper: false, script: Script { sup, ..Default::default() } };
    let a = |script: Script, instant: bool, helper: bool| ActorSpec { name: "A".into(), sup: Some(0), instant, helper, script };
    let y = || vec![Op::Tick, Op::Yield, Op::Tick];
    vec![
        // kill vs stop vs message, handler that yields
        Scenario {
            actors: vec![s(vec![Op::Tick]), a(Script { handle: vec![y()], pstop: vec![Op::Tick], ..Default::default() }, false, false)],
            clients: vec![vec![COp::Spawn(0), COp::Spawn(1), COp::Send(1), COp::Send(1), COp::Join(1)], vec![COp::Stop(1)], vec![COp::Kill(1)]],
        },
        // drain vs messages, post_stop yields, kill during post_stop
        Scenario {
            actors: vec![s(vec![]), a(Script { handle: vec![vec![Op::Tick]], pstop: y(), ..Default::default() }, false, false)],
            clients: vec![vec![COp::Spawn(0), COp::Spawn(1), COp::Send(1), COp::Drain(1), COp::Send(1), COp::Join(1)], vec![COp::Pause, COp::Kill(1)]],
        },
        // abort of the spawner helper during pre_start, and of the loop task
        Scenario {
            actors: vec![s(vec![Op::Tick]), a(Script { pre: y(), post: y(), handle: vec![y()], ..Default::default() }, false, true)],
            clients: vec![vec![COp::Spawn(0), COp::Spawn(1), COp::Pause, COp::Send(1), COp::Status(1)], vec![COp::AbortSpawner(1), COp::AbortLoop(1)]],
        },
        // instant spawn, kill / drain before start
        Scenario {
            actors: vec![s(vec![]), a(Script { pre: y(), handle: vec![vec![Op::Tick]], ..Default::default() }, true, false)],
            clients: vec![vec![COp::Spawn(0), COp::Spawn(1), COp::Status(1)], vec![COp::Pause, COp::Send(1), COp::Kill(1)], vec![COp::Pause, COp::Drain(1)]],
        },
        // failures in each callback with supervision, injected events before messages
        Scenario {
            actors: vec![s(vec![Op::Tick]), a(Script { post: vec![Op::Tick], handle: vec![vec![Op::Tick], vec![Op::Panic]], sup: vec![Op::Yield], pstop: vec![Op::Err], ..Default::default() }, false, false)],
            clients: vec![vec![COp::Spawn(0), COp::Spawn(1), COp::Send(1), COp::Inject(1), COp::Send(1), COp::Join(1)], vec![COp::Inject(1), COp::Stop(1)]],
        },
        // a monitor next to the supervisor: every exit cause, one terminal copy each
        Scenario {
            actors: vec![
                s(vec![Op::Tick]),
                a(Script { handle: vec![vec![Op::Tick], vec![Op::Err]], pstop: vec![Op::Tick], ..Default::default() }, false, false),
                ActorSpec { name: "M".into(), sup: None, instant: false, helper: false, script: Script { sup: vec![Op::Tick], ..Default::default() } },
            ],
            clients: vec![
                vec![COp::Spawn(0), COp::Spawn(2), COp::Spawn(1), COp::Monitor(2, 1), COp::Send(1), COp::Join(1)],
                vec![COp::Pause, COp::Stop(1)],
                vec![COp::Pause, COp::Send(1), COp::AbortLoop(1)],
            ],
        },
        // stop_children / drain_children of the supervisor against the children's own messages
        Scenario {
            actors: vec![
                s(vec![Op::Tick]),
                a(Script { handle: vec![y()], pstop: vec![Op::Tick], ..Default::default() }, false, false),
                ActorSpec { name: "C".into(), sup: Some(0), instant: false, helper: false, script: Script { handle: vec![vec![Op::Tick]], ..Default::default() } },
            ],
            clients: vec![
                vec![COp::Spawn(0), COp::Spawn(1), COp::Spawn(2), COp::Send(1), COp::Send(2), COp::Send(1), COp::Join(1), COp::Join(2)],
                vec![COp::Pause, COp::StopKids(0)],
            ],
        },
        Scenario {
            actors: vec![
                s(vec![Op::Tick]),
                a(Script { handle: vec![y()], pstop: y(), ..Default::default() }, false, false),
                ActorSpec { name: "C".into(), sup: Some(0), instant: false, helper: false, script: Script { handle: vec![vec![Op::Tick]], ..Default::default() } },
            ],
            clients: vec![
                vec![COp::Spawn(0), COp::Spawn(1), COp::Spawn(2), COp::Send(1), COp::Send(2), COp::Send(1), COp::Join(1), COp::Join(2)],
                vec![COp::Pause, COp::DrainKids(0), COp::Send(1), COp::Send(2)],
                vec![COp::Pause, COp::Pause, COp::Stop(2)],
            ],
        },
        // stop_children_and_wait / drain_children_and_wait: return only after every child of the moment has fully stopped
        Scenario {
            actors: vec![
                s(vec![Op::Tick]),
                a(Script { handle: vec![y()], pstop: y(), ..Default::default() }, false, false),
                ActorSpec { name: "C".into(), sup: Some(0), instant: false, helper: false, script: Script { handle: vec![vec![Op::Tick]], pstop: vec![Op::Yield], ..Default::default() } },
            ],
            clients: vec![
                vec![COp::Spawn(0), COp::Spawn(1), COp::Spawn(2), COp::Send(1), COp::Send(2), COp::StopKidsWait(0), COp::Status(1), COp::Status(2)],
                vec![COp::Pause, COp::Send(1), COp::Send(2)],
            ],
        },
        Scenario {
            actors: vec![
                s(vec![Op::Tick]),
                a(Script { handle: vec![y()], pstop: vec![Op::Tick], ..Default::default() }, false, false),
                ActorSpec { name: "C".into(), sup: Some(0), instant: false, helper: false, script: Script { handle: vec![vec![Op::Tick]], ..Default::default() } },
            ],
            clients: vec![
                vec![COp::Spawn(0), COp::Spawn(1), COp::Spawn(2), COp::Send(1), COp::Send(2), COp::Send(1), COp::DrainKidsWait(0), COp::Status(1), COp::Status(2)],
                vec![COp::Pause, COp::Pause, COp::Kill(2)],
            ],
        },
        // abort of the loop task before its first poll, and right after post_start
        Scenario {
            actors: vec![s(vec![Op::Tick]), a(Script { post: vec![Op::Tick], ..Default::default() }, false, false)],
            clients: vec![vec![COp::Spawn(0), COp::Spawn(1), COp::AbortLoop(1), COp::Join(1)], vec![COp::Pause, COp::Status(1)]],
        },
        // C08: pre_start joins a group then fails or is killed; the name is contended during and after
        Scenario {
            actors: vec![s(vec![Op::Tick]), a(Script { pre: vec![Op::JoinPg, Op::Yield, Op::Err], ..Default::default() }, true, false)],
            clients: vec![vec![COp::Spawn(0), COp::Spawn(1), COp::SpawnClash(1), COp::Status(1)], vec![COp::Pause, COp::Kill(1), COp::SpawnClash(1)]],
        },
        // supervisor dies while the child starts (link refused / swept)
        Scenario {
            actors: vec![s(vec![]), a(Script { pre: y(), post: y(), ..Default::default() }, false, true)],
            clients: vec![vec![COp::Spawn(0), COp::Spawn(1), COp::Pause, COp::Status(1)], vec![COp::Pause, COp::Kill(0)], vec![COp::Pause, COp::Pause, COp::Status(1)]],
        },
    ]
}

/// micro-scenarios with a thread-local child "L" (real clock: each run costs a few idle graces)
pub fn micro_local() -> Vec<Scenario> {
    let s = |sup: Vec<Op>| ActorSpec { name: "S".into(), sup: None, instant: false, helper: false, script: Script { sup, ..Default::default() } };
    let l = |script: Script, instant: bool, helper: bool| ActorSpec { name: "L".into(), sup: Some(0), instant, helper, script };
    let y = || vec![Op::Tick, Op::Yield, Op::Tick];
    vec![
        // failing start under a supervisor: Err, panic, kill during pre_start, spawner dropped
        Scenario { actors: vec![s(vec![Op::Tick]), l(Script { pre: vec![Op::Tick, Op::Err], ..Default::default() }, false, false)],
                   clients: vec![vec![COp::Spawn(0), COp::Spawn(1), COp::Status(0)]] },
        Scenario { actors: vec![s(vec![Op::Tick]), l(Script { pre: vec![Op::Yield, Op::Panic], ..Default::default() }, false, false)],
                   clients: vec![vec![COp::Spawn(0), COp::Spawn(1), COp::Status(0)]] },
        Scenario { actors: vec![s(vec![Op::Tick]), l(Script { pre: y(), post: y(), ..Default::default() }, true, false)],
                   clients: vec![vec![COp::Spawn(0), COp::Spawn(1), COp::Status(1)], vec![COp::Pause, COp::Kill(1)]] },
        Scenario { actors: vec![s(vec![Op::Tick]), l(Script { pre: y(), ..Default::default() }, false, true)],
                   clients: vec![vec![COp::Spawn(0), COp::Spawn(1), COp::Pause, COp::Status(0)], vec![COp::Pause, COp::AbortSpawner(1)]] },
        // failures after start: post_start Err, handler panic, post_stop Err; stop / kill / drain
        Scenario { actors: vec![s(vec![Op::Tick]), l(Script { post: vec![Op::Tick, Op::Err], handle: vec![vec![Op::Tick]], ..Default::default() }, false, false)],
                   clients: vec![vec![COp::Spawn(0), COp::Spawn(1), COp::Send(1), COp::Send(1), COp::Stop(1), COp::Join(1)]] },
        Scenario { actors: vec![s(vec![Op::Tick]), l(Script { handle: vec![y(), vec![Op::Panic]], pstop: vec![Op::Tick], ..Default::default() }, false, false)],
                   clients: vec![vec![COp::Spawn(0), COp::Spawn(1), COp::Send(1), COp::Send(1), COp::Join(1)], vec![COp::Pause, COp::Stop(1)], vec![COp::Pause, COp::Kill(1)]] },
        Scenario { actors: vec![s(vec![Op::Tick]), l(Script { handle: vec![vec![Op::Tick]], pstop: vec![Op::Yield, Op::Err], ..Default::default() }, false, false)],
                   clients: vec![vec![COp::Spawn(0), COp::Spawn(1), COp::Send(1), COp::Drain(1), COp::Join(1)], vec![COp::Pause, COp::AbortLoop(1)]] },
    ]
}

pub fn batch(out: &str, tier: &str, seed: u64) -> Value {
    let mut b = Batch::new(Some(out));
    let (dfs_cap, nrand, per) = if tier == "thorough" { (4000usize, 6000usize, 3usize) } else { (250usize, 700usize, 2usize) };
    let mut nontrivial = std::collections::HashSet::new();
    let mut bad_runs = 0u64;
    for (mi, sc) in micro_scenarios().into_iter().enumerate() {
        let mut ex = Explorer::new(Mode::Dfs { preempt_bound: Some(2) }, seed);
        let mut n = 0;
        loop {
            ex.begin_run();
            let (evs, meta, bad) = one_run(&sc, &mut ex, json!({"kind": "micro", "idx": mi}));
            let h = b.run(meta, &evs);
            if ex.nontrivial {
                nontrivial.insert(h);
            }
            if bad {
                bad_runs += 1;
            }
            n += 1;
            if !ex.end_run() || n >= dfs_cap {
                break;
            }
        }
    }
    // thread-local flavour: micro-scenarios (capped DFS) and random ones
    let (lcap, lrand) = if tier == "thorough" { (150usize, 400usize) } else { (25usize, 60usize) };
    for (mi, sc) in micro_local().into_iter().enumerate() {
        let mut ex = Explorer::new(Mode::Dfs { preempt_bound: Some(2) }, seed);
        let mut n = 0;
        loop {
            ex.begin_run();
            let (evs, meta, bad) = one_run(&sc, &mut ex, json!({"kind": "micro_local", "idx": mi}));
            let h = b.run(meta, &evs);
            if ex.nontrivial {
                nontrivial.insert(h);
            }
            if bad {
                bad_runs += 1;
            }
            n += 1;
            if !ex.end_run() || n >= lcap {
                break;
            }
        }
    }
    let mut lrng = Rng(seed ^ 0x6c6f63);
    for _ in 0..lrand {
        let gen_state = lrng.0;
        let sc = rand_scenario_flavour(&mut lrng, true);
        let mut ex = Explorer::new(Mode::Random, lrng.next());
        ex.begin_run();
        let (evs, meta, bad) = one_run(&sc, &mut ex, json!({"kind": "rand_local", "state": gen_state.to_string()}));
        let h = b.run(meta, &evs);
        if ex.nontrivial {
            nontrivial.insert(h);
        }
        if bad {
            bad_runs += 1;
        }
    }
    let mut rng = Rng(seed ^ 0x6c696665);
    for _ in 0..nrand {
        let gen_state = rng.0;
        let sc = rand_scenario(&mut rng);
        let mut ex = Explorer::new(Mode::Random, rng.next());
        for _ in 0..per {
            ex.begin_run();
            let (evs, meta, bad) = one_run(&sc, &mut ex, json!({"kind": "rand", "state": gen_state.to_string()}));
            let h = b.run(meta, &evs);
            if ex.nontrivial {
                nontrivial.insert(h);
            }
            if bad {
                bad_runs += 1;
            }
        }
    }
    b.finish();
    json!({"family": "lifecycle", "runs": b.runs, "events": b.events, "distinct": b.hashes.len(),
           "distinct_nontrivial": nontrivial.len(), "bad_runs": bad_runs, "samples": b.samples})
}

pub fn dispatch(cmd: &str, a: &std::collections::HashMap<String, String>) -> Option<Value> {
    let (out, tier, seed) = crate::common(a);
    match cmd {
        "lifecycle" => Some(batch(&out, &tier, seed)),
        "lifecycle-replay" => {
            // re-execute one recorded (scenario, schedule): --gen '{"kind":..}' --sched '[..]'
            let gen: Value = serde_json::from_str(a.get("gen").map(|s| s.as_str()).unwrap_or("{}")).unwrap_or(json!({}));
            let sched: Vec<usize> = serde_json::from_str(a.get("sched").map(|s| s.as_str()).unwrap_or("[]")).unwrap_or_default();
            let sc = match gen.get("kind").and_then(|k| k.as_str()) {
                Some("micro") => micro_scenarios().into_iter().nth(gen["idx"].as_u64().unwrap_or(0) as usize),
                Some("rand") => gen["state"].as_str().and_then(|s| s.parse::<u64>().ok()).map(|st| rand_scenario(&mut Rng(st))),
                Some("rand_local") => gen["state"].as_str().and_then(|s| s.parse::<u64>().ok()).map(|st| rand_scenario_flavour(&mut Rng(st), true)),
                Some("micro_local") => micro_local().into_iter().nth(gen["idx"].as_u64().unwrap_or(0) as usize),
                _ => None,
            };
            let Some(sc) = sc else { return Some(json!({"runs": 0, "error": "unknown generator"})) };
            let mut b = Batch::new(Some(&out));
            let mut ex = Explorer::new(Mode::Replay(sched), 0);
            ex.begin_run();
            let (evs, meta, _bad) = one_run(&sc, &mut ex, gen.clone());
            b.run(meta, &evs);
            b.finish();
            Some(json!({"runs": 1}))
        }
        _ => None,
    }
}
