//! Family `pg` (C11): threads calling the public process-group API (and the exit sequence) on
//! detached cells, engine H. Every run uses fresh scope/group names; the global pg state is
//! compared with the specification through `pg::verif_snapshot` and the six query functions.
use crate::explore::{Explorer, Mode};
use crate::trace::{ev_json, Batch, Names, Rng};
use ractor::pg;
use ractor::verif::{self, Detached, TState, Val};
use ractor::{Actor, ActorCell, ActorId, ActorProcessingErr, ActorRef, ActorStatus, SupervisionEvent};
use serde_json::{json, Map, Value};
use std::collections::HashMap;
use std::sync::atomic::{AtomicU64, Ordering};
use std::sync::{Arc, Mutex};

pub struct Dummy;
#[cfg_attr(feature = "asynctrait", ractor::async_trait)]
impl Actor for Dummy {
    type Msg = ();
    type State = ();
    type Arguments = ();
    async fn pre_start(&self, _: ActorRef<()>, _: ()) -> Result<(), ActorProcessingErr> {
        Ok(())
    }
}

/// One call of a scenario thread. Scopes: "d" (default scope), "s1" (a fresh scope), "ALL" (the
/// all-scopes sentinel, monitors only). Groups: "g1", "g2". Actors: indices 0..3 = a1..a3.
#[derive(Clone, Debug, PartialEq)]
pub enum Op {
    Join(&'static str, &'static str, Vec<usize>),
    Leave(&'static str, &'static str, Vec<usize>),
    Mon(&'static str, usize),
    Demon(&'static str, usize),
    SMon(&'static str, usize),
    SDemon(&'static str, usize),
    Exit(usize),
    Query(&'static str, &'static str),
}

#[derive(Clone, Debug)]
pub struct Shape {
    pub name: String,
    /// initial status of a1..a3 (2 running, 4 draining, 6 stopped)
    pub st0: [u8; 3],
    pub threads: Vec<Vec<Op>>,
    /// take a snapshot of the four indexes after every step
    pub snap: bool,
}

const NACT: usize = 3;
const SCOPES: [&str; 3] = ["d", "s1", "ALL"];
const GROUPS: [&str; 2] = ["g1", "g2"];

fn intern_scope(s: &str) -> &'static str {
    SCOPES.iter().copied().find(|x| *x == s).unwrap_or("d")
}
fn intern_group(s: &str) -> &'static str {
    GROUPS.iter().copied().find(|x| *x == s).unwrap_or("g1")
}

impl Op {
    fn to_json(&self) -> Value {
        match self {
            Op::Join(s, g, a) => json!(["join", s, g, a]),
            Op::Leave(s, g, a) => json!(["leave", s, g, a]),
            Op::Mon(g, a) => json!(["mon", "d", g, [a]]),
            Op::Demon(g, a) => json!(["demon", "d", g, [a]]),
            Op::SMon(s, a) => json!(["smon", s, "*", [a]]),
            Op::SDemon(s, a) => json!(["sdemon", s, "*", [a]]),
            Op::Exit(a) => json!(["exit", "", "", [a]]),
            Op::Query(s, g) => json!(["query", s, g, []]),
        }
    }
    fn from_json(v: &Value) -> Option<Op> {
        let k = v.get(0)?.as_str()?;
        let s = intern_scope(v.get(1)?.as_str()?);
        let g = intern_group(v.get(2)?.as_str()?);
        let a: Vec<usize> = v.get(3)?.as_array()?.iter().filter_map(|x| x.as_u64()).map(|x| x as usize).collect();
        Some(match k {
            "join" => Op::Join(s, g, a),
            "leave" => Op::Leave(s, g, a),
            "mon" => Op::Mon(g, *a.first()?),
            "demon" => Op::Demon(g, *a.first()?),
            "smon" => Op::SMon(s, *a.first()?),
            "sdemon" => Op::SDemon(s, *a.first()?),
            "exit" => Op::Exit(*a.first()?),
            "query" => Op::Query(s, g),
            _ => return None,
        })
    }
}

impl Shape {
    fn to_json(&self) -> Value {
        json!({"name": self.name, "st0": self.st0, "snap": self.snap,
               "threads": self.threads.iter().map(|t| t.iter().map(|o| o.to_json()).collect::<Vec<_>>()).collect::<Vec<_>>()})
    }
    fn from_json(v: &Value) -> Option<Shape> {
        let st: Vec<u8> = v.get("st0")?.as_array()?.iter().filter_map(|x| x.as_u64()).map(|x| x as u8).collect();
        let mut threads = vec![];
        for t in v.get("threads")?.as_array()? {
            let mut ops = vec![];
            for o in t.as_array()? {
                ops.push(Op::from_json(o)?);
            }
            threads.push(ops);
        }
        Some(Shape {
            name: v.get("name")?.as_str()?.to_string(),
            st0: [*st.first()?, *st.get(1)?, *st.get(2)?],
            threads,
            snap: v.get("snap")?.as_bool()?,
        })
    }
}

const KEEP: &[&str] = &[
    "obs.call", "obs.ret", "obs.query", "obs.snap",
    "pg.join.filter", "pg.join.actor", "pg.join.commit", "pg.join.stale", "pg.join.rm", "pg.join.gnotify",
    "pg.wnotify", "pg.leave.region", "pg.leave.gnotify",
    "pg.mon.rel", "pg.smon.rel", "pg.mon.region", "pg.smon.region", "pg.mon.post", "pg.smon.post",
    "pg.mon.relrm", "pg.smon.relrm", "pg.demon.rel", "pg.sdemon.rel", "pg.demon.region", "pg.sdemon.region",
    "status.set", "pg.xdem.take", "pg.xdem.g", "pg.xdem.w", "cleanup.pgmon", "pg.xleave.take", "pg.xleave.g",
    "pg.xleave.relrm", "pg.xleave.gnotify", "cleanup.pgleave",
];

static RUN: AtomicU64 = AtomicU64::new(0);

/// names of one run: fresh real scope/group names <-> specification names
struct World {
    prefix: String,
    cells: Vec<ActorCell>,
    ids: Vec<ActorId>,
}

impl World {
    fn scope(&self, s: &str) -> String {
        match s {
            "d" => pg::DEFAULT_SCOPE.to_string(),
            "ALL" => pg::ALL_SCOPES_NOTIFICATION.to_string(),
            x => format!("{}{}", self.prefix, x),
        }
    }
    fn group(&self, g: &str) -> String {
        format!("{}{}", self.prefix, g)
    }
    fn scope_back(&self, s: &str) -> String {
        if s == pg::DEFAULT_SCOPE {
            "d".into()
        } else if s == pg::ALL_SCOPES_NOTIFICATION {
            "ALL".into()
        } else {
            s.strip_prefix(&self.prefix).unwrap_or(s).to_string()
        }
    }
    fn group_back(&self, g: &str) -> String {
        if g == pg::ALL_GROUPS_NOTIFICATION {
            "*".into()
        } else {
            g.strip_prefix(&self.prefix).unwrap_or(g).to_string()
        }
    }
    fn actor(&self, id: ActorId) -> String {
        match self.ids.iter().position(|x| *x == id) {
            Some(i) => format!("a{}", i + 1),
            None => format!("?{id}"),
        }
    }
    fn mine(&self, scope: &str, group: &str) -> bool {
        scope.starts_with(&self.prefix) || group.starts_with(&self.prefix)
    }
    fn key_json(&self, k: &(String, String)) -> Value {
        json!({"sc": self.scope_back(&k.0), "gr": self.group_back(&k.1)})
    }
    /// the cfg-only snapshot of the four indexes, in specification names
    fn snapshot(&self) -> (Value, usize) {
        let s = pg::verif_snapshot(&self.prefix, &self.ids);
        let names = |v: &Vec<ActorId>| v.iter().map(|a| self.actor(*a)).collect::<Vec<_>>();
        let map: Vec<Value> = s
            .map
            .iter()
            .map(|(sc, gr, mem, ls)| json!({"sc": self.scope_back(sc), "gr": self.group_back(gr), "mem": names(mem), "ls": names(ls)}))
            .collect();
        let index: Vec<Value> = s
            .index
            .iter()
            .map(|(sc, gs)| json!({"sc": self.scope_back(sc), "gs": gs.iter().map(|g| self.group_back(g)).collect::<Vec<_>>()}))
            .collect();
        let world: Vec<Value> = s.world.iter().map(|(sc, _g, ls)| json!({"sc": self.scope_back(sc), "ls": names(ls)})).collect();
        let rel: Vec<Value> = s
            .relations
            .iter()
            .map(|(a, mem, gmon, wmon)| {
                json!({"a": self.actor(*a),
                       "mem": mem.iter().map(|k| self.key_json(k)).collect::<Vec<_>>(),
                       "gmon": gmon.iter().map(|k| self.key_json(k)).collect::<Vec<_>>(),
                       "wmon": wmon.iter().map(|k| self.key_json(k)).collect::<Vec<_>>()})
            })
            .collect();
        let n = map.len() + index.len() + world.len() + rel.len();
        (json!({"map": map, "index": index, "world": world, "rel": rel}), n)
    }
    fn statuses(&self) -> Value {
        let mut m = Map::new();
        for (i, c) in self.cells.iter().enumerate() {
            m.insert(format!("a{}", i + 1), json!(c.get_status() as i64));
        }
        Value::Object(m)
    }
    /// the six public query functions for one key, in specification names, restricted to this run
    fn query(&self, sc: &str, gr: &str) -> Value {
        let (scope, group) = (self.scope(sc), self.group(gr));
        let mem: Vec<String> = pg::get_scoped_members(&scope, &group).iter().map(|c| self.actor(c.get_id())).collect();
        let lmem: Vec<String> = pg::get_scoped_local_members(&scope, &group).iter().map(|c| self.actor(c.get_id())).collect();
        let sag_raw = pg::which_scopes_and_groups();
        let sag: Vec<Value> = sag_raw
            .iter()
            .filter(|k| self.mine(&k.get_scope(), &k.get_group()))
            .map(|k| json!({"sc": self.scope_back(&k.get_scope()), "gr": self.group_back(&k.get_group())}))
            .collect();
        let groups: Vec<String> = pg::which_groups().iter().filter(|g| g.starts_with(&self.prefix)).map(|g| self.group_back(g)).collect();
        // the default scope is shared by all runs: it counts when one of this run's groups is in it
        let scopes: Vec<String> = pg::which_scopes()
            .iter()
            .filter(|s| s.starts_with(&self.prefix) || (*s == pg::DEFAULT_SCOPE && sag_raw.iter().any(|k| k.get_scope() == **s && k.get_group().starts_with(&self.prefix))))
            .map(|s| self.scope_back(s))
            .collect();
        let sgroups: Vec<String> = pg::which_scoped_groups(&scope).iter().filter(|g| g.starts_with(&self.prefix)).map(|g| self.group_back(g)).collect();
        json!({"mem": mem, "lmem": lmem, "groups": groups, "scopes": scopes, "sgroups": sgroups, "sag": sag})
    }
}

fn kv(k: &str, v: Val) -> (String, Val) {
    (k.to_string(), v)
}

fn call_note(k: &str, sc: &str, gr: &str, actors: &[usize]) {
    verif::emit_kv(
        "obs.call",
        0,
        0,
        vec![kv("k", Val::S(k.into())), kv("sc", Val::S(sc.into())), kv("gr", Val::S(gr.into())), kv("as", Val::L(actors.iter().map(|a| *a as i64).collect()))],
    );
}

fn perform(op: &Op, w: &World, side: &Mutex<Vec<Value>>) {
    let cells = |v: &Vec<usize>| v.iter().map(|i| w.cells[*i].clone()).collect::<Vec<_>>();
    match op {
        Op::Join(s, g, a) => {
            call_note("join", s, g, a);
            pg::join_scoped(w.scope(s), w.group(g), cells(a));
        }
        Op::Leave(s, g, a) => {
            call_note("leave", s, g, a);
            pg::leave_scoped(w.scope(s), w.group(g), cells(a));
        }
        Op::Mon(g, a) => {
            call_note("mon", "d", g, &[*a]);
            pg::monitor(w.group(g), w.cells[*a].clone());
        }
        Op::Demon(g, a) => {
            call_note("demon", "d", g, &[*a]);
            pg::demonitor(w.group(g), w.ids[*a]);
        }
        Op::SMon(s, a) => {
            call_note("smon", s, "*", &[*a]);
            pg::monitor_scope(w.scope(s), w.cells[*a].clone());
        }
        Op::SDemon(s, a) => {
            call_note("sdemon", s, "*", &[*a]);
            pg::demonitor_scope(w.scope(s), w.ids[*a]);
        }
        Op::Exit(a) => {
            call_note("exit", "", "", &[*a]);
            // what the actor task does on its way out: publish Stopping (which runs the pg
            // cleanup), ..., publish Stopped (after which wait() returns)
            verif::set_status(&w.cells[*a], ActorStatus::Stopping);
            verif::set_status(&w.cells[*a], ActorStatus::Stopped);
        }
        Op::Query(s, g) => {
            call_note("query", s, g, &[]);
            let q = w.query(s, g);
            let mut sd = side.lock().unwrap();
            sd.push(q);
            verif::emit("obs.query", 0, (sd.len() - 1) as i64);
        }
    }
    verif::emit("obs.ret", 0, 0);
}

struct PRun {
    events: Vec<verif::Ev>,
    steps: usize,
    overrun: bool,
    stuck: Vec<String>,
}

/// engine H main loop (as hctl::run_threads) with an observation hook between steps
fn run_threads_obs(threads: Vec<(String, Box<dyn FnOnce() + Send + 'static>)>, ex: &mut Explorer, max_steps: usize, after_step: &mut dyn FnMut()) -> PRun {
    verif::reset_threads();
    verif::enable(true);
    let _ = verif::take_events();
    let mut handles = vec![];
    let mut ids = vec![];
    for (i, (_role, f)) in threads.into_iter().enumerate() {
        let id = (i + 1) as u64;
        handles.push((id, Some(verif::spawn_controlled(id, f))));
        verif::settle(id);
        ids.push(id);
    }
    let mut last: Option<u64> = None;
    let mut steps = 0usize;
    let mut overrun = false;
    let mut stuck = vec![];
    loop {
        let mut enabled: Vec<u64> = vec![];
        for id in &ids {
            match verif::tstate(*id) {
                Some(TState::AtPoint(..)) => enabled.push(*id),
                Some(TState::Blocked) => stuck.push(format!("t{id}")),
                _ => {}
            }
        }
        if enabled.is_empty() {
            break;
        }
        stuck.clear();
        if steps >= max_steps {
            overrun = true;
            break;
        }
        let mut cont = false;
        if let Some(l) = last {
            if let Some(p) = enabled.iter().position(|x| *x == l) {
                enabled.remove(p);
                enabled.insert(0, l);
                cont = true;
            }
        }
        let c = ex.choose(enabled.len(), cont);
        let id = enabled[c];
        verif::step(id);
        last = Some(id);
        steps += 1;
        after_step();
    }
    for (id, h) in handles.iter_mut() {
        if let Some(TState::Done) = verif::tstate(*id) {
            if let Some(h) = h.take() {
                let _ = h.join();
            }
        }
    }
    PRun { events: verif::take_events(), steps, overrun, stuck }
}

fn inbox_json(d: &mut Detached, w: &World) -> Vec<Value> {
    let mut v = vec![];
    while let Some(evt) = d.try_recv_supervision() {
        if let SupervisionEvent::ProcessGroupChanged(change) = evt {
            let (k, sc, gr, actors) = match change {
                pg::GroupChangeMessage::Join(sc, gr, a) => ("J", sc, gr, a),
                pg::GroupChangeMessage::Leave(sc, gr, a) => ("L", sc, gr, a),
            };
            v.push(json!({"k": k, "sc": w.scope_back(&sc), "gr": w.group_back(&gr),
                          "as": actors.iter().map(|c| w.actor(c.get_id())).collect::<Vec<_>>()}));
        } else {
            v.push(json!({"k": "other", "sc": "", "gr": "", "as": []}));
        }
    }
    v
}

/// Execute one run of `shape` under the explorer's schedule. Returns (events, meta, bad).
pub fn one_run(shape: &Shape, ex: &mut Explorer) -> (Vec<Value>, Value, bool) {
    one_run_impl(shape, ex, None)
}

/// `free`: Some(spin counts) runs the threads uncontrolled (hctl::run_threads_free): only call / return lines and the
/// final observations are kept (shapes for this mode have no Query and no Exit operations).
fn one_run_impl(shape: &Shape, ex: &mut Explorer, free: Option<Vec<u32>>) -> (Vec<Value>, Value, bool) {
    let run = RUN.fetch_add(1, Ordering::SeqCst) + 1;
    let prefix = format!("r{run}_");
    // a1, a3: local ids; a2: a remote-looking id
    let mut dets: Vec<Detached> = vec![];
    for i in 0..NACT {
        let d = if i == 1 {
            verif::detached_remote::<Dummy>(7, 1_000_000_000 + run).expect("detached remote")
        } else {
            verif::detached::<Dummy>(None).expect("detached")
        };
        d.set_status(ActorStatus::Starting);
        match shape.st0[i] {
            2 => {
                d.set_status(ActorStatus::Running);
            }
            4 => {
                d.set_status(ActorStatus::Running);
                d.set_status(ActorStatus::Draining);
            }
            _ => {
                d.set_status(ActorStatus::Stopping);
                d.set_status(ActorStatus::Stopped);
            }
        }
        dets.push(d);
    }
    let w = Arc::new(World { prefix, cells: dets.iter().map(|d| d.cell.clone()).collect(), ids: dets.iter().map(|d| d.cell.get_id()).collect() });
    let side: Arc<Mutex<Vec<Value>>> = Arc::new(Mutex::new(vec![]));
    let mut names = Names::default();
    for (i, id) in w.ids.iter().enumerate() {
        names.pid.insert(id.pid(), format!("a{}", i + 1));
    }
    let mut threads: Vec<(String, Box<dyn FnOnce() + Send + 'static>)> = vec![];
    for (ti, ops) in shape.threads.iter().enumerate() {
        let role = format!("t{}", ti + 1);
        names.who.insert(format!("t{}", ti + 1), role.clone());
        let (w, side, ops) = (w.clone(), side.clone(), ops.clone());
        threads.push((
            role,
            Box::new(move || {
                for op in &ops {
                    perform(op, &w, &side);
                }
            }),
        ));
    }
    let snap = shape.snap;
    let (w2, side2) = (w.clone(), side.clone());
    let mut after = move || {
        if snap {
            let (s, _) = w2.snapshot();
            let mut sd = side2.lock().unwrap();
            sd.push(json!({"snap": s, "st": w2.statuses()}));
            verif::emit("obs.snap", 0, (sd.len() - 1) as i64);
        }
    };
    let is_free = free.is_some();
    let run_res = match &free {
        Some(spin) => {
            let hts: Vec<crate::hctl::HThread> = threads.into_iter().map(|(role, f)| crate::hctl::HThread { role, f }).collect();
            let r = crate::hctl::run_threads_free(hts, spin);
            PRun { events: r.events, steps: 0, overrun: false, stuck: vec![] }
        }
        None => run_threads_obs(threads, ex, 800, &mut after),
    };
    // end of run: the four indexes, the statuses, what every supervision port received
    let (snap_end, _) = w.snapshot();
    let st_end = w.statuses();
    let mut q_end = vec![];
    for sc in ["d", "s1"] {
        for gr in GROUPS {
            let mut q = w.query(sc, gr);
            q.as_object_mut().unwrap().insert("sc".into(), json!(sc));
            q.as_object_mut().unwrap().insert("gr".into(), json!(gr));
            q_end.push(q);
        }
    }
    let mut inbox = Map::new();
    for (i, d) in dets.iter_mut().enumerate() {
        inbox.insert(format!("a{}", i + 1), json!(inbox_json(d, &w)));
    }
    // stop every actor of the run (the exit path must clean up after it), then the leak check
    for d in dets.iter_mut() {
        d.set_status(ActorStatus::Stopping);
        d.set_status(ActorStatus::Stopped);
        d.drop_ports();
        d.drop_guard();
    }
    let (_, left) = w.snapshot();
    let side = side.lock().unwrap();
    let nthreads = shape.threads.len();
    let mut evs: Vec<Value> = vec![];
    for e in run_res.events.iter().filter(|e| KEEP.contains(&e.a.as_str()) && (!is_free || e.a == "obs.call" || e.a == "obs.ret")) {
        if e.a == "status.set" && !(e.who.starts_with('t') && e.who[1..].parse::<usize>().map(|n| n <= nthreads).unwrap_or(false)) {
            continue;
        }
        let mut j = ev_json(e, &names);
        let m = j.as_object_mut().unwrap();
        if m.get("who").and_then(|x| x.as_str()) == Some("x") {
            m.insert("who".into(), json!("drv"));
        }
        match e.a.as_str() {
            "obs.call" => {
                let l: Vec<String> = m.get("as").and_then(|x| x.as_array()).map(|a| a.iter().filter_map(|x| x.as_u64()).map(|x| format!("a{}", x + 1)).collect()).unwrap_or_default();
                m.insert("as".into(), json!(l));
            }
            "obs.query" | "obs.snap" => {
                if let Some(Value::Object(o)) = side.get(e.d as usize) {
                    for (k, v) in o {
                        m.insert(k.clone(), v.clone());
                    }
                }
                m.insert("d".into(), json!(0));
            }
            _ => {
                if let Some(sc) = m.get("sc").and_then(|x| x.as_str()).map(|s| w.scope_back(s)) {
                    m.insert("sc".into(), json!(sc));
                }
                if let Some(gr) = m.get("gr").and_then(|x| x.as_str()).map(|s| w.group_back(s)) {
                    m.insert("gr".into(), json!(gr));
                }
            }
        }
        evs.push(j);
    }
    evs.push(json!({"a": "obs.end", "who": "drv", "obj": "", "d": 0, "t": 0, "snap": snap_end, "st": st_end, "inbox": Value::Object(inbox), "q": q_end}));
    evs.push(json!({"a": "obs.leak", "who": "drv", "obj": "", "d": left, "t": 0}));
    let bad = run_res.overrun || !run_res.stuck.is_empty();
    let st0: Map<String, Value> = (0..NACT).map(|i| (format!("a{}", i + 1), json!(shape.st0[i] as i64))).collect();
    let meta = json!({"family": if is_free { "pg-free" } else { "pg" }, "shape": shape.name, "shape_json": shape.to_json(), "st0": Value::Object(st0), "sched": ex.sched,
                      "steps": run_res.steps, "stuck": run_res.stuck, "overrun": run_res.overrun});
    (evs, meta, bad)
}

fn sh(name: &str, st0: [u8; 3], threads: Vec<Vec<Op>>) -> Shape {
    Shape { name: name.into(), st0, threads, snap: false }
}

/// hand-written scenarios: each aims at one race between an exit and a registration, between
/// monitor and demonitor, or between two keys
pub fn fixed_shapes() -> Vec<Shape> {
    use Op::*;
    vec![
        sh("exit-vs-join", [2, 2, 2], vec![vec![Join("d", "g1", vec![0, 0, 1]), Leave("d", "g1", vec![1])], vec![Exit(0)], vec![Mon("g1", 2), Join("d", "g1", vec![0])]]),
        sh("monitor-exits", [2, 2, 2], vec![vec![Mon("g1", 2), Demon("g1", 2)], vec![Exit(2)], vec![Join("d", "g1", vec![0]), SMon("d", 2)]]),
        sh("world", [2, 2, 2], vec![vec![SMon("s1", 2), SDemon("s1", 2)], vec![Join("s1", "g1", vec![0, 1]), Leave("s1", "g1", vec![0, 1])], vec![SMon("ALL", 2), Exit(0)]]),
        sh("two-keys", [2, 2, 2], vec![vec![Join("d", "g1", vec![0]), Join("s1", "g2", vec![0, 1])], vec![Exit(0), Query("s1", "g2")], vec![Leave("s1", "g2", vec![0]), Mon("g1", 0)]]),
        sh("stopped-and-stale", [2, 6, 2], vec![vec![Demon("g1", 2), Join("d", "g1", vec![1, 0])], vec![Mon("g1", 2), Mon("g1", 1)], vec![SDemon("d", 2), SMon("d", 2)], vec![Exit(2)]]),
        sh("exit-member-monitor", [2, 4, 2], vec![vec![Join("d", "g1", vec![0, 1]), Mon("g1", 0)], vec![SMon("d", 0), Exit(0)], vec![Mon("g1", 2), Query("d", "g1")], vec![Join("d", "g2", vec![0, 2])]]),
        sh("leave-nonmember", [2, 2, 2], vec![vec![Mon("g1", 2), Leave("d", "g1", vec![0])], vec![SMon("ALL", 2), Join("d", "g1", vec![0, 1])], vec![Leave("d", "g1", vec![1, 1]), Query("d", "g1")]]),
    ]
}

/// a random scenario: 3-4 threads x 1-2 calls, at most one exit per actor
pub fn random_shape(rng: &mut Rng, n: u64) -> Shape {
    let mut st0 = [2u8; 3];
    for s in st0.iter_mut() {
        if rng.chance(1, 8) {
            *s = 6;
        } else if rng.chance(1, 10) {
            *s = 4;
        }
    }
    let nt = 3 + rng.below(2);
    let mut exited = [false; 3];
    let mut threads = vec![];
    let sc2 = ["d", "s1"];
    for _ in 0..nt {
        let nops = 1 + rng.below(2);
        let mut ops = vec![];
        for _ in 0..nops {
            let a = rng.below(3);
            let g = GROUPS[if rng.chance(3, 4) { 0 } else { 1 }];
            let s = sc2[if rng.chance(2, 3) { 0 } else { 1 }];
            let list = |rng: &mut Rng| {
                let n = 1 + rng.below(3);
                (0..n).map(|_| rng.below(3)).collect::<Vec<_>>()
            };
            let op = match rng.below(16) {
                0..=3 => Op::Join(s, g, list(rng)),
                4 | 5 => Op::Leave(s, g, list(rng)),
                6 | 7 => Op::Mon(g, a),
                8 => Op::Demon(g, a),
                9 | 10 => Op::SMon(SCOPES[rng.below(3)], a),
                11 => Op::SDemon(SCOPES[rng.below(3)], a),
                12 | 13 | 14 => {
                    if exited[a] || st0[a] == 6 {
                        Op::Join(s, g, vec![a])
                    } else {
                        exited[a] = true;
                        Op::Exit(a)
                    }
                }
                _ => Op::Query(s, g),
            };
            ops.push(op);
        }
        threads.push(ops);
    }
    Shape { name: format!("random-{n}"), st0, threads, snap: rng.chance(1, 2) }
}

fn explore_shape(b: &mut Batch, sh: &Shape, ex: &mut Explorer, cap: usize, nontrivial: &mut std::collections::HashSet<u64>, bad_runs: &mut u64) {
    let mut n = 0;
    loop {
        ex.begin_run();
        let (evs, meta, bad) = one_run(sh, ex);
        let h = b.run(meta, &evs);
        if ex.nontrivial {
            nontrivial.insert(h);
        }
        if bad {
            *bad_runs += 1;
        }
        n += 1;
        if !ex.end_run() || n >= cap {
            break;
        }
    }
}

/// Produce a batch: per fixed shape a bounded DFS (preemption bound 1, 2) plus random schedules
/// (some with a snapshot after every step); then random shapes under random schedules.
pub fn batch(out: &str, scale: usize, seed: u64) -> Value {
    let mut b = Batch::new(Some(out));
    let (dfs_cap, rnd, nshapes, per_shape) = (250 * scale, 100 * scale, 150 * scale as u64, 6usize);
    let mut nontrivial = std::collections::HashSet::new();
    let mut bad_runs = 0u64;
    let mut rng = Rng(seed ^ 0x7067_7067);
    for sh in fixed_shapes() {
        let mut shs = sh.clone();
        for bound in [1u32, 2u32] {
            // a snapshot after every step pins the order of the regions for lenient validation
            shs.snap = bound == 1;
            let mut ex = Explorer::new(Mode::Dfs { preempt_bound: Some(bound) }, seed);
            explore_shape(&mut b, &shs, &mut ex, dfs_cap, &mut nontrivial, &mut bad_runs);
        }
        let mut ex = Explorer::new(Mode::Random, rng.next());
        shs.snap = true;
        for _ in 0..rnd {
            explore_shape(&mut b, &shs, &mut ex, 1, &mut nontrivial, &mut bad_runs);
        }
    }
    for n in 0..nshapes {
        let sh = random_shape(&mut rng, n);
        let mut ex = Explorer::new(Mode::Random, rng.next());
        explore_shape(&mut b, &sh, &mut ex, per_shape, &mut nontrivial, &mut bad_runs);
        if n % 4 == 0 {
            let mut ex = Explorer::new(Mode::Dfs { preempt_bound: Some(1) }, seed);
            explore_shape(&mut b, &sh, &mut ex, per_shape * 2, &mut nontrivial, &mut bad_runs);
        }
    }
    b.finish();
    json!({"family": "pg", "runs": b.runs, "events": b.events, "distinct": b.hashes.len(),
           "distinct_nontrivial": nontrivial.len(), "bad_runs": bad_runs, "samples": b.samples})
}

/// Free-running batch: joins and leaves of different groups of one scope (and monitors) on real threads. What the
/// engine-H runs cannot reach is a window inside one of the index helpers (each is one DashMap entry region).
pub fn batch_free(out: &str, tier: &str, seed: u64) -> Value {
    use Op::*;
    let mut b = Batch::new(Some(out));
    let mut rng = Rng(seed ^ 0x7067_f4ee);
    let runs = if tier == "thorough" { 16000 } else { 4000 };
    let flap = |sc: &'static str, gr: &'static str, a: usize, n: usize| -> Vec<Op> {
        let mut v = vec![];
        for _ in 0..n {
            v.push(Join(sc, gr, vec![a]));
            v.push(Leave(sc, gr, vec![a]));
        }
        v
    };
    for r in 0..runs {
        let threads: Vec<Vec<Op>> = match r % 4 {
            // the last group of a scope goes while another group of the scope arrives
            0 => vec![flap("s1", "g1", 0, 4), vec![Join("s1", "g2", vec![2])]],
            1 => vec![flap("d", "g2", 2, 4), vec![Join("d", "g1", vec![0])], vec![SMon("s1", 2)]],
            // both groups flap; the second ends as a member
            2 => vec![flap("s1", "g1", 0, 3), { let mut v = flap("s1", "g2", 2, 2); v.push(Join("s1", "g2", vec![2])); v }],
            // the same group from two threads, a monitor coming and going
            _ => vec![flap("s1", "g1", 0, 2), vec![Join("s1", "g1", vec![2]), Leave("s1", "g1", vec![2])], vec![Mon("g1", 2), Demon("g1", 2)]],
        };
        let n = threads.len();
        let shape = Shape { name: format!("free{}", r % 4), st0: [2, 2, 2], threads, snap: false };
        let spin: Vec<u32> = (0..n).map(|_| rng.below(400) as u32).collect();
        let mut ex = Explorer::new(Mode::Random, r as u64);
        ex.begin_run();
        let (evs, meta, _) = one_run_impl(&shape, &mut ex, Some(spin));
        b.run(meta, &evs);
    }
    b.finish();
    json!({"family": "pg-free", "runs": b.runs, "events": b.events, "distinct": b.hashes.len(), "samples": b.samples})
}

/// Replay one schedule of one shape (for violation replays)
pub fn replay(shape_json: &str, sched: Vec<usize>, out: &str) -> Value {
    let Some(sh) = serde_json::from_str::<Value>(shape_json).ok().and_then(|v| Shape::from_json(&v)) else {
        return json!({"runs": 0, "error": "cannot parse shape"});
    };
    let mut b = Batch::new(Some(out));
    let mut ex = Explorer::new(Mode::Replay(sched), 0);
    ex.begin_run();
    let (evs, meta, _bad) = one_run(&sh, &mut ex);
    b.run(meta, &evs);
    b.finish();
    json!({"runs": 1})
}

pub fn dispatch(cmd: &str, a: &HashMap<String, String>) -> Option<Value> {
    let (out, tier, seed) = crate::common(a);
    match cmd {
        "pg" => {
            let scale: usize = a.get("scale").and_then(|s| s.parse().ok()).unwrap_or(if tier == "thorough" { 4 } else { 1 });
            Some(batch(&out, scale, seed))
        }
        "pg-free" => Some(batch_free(&out, &tier, seed)),
        "pg-replay" => {
            let shape = a.get("shape-json").cloned().unwrap_or_default();
            let sched: Vec<usize> = serde_json::from_str(a.get("sched").map(|s| s.as_str()).unwrap_or("[]")).unwrap_or_default();
            Some(replay(&shape, sched, &out))
        }
        _ => None,
    }
}
