//! Family `mailbox-t` (C02, C07 at the level of the public send API): a real actor on engine T,
//! sender tasks using every send flavour (send_message / cast / call / cell-level rpc::cast),
//! mis-typed references, drain calls. Traces carry the Mailbox observation alphabet
//! (obs.send_begin/ret, obs.drain_begin/ret, obs.consume, obs.wrong_ret, obs.end) and are validated
//! leniently against Trace_Mailbox (the actor task stands for the consumer "c").
use crate::explore::{Explorer, Mode};
use crate::fam_lifecycle::yield_once;
use crate::tdrv::{run_t, NoBetween};
use crate::trace::{ev_json, Batch, Names, Rng};
use ractor::verif::{self, Val};
use ractor::{Actor, ActorProcessingErr, ActorRef, Message, MessagingErr, RpcReplyPort};
use serde_json::{json, Value};
use std::collections::HashMap;
use std::sync::{Arc, Mutex};

pub enum SinkMsg {
    Push(u32, u32),
    Ask(u32, u32, RpcReplyPort<u32>),
}
impl Message for SinkMsg {}
pub struct WrongMsg(pub u32);
impl Message for WrongMsg {}
// a sub-message type of the wrong message type: DerivedActorRef<u8> made from a mis-typed ActorRef<WrongMsg>
impl From<u8> for WrongMsg {
    fn from(v: u8) -> Self {
        WrongMsg(v as u32)
    }
}
impl TryFrom<WrongMsg> for u8 {
    type Error = ();
    fn try_from(v: WrongMsg) -> Result<u8, ()> {
        u8::try_from(v.0).map_err(|_| ())
    }
}
pub enum WrongAsk {
    Ask(RpcReplyPort<u32>),
}
impl Message for WrongAsk {}

fn kvs(k: &str, v: &str) -> (String, Val) {
    (k.to_string(), Val::S(v.to_string()))
}
fn kvi(k: &str, v: i64) -> (String, Val) {
    (k.to_string(), Val::I(v))
}

pub struct Sink {
    yields: bool,
}
#[cfg_attr(feature = "asynctrait", ractor::async_trait)]
impl Actor for Sink {
    type Msg = SinkMsg;
    type State = ();
    type Arguments = ();
    async fn pre_start(&self, _: ActorRef<SinkMsg>, _: ()) -> Result<(), ActorProcessingErr> {
        Ok(())
    }
    async fn handle(&self, _: ActorRef<SinkMsg>, m: SinkMsg, _: &mut ()) -> Result<(), ActorProcessingErr> {
        let (s, k, port) = match m {
            SinkMsg::Push(s, k) => (s, k, None),
            SinkMsg::Ask(s, k, p) => (s, k, Some(p)),
        };
        verif::emit_kv("obs.consume", 0, 0, vec![kvs("kind", "msg"), kvs("s", &format!("s{s}")), kvi("k", k as i64)]);
        if self.yields {
            yield_once().await;
        }
        if let Some(p) = port {
            let _ = p.send(k);
        }
        Ok(())
    }
    async fn post_stop(&self, _: ActorRef<SinkMsg>, _: &mut ()) -> Result<(), ActorProcessingErr> {
        // only drains end this actor: the marker has been consumed
        verif::emit_kv("obs.consume", 0, 0, vec![kvs("kind", "drain"), kvs("s", ""), kvi("k", 0)]);
        Ok(())
    }
}

#[derive(Clone, Debug)]
pub enum Flavour {
    SendMessage,
    Cast,
    Call,
    CellCast,
}

#[derive(Clone, Debug)]
pub struct Shape {
    pub senders: Vec<Vec<Flavour>>, // one list of sends per sender
    pub drainers: usize,
    pub wrong: bool,
    pub yields: bool,
}

async fn sender(actor: ActorRef<SinkMsg>, s: u32, plan: Vec<Flavour>) {
    for (i, f) in plan.into_iter().enumerate() {
        yield_once().await;
        let k = i as u32 + 1;
        verif::emit_kv("obs.send_begin", 0, 0, vec![kvi("k", k as i64)]);
        let ok = match f {
            Flavour::SendMessage => actor.send_message(SinkMsg::Push(s, k)).is_ok(),
            Flavour::Cast => actor.cast(SinkMsg::Push(s, k)).is_ok(),
            Flavour::CellCast => ractor::rpc::cast(&actor.get_cell(), SinkMsg::Push(s, k)).is_ok(),
            // a call is a send followed by a wait for the reply; it was accepted unless the send failed
            Flavour::Call => actor.call(|tx| SinkMsg::Ask(s, k, tx), None).await.is_ok(),
        };
        verif::emit_kv("obs.send_ret", 0, i64::from(ok), vec![kvi("k", k as i64)]);
    }
}

async fn drainer(actor: ActorRef<SinkMsg>) {
    yield_once().await;
    verif::emit("obs.drain_begin", 0, 0);
    let _ = actor.drain();
    verif::emit("obs.drain_ret", 0, 0);
}

/// every public way of sending through a mis-typed reference must be refused with InvalidActorType
async fn wrong(actor: ActorRef<SinkMsg>) {
    let cell = actor.get_cell();
    let w: ActorRef<WrongMsg> = cell.clone().into();
    let wa: ActorRef<WrongAsk> = cell.clone().into();
    yield_once().await;
    let r = matches!(w.send_message(WrongMsg(1)), Err(MessagingErr::InvalidActorType));
    verif::emit_kv("obs.wrong_ret", 0, i64::from(r), vec![kvs("via", "send_message")]);
    yield_once().await;
    let r = matches!(w.cast(WrongMsg(2)), Err(MessagingErr::InvalidActorType));
    verif::emit_kv("obs.wrong_ret", 0, i64::from(r), vec![kvs("via", "cast")]);
    yield_once().await;
    let r = matches!(ractor::rpc::cast(&cell, WrongMsg(3)), Err(MessagingErr::InvalidActorType));
    verif::emit_kv("obs.wrong_ret", 0, i64::from(r), vec![kvs("via", "cell_cast")]);
    yield_once().await;
    // a derived reference of a mis-typed reference is as mis-typed as its source
    let d = w.get_derived::<u8>();
    let r = matches!(d.send_message(4u8), Err(MessagingErr::InvalidActorType));
    verif::emit_kv("obs.wrong_ret", 0, i64::from(r), vec![kvs("via", "derived_send")]);
    yield_once().await;
    let r = matches!(d.cast(5u8), Err(MessagingErr::InvalidActorType));
    verif::emit_kv("obs.wrong_ret", 0, i64::from(r), vec![kvs("via", "derived_cast")]);
    yield_once().await;
    let r = matches!(
        wa.call(WrongAsk::Ask, Some(std::time::Duration::from_millis(20))).await,
        Err(MessagingErr::InvalidActorType)
    );
    verif::emit_kv("obs.wrong_ret", 0, i64::from(r), vec![kvs("via", "call")]);
    yield_once().await;
    let r = matches!(
        ractor::rpc::call(&cell, WrongAsk::Ask, Some(std::time::Duration::from_millis(20))).await,
        Err(MessagingErr::InvalidActorType)
    );
    verif::emit_kv("obs.wrong_ret", 0, i64::from(r), vec![kvs("via", "cell_call")]);
}

const KEEP: &[&str] = &[
    "obs.send_begin", "obs.send_ret", "obs.drain_begin", "obs.drain_ret", "obs.consume", "obs.wrong_ret", "obs.end",
    "send.status", "adm.iter", "marker.iter", "send.admit", "send.enq", "adm.release", "marker.cas", "drain.close", "drain.status",
];

pub fn one_run(sh: &Shape, ex: &mut Explorer, gen: Value) -> (Vec<Value>, Value, bool) {
    let slot: Arc<Mutex<Option<ActorRef<SinkMsg>>>> = Arc::new(Mutex::new(None));
    let fin: Arc<Mutex<Option<Value>>> = Arc::new(Mutex::new(None));
    let (slot2, sh2) = (slot.clone(), sh.clone());
    let (slot3, fin2) = (slot.clone(), fin.clone());
    let run = run_t(
        ex,
        4000,
        0,
        &mut NoBetween,
        move || async move {
            let (actor, _h) = Actor::spawn(None, Sink { yields: sh2.yields }, ()).await.expect("spawn sink");
            *slot2.lock().unwrap() = Some(actor.clone());
            for (i, plan) in sh2.senders.iter().enumerate() {
                let _ = ractor::concurrency::spawn_named(Some(&format!("s{}", i + 1)), sender(actor.clone(), i as u32 + 1, plan.clone()));
            }
            for d in 0..sh2.drainers {
                let _ = ractor::concurrency::spawn_named(Some(&format!("d{}", d + 1)), drainer(actor.clone()));
            }
            if sh2.wrong {
                let _ = ractor::concurrency::spawn_named(Some("w1"), wrong(actor.clone()));
            }
        },
        move || {
            if let Some(a) = slot3.lock().unwrap().as_ref() {
                let cell = a.get_cell();
                let w = verif::admission_word(&cell);
                let closed = (w >> (usize::BITS - 1)) & 1;
                let marker = (w >> (usize::BITS - 2)) & 1;
                let cnt = w & ((1usize << (usize::BITS - 2)) - 1);
                let st = cell.get_status() as i64;
                *fin2.lock().unwrap() = Some(json!({"a": "obs.end", "who": "drv", "obj": "", "d": 0, "t": 0, "cnt": cnt, "closed": closed,
                    "marker": marker, "status": st, "rxclosed": i64::from(st == 6), "q": []}));
            }
        },
    );
    // task id -> role from the task names; the actor's own tasks are the consumer "c"
    let mut names = Names::default();
    let mut role: HashMap<String, String> = HashMap::new();
    for e in &run.events {
        if e.a == "task.new" {
            let nm = e.kv.iter().find(|(k, _)| k == "name").and_then(|(_, v)| if let Val::S(s) = v { Some(s.clone()) } else { None }).unwrap_or_default();
            let r = if nm.starts_with('s') || nm.starts_with('d') || nm.starts_with('w') { nm } else { "c".to_string() };
            role.insert(format!("k{}", e.obj), r);
        }
    }
    names.who = role;
    let mut evs: Vec<Value> = run.events.iter().filter(|e| KEEP.contains(&e.a.as_str())).map(|e| ev_json(e, &names)).collect();
    if let Some(f) = fin.lock().unwrap().take() {
        evs.push(f);
    }
    let meta = json!({"family": "mailbox-t", "shape": format!("{sh:?}"), "sched": ex.sched, "steps": run.steps,
                      "quiescent": run.quiescent, "gen": gen});
    (evs, meta, !run.quiescent)
}

pub fn rand_shape(rng: &mut Rng) -> Shape {
    let ns = 1 + rng.below(3);
    let senders = (0..ns)
        .map(|_| {
            (0..1 + rng.below(3))
                .map(|_| match rng.below(4) {
                    0 => Flavour::SendMessage,
                    1 => Flavour::Cast,
                    2 => Flavour::Call,
                    _ => Flavour::CellCast,
                })
                .collect()
        })
        .collect();
    Shape { senders, drainers: rng.below(3), wrong: rng.chance(1, 2), yields: rng.chance(1, 2) }
}

pub fn micro() -> Vec<Shape> {
    vec![
        Shape { senders: vec![vec![Flavour::Cast, Flavour::Call], vec![Flavour::SendMessage]], drainers: 1, wrong: true, yields: true },
        Shape { senders: vec![vec![Flavour::Call, Flavour::Call]], drainers: 1, wrong: true, yields: false },
    ]
}

pub fn batch(out: &str, tier: &str, seed: u64) -> Value {
    let mut b = Batch::new(Some(out));
    let (cap, nrand) = if tier == "thorough" { (1500usize, 3000usize) } else { (150usize, 400usize) };
    let mut nontrivial = std::collections::HashSet::new();
    let mut bad_runs = 0u64;
    for (mi, sh) in micro().into_iter().enumerate() {
        let mut ex = Explorer::new(Mode::Dfs { preempt_bound: Some(2) }, seed);
        let mut n = 0;
        loop {
            ex.begin_run();
            let (evs, meta, bad) = one_run(&sh, &mut ex, json!({"kind": "micro", "idx": mi}));
            let h = b.run(meta, &evs);
            if ex.nontrivial {
                nontrivial.insert(h);
            }
            bad_runs += u64::from(bad);
            n += 1;
            if !ex.end_run() || n >= cap {
                break;
            }
        }
    }
    let mut rng = Rng(seed ^ 0x6d62745f);
    for _ in 0..nrand {
        let st = rng.0;
        let sh = rand_shape(&mut rng);
        let mut ex = Explorer::new(Mode::Random, rng.next());
        ex.begin_run();
        let (evs, meta, bad) = one_run(&sh, &mut ex, json!({"kind": "rand", "state": st.to_string()}));
        let h = b.run(meta, &evs);
        if ex.nontrivial {
            nontrivial.insert(h);
        }
        bad_runs += u64::from(bad);
    }
    b.finish();
    json!({"family": "mailbox-t", "runs": b.runs, "events": b.events, "distinct": b.hashes.len(),
           "distinct_nontrivial": nontrivial.len(), "bad_runs": bad_runs, "samples": b.samples})
}

// ------------------------------------------------------------------------------------------------
// Family `mailbox-hybrid`: the REAL processing loop (free running on its own runtime) against a sender that is a
// controlled OS thread, parked between admission and enqueue while drain() is called and the actor finishes the
// message it was handling. Engine H alone has a scripted consumer, engine T alone cannot split a send: this scripted
// sequence is the one place where the real loop's exit condition meets a half-finished send. Nothing is timing
// dependent on a correct tree (the actor has nothing to do until the sender enqueues); on a tree whose loop leaves
// early, the 30 ms grace lets it do so.
// ------------------------------------------------------------------------------------------------
struct HSink {
    in_m1: Arc<std::sync::atomic::AtomicBool>,
    release_m1: Arc<std::sync::atomic::AtomicBool>,
    release_ps: Arc<std::sync::atomic::AtomicBool>,
}
#[cfg_attr(feature = "asynctrait", ractor::async_trait)]
impl Actor for HSink {
    type Msg = SinkMsg;
    type State = ();
    type Arguments = ();
    async fn pre_start(&self, _: ActorRef<SinkMsg>, _: ()) -> Result<(), ActorProcessingErr> {
        Ok(())
    }
    async fn handle(&self, _: ActorRef<SinkMsg>, m: SinkMsg, _: &mut ()) -> Result<(), ActorProcessingErr> {
        use std::sync::atomic::Ordering::SeqCst;
        let (s, k) = match m {
            SinkMsg::Push(s, k) => (s, k),
            SinkMsg::Ask(s, k, _) => (s, k),
        };
        verif::emit_kv("obs.consume", 0, 0, vec![kvs("kind", "msg"), kvs("s", &format!("s{s}")), kvi("k", k as i64)]);
        if s == 2 {
            // the message the actor is busy with while the other sender is in flight
            self.in_m1.store(true, SeqCst);
            while !self.release_m1.load(SeqCst) {
                tokio::time::sleep(std::time::Duration::from_millis(1)).await;
            }
        }
        Ok(())
    }
    async fn post_stop(&self, _: ActorRef<SinkMsg>, _: &mut ()) -> Result<(), ActorProcessingErr> {
        use std::sync::atomic::Ordering::SeqCst;
        verif::emit_kv("obs.consume", 0, 0, vec![kvs("kind", "drain"), kvs("s", ""), kvi("k", 0)]);
        // the ports stay alive until the driver lets post_stop return
        while !self.release_ps.load(SeqCst) {
            tokio::time::sleep(std::time::Duration::from_millis(1)).await;
        }
        Ok(())
    }
}

/// `busy`: the actor is inside a handler when the drain arrives (otherwise it is idle in its select);
/// `cast`: the in-flight send is a cast (otherwise send_message)
pub fn hybrid_run(busy: bool, cast: bool) -> (Vec<Value>, Value, bool) {
    use ractor::verif::TState;
    use std::sync::atomic::{AtomicBool, Ordering::SeqCst};
    verif::reset_threads();
    verif::sched_enable(false);
    verif::enable(true);
    let _ = verif::take_events();
    let rt = tokio::runtime::Builder::new_multi_thread().worker_threads(1).enable_all().build().expect("rt");
    let (in_m1, release_m1, release_ps) = (Arc::new(AtomicBool::new(false)), Arc::new(AtomicBool::new(false)), Arc::new(AtomicBool::new(false)));
    let sink = HSink { in_m1: in_m1.clone(), release_m1: release_m1.clone(), release_ps: release_ps.clone() };
    let Ok((actor, handle)) = rt.block_on(Actor::spawn(None, sink, ())) else {
        return (vec![], json!({"family": "mailbox-hybrid", "error": "spawn"}), true);
    };
    let wait_for = |f: &dyn Fn() -> bool, ms: u64| {
        let t0 = std::time::Instant::now();
        while !f() && t0.elapsed() < std::time::Duration::from_millis(ms) {
            std::thread::sleep(std::time::Duration::from_millis(1));
        }
        f()
    };
    let mut bad = false;
    if busy {
        verif::name_thread(2);
        verif::emit_kv("obs.send_begin", 0, 0, vec![kvi("k", 1)]);
        let ok = actor.send_message(SinkMsg::Push(2, 1)).is_ok();
        verif::emit_kv("obs.send_ret", 0, i64::from(ok), vec![kvi("k", 1)]);
        bad |= !wait_for(&|| in_m1.load(SeqCst), 5000);
    }
    // the controlled sender: released point by point until it sits right after its admission
    let a2 = actor.clone();
    let th = verif::spawn_controlled(1, move || {
        verif::emit_kv("obs.send_begin", 0, 0, vec![kvi("k", 1)]);
        let ok = if cast { a2.cast(SinkMsg::Push(1, 1)).is_ok() } else { a2.send_message(SinkMsg::Push(1, 1)).is_ok() };
        verif::emit_kv("obs.send_ret", 0, i64::from(ok), vec![kvi("k", 1)]);
    });
    let mut st = verif::settle(1);
    let mut parked_after_admission = false;
    for _ in 0..50 {
        match &st {
            TState::AtPoint(l, _, d) if l == "send.admit" && *d == 1 => {
                parked_after_admission = true;
                break;
            }
            TState::AtPoint(..) => st = verif::step(1),
            _ => break,
        }
    }
    bad |= !parked_after_admission;
    verif::name_thread(3);
    verif::emit("obs.drain_begin", 0, 0);
    let _ = actor.drain();
    verif::emit("obs.drain_ret", 0, 0);
    // the actor finishes what it was doing; it has nothing else to do until the in-flight sender enqueues
    release_m1.store(true, SeqCst);
    std::thread::sleep(std::time::Duration::from_millis(30));
    // the in-flight sender completes: enqueue, release (which publishes the deferred marker), return
    for _ in 0..50 {
        match verif::step(1) {
            TState::Done | TState::Blocked => break,
            _ => {}
        }
    }
    let _ = th.join();
    std::thread::sleep(std::time::Duration::from_millis(10));
    release_ps.store(true, SeqCst);
    let stopped = rt.block_on(async { tokio::time::timeout(std::time::Duration::from_secs(20), handle).await.is_ok() });
    bad |= !stopped;
    let cell = actor.get_cell();
    let w = verif::admission_word(&cell);
    let closed = (w >> (usize::BITS - 1)) & 1;
    let marker = (w >> (usize::BITS - 2)) & 1;
    let cnt = w & ((1usize << (usize::BITS - 2)) - 1);
    let stt = cell.get_status() as i64;
    let raw = verif::take_events();
    drop(rt);
    let mut evs: Vec<Value> = vec![];
    let names = Names::default();
    for e in raw.iter().filter(|e| e.a.starts_with("obs.")) {
        let mut j = ev_json(e, &names);
        let who = match (e.a.as_str(), e.who.as_str()) {
            ("obs.consume", _) => "c",
            (_, "t1") => "s1",
            (_, "t2") => "s2",
            (_, "t3") => "d1",
            _ => continue,
        };
        j.as_object_mut().unwrap().insert("who".into(), json!(who));
        evs.push(j);
    }
    evs.push(json!({"a": "obs.end", "who": "drv", "obj": "", "d": 0, "t": 0, "cnt": cnt, "closed": closed, "marker": marker, "status": stt,
                    "rxclosed": i64::from(stt == 6), "q": []}));
    let meta = json!({"family": "mailbox-hybrid", "shape": format!("busy={busy} cast={cast}"), "sched": [], "steps": 0, "quiescent": stopped,
                      "parked_after_admission": parked_after_admission});
    (evs, meta, bad)
}

pub fn hybrid_batch(out: &str, tier: &str) -> Value {
    let mut b = Batch::new(Some(out));
    let reps = if tier == "thorough" { 10 } else { 3 };
    let mut bad_runs = 0u64;
    for _ in 0..reps {
        for (busy, cast) in [(true, false), (true, true), (false, false), (false, true)] {
            let (evs, meta, bad) = hybrid_run(busy, cast);
            bad_runs += u64::from(bad);
            // a run in which the sender could not be parked right after its admission did not follow the script: it says
            // nothing (counted as bad, not validated)
            let scripted = meta.get("parked_after_admission").and_then(|x| x.as_bool()) == Some(true);
            if !evs.is_empty() && scripted {
                b.run(meta, &evs);
            }
        }
    }
    b.finish();
    json!({"family": "mailbox-hybrid", "runs": b.runs, "events": b.events, "distinct": b.hashes.len(), "bad_runs": bad_runs, "samples": b.samples})
}

pub fn dispatch(cmd: &str, a: &std::collections::HashMap<String, String>) -> Option<Value> {
    let (out, tier, seed) = crate::common(a);
    match cmd {
        "mailbox-t" => Some(batch(&out, &tier, seed)),
        "mailbox-hybrid" => Some(hybrid_batch(&out, &tier)),
        "mailbox-t-replay" => {
            let gen: Value = serde_json::from_str(a.get("gen").map(|s| s.as_str()).unwrap_or("{}")).unwrap_or(json!({}));
            let sched: Vec<usize> = serde_json::from_str(a.get("sched").map(|s| s.as_str()).unwrap_or("[]")).unwrap_or_default();
            let sh = match gen.get("kind").and_then(|k| k.as_str()) {
                Some("micro") => micro().into_iter().nth(gen["idx"].as_u64().unwrap_or(0) as usize),
                Some("rand") => gen["state"].as_str().and_then(|s| s.parse::<u64>().ok()).map(|st| rand_shape(&mut Rng(st))),
                _ => None,
            };
            let Some(sh) = sh else { return Some(json!({"runs": 0})) };
            let mut b = Batch::new(Some(&out));
            let mut ex = Explorer::new(Mode::Replay(sched), 0);
            ex.begin_run();
            let (evs, meta, _) = one_run(&sh, &mut ex, gen.clone());
            b.run(meta, &evs);
            b.finish();
            Some(json!({"runs": 1}))
        }
        _ => None,
    }
}
