//! Engine T: a tokio current-thread runtime with a paused clock in which every task spawned
//! through ractor::concurrency is gated; the driver decides which runnable task is polled next.
use crate::explore::Explorer;
use ractor::verif::{self, Ev};
use std::future::Future;
use std::time::Duration;

pub struct TRun {
    pub events: Vec<Ev>,
    pub steps: usize,
    pub quiescent: bool,
    pub leftover_tasks: Vec<(u64, String, bool)>,
}

/// A hook the driver calls between steps: it may perform driver-level actions (abort a task) and
/// returns true if it did something that changed the world.
pub trait Between {
    fn between(&mut self, step: usize) -> bool;
}
pub struct NoBetween;
impl Between for NoBetween {
    fn between(&mut self, _step: usize) -> bool {
        false
    }
}

/// Run `setup` (which spawns the scenario's tasks) and then drive the scheduler until nothing is
/// runnable for one virtual hour (quiescence) or `max_steps` steps were taken.
pub fn run_t<S, Fut, E>(ex: &mut Explorer, max_steps: usize, horizon_ms: u64, between: &mut dyn Between, setup: S, at_end: E) -> TRun
where
    S: FnOnce() -> Fut,
    Fut: Future<Output = ()>,
    E: FnOnce(),
{
    let rt = tokio::runtime::Builder::new_current_thread()
        .enable_all()
        .start_paused(true)
        .build()
        .expect("runtime");
    verif::enable(true);
    let _ = verif::take_events();
    verif::sched_enable(true);
    verif::set_now(0);
    let mut steps = 0usize;
    let mut quiescent = false;
    rt.block_on(async {
        let t0 = tokio::time::Instant::now();
        setup().await;
        let mut last: Option<u64> = None;
        loop {
            if steps >= max_steps {
                break;
            }
            let now = t0.elapsed().as_millis() as u64;
            verif::set_now(now);
            if horizon_ms > 0 && now >= horizon_ms {
                quiescent = true;
                break;
            }
            between.between(steps);
            let wait = if horizon_ms > 0 { Duration::from_millis(horizon_ms - now) } else { Duration::from_secs(3600) };
            match tokio::time::timeout(wait, verif::DriverWait).await {
                Err(_) => {
                    quiescent = true;
                    break;
                }
                Ok(mut r) => {
                    verif::set_now(t0.elapsed().as_millis() as u64);
                    let mut cont = false;
                    if let Some(l) = last {
                        if let Some(p) = r.iter().position(|x| x.0 == l) {
                            let x = r.remove(p);
                            r.insert(0, x);
                            cont = true;
                        }
                    }
                    let c = ex.choose(r.len(), cont);
                    let id = r[c].0;
                    last = Some(id);
                    verif::grant(id);
                    verif::StepDone.await;
                    steps += 1;
                }
            }
        }
        // observations of the final state are taken while the world is still alive
        at_end();
    });
    let leftover = verif::live_tasks();
    verif::sched_enable(false);
    // dropping the runtime drops every remaining task (their Gate::drop events are not part of the run)
    let events = verif::take_events();
    verif::enable(false);
    drop(rt);
    verif::enable(true);
    let _ = verif::take_events();
    TRun { events, steps, quiescent, leftover_tasks: leftover }
}

/// Variant for scenarios with thread-local actors: their tasks run on the spawner's own OS thread
/// and runtime, which a paused clock on this thread cannot see. The clock is real here, no timers
/// are used by such scenarios, and the end of a run is detected by `settled()` (the harness's own
/// knowledge that every client is finished or in a stable wait) after `grace_ms` of real idleness;
/// a run that is idle but not settled for 20 graces is reported as not quiescent.
pub fn run_t_real<S, Fut, E, Q>(ex: &mut Explorer, max_steps: usize, grace_ms: u64, setup: S, at_end: E, settled: Q) -> TRun
where
    S: FnOnce() -> Fut,
    Fut: Future<Output = ()>,
    E: FnOnce(),
    Q: Fn() -> bool,
{
    let rt = tokio::runtime::Builder::new_current_thread().enable_all().build().expect("runtime");
    verif::enable(true);
    let _ = verif::take_events();
    verif::sched_enable(true);
    verif::set_now(0);
    let mut steps = 0usize;
    let mut quiescent = false;
    rt.block_on(async {
        setup().await;
        let mut last: Option<u64> = None;
        let mut idle_rounds = 0;
        let mut silent_rounds = 0;
        let mut last_seq = verif::event_seq();
        loop {
            if steps >= max_steps {
                break;
            }
            match tokio::time::timeout(Duration::from_millis(grace_ms), verif::DriverWait).await {
                Err(_) => {
                    // activity on the spawner's thread (drops after an abort) shows as new events
                    let seq = verif::event_seq();
                    if seq != last_seq {
                        last_seq = seq;
                        silent_rounds = 0;
                    } else {
                        silent_rounds += 1;
                    }
                    if silent_rounds >= 2 && settled() {
                        quiescent = true;
                        break;
                    }
                    idle_rounds += 1;
                    if idle_rounds >= 40 {
                        break;
                    }
                }
                Ok(mut r) => {
                    idle_rounds = 0;
                    silent_rounds = 0;
                    last_seq = verif::event_seq();
                    let mut cont = false;
                    if let Some(l) = last {
                        if let Some(p) = r.iter().position(|x| x.0 == l) {
                            let x = r.remove(p);
                            r.insert(0, x);
                            cont = true;
                        }
                    }
                    let c = ex.choose(r.len(), cont);
                    let id = r[c].0;
                    last = Some(id);
                    verif::grant(id);
                    verif::StepDone.await;
                    steps += 1;
                }
            }
        }
        at_end();
    });
    let leftover = verif::live_tasks();
    verif::sched_enable(false);
    let events = verif::take_events();
    verif::enable(false);
    drop(rt);
    verif::enable(true);
    let _ = verif::take_events();
    TRun { events, steps, quiescent, leftover_tasks: leftover }
}
