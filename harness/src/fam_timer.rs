//! Family `timer` (C12): ractor::time::{send_after, send_interval, exit_after, kill_after} and their
//! ActorRef / DerivedActorRef aliases against one probe actor, on engine T's virtual clock.
//! Client tasks create / abort / join timers and stop / kill / drain / fail the target at scripted
//! virtual times; the driver explores which ready task is polled next at every instant.
use crate::explore::{Explorer, Mode};
use crate::fam_lifecycle::yield_once;
use crate::tdrv::{run_t, NoBetween};
use crate::trace::{ev_json, Batch, Names, Rng};
use ractor::concurrency::{Duration, JoinHandle};
use ractor::verif::{self, Val};
use ractor::{Actor, ActorProcessingErr, ActorRef, Message, MessagingErr, SupervisionEvent};
use serde_json::{json, Value};
use std::collections::HashMap;
use std::sync::atomic::{AtomicU32, Ordering};
use std::sync::{Arc, Mutex};

pub enum TMsg {
    Tick(usize, u32),
    Busy(u64),
    /// the handler keeps the executor for this many virtual ms without suspending
    Stall(u64),
    Fail,
}
impl Message for TMsg {}
/// the message type of the derived reference
pub struct DTick(usize, u32);
impl Message for DTick {}
impl From<DTick> for TMsg {
    fn from(d: DTick) -> Self {
        TMsg::Tick(d.0, d.1)
    }
}
impl TryFrom<TMsg> for DTick {
    type Error = ();
    fn try_from(m: TMsg) -> Result<Self, ()> {
        match m {
            TMsg::Tick(a, b) => Ok(DTick(a, b)),
            _ => Err(()),
        }
    }
}

#[derive(Clone, Copy, Debug, PartialEq)]
pub enum Kind {
    After,
    Interval,
    Exit,
    Kill,
}
impl Kind {
    fn s(self) -> &'static str {
        match self {
            Kind::After => "after",
            Kind::Interval => "interval",
            Kind::Exit => "exit",
            Kind::Kill => "kill",
        }
    }
}
/// which entry point is used
#[derive(Clone, Copy, Debug, PartialEq)]
pub enum Via {
    Cell,
    Ref,
    Derived,
}
#[derive(Clone, Debug)]
pub struct TimerSpec {
    pub kind: Kind,
    pub period: u64,
    pub via: Via,
    /// extra microseconds on top of `period` ms (a period that is not a whole number of milliseconds). The timer wheel
    /// has millisecond granularity, so such a timer is due at period + 1 ms: that is the period the specification sees
    pub sub_us: u64,
}

#[derive(Clone, Debug, PartialEq)]
pub enum COp {
    Sleep(u64),
    Pause,
    Create(usize),
    Abort(usize),
    Join(usize),
    Finished(usize),
    Stop,
    Kill,
    Drain,
    SendFail,
    SendBusy(u64),
    /// a message whose handler stalls the executor (tokio::time::advance inside the poll)
    SendStall(u64),
    /// the client task itself stalls the executor
    Stall(u64),
}

#[derive(Clone, Debug)]
pub struct Scenario {
    pub timers: Vec<TimerSpec>,
    /// timers the probe creates itself in pre_start (through `myself`)
    pub in_pre_start: Vec<usize>,
    pub clients: Vec<Vec<COp>>,
    pub post_stop_yield: bool,
    /// post_stop sleeps this long (virtual ms) before it returns: the target stays Stopping meanwhile
    pub post_stop_sleep: u64,
    /// the target is created with spawn_linked_instant: clients get its reference while it is still Unstarted
    pub instant: bool,
    pub horizon: u64,
}

enum Handle {
    After(JoinHandle<Result<(), MessagingErr<TMsg>>>),
    AfterD(JoinHandle<Result<(), MessagingErr<DTick>>>),
    Unit(JoinHandle<()>),
}

#[derive(Default)]
struct World {
    target: Option<ActorRef<TMsg>>,
    handles: Vec<Option<Handle>>,
    aborts: Vec<Option<tokio::task::AbortHandle>>,
    tg_pid: u64,
    sup_pid: u64,
}
type W = Arc<Mutex<World>>;

fn kvs(k: &str, v: &str) -> (String, Val) {
    (k.to_string(), Val::S(v.to_string()))
}
fn kvi(k: &str, v: i64) -> (String, Val) {
    (k.to_string(), Val::I(v))
}
fn obs(label: &str, x: &str, d: i64, mut kv: Vec<(String, Val)>) {
    kv.push(kvs("x", x));
    verif::emit_kv(label, 0, d, kv);
}
fn tname(i: usize) -> String {
    format!("T{}", i + 1)
}

fn create(sc: &Scenario, w: &W, i: usize, target: &ActorRef<TMsg>) {
    let spec = &sc.timers[i];
    let p = Duration::from_millis(spec.period) + Duration::from_micros(spec.sub_us);
    let cnt = Arc::new(AtomicU32::new(0));
    let h = match (spec.kind, spec.via) {
        (Kind::After, Via::Cell) => Handle::After(ractor::time::send_after(p, target.get_cell(), move || TMsg::Tick(i, 1))),
        (Kind::After, Via::Ref) => Handle::After(target.send_after(p, move || TMsg::Tick(i, 1))),
        (Kind::After, Via::Derived) => Handle::AfterD(target.get_derived::<DTick>().send_after(p, move || DTick(i, 1))),
        (Kind::Interval, Via::Cell) => {
            Handle::Unit(ractor::time::send_interval(p, target.get_cell(), move || TMsg::Tick(i, cnt.fetch_add(1, Ordering::SeqCst) + 1)))
        }
        (Kind::Interval, Via::Ref) => Handle::Unit(target.send_interval(p, move || TMsg::Tick(i, cnt.fetch_add(1, Ordering::SeqCst) + 1))),
        (Kind::Interval, Via::Derived) => {
            Handle::Unit(target.get_derived::<DTick>().send_interval(p, move || DTick(i, cnt.fetch_add(1, Ordering::SeqCst) + 1)))
        }
        (Kind::Exit, Via::Cell) => Handle::Unit(ractor::time::exit_after(p, target.get_cell())),
        (Kind::Exit, Via::Ref) => Handle::Unit(target.exit_after(p)),
        (Kind::Exit, Via::Derived) => Handle::Unit(target.get_derived::<DTick>().exit_after(p)),
        (Kind::Kill, Via::Cell) => Handle::Unit(ractor::time::kill_after(p, target.get_cell())),
        (Kind::Kill, Via::Ref) => Handle::Unit(target.kill_after(p)),
        (Kind::Kill, Via::Derived) => Handle::Unit(target.get_derived::<DTick>().kill_after(p)),
    };
    let ah = match &h {
        Handle::After(j) => j.abort_handle(),
        Handle::AfterD(j) => j.abort_handle(),
        Handle::Unit(j) => j.abort_handle(),
    };
    obs("obs.create", &tname(i), 0, vec![kvs("kind", spec.kind.s()), kvi("p", spec.period as i64 + i64::from(spec.sub_us > 0)), kvi("rp", spec.period as i64)]);
    let mut g = w.lock().unwrap();
    g.handles[i] = Some(h);
    g.aborts[i] = Some(ah);
}

struct Probe {
    sc: Arc<Scenario>,
    w: W,
}
#[cfg_attr(feature = "asynctrait", ractor::async_trait)]
impl Actor for Probe {
    type Msg = TMsg;
    type State = ();
    type Arguments = ();
    async fn pre_start(&self, myself: ActorRef<TMsg>, _: ()) -> Result<(), ActorProcessingErr> {
        self.w.lock().unwrap().tg_pid = myself.get_id().pid();
        for i in self.sc.in_pre_start.iter() {
            create(&self.sc, &self.w, *i, &myself);
        }
        Ok(())
    }
    async fn handle(&self, _myself: ActorRef<TMsg>, m: TMsg, _: &mut ()) -> Result<(), ActorProcessingErr> {
        match m {
            TMsg::Tick(i, k) => obs("obs.handled", &tname(i), 0, vec![kvi("k", k as i64)]),
            TMsg::Busy(ms) => {
                obs("obs.busy", "tg", 0, vec![]);
                ractor::concurrency::sleep(Duration::from_millis(ms)).await;
                obs("obs.busy_end", "tg", 0, vec![]);
            }
            TMsg::Stall(ms) => {
                // a CPU-bound handler: the virtual clock moves while this poll holds the executor
                obs("obs.stall", "tg", ms as i64, vec![]);
                tokio::time::advance(Duration::from_millis(ms)).await;
                obs("obs.busy_end", "tg", 0, vec![]);
            }
            TMsg::Fail => {
                obs("obs.fail", "tg", 0, vec![]);
                return Err("err".into());
            }
        }
        Ok(())
    }
    async fn post_stop(&self, _myself: ActorRef<TMsg>, _: &mut ()) -> Result<(), ActorProcessingErr> {
        obs("obs.post_stop", "tg", 0, vec![]);
        if self.sc.post_stop_yield {
            yield_once().await;
        }
        if self.sc.post_stop_sleep > 0 {
            ractor::concurrency::sleep(Duration::from_millis(self.sc.post_stop_sleep)).await;
        }
        // only reached when no kill interrupted post_stop
        obs("obs.post_stop_end", "tg", 0, vec![]);
        Ok(())
    }
}

struct Sup;
#[cfg_attr(feature = "asynctrait", ractor::async_trait)]
impl Actor for Sup {
    type Msg = TMsg;
    type State = ();
    type Arguments = ();
    async fn pre_start(&self, _myself: ActorRef<TMsg>, _: ()) -> Result<(), ActorProcessingErr> {
        Ok(())
    }
    async fn handle_supervisor_evt(&self, _myself: ActorRef<TMsg>, e: SupervisionEvent, _: &mut ()) -> Result<(), ActorProcessingErr> {
        match &e {
            SupervisionEvent::ActorTerminated(_, _, r) => obs("obs.sup", "tg", 0, vec![kvs("ek", "terminated"), kvs("reason", r.as_deref().unwrap_or(""))]),
            SupervisionEvent::ActorFailed(_, err) => obs("obs.sup", "tg", 0, vec![kvs("ek", "failed"), kvs("reason", &format!("{err}"))]),
            _ => {}
        }
        Ok(())
    }
}

async fn client(sc: Arc<Scenario>, w: W, ops: Vec<COp>) {
    for op in ops {
        yield_once().await;
        let target = w.lock().unwrap().target.clone();
        let Some(target) = target else { return };
        match op {
            COp::Pause => {}
            COp::Sleep(ms) => ractor::concurrency::sleep(Duration::from_millis(ms)).await,
            COp::Create(i) => create(&sc, &w, i, &target),
            COp::Abort(i) => {
                let g = w.lock().unwrap();
                if let Some(h) = g.aborts[i].as_ref() {
                    obs("obs.abort", &tname(i), i64::from(h.is_finished()), vec![]);
                    h.abort();
                }
            }
            COp::Finished(i) => {
                let g = w.lock().unwrap();
                if let Some(h) = g.aborts[i].as_ref() {
                    obs("obs.finished", &tname(i), i64::from(h.is_finished()), vec![]);
                }
            }
            COp::Join(i) => {
                let h = w.lock().unwrap().handles[i].take();
                if let Some(h) = h {
                    let r = match h {
                        Handle::After(j) => match j.await {
                            Ok(Ok(())) => "ok",
                            Ok(Err(_)) => "err",
                            Err(e) if e.is_cancelled() => "cancelled",
                            Err(_) => "panic",
                        },
                        Handle::AfterD(j) => match j.await {
                            Ok(Ok(())) => "ok",
                            Ok(Err(_)) => "err",
                            Err(e) if e.is_cancelled() => "cancelled",
                            Err(_) => "panic",
                        },
                        Handle::Unit(j) => match j.await {
                            Ok(()) => "ok",
                            Err(e) if e.is_cancelled() => "cancelled",
                            Err(_) => "panic",
                        },
                    };
                    obs("obs.join", &tname(i), 0, vec![kvs("r", r)]);
                }
            }
            COp::Stop => {
                target.stop(Some("r".into()));
                obs("obs.stop", "tg", 0, vec![kvs("reason", "r")]);
            }
            COp::Kill => {
                target.kill();
                obs("obs.kill", "tg", 0, vec![]);
            }
            COp::Drain => {
                let _ = target.drain();
                obs("obs.drain", "tg", 0, vec![]);
            }
            COp::SendFail => {
                let r = target.send_message(TMsg::Fail);
                obs("obs.send", "tg", i64::from(r.is_ok()), vec![kvs("m", "fail")]);
            }
            COp::SendBusy(ms) => {
                let r = target.send_message(TMsg::Busy(ms));
                obs("obs.send", "tg", i64::from(r.is_ok()), vec![kvs("m", "busy")]);
            }
            COp::SendStall(ms) => {
                let r = target.send_message(TMsg::Stall(ms));
                obs("obs.send", "tg", i64::from(r.is_ok()), vec![kvs("m", "busy")]);
            }
            COp::Stall(ms) => {
                obs("obs.stall", "env", ms as i64, vec![]);
                tokio::time::advance(Duration::from_millis(ms)).await;
            }
        }
    }
}

/// labels kept whoever emitted them
const KEEP_OBS: &[&str] = &[
    "obs.instant", "obs.create", "obs.abort", "obs.finished", "obs.join", "obs.stop", "obs.kill", "obs.drain", "obs.send", "obs.handled", "obs.busy",
    "obs.stall", "obs.busy_end", "obs.fail", "obs.post_stop", "obs.post_stop_end", "obs.sup",
];
/// internal points kept when they concern the target actor
const KEEP_TG: &[&str] = &["port.msg", "port.stop", "port.drain", "sig.handled", "guard.cleanup"];

pub fn one_run(sc: &Scenario, ex: &mut Explorer) -> (Vec<Value>, Value, bool) {
    let sc = Arc::new(sc.clone());
    let n = sc.timers.len();
    let w: W = Arc::new(Mutex::new(World { target: None, handles: (0..n).map(|_| None).collect(), aborts: (0..n).map(|_| None).collect(), tg_pid: 0, sup_pid: 0 }));
    let fin: Arc<Mutex<Value>> = Arc::new(Mutex::new(json!(null)));
    let (sc2, w2) = (sc.clone(), w.clone());
    let (fin2, w4) = (fin.clone(), w.clone());
    let run = run_t(
        ex,
        4000,
        sc.horizon,
        &mut NoBetween,
        move || async move {
            let _ = ractor::concurrency::spawn_named(Some("boot"), async move {
                let (sup, _) = Sup::spawn(None, Sup, ()).await.expect("sup");
                w2.lock().unwrap().sup_pid = sup.get_id().pid();
                let probe = Probe { sc: sc2.clone(), w: w2.clone() };
                let tg = if sc2.instant {
                    let (tg, _start) = ractor::ActorRuntime::<Probe>::spawn_linked_instant(None, probe, (), sup.get_cell()).expect("probe");
                    w2.lock().unwrap().tg_pid = tg.get_id().pid();
                    obs("obs.instant", "tg", tg.get_status() as i64, vec![]);
                    tg
                } else {
                    Probe::spawn_linked(None, probe, (), sup.get_cell()).await.expect("probe").0
                };
                w2.lock().unwrap().target = Some(tg);
                for (ci, ops) in sc2.clients.iter().enumerate() {
                    let _ = ractor::concurrency::spawn_named(Some(&format!("client{ci}")), client(sc2.clone(), w2.clone(), ops.clone()));
                }
            });
        },
        move || {
            let g = w4.lock().unwrap();
            let tf: Vec<Value> = g
                .aborts
                .iter()
                .enumerate()
                .filter_map(|(i, h)| h.as_ref().map(|h| json!({"x": tname(i), "fin": i64::from(h.is_finished())})))
                .collect();
            let st = g.target.as_ref().map(|t| t.get_status() as i64).unwrap_or(-1);
            *fin2.lock().unwrap() = json!({"timers": tf, "st": st});
        },
    );
    let g = w.lock().unwrap();
    let names = Names::default();
    // timer task ids: the task.new that precedes each obs.create
    let mut task_timer: HashMap<u64, String> = HashMap::new();
    let mut last_new: Option<u64> = None;
    for e in &run.events {
        if e.a == "task.new" {
            last_new = Some(e.obj);
        } else if e.a == "obs.create" {
            if let (Some(id), Some((_, Val::S(x)))) = (last_new.take(), e.kv.iter().find(|(k, _)| k == "x")) {
                task_timer.insert(id, x.clone());
            }
        }
    }
    let mut evs: Vec<Value> = vec![];
    let mut last_t = 0u64;
    for e in &run.events {
        let a = e.a.as_str();
        let mut j = ev_json(e, &names);
        let o = j.as_object_mut().unwrap();
        if KEEP_OBS.contains(&a) {
        } else if KEEP_TG.contains(&a) {
            if e.obj != g.tg_pid {
                continue;
            }
            o.insert("x".into(), json!("tg"));
        } else if a == "status.set" {
            if e.obj != g.tg_pid || e.d != 1 || !sc.instant {
                continue;
            }
            o.insert("a".into(), json!("status.starting"));
            o.insert("x".into(), json!("tg"));
            o.remove("prev");
        } else if a == "timer.start" || a == "timer.fire" {
            let id: u64 = e.who.strip_prefix('k').and_then(|s| s.parse().ok()).unwrap_or(0);
            match task_timer.get(&id) {
                Some(x) => {
                    o.insert("x".into(), json!(x));
                    // the hook logs period.as_millis(): a period with a sub-millisecond part counts as the next whole ms
                    let ti: usize = x[1..].parse::<usize>().unwrap_or(1) - 1;
                    if sc.timers.get(ti).map(|t| t.sub_us > 0).unwrap_or(false) {
                        o.insert("d".into(), json!(e.d + 1));
                    }
                }
                None => continue,
            }
        } else if a == "task.done" || a == "task.dropped" || a == "task.panicked" {
            match task_timer.get(&e.obj) {
                Some(x) => {
                    o.insert("a".into(), json!(match a {
                        "task.done" => "obs.timer_done",
                        "task.dropped" => "obs.timer_dropped",
                        _ => "obs.timer_panicked",
                    }));
                    o.insert("x".into(), json!(x));
                }
                None => continue,
            }
        } else {
            continue;
        }
        last_t = e.t;
        evs.push(j);
    }
    let fin = fin.lock().unwrap().clone();
    evs.push(json!({"a": "obs.end", "who": "drv", "obj": "", "d": 0, "t": last_t, "x": "", "fin": fin}));
    let bad = !run.quiescent;
    let meta = json!({"family": "timer", "scenario": format!("{:?}", sc), "sched": ex.sched, "steps": run.steps, "quiescent": run.quiescent});
    drop(g);
    (evs, meta, bad)
}

// ------------------------------------------------------------------------------------------------
// scenarios
// ------------------------------------------------------------------------------------------------
fn t(kind: Kind, period: u64, via: Via) -> TimerSpec {
    TimerSpec { kind, period, via, sub_us: 0 }
}
fn tsub(kind: Kind, period: u64, via: Via, sub_us: u64) -> TimerSpec {
    TimerSpec { kind, period, via, sub_us }
}

/// Hand-written micro-scenarios explored exhaustively over poll orders
pub fn micro_scenarios() -> Vec<Scenario> {
    use COp::*;
    use Kind as K;
    vec![
        // three timers due at the same instant, the target stopped at that instant
        Scenario {
            timers: vec![t(K::After, 5, Via::Cell), t(K::After, 5, Via::Ref), t(K::Interval, 5, Via::Cell)],
            in_pre_start: vec![],
            clients: vec![vec![Create(0), Create(1), Create(2), Join(0), Join(1), Join(2)], vec![Sleep(5), Stop]],
            post_stop_yield: true,
            post_stop_sleep: 0,
            instant: false,
            horizon: 17,
        },
        // abort at the instant of expiry (before / after the firing poll), and one ms either side
        Scenario {
            timers: vec![t(K::After, 5, Via::Cell), t(K::After, 5, Via::Derived), t(K::After, 5, Via::Ref), t(K::Interval, 5, Via::Ref)],
            in_pre_start: vec![],
            clients: vec![
                vec![Create(0), Create(1), Create(2), Create(3), Sleep(4), Abort(0), Sleep(1), Abort(1), Abort(3), Sleep(1), Abort(2), Join(0), Join(1), Join(2), Join(3)],
            ],
            post_stop_yield: false,
            post_stop_sleep: 0,
            instant: false,
            horizon: 13,
        },
        // kill at the instant of expiry; exit_after against send_after at the same instant
        Scenario {
            timers: vec![t(K::After, 5, Via::Cell), t(K::Exit, 5, Via::Cell), t(K::Interval, 1, Via::Derived)],
            in_pre_start: vec![],
            clients: vec![vec![Create(0), Create(1), Sleep(3), Create(2), Join(0), Join(2)], vec![Sleep(5), Kill, Finished(1)]],
            post_stop_yield: false,
            post_stop_sleep: 0,
            instant: false,
            horizon: 9,
        },
        // zero and one ms periods, kill_after
        Scenario {
            timers: vec![t(K::After, 0, Via::Cell), t(K::Interval, 1, Via::Cell), t(K::Kill, 3, Via::Ref), t(K::After, 1, Via::Ref), t(K::Exit, 0, Via::Derived)],
            in_pre_start: vec![],
            clients: vec![vec![Create(0), Create(1), Create(2), Create(3), Join(0), Join(3), Join(1)], vec![Sleep(2), Create(4), Join(4)]],
            post_stop_yield: true,
            post_stop_sleep: 0,
            instant: false,
            horizon: 8,
        },
        // drain at expiry, a failing handler at expiry
        Scenario {
            timers: vec![t(K::After, 5, Via::Cell), t(K::Interval, 5, Via::Ref), t(K::After, 6, Via::Cell)],
            in_pre_start: vec![],
            clients: vec![vec![Create(0), Create(1), Create(2), Join(0), Join(1), Join(2)], vec![Sleep(5), Drain]],
            post_stop_yield: false,
            post_stop_sleep: 0,
            instant: false,
            horizon: 14,
        },
        Scenario {
            timers: vec![t(K::After, 5, Via::Cell), t(K::Interval, 5, Via::Derived), t(K::After, 6, Via::Derived)],
            in_pre_start: vec![],
            clients: vec![vec![Create(0), Create(1), Create(2), Join(0), Join(1), Join(2)], vec![Sleep(5), SendFail]],
            post_stop_yield: false,
            post_stop_sleep: 0,
            instant: false,
            horizon: 14,
        },
        // a handler that sleeps: the stop is pending but the target is still Running, the interval keeps enqueueing
        Scenario {
            timers: vec![t(K::Interval, 3, Via::Cell), t(K::After, 5, Via::Cell), t(K::Exit, 2, Via::Cell)],
            in_pre_start: vec![],
            clients: vec![vec![SendBusy(10), Create(0), Create(1), Create(2), Join(1), Join(0)], vec![Sleep(9), Finished(0), Sleep(4), Finished(0)]],
            post_stop_yield: false,
            post_stop_sleep: 0,
            instant: false,
            horizon: 20,
        },
        // a slow post_stop: the target is Stopping when kill_after expires (a graceful stop with a hard-kill watchdog)
        Scenario {
            timers: vec![t(K::Exit, 3, Via::Cell), t(K::Kill, 9, Via::Ref), t(K::Interval, 2, Via::Cell)],
            in_pre_start: vec![],
            clients: vec![vec![Create(0), Create(1), Create(2), Join(0), Join(1), Join(2)], vec![Sleep(9), Finished(1)]],
            post_stop_yield: true,
            post_stop_sleep: 20,
            instant: false,
            horizon: 30,
        },
        // stop(), then kill_after armed while the target is already Stopping; and a kill that comes too late
        Scenario {
            timers: vec![t(K::Kill, 4, Via::Cell), t(K::Kill, 30, Via::Derived), t(K::After, 6, Via::Cell)],
            in_pre_start: vec![],
            clients: vec![vec![Sleep(2), Stop, Sleep(1), Create(0), Create(2), Join(0), Join(2)], vec![Create(1), Join(1)]],
            post_stop_yield: false,
            post_stop_sleep: 12,
            instant: false,
            horizon: 40,
        },
        // periods that are not whole milliseconds: never early means not before the next whole millisecond
        Scenario {
            timers: vec![tsub(K::Exit, 2, Via::Cell, 999), tsub(K::After, 1, Via::Ref, 1), tsub(K::Kill, 4, Via::Derived, 500), tsub(K::After, 0, Via::Cell, 999)],
            in_pre_start: vec![],
            clients: vec![vec![Create(0), Create(1), Create(2), Create(3), Join(1), Join(3), Join(0), Join(2)], vec![Sleep(2), Finished(0), Sleep(1), Finished(0)]],
            post_stop_yield: false,
            post_stop_sleep: 4,
            instant: false,
            horizon: 12,
        },
        // periods of a second and more (whole seconds, and a second plus a fraction): the reason reports the whole period
        Scenario {
            timers: vec![t(K::Exit, 1250, Via::Derived), t(K::After, 1000, Via::Ref), t(K::Interval, 1000, Via::Cell)],
            in_pre_start: vec![],
            clients: vec![vec![Create(0), Create(1), Create(2), Join(1), Join(0), Join(2)]],
            post_stop_yield: false,
            post_stop_sleep: 0,
            instant: false,
            horizon: 2400,
        },
        Scenario {
            timers: vec![t(K::Exit, 1000, Via::Cell), t(K::Kill, 2000, Via::Ref), tsub(K::After, 999, Via::Cell, 999)],
            in_pre_start: vec![],
            clients: vec![vec![Create(0), Create(1), Create(2), Join(2), Join(0), Join(1)]],
            post_stop_yield: true,
            post_stop_sleep: 0,
            instant: false,
            horizon: 2100,
        },
        Scenario {
            timers: vec![t(K::Kill, 1000, Via::Derived), t(K::Exit, 61_001, Via::Ref)],
            in_pre_start: vec![1],
            clients: vec![vec![Sleep(2), Create(0), Join(0), Join(1)]],
            post_stop_yield: false,
            post_stop_sleep: 0,
            instant: false,
            horizon: 1100,
        },
        Scenario {
            timers: vec![t(K::Exit, 61_001, Via::Ref)],
            in_pre_start: vec![0],
            clients: vec![vec![Sleep(61_000), Finished(0), Join(0)]],
            post_stop_yield: false,
            post_stop_sleep: 0,
            instant: false,
            horizon: 61_100,
        },
        // timers the actor arms on itself in pre_start
        Scenario {
            timers: vec![t(K::Interval, 5, Via::Ref), t(K::After, 5, Via::Ref), t(K::Exit, 10, Via::Ref), t(K::Kill, 10, Via::Ref)],
            in_pre_start: vec![0, 1, 2, 3],
            clients: vec![vec![Sleep(10), Finished(0), Finished(2), Finished(3)]],
            post_stop_yield: true,
            post_stop_sleep: 0,
            instant: false,
            horizon: 18,
        },
    ]
}

/// Executor stalls: a task holds the executor over one or more deadlines (tokio::time::advance inside a poll). The k-th
/// tick keeps its deadline started + k*period: missed ticks fire back to back at the end of the stall, later ones on time.
pub fn stall_scenarios() -> Vec<Scenario> {
    use COp::*;
    use Kind as K;
    let sc = |timers: Vec<TimerSpec>, clients: Vec<Vec<COp>>, horizon: u64| Scenario { timers, in_pre_start: vec![], clients, post_stop_yield: false, post_stop_sleep: 0, instant: false, horizon };
    vec![
        // a client stalls from 7 to 19: ticks 10 and 15 are missed (9 and 4 ms late), 20.. must be on time again
        sc(vec![t(K::Interval, 5, Via::Cell), t(K::After, 12, Via::Ref)], vec![vec![Create(0), Create(1), Sleep(7), Stall(12), Join(1)]], 43),
        // the demo of the seeded change: period 50, the handler stalls from 100 to 375
        sc(vec![t(K::Interval, 50, Via::Derived)], vec![vec![Create(0), Sleep(100), SendStall(275)]], 633),
        sc(vec![t(K::Interval, 50, Via::Ref), t(K::Exit, 500, Via::Cell)], vec![vec![Create(0), Create(1), Sleep(120), Stall(200), Sleep(40), Stall(30), Join(0)]], 633),
        // lateness at most 5 ms and exactly 6 ms (tokio's threshold for "missed")
        sc(vec![t(K::Interval, 10, Via::Cell), t(K::Interval, 10, Via::Ref)], vec![vec![Create(0), Sleep(8), Stall(7), Sleep(3), Create(1), Sleep(9), Stall(7), Sleep(30), Stop]], 83),
        // a stall between the call and the first poll of the timer task, and one over the expiry of one-shot timers
        sc(vec![t(K::After, 5, Via::Cell), t(K::Interval, 5, Via::Derived), t(K::Kill, 20, Via::Ref)], vec![vec![Create(0), Stall(3), Create(1), Create(2)], vec![Sleep(4), SendStall(9)]], 37),
        // two stalls in a row (the handler, then a client) with several timers due inside, the target stopped right after
        sc(vec![t(K::Interval, 3, Via::Cell), t(K::Interval, 7, Via::Ref), t(K::After, 6, Via::Derived)], vec![vec![Create(0), Create(1), Create(2), Sleep(4), SendStall(8), Join(2)], vec![Sleep(4), Stall(11), Stop]], 41),
    ]
}

/// Small enough for an unbounded DFS: every poll order of three timers that are due at the same instant
pub fn exhaustive_scenarios() -> Vec<Scenario> {
    use Kind as K;
    vec![
        Scenario {
            timers: vec![t(K::After, 5, Via::Ref), t(K::Interval, 5, Via::Ref), t(K::After, 5, Via::Ref)],
            in_pre_start: vec![0, 1, 2],
            clients: vec![],
            post_stop_yield: false,
            post_stop_sleep: 0,
            instant: false,
            horizon: 7,
        },
        Scenario {
            timers: vec![t(K::After, 1, Via::Ref), t(K::After, 1, Via::Derived), t(K::Kill, 1, Via::Ref)],
            in_pre_start: vec![0, 1, 2],
            clients: vec![],
            post_stop_yield: false,
            post_stop_sleep: 0,
            instant: false,
            horizon: 4,
        },
    ]
}

/// Timers armed on a target that was spawned with spawn_linked_instant and may still be Unstarted
pub fn instant_scenarios() -> Vec<Scenario> {
    use COp::*;
    use Kind as K;
    vec![
        Scenario {
            timers: vec![t(K::Interval, 5, Via::Ref), t(K::After, 5, Via::Cell)],
            in_pre_start: vec![],
            clients: vec![vec![Create(0), Create(1), Sleep(11), Finished(0), Stop]],
            post_stop_yield: false,
            post_stop_sleep: 0,
            instant: true,
            horizon: 19,
        },
        Scenario {
            timers: vec![t(K::Interval, 1, Via::Derived), t(K::Interval, 1, Via::Cell), t(K::Exit, 3, Via::Ref)],
            in_pre_start: vec![],
            clients: vec![vec![Create(0), Create(2)], vec![Create(1), Sleep(2), Finished(0), Finished(1)]],
            post_stop_yield: false,
            post_stop_sleep: 0,
            instant: true,
            horizon: 6,
        },
    ]
}

/// `timer-instant`: the instant-spawn scenarios only (DFS capped + random orders)
pub fn batch_instant(out: &str, tier: &str, seed: u64) -> Value {
    let mut b = Batch::new(Some(out));
    let (dfs_cap, nrand) = if tier == "thorough" { (4000usize, 4000usize) } else { (600usize, 400usize) };
    let mut nontrivial = std::collections::HashSet::new();
    let mut bad_runs = 0u64;
    let mut died = 0u64;
    for sc in instant_scenarios() {
        for mode in 0..2 {
            let mut ex = if mode == 0 { Explorer::new(Mode::Dfs { preempt_bound: Some(2) }, seed) } else { Explorer::new(Mode::Random, seed ^ 0x696e7374) };
            let mut n = 0;
            loop {
                ex.begin_run();
                let (evs, meta, bad) = one_run(&sc, &mut ex);
                // an interval task that finished although it never fired and its target was never stopped before
                let mut started: std::collections::HashSet<String> = Default::default();
                let mut fired: std::collections::HashSet<String> = Default::default();
                for e in &evs {
                    let (a, x, tt) = (e["a"].as_str().unwrap_or(""), e["x"].as_str().unwrap_or("").to_string(), e["t"].as_u64().unwrap_or(0));
                    if a == "timer.start" {
                        started.insert(x);
                    } else if a == "timer.fire" {
                        fired.insert(x);
                    } else if a == "obs.timer_done" && tt == 0 && started.contains(&x) && !fired.contains(&x) {
                        died += 1;
                    }
                }
                let h = b.run(meta, &evs);
                if ex.nontrivial {
                    nontrivial.insert(h);
                }
                if bad {
                    bad_runs += 1;
                }
                n += 1;
                if (mode == 0 && !ex.end_run()) || n >= if mode == 0 { dfs_cap } else { nrand } {
                    break;
                }
            }
        }
    }
    b.finish();
    json!({"family": "timer-instant", "runs": b.runs, "events": b.events, "distinct": b.hashes.len(), "distinct_nontrivial": nontrivial.len(),
           "bad_runs": bad_runs, "timers_finished_at_t0_without_firing": died, "samples": b.samples})
}

pub fn rand_scenario(rng: &mut Rng) -> Scenario {
    let fast = rng.chance(1, 3);
    // one scenario in ten works with periods around and above one second
    let long = !fast && rng.chance(1, 7);
    let periods: &[u64] = if fast { &[0, 1, 1, 5] } else if long { &[999, 1000, 1000, 1250, 2000] } else { &[0, 1, 5, 5, 50, 50] };
    let times: &[u64] = if fast {
        &[0, 1, 2, 4, 5, 6]
    } else if long {
        &[0, 5, 999, 1000, 1001, 1250, 1999, 2000, 2500]
    } else {
        &[0, 1, 4, 5, 6, 10, 45, 49, 50, 51, 55, 100]
    };
    let nt = 1 + rng.below(4);
    let mut timers = vec![];
    for _ in 0..nt {
        let kind = match rng.below(8) {
            0..=2 => Kind::After,
            3..=5 => Kind::Interval,
            6 => Kind::Exit,
            _ => Kind::Kill,
        };
        let mut period = periods[rng.below(periods.len())];
        if kind == Kind::Interval && period == 0 {
            period = 1;
        }
        if kind == Kind::Interval && !fast && period == 1 {
            period = 5;
        }
        let via = match rng.below(3) {
            0 => Via::Cell,
            1 => Via::Ref,
            _ => Via::Derived,
        };
        let sub_us = if kind != Kind::Interval && rng.chance(1, 6) { [1u64, 500, 999][rng.below(3)] } else { 0 };
        timers.push(TimerSpec { kind, period, via, sub_us });
    }
    let mut in_pre_start = vec![];
    let mut clients: Vec<Vec<COp>> = vec![];
    // creators: each timer is created by the actor itself or by a client at some time, then maybe aborted / joined
    for i in 0..nt {
        if rng.chance(1, 6) {
            in_pre_start.push(i);
            if rng.chance(1, 2) {
                let at = times[rng.below(times.len())];
                clients.push(vec![COp::Sleep(at), if rng.chance(1, 2) { COp::Abort(i) } else { COp::Finished(i) }, COp::Join(i)]);
            }
            continue;
        }
        let mut c = vec![];
        if rng.chance(1, 3) {
            c.push(COp::Sleep(times[rng.below(times.len())]));
        }
        c.push(COp::Create(i));
        match rng.below(4) {
            0 => {
                // abort relative to the period: just before, at, just after
                let p = timers[i].period;
                let d = match rng.below(4) {
                    0 => p.saturating_sub(1),
                    1 | 2 => p,
                    _ => p + 1,
                };
                if d > 0 {
                    c.push(COp::Sleep(d));
                }
                c.push(COp::Abort(i));
                c.push(COp::Join(i));
            }
            1 => c.push(COp::Join(i)),
            2 => {
                c.push(COp::Sleep(times[rng.below(times.len())]));
                c.push(COp::Finished(i));
            }
            _ => {}
        }
        clients.push(c);
    }
    // the target's fate
    if rng.chance(4, 5) {
        let mut c = vec![];
        let at = if rng.chance(1, 2) && !timers.is_empty() { timers[rng.below(nt)].period } else { times[rng.below(times.len())] };
        if rng.chance(1, 4) {
            c.push(COp::SendBusy(1 + rng.below(8) as u64));
        }
        if at > 0 {
            c.push(COp::Sleep(at));
        }
        c.push(match rng.below(5) {
            0 | 1 => COp::Stop,
            2 => COp::Kill,
            3 => COp::Drain,
            _ => COp::SendFail,
        });
        if rng.chance(1, 3) {
            c.push(COp::Kill);
        }
        clients.push(c);
    }
    if rng.chance(1, 4) {
        let mut c = vec![];
        let at = times[rng.below(times.len())];
        if at > 0 {
            c.push(COp::Sleep(at));
        }
        let d = [1u64, 4, 6, 7, 12, 23][rng.below(6)];
        c.push(if rng.chance(1, 2) { COp::Stall(d) } else { COp::SendStall(d) });
        clients.push(c);
    }
    let horizon = if fast { 13 } else if long { 4133 } else { 133 };
    Scenario { timers, in_pre_start, clients, post_stop_yield: rng.chance(1, 2), post_stop_sleep: [0, 0, 0, 2, 6][rng.below(5)], instant: false, horizon }
}

pub fn batch(out: &str, tier: &str, seed: u64) -> Value {
    let mut b = Batch::new(Some(out));
    let (dfs_cap, nmicro, nrand, per) = if tier == "thorough" { (4000usize, 3000usize, 6000usize, 3usize) } else { (400usize, 300usize, 800usize, 2usize) };
    let mut nontrivial = std::collections::HashSet::new();
    let mut bad_runs = 0u64;
    let mut exhausted = 0u64;
    let mut exhaustive_runs = 0u64;
    for sc in micro_scenarios() {
        let mut ex = Explorer::new(Mode::Dfs { preempt_bound: Some(3) }, seed);
        let mut n = 0;
        loop {
            ex.begin_run();
            let (evs, meta, bad) = one_run(&sc, &mut ex);
            let h = b.run(meta, &evs);
            if ex.nontrivial {
                nontrivial.insert(h);
            }
            if bad {
                bad_runs += 1;
            }
            n += 1;
            if !ex.end_run() {
                exhausted += 1;
                break;
            }
            if n >= dfs_cap {
                break;
            }
        }
        // the capped DFS varies the tail of a run first: add seeded random poll orders of the same scenario
        let mut ex = Explorer::new(Mode::Random, seed.wrapping_mul(0x9E3779B97F4A7C15) ^ 0x6d6963726f);
        for _ in 0..nmicro {
            ex.begin_run();
            let (evs, meta, bad) = one_run(&sc, &mut ex);
            let h = b.run(meta, &evs);
            if ex.nontrivial {
                nontrivial.insert(h);
            }
            if bad {
                bad_runs += 1;
            }
        }
    }
    for sc in stall_scenarios() {
        let mut ex = Explorer::new(Mode::Dfs { preempt_bound: Some(2) }, seed);
        for _ in 0..nmicro / 2 {
            ex.begin_run();
            let (evs, meta, bad) = one_run(&sc, &mut ex);
            let h = b.run(meta, &evs);
            if ex.nontrivial {
                nontrivial.insert(h);
            }
            if bad {
                bad_runs += 1;
            }
            if !ex.end_run() {
                break;
            }
        }
        let mut ex = Explorer::new(Mode::Random, seed.wrapping_mul(0x9E3779B97F4A7C15) ^ 0x7374616c6c);
        for _ in 0..nmicro / 2 {
            ex.begin_run();
            let (evs, meta, bad) = one_run(&sc, &mut ex);
            let h = b.run(meta, &evs);
            if ex.nontrivial {
                nontrivial.insert(h);
            }
            if bad {
                bad_runs += 1;
            }
        }
    }
    for sc in exhaustive_scenarios() {
        let mut ex = Explorer::new(Mode::Dfs { preempt_bound: None }, seed);
        let mut n = 0;
        loop {
            ex.begin_run();
            let (evs, meta, bad) = one_run(&sc, &mut ex);
            let h = b.run(meta, &evs);
            if ex.nontrivial {
                nontrivial.insert(h);
            }
            if bad {
                bad_runs += 1;
            }
            n += 1;
            if !ex.end_run() {
                exhausted += 1;
                break;
            }
            if n >= 20 * dfs_cap {
                break;
            }
        }
        exhaustive_runs += n as u64;
    }
    let mut rng = Rng(seed ^ 0x74696d65);
    for _ in 0..nrand {
        let sc = rand_scenario(&mut rng);
        let mut ex = Explorer::new(Mode::Random, rng.next());
        for _ in 0..per {
            ex.begin_run();
            let (evs, meta, bad) = one_run(&sc, &mut ex);
            let h = b.run(meta, &evs);
            if ex.nontrivial {
                nontrivial.insert(h);
            }
            if bad {
                bad_runs += 1;
            }
        }
    }
    b.finish();
    json!({"family": "timer", "runs": b.runs, "events": b.events, "distinct": b.hashes.len(), "distinct_nontrivial": nontrivial.len(),
           "bad_runs": bad_runs, "dfs_exhausted": exhausted, "exhaustive_runs": exhaustive_runs, "samples": b.samples})
}

pub fn dispatch(cmd: &str, a: &std::collections::HashMap<String, String>) -> Option<Value> {
    let (out, tier, seed) = crate::common(a);
    match cmd {
        "timer" => Some(batch(&out, &tier, seed)),
        "timer-instant" => Some(batch_instant(&out, &tier, seed)),
        _ => None,
    }
}
