//! Engine H: real OS threads parked at `verif::point`s, released one at a time.
use crate::explore::Explorer;
use crate::trace::Names;
use ractor::verif::{self, Ev, TState};

pub struct HThread {
    pub role: String,
    pub f: Box<dyn FnOnce() + Send + 'static>,
}

pub struct HRun {
    pub events: Vec<Ev>,
    pub names: Names,
    pub steps: usize,
    /// roles of threads that ended the run blocked in an await nobody will wake
    pub stuck: Vec<String>,
    pub overrun: bool,
}

/// Controller ids are 1..n in every run as long as no run left a thread behind. A thread that stays
/// blocked (lost wake-up) or parked (overrun) keeps waiting for a release of *its* id, so later runs
/// must not reuse it: the id space moves on after such a run.
static ID_BASE: std::sync::atomic::AtomicU64 = std::sync::atomic::AtomicU64::new(0);

pub fn run_threads(threads: Vec<HThread>, ex: &mut Explorer, max_steps: usize) -> HRun {
    verif::reset_threads();
    let base = ID_BASE.load(std::sync::atomic::Ordering::SeqCst);
    verif::enable(true);
    let _ = verif::take_events();
    let mut names = Names::default();
    let mut handles = vec![];
    let mut ids = vec![];
    for (i, th) in threads.into_iter().enumerate() {
        let id = base + (i + 1) as u64;
        names.who.insert(format!("t{id}"), th.role.clone());
        handles.push((id, th.role.clone(), Some(verif::spawn_controlled(id, th.f))));
        verif::settle(id);
        ids.push(id);
    }
    let mut last: Option<u64> = None;
    let mut steps = 0usize;
    let mut stuck = vec![];
    let mut overrun = false;
    loop {
        let mut enabled: Vec<u64> = vec![];
        let mut blocked: Vec<u64> = vec![];
        for id in &ids {
            match verif::tstate(*id) {
                Some(TState::AtPoint(..)) => enabled.push(*id),
                Some(TState::Blocked) => blocked.push(*id),
                _ => {}
            }
        }
        if enabled.is_empty() {
            for b in blocked {
                stuck.push(names.who(&format!("t{b}")));
            }
            break;
        }
        if steps >= max_steps {
            overrun = true;
            break;
        }
        let mut cont = false;
        if let Some(l) = last {
            if let Some(p) = enabled.iter().position(|x| *x == l) {
                enabled.remove(p);
                enabled.insert(0, l);
                cont = true;
            }
        }
        let c = ex.choose(enabled.len(), cont);
        let id = enabled[c];
        verif::step(id);
        last = Some(id);
        steps += 1;
    }
    for (id, _role, h) in handles.iter_mut() {
        if let Some(TState::Done) = verif::tstate(*id) {
            if let Some(h) = h.take() {
                let _ = h.join();
            }
        } else {
            ID_BASE.store(base + 1000, std::sync::atomic::Ordering::SeqCst);
        }
        // threads that are stuck or parked stay behind; they hold no locks (points are outside
        // lock regions) and are never released again.
    }
    let events = verif::take_events();
    HRun { events, names, steps, stuck, overrun }
}

/// Free running: the same roles on real, uncontrolled OS threads released together by a barrier (points only record).
/// This reaches interleavings inside code that has no point -- a window a change opens inside a region the hooks treat
/// as atomic -- by chance, not by enumeration. Only lines logged at safe positions may be kept by the caller: an intent
/// logged before a call, a result logged after it, observations of state no other thread of the run can change.
pub fn run_threads_free(threads: Vec<HThread>, spin: &[u32]) -> HRun {
    verif::reset_threads();
    verif::enable(true);
    let _ = verif::take_events();
    let mut names = Names::default();
    let barrier = std::sync::Arc::new(std::sync::Barrier::new(threads.len()));
    let mut hs = vec![];
    for (i, th) in threads.into_iter().enumerate() {
        let id = (i + 1) as u64;
        names.who.insert(format!("t{id}"), th.role.clone());
        let b = barrier.clone();
        let sp = spin.get(i).copied().unwrap_or(0);
        let f = th.f;
        hs.push(std::thread::spawn(move || {
            verif::name_thread(id);
            b.wait();
            for _ in 0..sp {
                std::hint::spin_loop();
            }
            f();
        }));
    }
    for h in hs {
        let _ = h.join();
    }
    let events = verif::take_events();
    HRun { events, names, steps: 0, stuck: vec![], overrun: false }
}
