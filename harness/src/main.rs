//! rverif: executes scenario families against the real ractor code and records traces.
//! All policy (what to validate, verdicts) lives in /verif/tools.
mod cluster2;
mod explore;
mod fam_clusterelect;
mod fam_remoteactor;
mod fam_wiretcp;
mod fam_factory;
mod cluster_io;
mod fam_clusterauth;
mod fam_decode;
mod fam_framing;
mod fam_lifecycle;
mod fam_mailbox;
mod fam_mailbox_t;
mod fam_pg;
mod fam_exitwait;
mod fam_registry;
mod fam_suptree;
mod fam_outport;
mod fam_rpc;
mod fam_timer;
mod tdrv;
mod hctl;
mod trace;

use std::collections::HashMap;

fn args() -> (String, HashMap<String, String>) {
    let mut it = std::env::args().skip(1);
    let cmd = it.next().unwrap_or_default();
    let mut m = HashMap::new();
    let rest: Vec<String> = it.collect();
    let mut i = 0;
    while i < rest.len() {
        if let Some(k) = rest[i].strip_prefix("--") {
            let v = rest.get(i + 1).cloned().unwrap_or_default();
            m.insert(k.to_string(), v);
            i += 2;
        } else {
            i += 1;
        }
    }
    (cmd, m)
}

pub static PROGRESS: std::sync::atomic::AtomicU64 = std::sync::atomic::AtomicU64::new(0);

fn main() {
    // panics inside code under test are data; keep the default hook quiet
    std::panic::set_hook(Box::new(|_| {}));
    // watchdog: a wedged run must not hang the check (exit 3 = stalled)
    std::thread::spawn(|| {
        let mut last = 0;
        let mut idle = 0;
        loop {
            std::thread::sleep(std::time::Duration::from_secs(5));
            let p = PROGRESS.load(std::sync::atomic::Ordering::SeqCst);
            if p == last {
                idle += 1;
                if idle >= 24 {
                    eprintln!("rverif: no progress for 120 s, giving up");
                    std::process::exit(3);
                }
            } else {
                idle = 0;
                last = p;
            }
        }
    });
    let (cmd, a) = args();
    // every family module exposes `dispatch(cmd, args) -> Option<summary>`
    let fams: &[fn(&str, &HashMap<String, String>) -> Option<serde_json::Value>] = &[
        fam_mailbox::dispatch,
        fam_mailbox_t::dispatch,
        fam_lifecycle::dispatch,
        fam_pg::dispatch,
        fam_clusterelect::dispatch,
        fam_remoteactor::dispatch,
        fam_exitwait::dispatch,
        fam_registry::dispatch,
        fam_suptree::dispatch,
        fam_timer::dispatch,
        fam_rpc::dispatch,
        fam_outport::dispatch,
        fam_factory::dispatch,
        fam_framing::dispatch,
        fam_wiretcp::dispatch,
        fam_clusterauth::dispatch,
        fam_decode::dispatch,
    ];
    for f in fams {
        if let Some(summary) = f(&cmd, &a) {
            println!("{summary}");
            return;
        }
    }
    eprintln!("unknown command {cmd}");
    std::process::exit(2);
}

/// common arguments: --out <file> --tier quick|thorough --seed <n>
pub fn common(a: &HashMap<String, String>) -> (String, String, u64) {
    let out = a.get("out").cloned().unwrap_or_else(|| "/dev/null".into());
    let tier = a.get("tier").cloned().unwrap_or_else(|| "quick".into());
    let seed: u64 = a.get("seed").and_then(|s| s.parse().ok()).unwrap_or(1);
    (out, tier, seed)
}
