//! Family `mailbox` (C02, C07): sender / drainer / consumer threads on a detached cell, engine H.
use crate::explore::Explorer;
use crate::hctl::{run_threads, HThread};
use crate::trace::{ev_json, Batch, Rng};
use ractor::verif::{self, Detached, Recv, Val};
use ractor::{Actor, ActorProcessingErr, ActorRef, ActorStatus, Message};
use serde_json::{json, Value};
use std::sync::{Arc, Mutex};

pub struct M(pub u32, pub u32);
impl Message for M {}
pub struct Other;
impl Message for Other {}

pub struct Dummy;
#[cfg_attr(feature = "asynctrait", ractor::async_trait)]
impl Actor for Dummy {
    type Msg = M;
    type State = ();
    type Arguments = ();
    async fn pre_start(&self, _: ActorRef<M>, _: ()) -> Result<(), ActorProcessingErr> {
        Ok(())
    }
}

#[derive(Clone, Debug)]
pub struct Shape {
    pub senders: usize,
    pub msgs: usize,
    pub drainers: usize,
    /// consumer receive attempts
    pub turns: usize,
    /// consumer quits on its own before this turn (None = only via the drain marker)
    pub quit_at: Option<usize>,
    /// one extra thread that sends a message of the wrong type
    pub wrong_type: bool,
    /// senders use ActorCell::send_serialized (the path remote casts take) instead of send_message
    pub serialized: bool,
}

const KEEP: &[&str] = &[
    "obs.send_begin", "send.status", "adm.iter", "marker.iter", "send.admit", "send.enq", "adm.release", "marker.cas", "obs.send_ret",
    "obs.drain_begin", "drain.close", "drain.status", "obs.drain_ret", "obs.consume", "obs.quit",
    "obs.ports_dropped", "status.set", "obs.end", "obs.wrong_ret",
];

/// (sender, k) of a received item, whichever way it was sent
fn decode(b: ractor::message::BoxedMessage) -> (u32, u32) {
    if let Some(ractor::message::SerializedMessage::Cast { args, .. }) = &b.serialized_msg {
        return (args[0] as u32, args[1] as u32);
    }
    let m = M::from_boxed(b).expect("typed message");
    (m.0, m.1)
}

fn kv(k: &str, v: Val) -> (String, Val) {
    (k.to_string(), v)
}

/// Execute one run of `shape` under the explorer's schedule. Returns (events as json, meta).
pub fn one_run(shape: &Shape, ex: &mut Explorer) -> (Vec<Value>, Value, bool) {
    let det: Detached = verif::detached::<Dummy>(None).expect("detached");
    let cell = det.cell.clone();
    cell_set_running(&det);
    let det = Arc::new(Mutex::new(det));
    let mut threads: Vec<HThread> = vec![];
    for s in 0..shape.senders {
        let cell = cell.clone();
        let n = shape.msgs;
        let serialized = shape.serialized;
        threads.push(HThread {
            role: format!("s{}", s + 1),
            f: Box::new(move || {
                for k in 1..=n {
                    verif::emit_kv("obs.send_begin", 0, 0, vec![kv("k", Val::I(k as i64))]);
                    let ok = if serialized {
                        cell.send_serialized(ractor::message::SerializedMessage::Cast {
                            variant: "m".into(),
                            args: vec![s as u8 + 1, k as u8],
                            metadata: None,
                        })
                        .is_ok()
                    } else {
                        cell.send_message(M(s as u32 + 1, k as u32)).is_ok()
                    };
                    verif::emit_kv("obs.send_ret", 0, i64::from(ok), vec![kv("k", Val::I(k as i64))]);
                }
            }),
        });
    }
    for d in 0..shape.drainers {
        let cell = cell.clone();
        threads.push(HThread {
            role: format!("d{}", d + 1),
            f: Box::new(move || {
                verif::emit("obs.drain_begin", 0, 0);
                let _ = cell.drain();
                verif::emit("obs.drain_ret", 0, 0);
            }),
        });
    }
    if shape.wrong_type {
        let cell = cell.clone();
        threads.push(HThread {
            role: "w1".into(),
            f: Box::new(move || {
                let r = cell.send_message(Other);
                let rejected = matches!(r, Err(ractor::MessagingErr::InvalidActorType));
                verif::emit("obs.wrong_ret", 0, i64::from(rejected));
            }),
        });
    }
    {
        let det = det.clone();
        let turns = shape.turns;
        let quit_at = shape.quit_at;
        threads.push(HThread {
            role: "c".into(),
            f: Box::new(move || {
                let mut exit = false;
                for t in 0..turns {
                    verif::point("cons.turn", 0, t as i64);
                    let mut d = det.lock().unwrap();
                    if quit_at == Some(t) {
                        verif::emit("obs.quit", 0, 0);
                        exit = true;
                    } else {
                        match d.try_recv() {
                            Recv::Msg(b) => {
                                let m = decode(b);
                                verif::emit_kv(
                                    "obs.consume",
                                    0,
                                    0,
                                    vec![kv("kind", Val::S("msg".into())), kv("s", Val::S(format!("s{}", m.0))), kv("k", Val::I(m.1 as i64))],
                                );
                            }
                            Recv::Drain => {
                                verif::emit_kv("obs.consume", 0, 0, vec![kv("kind", Val::S("drain".into())), kv("s", Val::S("".into())), kv("k", Val::I(0))]);
                                exit = true;
                            }
                            Recv::Empty => {
                                verif::emit_kv("obs.consume", 0, 0, vec![kv("kind", Val::S("empty".into())), kv("s", Val::S("".into())), kv("k", Val::I(0))]);
                            }
                            Recv::Closed => {
                                verif::emit_kv("obs.consume", 0, 0, vec![kv("kind", Val::S("closed".into())), kv("s", Val::S("".into())), kv("k", Val::I(0))]);
                            }
                        }
                    }
                    if exit {
                        // the actor task's exit sequence as seen from the mailbox
                        d.set_status(ActorStatus::Stopping);
                        drop(d);
                        verif::point("cons.stopping", 0, 0);
                        let mut d = det.lock().unwrap();
                        d.drop_ports();
                        verif::emit("obs.ports_dropped", 0, 0);
                        drop(d);
                        verif::point("cons.dropped", 0, 0);
                        let d = det.lock().unwrap();
                        d.set_status(ActorStatus::Stopped);
                        break;
                    }
                }
            }),
        });
    }
    let run = run_threads(threads, ex, 2000);
    // final projection of the implementation state
    let mut d = det.lock().unwrap();
    let w = verif::admission_word(&cell);
    let closed = (w >> (usize::BITS - 1)) & 1;
    let marker = (w >> (usize::BITS - 2)) & 1;
    let cnt = w & ((1usize << (usize::BITS - 2)) - 1);
    let mut left = vec![];
    let mut rxclosed = 0;
    loop {
        match d.try_recv() {
            Recv::Msg(b) => {
                let m = decode(b);
                left.push(json!({"s": format!("s{}", m.0), "k": m.1}));
            }
            Recv::Drain => left.push(json!({"s": "drain", "k": 0})),
            Recv::Empty => break,
            Recv::Closed => {
                rxclosed = 1;
                break;
            }
        }
    }
    let status = cell.get_status() as i64;
    // tidy up the global registries
    d.drop_ports();
    d.drop_guard();
    drop(d);
    let mut evs: Vec<Value> = run
        .events
        .iter()
        .filter(|e| KEEP.contains(&e.a.as_str()))
        .filter(|e| e.a != "status.set" || e.who == format!("t{}", shape.senders + shape.drainers + usize::from(shape.wrong_type) + 1))
        .map(|e| ev_json(e, &run.names))
        .collect();
    evs.push(json!({"a": "obs.end", "who": "drv", "obj": "", "d": 0, "t": 0, "cnt": cnt, "closed": closed, "marker": marker,
                    "status": status, "rxclosed": rxclosed, "q": left}));
    let bad = run.overrun || !run.stuck.is_empty();
    let meta = json!({"family": "mailbox", "shape": format!("{shape:?}"), "sched": ex.sched, "steps": run.steps,
                      "stuck": run.stuck, "overrun": run.overrun});
    (evs, meta, bad)
}

fn cell_set_running(det: &Detached) {
    det.set_status(ActorStatus::Starting);
    det.set_status(ActorStatus::Running);
}

pub fn shapes(tier: &str) -> Vec<Shape> {
    let mut v = vec![
        Shape { senders: 1, msgs: 2, drainers: 1, turns: 4, quit_at: None, wrong_type: false, serialized: false },
        Shape { senders: 2, msgs: 1, drainers: 1, turns: 4, quit_at: None, wrong_type: false, serialized: false },
        Shape { senders: 2, msgs: 1, drainers: 1, turns: 3, quit_at: Some(1), wrong_type: false, serialized: false },
        Shape { senders: 2, msgs: 2, drainers: 1, turns: 6, quit_at: None, wrong_type: true, serialized: false },
        Shape { senders: 2, msgs: 1, drainers: 2, turns: 4, quit_at: None, wrong_type: false, serialized: false },
        Shape { senders: 2, msgs: 2, drainers: 0, turns: 5, quit_at: Some(3), wrong_type: false, serialized: false },
    ];
    // the serialized path (what a remote cast takes)
    v.push(Shape { senders: 1, msgs: 2, drainers: 1, turns: 4, quit_at: None, wrong_type: false, serialized: true });
    v.push(Shape { senders: 2, msgs: 1, drainers: 1, turns: 4, quit_at: None, wrong_type: false, serialized: true });
    if tier == "thorough" {
        v.push(Shape { senders: 3, msgs: 1, drainers: 2, turns: 5, quit_at: None, wrong_type: false, serialized: false });
        v.push(Shape { senders: 3, msgs: 2, drainers: 1, turns: 8, quit_at: None, wrong_type: false, serialized: false });
        v.push(Shape { senders: 2, msgs: 3, drainers: 1, turns: 8, quit_at: Some(5), wrong_type: true, serialized: false });
        v.push(Shape { senders: 3, msgs: 3, drainers: 2, turns: 11, quit_at: None, wrong_type: false, serialized: false });
    }
    v
}

/// Produce a batch: per shape a bounded DFS (preemption bound) followed by random schedules.
pub fn batch(out: &str, tier: &str, seed: u64) -> Value {
    let mut b = Batch::new(Some(out));
    let (dfs_cap, rnd) = if tier == "thorough" { (6000usize, 3000usize) } else { (400usize, 150usize) };
    let mut nontrivial = std::collections::HashSet::new();
    let mut bad_runs = 0u64;
    let mut rng = Rng(seed ^ 0x6d61696c);
    for sh in shapes(tier) {
        for bound in [1u32, 2u32] {
            let mut ex = Explorer::new(crate::explore::Mode::Dfs { preempt_bound: Some(bound) }, seed);
            let mut n = 0;
            loop {
                ex.begin_run();
                let (evs, meta, bad) = one_run(&sh, &mut ex);
                let h = b.run(meta, &evs);
                if ex.nontrivial {
                    nontrivial.insert(h);
                }
                if bad {
                    bad_runs += 1;
                }
                n += 1;
                if !ex.end_run() || n >= dfs_cap {
                    break;
                }
            }
        }
        let mut ex = Explorer::new(crate::explore::Mode::Random, rng.next());
        for _ in 0..rnd {
            ex.begin_run();
            let (evs, meta, bad) = one_run(&sh, &mut ex);
            let h = b.run(meta, &evs);
            if ex.nontrivial {
                nontrivial.insert(h);
            }
            if bad {
                bad_runs += 1;
            }
        }
    }
    b.finish();
    json!({"family": "mailbox", "runs": b.runs, "events": b.events, "distinct": b.hashes.len(),
           "distinct_nontrivial": nontrivial.len(), "bad_runs": bad_runs, "samples": b.samples})
}

/// Replay one schedule of one shape (for violation replays)
pub fn replay(shape_str: &str, sched: Vec<usize>, out: &str) -> Value {
    let Some(sh) = shapes("thorough").into_iter().find(|s| format!("{s:?}") == shape_str) else {
        return json!({"runs": 0, "error": "unknown shape"});
    };
    let mut b = Batch::new(Some(out));
    let mut ex = Explorer::new(crate::explore::Mode::Replay(sched), 0);
    ex.begin_run();
    let (evs, meta, _bad) = one_run(&sh, &mut ex);
    b.run(meta, &evs);
    b.finish();
    json!({"runs": 1})
}

/// Free-running mode: the same roles on real, uncontrolled OS threads (points only record). This
/// reaches interleavings inside code that has no point (a window a change may open in a region the
/// hooks treat as atomic) -- by chance, not by enumeration. Only observations are kept: their order
/// in the sink is real-time order (begin is recorded before the call, ret after it), which is what
/// the lenient (linearizability-style) validation needs.
pub fn free_run(shape: &Shape, rng: &mut Rng) -> (Vec<Value>, Value, bool) {
    use std::sync::atomic::{AtomicUsize, Ordering as AO};
    verif::enable(true);
    let _ = verif::take_events();
    let det: Detached = verif::detached::<Dummy>(None).expect("detached");
    let cell = det.cell.clone();
    cell_set_running(&det);
    let det = Arc::new(Mutex::new(det));
    let nthreads = shape.senders + shape.drainers + 1;
    let barrier = Arc::new(std::sync::Barrier::new(nthreads));
    let others_done = Arc::new(AtomicUsize::new(0));
    let mut names = crate::trace::Names::default();
    let mut hs = vec![];
    let mut tid = 0u64;
    for s in 0..shape.senders {
        tid += 1;
        names.who.insert(format!("t{tid}"), format!("s{}", s + 1));
        let (cell, barrier, done, n, ser, id) = (cell.clone(), barrier.clone(), others_done.clone(), shape.msgs, shape.serialized, tid);
        hs.push(std::thread::spawn(move || {
            verif::name_thread(id);
            barrier.wait();
            for k in 1..=n {
                verif::emit_kv("obs.send_begin", 0, 0, vec![kv("k", Val::I(k as i64))]);
                let ok = if ser {
                    cell.send_serialized(ractor::message::SerializedMessage::Cast { variant: "m".into(), args: vec![s as u8 + 1, k as u8], metadata: None }).is_ok()
                } else {
                    cell.send_message(M(s as u32 + 1, k as u32)).is_ok()
                };
                verif::emit_kv("obs.send_ret", 0, i64::from(ok), vec![kv("k", Val::I(k as i64))]);
            }
            done.fetch_add(1, AO::SeqCst);
        }));
    }
    for d in 0..shape.drainers {
        tid += 1;
        names.who.insert(format!("t{tid}"), format!("d{}", d + 1));
        let (cell, barrier, done, id, spin) = (cell.clone(), barrier.clone(), others_done.clone(), tid, rng.below(400));
        hs.push(std::thread::spawn(move || {
            verif::name_thread(id);
            barrier.wait();
            for _ in 0..spin {
                std::hint::spin_loop();
            }
            verif::emit("obs.drain_begin", 0, 0);
            let _ = cell.drain();
            verif::emit("obs.drain_ret", 0, 0);
            done.fetch_add(1, AO::SeqCst);
        }));
    }
    {
        tid += 1;
        names.who.insert(format!("t{tid}"), "c".into());
        let (det, barrier, done, id, total) = (det.clone(), barrier.clone(), others_done.clone(), tid, shape.senders + shape.drainers);
        hs.push(std::thread::spawn(move || {
            verif::name_thread(id);
            barrier.wait();
            let mut last_chance = false;
            loop {
                let mut d = det.lock().unwrap();
                match d.try_recv() {
                    Recv::Msg(b) => {
                        let m = decode(b);
                        verif::emit_kv("obs.consume", 0, 0, vec![kv("kind", Val::S("msg".into())), kv("s", Val::S(format!("s{}", m.0))), kv("k", Val::I(m.1 as i64))]);
                    }
                    Recv::Drain => {
                        verif::emit_kv("obs.consume", 0, 0, vec![kv("kind", Val::S("drain".into())), kv("s", Val::S("".into())), kv("k", Val::I(0))]);
                        d.set_status(ActorStatus::Stopping);
                        d.drop_ports();
                        verif::emit("obs.ports_dropped", 0, 0);
                        d.set_status(ActorStatus::Stopped);
                        break;
                    }
                    Recv::Empty => {
                        drop(d);
                        if last_chance {
                            break;
                        }
                        if done.load(AO::SeqCst) == total {
                            last_chance = true; // everybody returned: look once more, then give up
                        } else {
                            std::thread::yield_now();
                        }
                    }
                    Recv::Closed => break,
                }
            }
        }));
    }
    for h in hs {
        let _ = h.join();
    }
    let events = verif::take_events();
    let mut d = det.lock().unwrap();
    let w = verif::admission_word(&cell);
    let closed = (w >> (usize::BITS - 1)) & 1;
    let marker = (w >> (usize::BITS - 2)) & 1;
    let cnt = w & ((1usize << (usize::BITS - 2)) - 1);
    let mut left = vec![];
    let mut rxclosed = 0;
    loop {
        match d.try_recv() {
            Recv::Msg(b) => {
                let m = decode(b);
                left.push(json!({"s": format!("s{}", m.0), "k": m.1}));
            }
            Recv::Drain => left.push(json!({"s": "drain", "k": 0})),
            Recv::Empty => break,
            Recv::Closed => {
                rxclosed = 1;
                break;
            }
        }
    }
    let status = cell.get_status() as i64;
    d.drop_ports();
    d.drop_guard();
    drop(d);
    let mut evs: Vec<Value> = events.iter().filter(|e| e.a.starts_with("obs.")).map(|e| ev_json(e, &names)).collect();
    let hung = shape.drainers > 0 && marker == 0 && rxclosed == 0;
    evs.push(json!({"a": "obs.end", "who": "drv", "obj": "", "d": 0, "t": 0, "cnt": cnt, "closed": closed, "marker": marker,
                    "status": status, "rxclosed": rxclosed, "q": left}));
    let meta = json!({"family": "mailbox-free", "shape": format!("{shape:?}"), "sched": []});
    (evs, meta, hung)
}

pub fn free_batch(out: &str, tier: &str, seed: u64, a_runs: Option<usize>) -> Value {
    let mut b = Batch::new(Some(out));
    let n: usize = a_runs.unwrap_or(if tier == "thorough" { 6000 } else { 600 });
    let mut rng = Rng(seed ^ 0x66726565);
    let shapes = [
        Shape { senders: 2, msgs: 2, drainers: 1, turns: 0, quit_at: None, wrong_type: false, serialized: false },
        Shape { senders: 3, msgs: 1, drainers: 1, turns: 0, quit_at: None, wrong_type: false, serialized: false },
        Shape { senders: 2, msgs: 2, drainers: 1, turns: 0, quit_at: None, wrong_type: false, serialized: true },
    ];
    let mut hung = 0u64;
    for i in 0..n {
        let sh = &shapes[i % shapes.len()];
        let (evs, meta, h) = free_run(sh, &mut rng);
        hung += u64::from(h);
        b.run(meta, &evs);
    }
    b.finish();
    json!({"family": "mailbox-free", "runs": b.runs, "events": b.events, "distinct": b.hashes.len(),
           "distinct_nontrivial": b.hashes.len(), "hung": hung, "samples": b.samples})
}

pub fn dispatch(cmd: &str, a: &std::collections::HashMap<String, String>) -> Option<Value> {
    let (out, tier, seed) = crate::common(a);
    match cmd {
        "mailbox" => Some(batch(&out, &tier, seed)),
        "mailbox-free" => Some(free_batch(&out, &tier, seed, a.get("runs").and_then(|s| s.parse().ok()))),
        "mailbox-replay" => {
            let shape = a.get("shape-str").cloned().unwrap_or_default();
            let sched: Vec<usize> = serde_json::from_str(a.get("sched").map(|s| s.as_str()).unwrap_or("[]")).unwrap_or_default();
            Some(replay(&shape, sched, &out))
        }
        _ => None,
    }
}
