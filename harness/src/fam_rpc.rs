//! Family `rpc` (C09): ractor::rpc::{call, multi_call, call_and_forward}, the call!/call_t!/forward!
//! macros, ActorRef / DerivedActorRef aliases and RpcReplyPort against scripted callee actors, on
//! engine T's virtual clock. Every request carries an id; the reply port travels in a token whose
//! Drop is logged, so the fate of every port (replied / dropped, where and when) is an observation.
use crate::explore::{Explorer, Mode};
use crate::fam_lifecycle::yield_once;
use crate::tdrv::{run_t, NoBetween};
use crate::trace::{ev_json, Batch, Names, Rng};
use ractor::concurrency::Duration;
use ractor::rpc::CallResult;
use ractor::verif::{self, Val};
use ractor::{Actor, ActorProcessingErr, ActorRef, Message, MessagingErr, RactorErr, RpcReplyPort, SupervisionEvent};
use serde_json::{json, Value};
use std::collections::{BTreeSet, HashMap};
use std::sync::atomic::{AtomicUsize, Ordering};
use std::sync::{Arc, Mutex};

fn kvs(k: &str, v: &str) -> (String, Val) {
    (k.to_string(), Val::S(v.to_string()))
}
fn kvi(k: &str, v: i64) -> (String, Val) {
    (k.to_string(), Val::I(v))
}
fn obs(label: &str, x: &str, d: i64, mut kv: Vec<(String, Val)>) {
    kv.push(kvs("x", x));
    verif::emit_kv(label, 0, d, kv);
}

/// The reply port of request `id`; dropping it unanswered is logged.
pub struct Tok {
    id: u64,
    port: Option<RpcReplyPort<u64>>,
}
impl Drop for Tok {
    fn drop(&mut self) {
        if self.port.is_some() {
            obs("obs.drop", "", 0, vec![kvi("p", self.id as i64)]);
        }
    }
}
impl Tok {
    fn reply(mut self, v: u64) {
        let port = self.port.take().expect("port");
        let r = port.send(v);
        obs("obs.reply", "", i64::from(r.is_ok()), vec![kvi("p", self.id as i64), kvi("v", v as i64)]);
    }
}
pub enum CMsg {
    Req(Tok),
    Fwd(u64, u64),
}
impl Message for CMsg {}
fn mk_req(id: u64, port: RpcReplyPort<u64>) -> CMsg {
    CMsg::Req(Tok { id, port: Some(port) })
}
/// message type of the derived reference
pub struct DReq(Tok);
impl Message for DReq {}
impl From<DReq> for CMsg {
    fn from(d: DReq) -> Self {
        CMsg::Req(d.0)
    }
}
impl TryFrom<CMsg> for DReq {
    type Error = ();
    fn try_from(m: CMsg) -> Result<Self, ()> {
        match m {
            CMsg::Req(t) => Ok(DReq(t)),
            _ => Err(()),
        }
    }
}

#[derive(Clone, Copy, Debug, PartialEq)]
pub enum Pol {
    Prompt,
    Late(u64),
    Never,
    HoldDrop(u64),
    Stash,
    Both,
    Helper(u64),
    HelperDrop(u64),
    Fail,
    Panic,
}
#[derive(Clone, Copy, Debug, PartialEq)]
pub enum Via {
    Macro,
    Cell,
    Ref,
    Derived,
}
#[derive(Clone, Debug, PartialEq)]
pub enum COp {
    Sleep(u64),
    Pause,
    Call { id: u64, to: usize, via: Via, t: Option<u64> },
    Multi { ids: Vec<u64>, t: Option<u64> },
    Fwd { id: u64, to: usize, mac: bool, t: Option<u64> },
    Stop(usize),
    Kill(usize),
    Drain(usize),
}
#[derive(Clone, Debug)]
pub struct Scenario {
    pub ncallees: usize,
    /// callee 0 runs under a supervisor (its state, with stashed ports, travels in the terminal event)
    pub sup: bool,
    pub pol: Vec<(u64, Pol)>,
    pub clients: Vec<Vec<COp>>,
}
impl Scenario {
    fn policy(&self, id: u64) -> Pol {
        self.pol.iter().find(|(i, _)| *i == id).map(|(_, p)| *p).unwrap_or(Pol::Prompt)
    }
}
/// actor index `ncallees` is the collector
fn aname(sc: &Scenario, i: usize) -> String {
    if i >= sc.ncallees {
        "col".into()
    } else {
        format!("c{}", i + 1)
    }
}

#[derive(Default)]
struct World {
    actors: Vec<Option<ActorRef<CMsg>>>,
    pending: BTreeSet<u64>,
    pids: HashMap<u64, String>,
}
type W = Arc<Mutex<World>>;

struct Callee {
    idx: usize,
    name: String,
    sc: Arc<Scenario>,
    w: W,
}
#[cfg_attr(feature = "asynctrait", ractor::async_trait)]
impl Actor for Callee {
    type Msg = CMsg;
    type State = Vec<Tok>;
    type Arguments = ();
    async fn pre_start(&self, myself: ActorRef<CMsg>, _: ()) -> Result<Vec<Tok>, ActorProcessingErr> {
        self.w.lock().unwrap().pids.insert(myself.get_id().pid(), self.name.clone());
        Ok(vec![])
    }
    async fn handle(&self, _myself: ActorRef<CMsg>, m: CMsg, held: &mut Vec<Tok>) -> Result<(), ActorProcessingErr> {
        let x = self.name.as_str();
        match m {
            CMsg::Fwd(p, v) => obs("obs.fwd_recv", x, 0, vec![kvi("p", p as i64), kvi("v", v as i64)]),
            CMsg::Req(tok) => {
                let id = tok.id;
                let val = 100 * (self.idx as u64 + 1) + id;
                let pol = self.sc.policy(id);
                obs("obs.handle", x, 0, vec![kvi("p", id as i64), kvs("pol", &format!("{pol:?}"))]);
                let mut out = "ok";
                match pol {
                    Pol::Prompt => tok.reply(val),
                    Pol::Late(r) => {
                        obs("obs.sleep", x, 0, vec![]);
                        ractor::concurrency::sleep(Duration::from_millis(r)).await;
                        obs("obs.wake", x, 0, vec![]);
                        tok.reply(val);
                    }
                    Pol::Never => drop(tok),
                    Pol::HoldDrop(r) => {
                        obs("obs.sleep", x, 0, vec![]);
                        ractor::concurrency::sleep(Duration::from_millis(r)).await;
                        obs("obs.wake", x, 0, vec![]);
                        drop(tok);
                    }
                    Pol::Stash => {
                        obs("obs.stash", "", 0, vec![kvi("p", id as i64)]);
                        held.push(tok);
                    }
                    Pol::Both => {
                        tok.reply(val);
                        for t in held.drain(..) {
                            let v = 100 * (self.idx as u64 + 1) + t.id;
                            t.reply(v);
                        }
                    }
                    Pol::Helper(r) | Pol::HelperDrop(r) => {
                        obs("obs.helper", "", 0, vec![kvi("p", id as i64)]);
                        let reply = matches!(pol, Pol::Helper(_));
                        let _ = ractor::concurrency::spawn_named(Some("helper"), async move {
                            ractor::concurrency::sleep(Duration::from_millis(r)).await;
                            if reply {
                                tok.reply(val);
                            } else {
                                drop(tok);
                            }
                        });
                    }
                    Pol::Fail => {
                        drop(tok);
                        out = "err";
                    }
                    Pol::Panic => {
                        drop(tok);
                        out = "panic";
                    }
                }
                obs("obs.handle_end", x, 0, vec![kvs("o", out)]);
                if out == "err" {
                    return Err("err".into());
                }
                if out == "panic" {
                    panic!("handler panics");
                }
            }
        }
        Ok(())
    }
    /// a callee whose scenario lists the pseudo-request 1000 + idx with policy `Never` has a shutdown hook that never
    /// finishes (only a kill gets it out of post_stop; the scenario always sends one)
    async fn post_stop(&self, _myself: ActorRef<CMsg>, _held: &mut Vec<Tok>) -> Result<(), ActorProcessingErr> {
        if self.sc.pol.iter().any(|(i, p)| *i == 1000 + self.idx as u64 && *p == Pol::Never) {
            std::future::pending::<()>().await;
        }
        Ok(())
    }
}

struct Sup;
#[cfg_attr(feature = "asynctrait", ractor::async_trait)]
impl Actor for Sup {
    type Msg = CMsg;
    type State = ();
    type Arguments = ();
    async fn pre_start(&self, _myself: ActorRef<CMsg>, _: ()) -> Result<(), ActorProcessingErr> {
        Ok(())
    }
    async fn handle_supervisor_evt(&self, _myself: ActorRef<CMsg>, e: SupervisionEvent, _: &mut ()) -> Result<(), ActorProcessingErr> {
        // the event (and a terminated child's state inside it) lives across one suspension
        yield_once().await;
        drop(e);
        Ok(())
    }
}

fn ret(p: u64, r: &str, v: u64) {
    obs("obs.call_ret", "", 0, vec![kvi("p", p as i64), kvs("r", r), kvi("v", v as i64)]);
}
fn log_call(sc: &Scenario, p: u64, to: usize, kind: &str, g: u64, gn: usize, t: Option<u64>) {
    obs(
        "obs.call",
        &aname(sc, to),
        0,
        vec![kvi("p", p as i64), kvs("kind", kind), kvi("g", g as i64), kvi("gn", gn as i64), kvi("T", t.map(|x| x as i64).unwrap_or(-1))],
    );
}
fn classify<T>(r: Result<CallResult<u64>, MessagingErr<T>>) -> (&'static str, u64) {
    match r {
        Ok(CallResult::Success(v)) => ("ok", v),
        Ok(CallResult::SenderError) => ("senderr", 0),
        Ok(CallResult::Timeout) => ("timeout", 0),
        Err(_) => ("sendfail", 0),
    }
}
fn classify_mac(r: Result<u64, RactorErr<CMsg>>) -> (&'static str, u64) {
    match r {
        Ok(v) => ("ok", v),
        Err(RactorErr::Timeout) => ("timeout", 0),
        Err(RactorErr::Messaging(MessagingErr::ChannelClosed)) => ("senderr", 0),
        Err(RactorErr::Messaging(MessagingErr::SendErr(_))) => ("sendfail", 0),
        Err(_) => ("other", 0),
    }
}

async fn client(sc: Arc<Scenario>, w: W, ops: Vec<COp>) {
    for op in ops {
        yield_once().await;
        let actors: Vec<ActorRef<CMsg>> = w.lock().unwrap().actors.iter().map(|a| a.clone().expect("actor")).collect();
        match op {
            COp::Pause => {}
            COp::Sleep(ms) => ractor::concurrency::sleep(Duration::from_millis(ms)).await,
            COp::Stop(i) => {
                actors[i].stop(None);
                obs("obs.stop", &aname(&sc, i), 0, vec![]);
            }
            COp::Kill(i) => {
                actors[i].kill();
                obs("obs.kill", &aname(&sc, i), 0, vec![]);
            }
            COp::Drain(i) => {
                let _ = actors[i].drain();
                obs("obs.drain", &aname(&sc, i), 0, vec![]);
            }
            COp::Call { id, to, via, t } => {
                let a = actors[to].clone();
                w.lock().unwrap().pending.insert(id);
                log_call(&sc, id, to, "call", id, 1, t);
                let (r, v) = match (via, t) {
                    (Via::Macro, None) => classify_mac(ractor::call!(a, mk_req, id)),
                    (Via::Macro, Some(ms)) => classify_mac(ractor::call_t!(a, mk_req, ms, id)),
                    (Via::Cell, _) => classify(ractor::rpc::call(&a.get_cell(), |tx| mk_req(id, tx), t.map(Duration::from_millis)).await),
                    (Via::Ref, _) => classify(a.call(|tx| mk_req(id, tx), t.map(Duration::from_millis)).await),
                    (Via::Derived, _) => {
                        classify(a.get_derived::<DReq>().call(|tx| DReq(Tok { id, port: Some(tx) }), t.map(Duration::from_millis)).await)
                    }
                };
                w.lock().unwrap().pending.remove(&id);
                ret(id, r, v);
            }
            COp::Multi { ids, t } => {
                let targets: Vec<ActorRef<CMsg>> = actors[..ids.len()].to_vec();
                let g = ids[0];
                let n = AtomicUsize::new(0);
                {
                    let mut wl = w.lock().unwrap();
                    for id in &ids {
                        wl.pending.insert(*id);
                    }
                }
                let (sc2, ids2) = (sc.clone(), ids.clone());
                let r = ractor::rpc::multi_call(
                    &targets,
                    move |tx| {
                        let i = n.fetch_add(1, Ordering::SeqCst);
                        log_call(&sc2, ids2[i], i, "multi", g, ids2.len(), t);
                        mk_req(ids2[i], tx)
                    },
                    t.map(Duration::from_millis),
                )
                .await;
                {
                    let mut wl = w.lock().unwrap();
                    for id in &ids {
                        wl.pending.remove(id);
                    }
                }
                match r {
                    Ok(v) => {
                        for (i, cr) in v.into_iter().enumerate() {
                            let (r, v) = classify::<CMsg>(Ok(cr));
                            ret(ids[i], r, v);
                        }
                    }
                    Err(e) => {
                        obs("obs.multi_fail", "", 0, vec![kvi("g", g as i64)]);
                        drop(e);
                    }
                }
            }
            COp::Fwd { id, to, mac, t } => {
                let a = actors[to].clone();
                let col = actors[sc.ncallees].clone();
                w.lock().unwrap().pending.insert(id);
                log_call(&sc, id, to, "fwd", id, 1, t);
                let map = move |v: u64| {
                    obs("obs.fwd_map", "", 0, vec![kvi("p", id as i64), kvi("v", v as i64)]);
                    CMsg::Fwd(id, v)
                };
                let (r, v): (&str, u64) = if mac {
                    let res: Result<(), RactorErr<CMsg>> = match t {
                        None => ractor::forward!(a, |tx| mk_req(id, tx), col, map),
                        Some(ms) => ractor::forward!(a, |tx| mk_req(id, tx), col, map, Duration::from_millis(ms)),
                    };
                    match res {
                        Ok(()) => ("ok", 0),
                        Err(RactorErr::Timeout) => ("timeout", 0),
                        Err(RactorErr::Messaging(MessagingErr::SendErr(_))) => ("fwdfail", 0),
                        Err(RactorErr::Messaging(MessagingErr::ChannelClosed)) => ("closed", 0),
                        Err(_) => ("other", 0),
                    }
                } else {
                    match ractor::rpc::call_and_forward(&a.get_cell(), |tx| mk_req(id, tx), col.get_cell(), map, t.map(Duration::from_millis)) {
                        Err(_) => ("sendfail", 0),
                        Ok(h) => match h.await {
                            Ok(CallResult::Success(Ok(()))) => ("ok", 0),
                            Ok(CallResult::Success(Err(_))) => ("fwdfail", 0),
                            Ok(CallResult::SenderError) => ("senderr", 0),
                            Ok(CallResult::Timeout) => ("timeout", 0),
                            Err(_) => ("other", 0),
                        },
                    }
                };
                w.lock().unwrap().pending.remove(&id);
                ret(id, r, v);
            }
        }
    }
}

const KEEP_OBS: &[&str] = &[
    "obs.call", "obs.call_ret", "obs.multi_fail", "obs.fwd_map", "obs.fwd_recv", "obs.handle", "obs.handle_end", "obs.sleep", "obs.wake",
    "obs.reply", "obs.drop", "obs.stash", "obs.helper", "obs.stop", "obs.kill", "obs.drain",
];
const KEEP_ACT: &[&str] = &["port.msg", "port.stop", "port.drain", "sig.handled", "guard.cleanup"];

pub fn one_run(sc: &Scenario, ex: &mut Explorer) -> (Vec<Value>, Value, bool) {
    let sc = Arc::new(sc.clone());
    let w: W = Arc::new(Mutex::new(World { actors: vec![None; sc.ncallees + 1], ..Default::default() }));
    let fin: Arc<Mutex<Value>> = Arc::new(Mutex::new(json!(null)));
    let (sc2, w2) = (sc.clone(), w.clone());
    let (fin2, w4, sc4) = (fin.clone(), w.clone(), sc.clone());
    let run = run_t(
        ex,
        4000,
        0,
        &mut NoBetween,
        move || async move {
            let _ = ractor::concurrency::spawn_named(Some("boot"), async move {
                let sup = if sc2.sup { Some(Sup::spawn(None, Sup, ()).await.expect("sup").0) } else { None };
                for i in 0..=sc2.ncallees {
                    let c = Callee { idx: i, name: aname(&sc2, i), sc: sc2.clone(), w: w2.clone() };
                    let a = match (&sup, i) {
                        (Some(s), 0) => Callee::spawn_linked(None, c, (), s.get_cell()).await.expect("callee").0,
                        _ => Callee::spawn(None, c, ()).await.expect("callee").0,
                    };
                    w2.lock().unwrap().actors[i] = Some(a);
                }
                for (ci, ops) in sc2.clients.iter().enumerate() {
                    let _ = ractor::concurrency::spawn_named(Some(&format!("client{ci}")), client(sc2.clone(), w2.clone(), ops.clone()));
                }
            });
        },
        move || {
            let g = w4.lock().unwrap();
            let acts: Vec<Value> = g
                .actors
                .iter()
                .enumerate()
                .filter_map(|(i, a)| a.as_ref().map(|a| json!({"x": aname(&sc4, i), "st": a.get_status() as i64})))
                .collect();
            let pend: Vec<u64> = g.pending.iter().copied().collect();
            *fin2.lock().unwrap() = json!({"pending": pend, "actors": acts});
        },
    );
    let g = w.lock().unwrap();
    let names = Names::default();
    // call_and_forward's waiting task: the task.new that directly follows obs.call(kind = fwd) from the same task
    let mut task_port: HashMap<u64, i64> = HashMap::new();
    let mut pending_fwd: HashMap<String, i64> = HashMap::new();
    for e in &run.events {
        let get = |k: &str| e.kv.iter().find(|(kk, _)| kk == k).map(|(_, v)| v.clone());
        if e.a == "obs.call" {
            if let (Some(Val::S(kind)), Some(Val::I(p))) = (get("kind"), get("p")) {
                if kind == "fwd" {
                    pending_fwd.insert(e.who.clone(), p);
                    continue;
                }
            }
        }
        // (points inside send_message come in between; the next observation of that task ends the search)
        if e.a == "task.new" {
            if let Some(p) = pending_fwd.remove(&e.who) {
                task_port.insert(e.obj, p);
            }
        } else if e.a.starts_with("obs.") {
            pending_fwd.remove(&e.who);
        }
    }
    let mut evs: Vec<Value> = vec![];
    let mut last_t = 0u64;
    for e in &run.events {
        let a = e.a.as_str();
        let mut j = ev_json(e, &names);
        let o = j.as_object_mut().unwrap();
        if KEEP_OBS.contains(&a) {
        } else if KEEP_ACT.contains(&a) {
            match g.pids.get(&e.obj) {
                Some(x) => {
                    o.insert("x".into(), json!(x));
                }
                None => continue,
            }
        } else if a == "task.done" || a == "task.dropped" {
            match task_port.get(&e.obj) {
                Some(p) => {
                    o.insert("a".into(), json!("obs.fwd_done"));
                    o.insert("x".into(), json!(""));
                    o.insert("p".into(), json!(p));
                }
                None => continue,
            }
        } else {
            continue;
        }
        last_t = e.t;
        evs.push(j);
    }
    let fin = fin.lock().unwrap().clone();
    evs.push(json!({"a": "obs.end", "who": "drv", "obj": "", "d": 0, "t": last_t, "x": "", "fin": fin}));
    let bad = !run.quiescent;
    let meta = json!({"family": "rpc", "scenario": format!("{:?}", sc), "sched": ex.sched, "steps": run.steps, "quiescent": run.quiescent});
    drop(g);
    (evs, meta, bad)
}

// ------------------------------------------------------------------------------------------------
// scenarios
// ------------------------------------------------------------------------------------------------
pub fn micro_scenarios() -> Vec<Scenario> {
    use COp::*;
    let call = |id, to, via, t| Call { id, to, via, t };
    vec![
        // a call queued behind a busy handler; graceful stop; the shutdown hook never finishes; a kill gets the callee out
        // of post_stop and the queued call must then complete with SenderError (not hang)
        Scenario {
            ncallees: 1,
            sup: false,
            pol: vec![(1, Pol::Late(3)), (2, Pol::Prompt), (1000, Pol::Never)],
            clients: vec![vec![call(1, 0, Via::Macro, None)], vec![Sleep(1), call(2, 0, Via::Cell, None)], vec![Sleep(2), Stop(0), Sleep(3), Kill(0)]],
        },
        Scenario {
            ncallees: 2,
            sup: true,
            pol: vec![(1, Pol::Late(2)), (2, Pol::Prompt), (3, Pol::Prompt), (1000, Pol::Never), (1001, Pol::Never)],
            clients: vec![vec![call(1, 0, Via::Ref, None)], vec![Sleep(1), call(2, 0, Via::Macro, None)], vec![Sleep(1), Stop(0), Stop(1), Sleep(4), call(3, 1, Via::Cell, Some(2)), Kill(1), Kill(0)]],
        },
        // three concurrent callers, replies late / prompt / from a helper task, a kill at the reply instant
        Scenario {
            ncallees: 1,
            sup: false,
            pol: vec![(1, Pol::Late(2)), (2, Pol::Prompt), (3, Pol::Helper(2))],
            clients: vec![vec![call(1, 0, Via::Macro, None)], vec![call(2, 0, Via::Macro, Some(5))], vec![call(3, 0, Via::Cell, Some(3))], vec![Sleep(2), Kill(0)]],
        },
        // timeouts below / at / above the reply time (all replies come from helper tasks at t = 2)
        Scenario {
            ncallees: 1,
            sup: false,
            pol: vec![(1, Pol::Helper(2)), (2, Pol::Helper(2)), (3, Pol::Helper(2))],
            clients: vec![vec![call(1, 0, Via::Macro, Some(1))], vec![call(2, 0, Via::Ref, Some(2))], vec![call(3, 0, Via::Derived, Some(3))]],
        },
        // the handler sleeps on the first request: the others wait in the queue; stop at the reply instant
        Scenario {
            ncallees: 1,
            sup: false,
            pol: vec![(1, Pol::Late(2)), (2, Pol::Prompt), (3, Pol::Prompt)],
            clients: vec![vec![call(1, 0, Via::Ref, Some(2))], vec![call(2, 0, Via::Macro, None)], vec![Pause, call(3, 0, Via::Cell, Some(1))], vec![Sleep(2), Stop(0)]],
        },
        // stashed ports: answered by a later request ("both"), or dropped with the state when the callee stops (supervised)
        Scenario {
            ncallees: 1,
            sup: true,
            pol: vec![(1, Pol::Stash), (2, Pol::Both), (3, Pol::Stash), (4, Pol::Stash)],
            clients: vec![vec![call(1, 0, Via::Macro, None), call(4, 0, Via::Macro, Some(4))], vec![Pause, call(2, 0, Via::Cell, None)], vec![Sleep(1), call(3, 0, Via::Ref, None)], vec![Sleep(2), Stop(0)]],
        },
        // never / hold-then-drop / failing handler, with a drain
        Scenario {
            ncallees: 1,
            sup: false,
            pol: vec![(1, Pol::Never), (2, Pol::HoldDrop(2)), (3, Pol::Fail), (4, Pol::Prompt)],
            clients: vec![vec![call(1, 0, Via::Macro, None)], vec![call(2, 0, Via::Macro, Some(3))], vec![Sleep(1), Drain(0), call(4, 0, Via::Cell, None)], vec![Sleep(1), call(3, 0, Via::Derived, None)]],
        },
        // a panicking handler with requests queued behind it (supervised callee)
        Scenario {
            ncallees: 1,
            sup: true,
            pol: vec![(1, Pol::Late(1)), (2, Pol::Panic), (3, Pol::Prompt), (4, Pol::Stash)],
            clients: vec![vec![call(4, 0, Via::Ref, None)], vec![call(1, 0, Via::Macro, Some(2))], vec![call(2, 0, Via::Cell, None)], vec![call(3, 0, Via::Derived, Some(3))]],
        },
        // multi_call over two callees, one of them killed / drained around the call
        Scenario {
            ncallees: 2,
            sup: false,
            pol: vec![(1, Pol::Late(1)), (2, Pol::Helper(2)), (3, Pol::Prompt), (4, Pol::Prompt)],
            clients: vec![vec![Multi { ids: vec![1, 2], t: Some(2) }], vec![Pause, Multi { ids: vec![3, 4], t: None }], vec![Sleep(1), Kill(1)], vec![Pause, Drain(0)]],
        },
        // call_and_forward / forward!: success, timeout, callee killed, collector stopped
        Scenario {
            ncallees: 1,
            sup: false,
            pol: vec![(1, Pol::Prompt), (2, Pol::Helper(2)), (3, Pol::Late(1))],
            clients: vec![
                vec![Fwd { id: 1, to: 0, mac: false, t: None }],
                vec![Fwd { id: 2, to: 0, mac: true, t: Some(2) }],
                vec![Fwd { id: 3, to: 0, mac: false, t: Some(3) }],
                vec![Sleep(1), Kill(0)],
                vec![Sleep(2), Stop(1)],
            ],
        },
    ]
}

/// multi_call over 3 and 4 callees whose outcomes complete at controlled virtual instants: every request is answered (or
/// dropped) by a helper task after its own latency, so the waiter tasks of the JoinSet finish in a chosen order.
/// 3 callees: every permutation of the completion order; 4 callees: reverse order and a few others; then mixes of
/// reply / SenderError / Timeout outcomes. Result position i must carry the outcome and the value of request i.
pub fn multi_scenarios() -> Vec<Scenario> {
    let mk = |lat: &[Pol], t: Option<u64>| Scenario {
        ncallees: lat.len(),
        sup: false,
        pol: lat.iter().enumerate().map(|(i, p)| (i as u64 + 1, *p)).collect(),
        clients: vec![vec![COp::Multi { ids: (1..=lat.len() as u64).collect(), t }]],
    };
    let h = Pol::Helper;
    let mut v = vec![];
    for perm in [[1u64, 2, 3], [1, 3, 2], [2, 1, 3], [2, 3, 1], [3, 1, 2], [3, 2, 1]] {
        v.push(mk(&[h(perm[0]), h(perm[1]), h(perm[2])], Some(6)));
    }
    v.push(mk(&[h(3), h(2), h(1)], None));
    for perm in [[4u64, 3, 2, 1], [2, 4, 1, 3], [3, 1, 4, 2], [4, 1, 3, 2], [1, 4, 3, 2], [3, 4, 1, 2]] {
        v.push(mk(&[h(perm[0]), h(perm[1]), h(perm[2]), h(perm[3])], Some(7)));
    }
    // mixed outcomes: reply / SenderError (helper drops, handler drops, handler fails) / Timeout, completing out of request order
    v.push(mk(&[h(3), Pol::HelperDrop(2), h(1)], Some(5)));
    v.push(mk(&[h(9), h(2), Pol::HelperDrop(1)], Some(4))); // request 1 times out at 4, after the others
    v.push(mk(&[Pol::Late(3), Pol::Never, h(2)], Some(5)));
    v.push(mk(&[h(4), h(9), Pol::Fail, h(1)], Some(6)));
    v.push(mk(&[Pol::HoldDrop(3), h(2), Pol::Stash, Pol::Prompt], Some(4)));
    v.push(mk(&[h(9), Pol::HelperDrop(3), h(2), h(8)], Some(5)));
    // a callee killed / stopped while the group is in flight
    let mut a = mk(&[h(3), h(2), h(1)], Some(6));
    a.clients.push(vec![COp::Sleep(2), COp::Kill(1)]);
    v.push(a);
    let mut a = mk(&[Pol::Late(3), Pol::Late(2), Pol::Late(1), Pol::Prompt], None);
    a.clients.push(vec![COp::Sleep(1), COp::Kill(0), COp::Stop(2)]);
    v.push(a);
    v
}

pub fn rand_scenario(rng: &mut Rng) -> Scenario {
    let ncallees = match rng.below(6) {
        0 | 1 | 2 => 1,
        3 => 2,
        4 => 3,
        _ => 4,
    };
    let mut pol = vec![];
    let mut next_id = 1u64;
    let mut clients: Vec<Vec<COp>> = vec![];
    let times: &[u64] = &[0, 1, 1, 2, 2, 3];
    let rpol = |rng: &mut Rng| match rng.below(12) {
        0..=2 => Pol::Prompt,
        3 | 4 => Pol::Late(2),
        5 => Pol::Never,
        6 => Pol::HoldDrop(2),
        7 => Pol::Stash,
        8 => Pol::Both,
        9 | 10 => Pol::Helper(2),
        _ => {
            match rng.below(3) {
                0 => Pol::HelperDrop(2),
                1 => Pol::Fail,
                _ => Pol::Panic,
            }
        }
    };
    let rt = |rng: &mut Rng| match rng.below(5) {
        0 => None,
        1 => Some(1),
        2 | 3 => Some(2),
        _ => Some(3),
    };
    let ncallers = 1 + rng.below(3);
    for _ in 0..ncallers {
        let mut c = vec![];
        if rng.chance(1, 3) {
            c.push(COp::Sleep(times[rng.below(times.len())]));
        }
        for _ in 0..(1 + rng.below(2)) {
            if next_id > 9 {
                break;
            }
            match rng.below(6) {
                0 | 2 if ncallees >= 2 && next_id + ncallees as u64 <= 13 => {
                    let ids: Vec<u64> = (next_id..next_id + ncallees as u64).collect();
                    for id in &ids {
                        // mostly helper replies with their own latency, so that outcomes complete out of request order
                        let p = match rng.below(5) {
                            0 => rpol(rng),
                            1 => Pol::HelperDrop(1 + rng.below(3) as u64),
                            _ => Pol::Helper(1 + rng.below(4) as u64),
                        };
                        pol.push((*id, p));
                    }
                    next_id += ncallees as u64;
                    c.push(COp::Multi { ids, t: if rng.chance(1, 2) { Some(3) } else { rt(rng) } });
                }
                1 => {
                    pol.push((next_id, rpol(rng)));
                    c.push(COp::Fwd { id: next_id, to: rng.below(ncallees), mac: rng.chance(1, 2), t: rt(rng) });
                    next_id += 1;
                }
                _ => {
                    pol.push((next_id, rpol(rng)));
                    let via = match rng.below(4) {
                        0 => Via::Macro,
                        1 => Via::Cell,
                        2 => Via::Ref,
                        _ => Via::Derived,
                    };
                    c.push(COp::Call { id: next_id, to: rng.below(ncallees), via, t: rt(rng) });
                    next_id += 1;
                }
            }
        }
        clients.push(c);
    }
    // callee exits
    let nex = rng.below(3);
    for _ in 0..nex {
        let mut c = vec![];
        let at = times[rng.below(times.len())];
        if at > 0 {
            c.push(COp::Sleep(at));
        } else if rng.chance(1, 2) {
            c.push(COp::Pause);
        }
        let tgt = if rng.chance(1, 6) { ncallees } else { rng.below(ncallees) };
        c.push(match rng.below(3) {
            0 => COp::Stop(tgt),
            1 => COp::Kill(tgt),
            _ => COp::Drain(tgt),
        });
        clients.push(c);
    }
    Scenario { ncallees, sup: rng.chance(1, 3), pol, clients }
}

pub fn batch(out: &str, tier: &str, seed: u64) -> Value {
    let mut b = Batch::new(Some(out));
    let (dfs_cap, nmicro, nrand, per) = if tier == "thorough" { (3000usize, 2500usize, 6000usize, 3usize) } else { (300usize, 250usize, 700usize, 2usize) };
    let mut nontrivial = std::collections::HashSet::new();
    let mut bad_runs = 0u64;
    let mut exhausted = 0u64;
    let mut go = |b: &mut Batch, sc: &Scenario, ex: &mut Explorer| {
        ex.begin_run();
        let (evs, meta, bad) = one_run(sc, ex);
        let h = b.run(meta, &evs);
        if ex.nontrivial {
            nontrivial.insert(h);
        }
        if bad {
            bad_runs += 1;
        }
    };
    for sc in micro_scenarios() {
        let mut ex = Explorer::new(Mode::Dfs { preempt_bound: Some(3) }, seed);
        let mut n = 0;
        loop {
            go(&mut b, &sc, &mut ex);
            n += 1;
            if !ex.end_run() {
                exhausted += 1;
                break;
            }
            if n >= dfs_cap {
                break;
            }
        }
        let mut ex = Explorer::new(Mode::Random, seed.wrapping_mul(0x9E3779B97F4A7C15) ^ 0x6d6963726f);
        for _ in 0..nmicro {
            go(&mut b, &sc, &mut ex);
        }
    }
    let nmulti = if tier == "thorough" { 200 } else { 20 };
    for sc in multi_scenarios() {
        let mut ex = Explorer::new(Mode::Dfs { preempt_bound: Some(2) }, seed);
        for _ in 0..nmulti {
            go(&mut b, &sc, &mut ex);
            if !ex.end_run() {
                break;
            }
        }
        let mut ex = Explorer::new(Mode::Random, seed.wrapping_mul(0x9E3779B97F4A7C15) ^ 0x6d756c7469);
        for _ in 0..nmulti {
            go(&mut b, &sc, &mut ex);
        }
    }
    let mut rng = Rng(seed ^ 0x727063);
    for _ in 0..nrand {
        let sc = rand_scenario(&mut rng);
        let mut ex = Explorer::new(Mode::Random, rng.next());
        for _ in 0..per {
            go(&mut b, &sc, &mut ex);
        }
    }
    b.finish();
    drop(go);
    json!({"family": "rpc", "runs": b.runs, "events": b.events, "distinct": b.hashes.len(), "distinct_nontrivial": nontrivial.len(),
           "bad_runs": bad_runs, "dfs_exhausted": exhausted, "samples": b.samples})
}

pub fn dispatch(cmd: &str, a: &std::collections::HashMap<String, String>) -> Option<Value> {
    let (out, tier, seed) = crate::common(a);
    match cmd {
        "rpc" => Some(batch(&out, &tier, seed)),
        _ => None,
    }
}
