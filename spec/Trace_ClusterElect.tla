------------------------- MODULE Trace_ClusterElect -------------------------
(* Trace validation for C18. Three kinds of runs share one batch:
     fn.elect events     : one call of the real elect_sessions (inputs and result);
     table runs          : the real NodeServerState driven directly (VerifNodeState);
     protocol runs       : two real node servers, several connections, engine T.
   Every node-server step (the ns. events) is replayed on the transcribed session table. STRICT=1 also
   compares what the code computed (CheckSession reply, election verdict and losers, is_elected);
   STRICT=0 replays the steps without those comparisons, so that only the observations
   (opened / authenticated / ready / disconnected callbacks, GetSessions at the end) decide.      *)
EXTENDS ClusterElect, Json, IOUtils, TLCExt

Rec == ndJsonDeserialize(IOEnv.TRACE)
Strict == IOEnv.STRICT = "1"
N == Len(Rec)

VARIABLES l, pend, dev
\* pend[n] = [auth, rdy]: callbacks the node server must issue before it handles anything else
tvars == <<vars, l, pend, dev>>
Ev == Rec[l]
Adv == l' = l + 1
Live == l <= N
IsA(a) == Live /\ Ev.a = a
Chk(P) == Strict => P
Range(s) == {s[i] : i \in DOMAIN s}
NodeOf(nm) == IF nm = "a@h" THEN "A" ELSE "B"
NoPend == [auth |-> "", rdy |-> ""]
Idle(n) == pend[n] = NoPend
W0 == [c \in Conns |-> [init |-> "A", nonce |-> 0, kind |-> "good"]]
Keep == UNCHANGED pvars

\* ---- function level ---------------------------------------------------------------------------
FnElect ==
  /\ IsA("fn.elect") /\ Adv /\ UNCHANGED <<vars, pend, dev>>
  /\ LET S == {[id |-> x[1], srv |-> x[2] = 1, nonce |-> x[3]] : x \in Range(Ev.cands)}
     IN /\ Cardinality(S) = Len(Ev.cands)
        /\ {k.id : k \in Elect(Ev.this, Ev.peer, S)} = Range(Ev.res)
        /\ Cardinality(Range(Ev.res)) = Len(Ev.res)

\* ---- node-server steps ------------------------------------------------------------------------
NSEv(lbl) == IsA(lbl) /\ Ev.c \in Conns
Opened == LET n == NodeOf(Ev.node) IN
  /\ NSEv("obs.opened") /\ Idle(n) /\ Adv /\ Keep /\ UNCHANGED <<pend, dev>>
  /\ NsOpen(n, Ev.c, Ev.id, Ev.srv = 1)
Update == LET n == NodeOf(Ev.node) IN
  /\ NSEv("ns.update") /\ Idle(n) /\ Adv /\ Keep /\ UNCHANGED <<pend, dev>>
  /\ Chk((Ev.d = 1) = (tbl[n][Ev.c].st = "open"))
  /\ NsUpdate(n, Ev.c, Ev.peer, Ev.nonce)
\* in table runs (direct calls, labels tb.*) the returned values are the observations: always compared
Check == LET n == NodeOf(Ev.node) IN
  /\ (IsA("ns.check") \/ IsA("tb.check")) /\ Idle(n) /\ Adv /\ UNCHANGED <<vars, pend, dev>>
  /\ (Strict \/ Ev.a = "tb.check") => Ev.reply = CheckSession(Ev.node, tbl[n], Ev.peer, Ev.nonce)
CheckCand == LET n == NodeOf(Ev.node) IN
  /\ NSEv("tb.cc") /\ Idle(n) /\ Adv /\ UNCHANGED <<vars, pend, dev>>
  /\ Ev.reply = CheckCandidate(Ev.node, tbl[n], Ev.c)
CommitEv == LET n == NodeOf(Ev.node) r == Commit(Ev.node, tbl[n], Ev.c) IN
  /\ (NSEv("ns.commit") \/ NSEv("tb.commit")) /\ Idle(n) /\ Adv /\ Keep /\ UNCHANGED dev
  /\ r.ok
  /\ (Strict \/ Ev.a = "tb.commit") => ((Ev.d = 1) = r.survives /\ Range(Ev.losers) = r.losers)
  /\ tbl' = [tbl EXCEPT ![n] = r.t]
  /\ pend' = [pend EXCEPT ![n].auth = IF r.survives THEN Ev.c ELSE ""]
CommitNone == LET n == NodeOf(Ev.node) IN
  /\ NSEv("tb.commit_none") /\ Idle(n) /\ Adv /\ UNCHANGED <<vars, pend, dev>>
  /\ ~Commit(Ev.node, tbl[n], Ev.c).ok
Authenticated == LET n == NodeOf(Ev.node) IN
  /\ NSEv("obs.authenticated") /\ pend[n].auth = Ev.c /\ Adv /\ UNCHANGED <<vars, dev>>
  /\ pend' = [pend EXCEPT ![n].auth = ""]
\* the two named deviations from "never two ready sessions of one peer" (see ClusterElect)
Overlap(n, c) == {x \in ReadySet(n) \ {c} : tbl[n][x].peer = tbl[n][c].peer}
ReadyEv == LET n == NodeOf(Ev.node) el == IsElected(Ev.node, tbl[n], Ev.c) IN
  /\ (NSEv("ns.ready") \/ NSEv("tb.ready")) /\ Idle(n) /\ Adv /\ Keep
  /\ (Strict \/ Ev.a = "tb.ready") => ((Ev.d = 1) = el)
  /\ NsReady(n, Ev.c)
  /\ pend' = [pend EXCEPT ![n].rdy = IF el THEN Ev.c ELSE ""]
  /\ dev' = dev \cup (IF el /\ (\E x \in Overlap(n, Ev.c) : LoserStillListed(n, x, Ev.c)) THEN {"ReadyWhileLoserListed"} ELSE {})
                \cup (IF el /\ (\E x \in Overlap(n, Ev.c) : DiallerTie(n, x, Ev.c) /\ ~LoserStillListed(n, x, Ev.c)) THEN {"DiallerTieBothReady"} ELSE {})
  /\ OneReadyPerPeer'
ReadyObs == LET n == NodeOf(Ev.node) IN
  /\ NSEv("obs.ready") /\ pend[n].rdy = Ev.c /\ Adv /\ UNCHANGED <<vars, dev>>
  /\ pend' = [pend EXCEPT ![n].rdy = ""]
GoneInt == LET n == NodeOf(Ev.node) IN
  /\ IsA("ns.gone") /\ Idle(n) /\ Adv /\ UNCHANGED <<vars, pend, dev>>
  /\ Chk(Ev.c \in Conns => ((Ev.d = 1) = (tbl[n][Ev.c].st = "open")))
Disconnected == LET n == NodeOf(Ev.node) IN
  /\ NSEv("obs.disconnected") /\ Idle(n) /\ Adv /\ Keep /\ UNCHANGED <<pend, dev>>
  /\ tbl[n][Ev.c].st = "open"
  /\ NsGone(n, Ev.c)
VisibleEv == LET n == NodeOf(Ev.node) IN
  /\ IsA("tb.visible") /\ Idle(n) /\ Adv /\ UNCHANGED <<vars, pend, dev>>
  /\ Range(Ev.vis) = Visible(tbl[n])

\* ---- end of a protocol run: what GetSessions / GetReadyState report on both nodes ---------------
FinOk(n, f) ==
  /\ {x.label : x \in Range(f)} = Visible(tbl[n])
  /\ \A x \in Range(f) : (x.srv = 1) = tbl[n][x.label].srv /\ ((x.rdy = 1) = tbl[n][x.label].rdy)
Outs == Range(Ev.outsiders)
EndConverged ==
  \E c \in Conns \ Outs :
     /\ \A n \in Nodes : Visible(tbl[n]) = {c} /\ tbl[n][c].rdy
     /\ \A x \in Conns \ {c} : \A n \in Nodes :
          \/ tbl[n][x].st \in {"none", "gone"}
          \/ x \in Outs /\ ~tbl[n][x].authed /\ ~tbl[n][x].rdy
End ==
  /\ IsA("obs.end") /\ Adv /\ UNCHANGED <<vars, pend, dev>>
  /\ \A n \in Nodes : Idle(n)
  /\ Ev.ok = 1
  /\ FinOk("A", Ev.fa) /\ FinOk("B", Ev.fb)
  /\ (Ev.expect = 1) => EndConverged
  /\ (dev = {} \/ PrintT(<<"DEVIATION", dev>>))
EndTable == IsA("tb.end") /\ Adv /\ UNCHANGED <<vars, pend, dev>> /\ \A n \in Nodes : Idle(n)

Reset ==
  /\ IsA("reset") /\ Adv
  /\ tbl' = [n \in Nodes |-> [c \in Conns |-> NoSess]]
  /\ pend' = [n \in Nodes |-> NoPend] /\ dev' = {} /\ Keep

TNext == Reset \/ FnElect \/ Opened \/ Update \/ Check \/ CheckCand \/ CommitEv \/ CommitNone \/ Authenticated
         \/ ReadyEv \/ ReadyObs \/ GoneInt \/ Disconnected \/ VisibleEv \/ End \/ EndTable

TInit == InitWith(W0) /\ l = 1 /\ pend = [n \in Nodes |-> NoPend] /\ dev = {} /\ TLCSet(42, 1)
TSpec == TInit /\ [][TNext]_tvars

Progress == /\ TLCSet(42, IF l > TLCGet(42) THEN l ELSE TLCGet(42))
            \* EARLY=1 (lenient validation): one behaviour that explains the whole trace is enough, stop there
            /\ (IF l > N /\ IOEnv.EARLY = "1" THEN PrintT("ACCEPTED_EARLY") /\ TLCSet("exit", TRUE) ELSE TRUE)
Accepted == IF TLCGet(42) > N THEN TRUE
            ELSE /\ PrintT(<<"REJECTED_AT", TLCGet(42), Rec[TLCGet(42)]>>)
                 /\ FALSE
=============================================================================
