\* Not run by any check.  FreeOrder = TRUE lets a message handler run although a worker's death is already
\* queued (what a multi-threaded runtime can do and engine T cannot).  TLC reports QueueBound violated here:
\* enqueue_job hands a job to a closed worker, dispatch_job puts it back at the head of the worker queue and the
\* function returns before the DiscardMode::Oldest shedding loop, so the worker queue exceeds the limit until the
\* replacement has worked it off.  With Routing0 = "sticky" (MC_Factory_sticky.cfg + FreeOrder) KeyExclusive fails the
\* same way (the parked job carries no in-flight entry, the next job of the key goes to another worker).
\* Model-level observations; not reproduced on the real code.
SPECIFICATION MCSpec
CONSTANTS
  MaxW = 3
  Keys = {1, 2}
  MaxJ = 4
  MaxInc = 5
  LbBig = 1000
  FixRetire = FALSE
  Routing0 = "keyp"
  Workers0 = 2
  Lim0 <- Lim1
  Mode0 = "oldest"
  RlOn = FALSE
  RlRefill = 1
  RlInterval = 2
  RlMax = 1
  JobKeys <- Keys1121
  JobTtl <- NoTtl4
  PortJobs = {2}
  Ends = {"ok", "panic"}
  MaxKills = 1
  MaxFaults = 1
  Resizes <- Res1
  MayDrain = FALSE
  MaxT = 0
  TStep = 1
  FreeOrder = TRUE
INVARIANTS
  OneFate PortOk LostOnePerDeath NoFactoryPanic KeyExclusive KeyFifo OneAtATime HashInPool RoundRobinCovers QueuerNoIdle ViewExact
  QueueBound HookOrder PoolConverges DrainComplete DrainRefuses
CHECK_DEADLOCK FALSE
