\* Not run by any check.  RetryJobs = {}
  Retries = 0
  FreeOrder = TRUE lets a message handler run although a worker's death is already
\* queued (what a multi-threaded runtime can do and engine T cannot).  The two situations this configuration first
\* showed (worker queue over the limit / sticky key on two workers after a job was parked on a closed worker) are
\* reproduced on the real code since the harness has a worker that stays closed during post_stop; they are the named
\* deviations ClosedWorkerQueueOverLimit and ParkedJobNotSticky (see MC_Factory_keyp_stop.cfg / MC_Factory_sticky_stop.cfg).
SPECIFICATION MCSpec
CONSTANTS
  MaxW = 3
  Keys = {1, 2}
  MaxJ = 4
  MaxInc = 5
  LbBig = 1000
  FixRetire = FALSE
  Routing0 = "keyp"
  Workers0 = 2
  Lim0 <- Lim1
  Mode0 = "oldest"
  RlOn = FALSE
  RlRefill = 1
  RlInterval = 2
  RlMax = 1
  JobKeys <- Keys1121
  JobTtl <- NoTtl4
  PortJobs = {2}
  Ends = {"ok", "panic"}
  MaxKills = 1
  MaxFaults = 1
  Resizes <- Res1
  MayDrain = FALSE
  MaxT = 0
  TStep = 1
  RetryJobs = {}
  Retries = 0
  FreeOrder = TRUE
INVARIANTS
  OneFate PortOk LostOnePerDeath NoFactoryPanic KeyExclusive KeyFifo OneAtATime HashInPool RoundRobinCovers QueuerNoIdle ViewExact
  QueueBound HookOrder PoolConverges DrainComplete DrainRefuses
CHECK_DEADLOCK FALSE
