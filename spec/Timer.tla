------------------------------ MODULE Timer ------------------------------
(* ractor/src/time.rs: send_after, send_interval, exit_after, kill_after (and their ActorRef /
   DerivedActorRef aliases) against one target actor, at the grain of one task poll.
   A timer is a spawned task: the call creates it (`Create`), its first poll arms the sleep /
   interval (`Start`), every later poll that finds the deadline reached performs the operation
   (`Fire`).  JoinHandle::abort removes the task at a step boundary (`Abort`).
   The target is the Lifecycle abstraction of an actor with a mailbox: send_message is accepted iff
   the status is below Draining (the atomic abstraction justified by Mailbox.tla); the status
   leaves the running states when a stop / drain marker is picked, a kill is handled or a handler
   fails.
   The clock is virtual: with VirtualClock = TRUE (what engine T's paused tokio clock does) time
   moves only when no timer task is runnable, which is what makes "exactly at created + k*period"
   meaningful; with VirtualClock = FALSE time moves freely and only "never early" remains.
   Decides C12.                                                                                   *)
EXTENDS Naturals, Sequences, FiniteSets, TLC

CONSTANTS Timers,        \* set of timer ids (strings)
          Kinds,         \* [Timers -> {"after","interval","exit","kill"}]  (model checking only)
          Periods,       \* [Timers -> Nat]                                  (model checking only)
          MaxNow,        \* clock bound
          EnvOps,        \* subset of {"stop","kill","drain","fail","busy","abort","stall"}
          Stalls,        \* durations for which some task may stall the executor (model checking; {} = never)
          VirtualClock,  \* TRUE: time advances only when no timer task is runnable
          Instant,       \* TRUE: the target comes from spawn_instant and is still Unstarted at the beginning
          UnstartedKillsInterval  \* TRUE: the code as it is (ACTIVE_STATES lacks Unstarted: deviation IntervalDiesOnUnstarted)

VARIABLES now,   \* virtual ms
          tg,    \* the target actor
          tm     \* per-timer record
vars == <<now, tg, tm>>

ExitReason(p) == "Exit after " \o ToString(p) \o "ms"
NoMsg == [x |-> "none", k |-> 0]
DrainItem == [x |-> "drain", k |-> 0]
FailItem == [x |-> "fail", k |-> 0]
BusyItem == [x |-> "busy", k |-> 0]

InitTg == [st |-> "run",        \* unstarted | run (Starting, Running, Upgrading) | drain | stopping | dead
           stp |-> "none", stpReason |-> "",   \* stop port: none | sent | taken
           sig |-> "none",      \* none | sent | taken
           mq |-> <<>>, cur |-> NoMsg, busy |-> FALSE,
           exitR |-> "", left |-> FALSE, leftAt |-> 0,
           nfail |-> 0, nbusy |-> 0,
           freeAt |-> 0, nstall |-> 0]   \* end of the latest executor stall
InitTm == [pc |-> "none",       \* none | new | sleep | done | aborted
           kind |-> "after", p |-> 0, rp |-> 0, created |-> 0, started |-> 0, due |-> 0, k |-> 0, res |-> "none", nenq |-> 0, nh |-> 0,
           \* monitors
           early |-> FALSE, inexact |-> FALSE, lateStart |-> FALSE, deadDeliv |-> FALSE, badOrder |-> FALSE,
           diedUnstarted |-> FALSE]   \* an interval task ended because its target had not started yet

Init == now = 0 /\ tg = [InitTg EXCEPT !.st = IF Instant THEN "unstarted" ELSE "run"] /\ tm = [t \in Timers |-> InitTm]

Accepts == tg.st \in {"unstarted", "run"}   \* send_message: status < Draining (and the receiver is still there)
Active == tg.st = "run"       \* ACTIVE_STATES (Starting, Running, Upgrading): Unstarted is not among them
\* the `while` condition of send_interval. The property-level reading keeps an interval alive until its target has *left* the
\* running states; the code also ends it when the target has not *reached* them yet (armed on an instant-spawned actor whose
\* start() has not been polled): named deviation IntervalDiesOnUnstarted.
KeepTicking == Active \/ (tg.st = "unstarted" /\ ~UnstartedKillsInterval)
Leave(r) == [r EXCEPT !.left = TRUE, !.leftAt = IF r.left THEN @ ELSE now]

-----------------------------------------------------------------------------
(* The target *)
Stop(reason) ==   \* ActorCell::stop: the first stop message wins the oneshot
  tg' = IF tg.stp = "none" /\ tg.st # "dead" THEN [tg EXCEPT !.stp = "sent", !.stpReason = reason] ELSE tg
Kill ==
  tg' = IF tg.sig = "none" /\ tg.st # "dead" THEN [tg EXCEPT !.sig = "sent"] ELSE tg
EnvStop == "stop" \in EnvOps /\ tg.stp = "none" /\ Stop("r") /\ UNCHANGED <<now, tm>>
EnvKill == "kill" \in EnvOps /\ tg.sig = "none" /\ Kill /\ UNCHANGED <<now, tm>>
Drain ==
  tg' = IF tg.st = "run" THEN Leave([tg EXCEPT !.st = "drain", !.mq = Append(@, DrainItem)]) ELSE tg
EnvDrain == "drain" \in EnvOps /\ tg.st = "run" /\ Drain /\ UNCHANGED <<now, tm>>
\* non-timer messages: a handler that fails, a handler that sleeps
SendItem(item) == IF Accepts THEN [tg EXCEPT !.mq = Append(@, item)] ELSE tg
EnvSendFail == "fail" \in EnvOps /\ tg.nfail < 1 /\ tg' = [SendItem(FailItem) EXCEPT !.nfail = @ + 1] /\ UNCHANGED <<now, tm>>
EnvSendBusy == "busy" \in EnvOps /\ tg.nbusy < 1 /\ tg' = [SendItem(BusyItem) EXCEPT !.nbusy = @ + 1] /\ UNCHANGED <<now, tm>>

\* start(): Unstarted -> Starting (messages queued so far are handled after post_start)
TgStarting == tg.st = "unstarted" /\ tg.sig # "sent" /\ tg' = [tg EXCEPT !.st = "run"] /\ UNCHANGED <<now, tm>>
Idle == tg.st \in {"run", "drain"} /\ tg.sig # "sent" /\ ~tg.busy /\ tg.cur = NoMsg
\* kill: handled at the next poll of the actor task, wherever it is (run_with_signal / listen_in_priority)
TgSig ==
  /\ tg.sig = "sent" /\ tg.st # "dead"
  /\ tg' = Leave([tg EXCEPT !.sig = "taken", !.st = "stopping", !.exitR = "killed", !.busy = FALSE, !.cur = NoMsg])
  /\ UNCHANGED <<now, tm>>
TgStop ==
  /\ Idle /\ tg.stp = "sent"
  /\ tg' = Leave([tg EXCEPT !.stp = "taken", !.st = "stopping", !.exitR = tg.stpReason])
  /\ UNCHANGED <<now, tm>>
TgTake ==
  /\ Idle /\ tg.stp # "sent" /\ tg.mq # <<>> /\ Head(tg.mq) # DrainItem
  /\ tg' = [tg EXCEPT !.mq = Tail(@), !.cur = Head(tg.mq)]
  /\ UNCHANGED <<now, tm>>
TgTakeDrain ==
  /\ Idle /\ tg.stp # "sent" /\ tg.mq # <<>> /\ Head(tg.mq) = DrainItem
  /\ tg' = Leave([tg EXCEPT !.mq = Tail(@), !.st = "stopping", !.exitR = "Drained"])
  /\ UNCHANGED <<now, tm>>
\* the handler of the dequeued message starts: a timer message is logged, "busy" suspends, "fail" ends the actor
TgHandle ==
  /\ tg.cur # NoMsg /\ tg.sig # "sent" /\ ~tg.busy
  /\ LET h == tg.cur IN
     IF h = FailItem THEN tg' = Leave([tg EXCEPT !.cur = NoMsg, !.st = "stopping", !.exitR = "err"]) /\ UNCHANGED tm
     ELSE IF h = BusyItem THEN tg' = [tg EXCEPT !.busy = TRUE] /\ UNCHANGED tm
     ELSE /\ tg' = [tg EXCEPT !.cur = NoMsg]
          /\ tm' = [tm EXCEPT ![h.x].nh = @ + 1, ![h.x].badOrder = @ \/ h.k # tm[h.x].nh + 1 \/ h.k > tm[h.x].nenq]
  /\ UNCHANGED now
\* An executor stall: a task keeps the (single) executor thread for d ms without suspending - a CPU-bound handler, a blocking
\* call. Nothing else is polled meanwhile, so this is the only way time passes over the deadline of a runnable timer task.
Stalled(r, d) == [r EXCEPT !.freeAt = now + d, !.nstall = @ + 1]
Stall(d) ==       \* some task other than the target's handler
  /\ now' = now + d /\ tg' = Stalled(tg, d) /\ UNCHANGED tm
TgHandleStall(d) ==   \* the handler of a "busy" message stalls instead of suspending
  /\ tg.cur = BusyItem /\ tg.sig # "sent" /\ ~tg.busy
  /\ now' = now + d /\ tg' = Stalled([tg EXCEPT !.busy = TRUE], d) /\ UNCHANGED tm
EnvStall(d) == "stall" \in EnvOps /\ tg.nstall < 1 /\ now + d <= MaxNow /\ (Stall(d) \/ TgHandleStall(d))
TgBusyEnd ==
  /\ tg.busy /\ tg.sig # "sent"
  /\ tg' = [tg EXCEPT !.busy = FALSE, !.cur = NoMsg]
  /\ UNCHANGED <<now, tm>>
\* post_stop done (or skipped), ports dropped (queue flushed), guard cleanup: Stopped
TgCleanup ==
  /\ tg.st = "stopping" /\ tg.sig # "sent"
  /\ tg' = [tg EXCEPT !.st = "dead", !.mq = <<>>]
  /\ UNCHANGED <<now, tm>>

-----------------------------------------------------------------------------
(* Timers *)
\* p: the period in whole milliseconds the timer wheel works with (a period with a sub-millisecond part is due at the next
\* whole millisecond); rp: the millisecond count the documented exit reason shows (Duration::as_millis, rounded down)
CreateR(t, kd, p, rp) ==
  /\ tm[t].pc = "none"
  /\ tm' = [tm EXCEPT ![t] = [InitTm EXCEPT !.pc = "new", !.kind = kd, !.p = p, !.rp = rp, !.created = now]]
  /\ UNCHANGED <<now, tg>>
Create(t, kd, p) == CreateR(t, kd, p, p)

\* first poll of the timer task
Start(t) ==
  /\ tm[t].pc = "new"
  /\ IF tm[t].kind = "interval" /\ ~KeepTicking
       THEN tm' = [tm EXCEPT ![t].pc = "done", ![t].diedUnstarted = tg.st = "unstarted"]      \* the while condition fails at once
       ELSE tm' = [tm EXCEPT ![t].pc = "sleep", ![t].due = now + tm[t].p, ![t].started = now,
                             \* the first poll happens at the instant of the call, or when a stall that began before it ends
                             ![t].lateStart = now # tm[t].created /\ now # tg.freeAt]
  /\ UNCHANGED <<now, tg>>

Ready(t) == tm[t].pc = "sleep" /\ tm[t].due <= now
\* The k-th deadline is started + k*period whatever happened before (tokio's sleep; interval with the default Burst policy:
\* next deadline = previous deadline + period). The operation happens at its deadline, or - when the executor was stalled
\* over the deadline - at the end of that stall: ticks missed during a stall fire back to back, none is dropped or shifted.
Nominal(r) == r.started + (r.k + 1) * r.p
Mon(r) == [r EXCEPT !.early = @ \/ now < r.created + (r.k + 1) * r.p,
                    !.inexact = @ \/ (now # Nominal(r) /\ ~(now = tg.freeAt /\ Nominal(r) < tg.freeAt)),
                    !.k = @ + 1]
Fire(t) ==
  /\ Ready(t) /\ UNCHANGED now
  /\ LET r == Mon(tm[t])
         msg == [x |-> t, k |-> r.k]
         enq == [r EXCEPT !.nenq = @ + 1, !.deadDeliv = @ \/ tg.left]
     IN CASE r.kind = "after" ->
               /\ tm' = [tm EXCEPT ![t] = [(IF Accepts THEN enq ELSE r) EXCEPT !.pc = "done",
                                                                            !.res = IF Accepts THEN "ok" ELSE "err"]]
               /\ tg' = IF Accepts THEN [tg EXCEPT !.mq = Append(@, msg)] ELSE tg
          [] r.kind = "interval" ->
               \* send; on error leave; otherwise re-check the status (same poll) and wait for the next tick
               /\ tm' = [tm EXCEPT ![t] = IF Accepts /\ KeepTicking THEN [enq EXCEPT !.due = @ + r.p]
                                          ELSE IF Accepts THEN [enq EXCEPT !.pc = "done", !.diedUnstarted = TRUE]
                                          ELSE [r EXCEPT !.pc = "done"]]
               /\ tg' = IF Accepts THEN [tg EXCEPT !.mq = Append(@, msg)] ELSE tg
          [] r.kind = "exit" ->
               /\ tm' = [tm EXCEPT ![t] = [r EXCEPT !.pc = "done"]]
               /\ Stop(ExitReason(r.rp))
          [] r.kind = "kill" ->
               /\ tm' = [tm EXCEPT ![t] = [r EXCEPT !.pc = "done"]]
               /\ Kill

\* JoinHandle::abort: a task that has not finished is dropped before its next poll
Abort(t) ==
  /\ tm' = [tm EXCEPT ![t].pc = IF @ \in {"new", "sleep"} THEN "aborted" ELSE @]
  /\ UNCHANGED <<now, tg>>
EnvAbort(t) == "abort" \in EnvOps /\ tm[t].pc \in {"new", "sleep"} /\ Abort(t)

Runnable(t) == tm[t].pc = "new" \/ Ready(t)
Advance(t2) ==
  /\ t2 > now /\ t2 <= MaxNow
  /\ VirtualClock => \A t \in Timers : ~Runnable(t) /\ (tm[t].pc = "sleep" => tm[t].due >= t2)
  /\ now' = t2 /\ UNCHANGED <<tg, tm>>

TgStep == TgStarting \/ TgSig \/ TgStop \/ TgTake \/ TgTakeDrain \/ TgHandle \/ TgBusyEnd \/ TgCleanup
EnvStep == EnvStop \/ EnvKill \/ EnvDrain \/ EnvSendFail \/ EnvSendBusy \/ (\E t \in Timers : EnvAbort(t)) \/ (\E d \in Stalls : EnvStall(d))
TimerStep(t) == Create(t, Kinds[t], Periods[t]) \/ Start(t) \/ Fire(t)
Next == TgStep \/ EnvStep \/ (\E t \in Timers : TimerStep(t)) \/ (\E t2 \in (now + 1)..MaxNow : Advance(t2))
Spec == Init /\ [][Next]_vars

-----------------------------------------------------------------------------
(* Properties (C12) *)
IsAfter(t) == tm[t].pc # "none" /\ tm[t].kind = "after"
IsInterval(t) == tm[t].pc # "none" /\ tm[t].kind = "interval"
\* send_after delivers at most once; its handle says Ok exactly when the message was enqueued
AfterOnce == \A t \in Timers : IsAfter(t) => tm[t].k <= 1 /\ tm[t].nenq <= 1 /\ (tm[t].res = "ok") = (tm[t].nenq = 1)
AfterResult == \A t \in Timers : (IsAfter(t) /\ tm[t].pc = "done") => tm[t].res \in {"ok", "err"}
\* nothing happens before k periods have elapsed since the call
NeverEarly == \A t \in Timers : ~tm[t].early
\* on the virtual clock the k-th operation happens exactly at started + k*period, where started is the instant of the call
\* (no drift); only an executor stall delays it, and then to the end of the stall and no further - also for every later tick
Exact == VirtualClock => \A t \in Timers : ~tm[t].inexact /\ ~tm[t].lateStart
\* nothing is delivered once abort() has returned / once the target has left the running states
AbortStops == \A t \in Timers : tm[t].pc = "aborted" => ~ENABLED Fire(t) /\ ~ENABLED Start(t)
NoDeliveryToDead == \A t \in Timers : ~tm[t].deadDeliv
\* per timer, messages are handled in the order they were enqueued, each at most once, none invented
HandledInOrder == \A t \in Timers : ~tm[t].badOrder /\ tm[t].nh <= tm[t].nenq
\* an interval task ends within one period of the target leaving the running states
IntervalEnds == VirtualClock => \A t \in Timers :
  (IsInterval(t) /\ tm[t].pc = "sleep" /\ tg.left) =>
    (tm[t].due <= tg.leftAt + tm[t].p /\ (now <= tg.leftAt + tm[t].p \/ now = tg.freeAt))
\* exit_after / kill_after: documented reasons
Reasons == /\ tg.sig = "taken" => tg.exitR = "killed"
           /\ \A t \in Timers : (tm[t].pc = "done" /\ tm[t].kind = "exit" /\ tg.exitR = ExitReason(tm[t].rp)) => ~tm[t].early
\* an interval never ends merely because its target has not started yet (holds without the deviation; with it, the flag marks
\* exactly the runs that need it)
IntervalSurvivesStart == \A t \in Timers : tm[t].diedUnstarted => UnstartedKillsInterval
TypeOk == now \in 0..MaxNow /\ tg.st \in {"unstarted", "run", "drain", "stopping", "dead"}
=============================================================================
