SPECIFICATION TSpec
CONSTANTS
  H = 8
  Max = 16
  ChunkCap = 8192
  Lens = {}
  MaxFrames = 0
CONSTRAINT Progress
INVARIANTS
  OversizeNeverRead RequestsBounded BufferBounded ChunkingIndependent NothingAfterBad
POSTCONDITION Accepted
CHECK_DEADLOCK FALSE
