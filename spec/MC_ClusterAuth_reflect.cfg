SPECIFICATION Spec
CONSTANTS
  Sessions = {"s1", "s2"}
  Roles <- RolesPair
  KnowsCookie = FALSE
  CheckReplies = {"Ok"}
  Acc = FALSE
  Reflection = TRUE
  CtlKinds = {"PgJoin", "Terminate", "Ping"}
  PidClasses = {"adv", "nonrem"}
INVARIANTS
  NoCookieNoAuth NoCookieNoEffect CloseAbsorbing EffectsOnlyAfterHandshake DeliverOnlyAuthorized OwnFaultOnly DeadIsClean
CHECK_DEADLOCK FALSE
