-------------------------- MODULE Trace_OutputPort --------------------------
(* Trace validation for OutputPort (both builds; Impl / Cap come from the environment of the run):
   publisher / subscriber observations, the converter calls (the converter is harness code: one
   line per value a forwarding task or the fan-out task hands to a subscription), the cfg-only
   points out.lagged(n) (v1) and out.batch(n) (v2), and the subscribers' loop-level points.
   v2's bookkeeping over SetSubscriber entries of the command log has no line of its own.          *)
EXTENDS OutputPort, Json, IOUtils, TLCExt

Rec == ndJsonDeserialize(IOEnv.TRACE)
Strict == IOEnv.STRICT = "1"
N == Len(Rec)
TrTarget == [s \in Subs |-> "A"]
TrFilter == [s \in Subs |-> "all"]
TrImpl == IF Rec[1].meta.impl = "v2" THEN "v2" ELSE "v1"

VARIABLES l
tvars == <<vars, l>>
Ev == Rec[l]
X == Ev.x
Adv == l' = l + 1
LiveL == l <= N
IsA(a) == LiveL /\ Ev.a = a
IsS(a) == IsA(a) /\ X \in Subs
IsX(a) == IsA(a) /\ X \in SubActors
Same == UNCHANGED vars

Internal == {"out.lagged", "out.batch", "port.stop", "sig.handled", "guard.cleanup"}
IntX(lbl, A(_)) == IF Strict THEN IsX(lbl) /\ A(X) /\ Adv ELSE LiveL /\ (\E a \in SubActors : A(a)) /\ l' = l
SkipInternal == ~Strict /\ LiveL /\ Ev.a \in Internal /\ Same /\ Adv

\* v2 bookkeeping: apply a SetSubscriber entry, step over entries that carry no data
Silent == /\ Impl = "v2" /\ LiveL /\ Ev.a # "reset" /\ l' = l
          /\ \E s \in Subs : V2Apply(s) \/ (Live(s) /\ sub[s].nx <= fan /\ cmd[sub[s].nx].c # "data" /\ V2Step(s))

PortEv ==
  \/ IsA("obs.publish") /\ Publish /\ np' = Ev.k /\ Adv
  \/ IsS("obs.subscribe") /\ Ev.tg \in SubActors /\ Subscribe(X, Ev.tg, Ev.f) /\ Adv
  \/ IsA("obs.drop_port") /\ open /\ open' = FALSE /\ UNCHANGED <<np, ring, tail, cmd, fan, sub, ac>> /\ Adv
  \/ /\ IsS("obs.conv") /\ (Ev.m = 1) = Pass(sub[X].f, Ev.k) /\ Adv
     /\ IF Impl = "v1" THEN V1Read(X) /\ ring[sub[X].nx - Oldest + 1] = Ev.k
        ELSE V2Step(X) /\ cmd[sub[X].nx] = Data(Ev.k)
  \/ IF Strict THEN IsS("out.lagged") /\ V1Lag(X) /\ sub'[X].nlag = sub[X].nlag + Ev.d /\ Adv
               ELSE LiveL /\ (\E s \in Subs : V1Lag(s)) /\ l' = l
  \/ IF Strict THEN IsA("out.batch") /\ V2Batch(Ev.d) /\ Adv
               ELSE LiveL /\ (\E n \in 1..MaxBatch : V2Batch(n)) /\ l' = l
  \/ IsS("obs.fwd_done") /\ Adv /\ (IF sub[X].st = "dead" THEN Same ELSE V1Closed(X))

ActorEv ==
  \/ IsX("obs.stop") /\ Stop(X) /\ UNCHANGED Rest /\ Adv
  \/ IsX("obs.kill") /\ Kill(X) /\ UNCHANGED Rest /\ Adv
  \/ IntX("port.stop", TgStop)
  \/ IntX("sig.handled", TgSig)
  \/ IntX("guard.cleanup", TgCleanup)
  \/ IsX("obs.recv") /\ ac[X].mq # <<>> /\ Head(ac[X].mq) = Item(Ev.s, Ev.k) /\ Recv(X) /\ Adv

\* the run ended at quiescence: the specification must have nothing left to forward either
End == /\ IsA("obs.end") /\ Adv /\ Same
       /\ Quiescent
       /\ \A s \in Subs : (Live(s) /\ ac[sub[s].a].st = "run") => UpToDate(s)
       /\ \A i \in 1..Len(Ev.fin.actors) : LET f == Ev.fin.actors[i] IN
            f.x \in SubActors /\ (f.st = 6) = (ac[f.x].st = "dead") /\ (f.st = 5) = (ac[f.x].st = "stopping")

Reset == /\ IsA("reset") /\ Adv
         /\ np' = 0 /\ open' = TRUE /\ ring' = <<>> /\ tail' = 0 /\ cmd' = <<>> /\ fan' = 0
         /\ sub' = [s \in Subs |-> InitSub] /\ ac' = [a \in SubActors |-> InitActor]

TNext == Reset \/ End \/ Silent \/ PortEv \/ ActorEv \/ SkipInternal

TInit == Init /\ l = 1 /\ TLCSet(42, 1)
TSpec == TInit /\ [][TNext]_tvars
Progress == /\ TLCSet(42, IF l > TLCGet(42) THEN l ELSE TLCGet(42))
            \* EARLY=1 (lenient validation): one behaviour that explains the whole trace is enough, stop there
            /\ (IF l > N /\ IOEnv.EARLY = "1" THEN PrintT("ACCEPTED_EARLY") /\ TLCSet("exit", TRUE) ELSE TRUE)
Accepted == IF TLCGet(42) > N THEN TRUE
            ELSE /\ PrintT(<<"REJECTED_AT", TLCGet(42), Rec[TLCGet(42)]>>)
                 /\ FALSE
=============================================================================
