SPECIFICATION Spec
CONSTANTS
  Waiters = {"w1", "w2"}
  MayTime = {}
  MayJoin = {}
  MaxRounds = 1
  Cfgs <- CfgsSmall
  RacerOn = FALSE
  LateOn = FALSE
  CheckFirst = TRUE
INVARIANTS
  NoLostWake
CHECK_DEADLOCK FALSE
