SPECIFICATION Spec
CONSTANTS
  Timers = {"b", "c"}
  Kinds <- KindsA
  Periods <- PeriodsA
  MaxNow = 4
  EnvOps = {"kill", "abort", "busy"}
  Stalls = {}
  VirtualClock = TRUE
  Instant = FALSE
  UnstartedKillsInterval = TRUE
INVARIANTS
  TypeOk AfterOnce AfterResult NeverEarly Exact AbortStops NoDeliveryToDead HandledInOrder IntervalEnds Reasons IntervalSurvivesStart
CHECK_DEADLOCK FALSE
