SPECIFICATION TSpec
CONSTANTS
  Spawners = {"s1", "s2", "s3"}
  MaxAtt = 3
  Lookers = {"l1", "l2"}
  MaxLook = 1000
  Proxies = {"p1"}
  PidFaults = TRUE
  ProxyUnregisters = FALSE
  Mutant = "none"
CONSTRAINT Progress
INVARIANTS
  OneWinner LookupNotDead LookupLive NoStaleUnregister Reusable
POSTCONDITION Accepted
CHECK_DEADLOCK FALSE
