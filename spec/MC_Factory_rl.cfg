SPECIFICATION MCSpec
CONSTANTS
  MaxW = 3
  Keys = {1, 2}
  MaxJ = 3
  MaxInc = 3
  LbBig = 1000
  FixRetire = FALSE
  Routing0 = "queuer"
  Workers0 = 1
  Lim0 <- Lim1
  Mode0 = "oldest"
  RlOn = TRUE
  RlRefill = 1
  RlInterval = 2
  RlMax = 1
  JobKeys <- Keys121
  JobTtl <- Ttl3
  PortJobs = {2}
  Ends = {"ok"}
  MaxKills = 0
  MaxFaults = 0
  Resizes <- Res0
  MayDrain = FALSE
  MaxT = 4
  TStep = 1
  RetryJobs = {}
  Retries = 0
  FreeOrder = FALSE
INVARIANTS
  OneFate PortOk LostOnePerDeath NoFactoryPanic KeyExclusive KeyFifo OneAtATime HashInPool RoundRobinCovers QueuerNoIdle ViewExact
  QueueBound HookOrder PoolConverges DrainComplete DrainRefuses
CHECK_DEADLOCK FALSE
