SPECIFICATION Spec
CONSTANTS
  Conns = {c1, c2}
  Outsiders = {}
  MaxNonce = 0
INVARIANTS
  NoLoserStillListed
CHECK_DEADLOCK FALSE
