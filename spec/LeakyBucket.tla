---------------------------- MODULE LeakyBucket ----------------------------
(* ractor/src/factory/ratelim.rs: LeakyBucketRateLimiter {refill, interval, max, balance, deadline}
   with its lazy `refresh`, and `check` / `bump` as RateLimitedRouter uses them (check before every
   routing attempt, bump after a successful one).  Time is in whole milliseconds of the virtual
   clock.  Values beyond the model's range (usize::MAX, MAX_LB_BALANCE, Duration::MAX) are the
   clamp class BIG: arithmetic saturates into it and it absorbs decrements.
   Decides the limiter part of C15 (BucketBound): the lazy bucket equals the eager one that adds
   `refill` at every interval boundary (capped at max), hence over any window it admits at most the
   balance at the window's start plus refill per boundary crossed.                                *)
EXTENDS LeakyBucketOps, TLC

CONSTANTS Refills, Intervals, Maxes, Initials,   \* parameter values explored by the model checker
          MaxT, MaxOps

-----------------------------------------------------------------------------
(* Closed system for the model checker: time passes, jobs are routed (check, bump on success). *)
VARIABLES b, now, ideal, nops, win
vars == <<b, now, ideal, nops, win>>

NoWin == [on |-> FALSE, bal0 |-> 0, ticks |-> 0, adm |-> 0]
Init == /\ now = 0 /\ nops = 0 /\ win = NoWin
        /\ \E r \in Refills, i \in Intervals, m \in Maxes, n \in Initials : b = New(r, i, m, n, 0)
        /\ ideal = b.balance

Periodic == b.interval > 0 /\ b.interval < BIG
Boundary(t) == Periodic /\ t % b.interval = 0          \* the bucket was created at t = 0
Tick == /\ now < MaxT /\ now' = now + 1
        /\ ideal' = IF Boundary(now + 1) THEN Min(SatAdd(ideal, b.refill), b.max) ELSE ideal
        /\ win' = IF win.on /\ Boundary(now + 1) THEN [win EXCEPT !.ticks = @ + 1] ELSE win
        /\ UNCHANGED <<b, nops>>
\* one routing attempt of RateLimitedRouter::route_message
Route == /\ nops < MaxOps /\ nops' = nops + 1
         /\ LET b1 == Check(b, now)
                ok == b1.balance > 0
                id1 == IF b.interval = 0 THEN Min(SatAdd(ideal, b.refill), b.max) ELSE ideal
            IN /\ b' = IF ok THEN Bump(b1) ELSE b1
               /\ ideal' = IF id1 > 0 THEN Dec(id1) ELSE id1
               /\ win' = IF win.on /\ ok THEN [win EXCEPT !.adm = @ + 1] ELSE win
         /\ UNCHANGED now
\* a window may start at any moment (its start balance is what the eager bucket holds then)
OpenWindow == /\ ~win.on /\ Periodic
              /\ win' = [on |-> TRUE, bal0 |-> ideal, ticks |-> 0, adm |-> 0]
              /\ UNCHANGED <<b, now, ideal, nops>>
Next == Tick \/ Route \/ OpenWindow
Spec == Init /\ [][Next]_vars

-----------------------------------------------------------------------------
(* Properties *)
BalanceLeMax == b.balance <= b.max
\* the lazy bucket, once refreshed, holds exactly what the eager bucket holds
EagerEq == IF b.interval = 0 THEN b.balance = ideal ELSE Refresh(b, now).balance = ideal
\* deadlines stay on the creation grid and are never more than one interval ahead
GridDeadline == Periodic => (b.dl % b.interval = 0 /\ b.dl <= now + b.interval)
\* C15 BucketBound: admissions in a window <= balance at its start + refill per boundary crossed
BucketBound == win.on => (win.adm <= SatAdd(win.bal0, SatMul(win.ticks, b.refill)) /\ win.adm <= SatAdd(b.max, 0) + SatMul(win.ticks, b.refill))
\* nothing is admitted from an empty bucket
NeverFromEmpty == (b.max = 0 \/ (b.refill = 0 /\ ideal = 0)) => ~CheckOk(b, now)
=============================================================================
