------------------------------ MODULE Registry ------------------------------
(* The name table and the pid table of ractor/src/registry.rs and registry/pid_registry.rs for one
   name (C10).
   Processes:
     spawners  each makes up to MaxAtt spawn attempts under the same name. One attempt is
               ActorCell::new (actor_cell.rs:236): register(name) through the DashMap entry API
               (atomic: insert iff vacant) -> register_pid -> on failure roll the name back;
               a successful attempt becomes a live actor that later exits on the same thread:
               set_status(Stopping) [processing loop, optional] -> set_status(Stopping) [guard] ->
               set_status(Stopped); each call is fetch_max + (only on the first transition to
               >= Stopping) unregister_pid + unregister(name); then its wait() returns.
     lookers   where_is(name) followed by a status read of the returned cell, where_is_pid(id),
               registered().
     proxies   named cells created by ActorCell::new_remote (ractor_cluster's RemoteActor): never entered
               in either table, but their exit runs the same cleanup -- see Dev below.
   One action per verif::point / harness observation; labels are given with the actions.            *)
EXTENDS Naturals, FiniteSets, TLC

CONSTANTS Spawners, MaxAtt, Lookers, MaxLook, Proxies,
          PidFaults,      \* BOOLEAN: register_pid may fail (exercises the rollback)
          ProxyUnregisters, \* TRUE: the code before the C10 repair (a proxy's exit unregisters by name)
          Mutant          \* "none" | "toctou" (check-then-insert) | "everycall" (cleanup on every call >= Stopping)

Unborn == 0  Running == 2  Stopping == 5  Stopped == 6
Max(a, b) == IF a > b THEN a ELSE b
Id == (Spawners \X (1..MaxAtt)) \cup (Proxies \X {0})
None == <<"none", 0>>
Procs == Spawners \cup Proxies

VARIABLES name,      \* the entry of the name table: an Id or None
          pids,      \* the pid table (subset of Id)
          st,        \* status of every actor identity
          spc,       \* per spawner / proxy: program counter
          att,       \* attempts started
          sres,      \* result of each attempt: "none" | "ok" | "dup" | "pid"
          xn,        \* per process: set_status calls >= Stopping made for the current actor
          xelect,    \* per process: the call in progress won the election
          waited,    \* the actor's wait() has returned
          lpc, lgot, nlook,   \* lookers
          seen,      \* toctou mutant only: what the spawner's check saw
          stale,     \* monitor: an unregister removed somebody else's entry
          dev        \* named deviations taken
vars == <<name, pids, st, spc, att, sres, xn, xelect, waited, lpc, lgot, nlook, seen, stale, dev>>

Cur(p) == IF p \in Proxies THEN <<p, 0>> ELSE <<p, att[p]>>

Init ==
  /\ name = None /\ pids = {} /\ st = [i \in Id |-> Unborn]
  /\ spc = [p \in Procs |-> "idle"] /\ att = [p \in Procs |-> 0]
  /\ sres = [i \in Id |-> "none"] /\ xn = [p \in Procs |-> 0] /\ xelect = [p \in Procs |-> FALSE]
  /\ waited = [i \in Id |-> FALSE]
  /\ lpc = [l \in Lookers |-> "idle"] /\ lgot = [l \in Lookers |-> None] /\ nlook = [l \in Lookers |-> 0]
  /\ seen = [p \in Procs |-> None] /\ stale = FALSE /\ dev = {}

-----------------------------------------------------------------------------
(* Spawn attempt = ActorCell::new *)
\* label obs.spawn_begin
SBegin(s) ==
  /\ s \in Spawners /\ spc[s] = "idle" /\ att[s] < MaxAtt
  /\ att' = [att EXCEPT ![s] = @ + 1] /\ spc' = [spc EXCEPT ![s] = "begin"]
  /\ UNCHANGED <<name, pids, st, sres, xn, xelect, waited, lpc, lgot, nlook, seen, stale, dev>>
\* registry::register, entry API: vacant -> insert; label new.named
SRegNameOk(s) ==
  /\ spc[s] = "begin" /\ Mutant # "toctou" /\ name = None
  /\ name' = Cur(s) /\ spc' = [spc EXCEPT ![s] = "named"]
  /\ UNCHANGED <<pids, st, att, sres, xn, xelect, waited, lpc, lgot, nlook, seen, stale, dev>>
\* occupied -> ActorAlreadyRegistered, nothing touched; label obs.spawn_ret(ok = 0, err = "dup")
SRegNameDup(s) ==
  /\ spc[s] = "begin" /\ Mutant # "toctou" /\ name # None
  /\ sres' = [sres EXCEPT ![Cur(s)] = "dup"] /\ spc' = [spc EXCEPT ![s] = "idle"]
  /\ UNCHANGED <<name, pids, st, att, xn, xelect, waited, lpc, lgot, nlook, seen, stale, dev>>
\* mutant: contains_key, then insert
SCheck(s) ==
  /\ spc[s] = "begin" /\ Mutant = "toctou" /\ seen' = [seen EXCEPT ![s] = name]
  /\ spc' = [spc EXCEPT ![s] = "checked"]
  /\ UNCHANGED <<name, pids, st, att, sres, xn, xelect, waited, lpc, lgot, nlook, stale, dev>>
SInsert(s) ==
  /\ spc[s] = "checked"
  /\ IF seen[s] = None
       THEN name' = Cur(s) /\ spc' = [spc EXCEPT ![s] = "named"] /\ UNCHANGED sres
       ELSE sres' = [sres EXCEPT ![Cur(s)] = "dup"] /\ spc' = [spc EXCEPT ![s] = "idle"] /\ UNCHANGED name
  /\ UNCHANGED <<pids, st, att, xn, xelect, waited, lpc, lgot, nlook, seen, stale, dev>>
\* pid_registry::register_pid; label new.pid
SRegPidOk(s) ==
  /\ spc[s] = "named" /\ pids' = pids \cup {Cur(s)} /\ spc' = [spc EXCEPT ![s] = "pidok"]
  /\ UNCHANGED <<name, st, att, sres, xn, xelect, waited, lpc, lgot, nlook, seen, stale, dev>>
\* label new.pidfail
SRegPidFail(s) ==
  /\ PidFaults /\ spc[s] = "named" /\ spc' = [spc EXCEPT ![s] = "pidfail"]
  /\ UNCHANGED <<name, pids, st, att, sres, xn, xelect, waited, lpc, lgot, nlook, seen, stale, dev>>
\* removal by name, whoever holds it
Unreg(i) == /\ name' = None
            /\ stale' = (stale \/ (name # None /\ name # i))
\* registry::unregister(name) on the failure path; label new.rollback
SRollback(s) ==
  /\ spc[s] = "pidfail" /\ Unreg(Cur(s)) /\ spc' = [spc EXCEPT ![s] = "rolled"]
  /\ UNCHANGED <<pids, st, att, sres, xn, xelect, waited, lpc, lgot, nlook, seen, dev>>
\* label obs.spawn_ret(ok = 0, err = "pid")
SRetErr(s) ==
  /\ spc[s] = "rolled" /\ sres' = [sres EXCEPT ![Cur(s)] = "pid"] /\ spc' = [spc EXCEPT ![s] = "idle"]
  /\ UNCHANGED <<name, pids, st, att, xn, xelect, waited, lpc, lgot, nlook, seen, stale, dev>>
\* label obs.spawn_ret(ok = 1): the spawn returned the actor, which is now running
SRetOk(s) ==
  /\ spc[s] = "pidok" /\ sres' = [sres EXCEPT ![Cur(s)] = "ok"] /\ st' = [st EXCEPT ![Cur(s)] = Running]
  /\ spc' = [spc EXCEPT ![s] = "live"] /\ xn' = [xn EXCEPT ![s] = 0]
  /\ UNCHANGED <<name, pids, att, xelect, waited, lpc, lgot, nlook, seen, stale, dev>>

(* a proxy for a remote actor: named, registered nowhere; label obs.proxy_new *)
PNew(p) ==
  /\ p \in Proxies /\ spc[p] = "idle" /\ st[Cur(p)] = Unborn
  /\ st' = [st EXCEPT ![Cur(p)] = Running] /\ spc' = [spc EXCEPT ![p] = "live"]
  /\ UNCHANGED <<name, pids, att, sres, xn, xelect, waited, lpc, lgot, nlook, seen, stale, dev>>

-----------------------------------------------------------------------------
(* Exit of the current actor of process p: calls of ActorCell::set_status(v) *)
\* the actor leaves its loop / its task ends (observed by the harness just before the first call); label obs.exit_begin
SExitBegin(p) ==
  /\ spc[p] = "live" /\ spc' = [spc EXCEPT ![p] = "exiting"]
  /\ UNCHANGED <<name, pids, st, att, sres, xn, xelect, waited, lpc, lgot, nlook, seen, stale, dev>>
\* fetch_max; label status.set(d = v, prev). Calls: [Stopping,] Stopping, Stopped.
XFetch(p, v) ==
  /\ spc[p] \in {"exiting", "called"}
  /\ \/ xn[p] = 0 /\ v = Stopping
     \/ xn[p] = 1 /\ v \in {Stopping, Stopped}
     \/ xn[p] = 2 /\ v = Stopped
  /\ LET win == st[Cur(p)] < Stopping \/ Mutant = "everycall"
     IN /\ xelect' = [xelect EXCEPT ![p] = win]
        /\ spc' = [spc EXCEPT ![p] = IF win THEN "xpid" ELSE IF v = Stopped THEN "stopped" ELSE "called"]
  /\ st' = [st EXCEPT ![Cur(p)] = Max(@, v)] /\ xn' = [xn EXCEPT ![p] = @ + 1]
  /\ UNCHANGED <<name, pids, att, sres, waited, lpc, lgot, nlook, seen, stale, dev>>
\* pid_registry::unregister_pid (a no-op for a remote id); label cleanup.pid
XPid(p) ==
  /\ spc[p] = "xpid" /\ pids' = pids \ {Cur(p)}
  \* a remote proxy is not enrolled under its name and (after the repair) skips the name removal
  /\ spc' = [spc EXCEPT ![p] = IF p \in Proxies /\ ~ProxyUnregisters
                                 THEN (IF st[Cur(p)] = Stopped THEN "stopped" ELSE "called") ELSE "xname"]
  /\ UNCHANGED <<name, st, att, sres, xn, xelect, waited, lpc, lgot, nlook, seen, stale, dev>>
\* registry::unregister(name): removal by name; label cleanup.name
XName(p) ==
  /\ spc[p] = "xname" /\ Unreg(Cur(p))
  /\ spc' = [spc EXCEPT ![p] = IF st[Cur(p)] = Stopped THEN "stopped" ELSE "called"]
  \* Dev: a proxy (never registered) removes the entry of a local actor that carries the same name
  /\ dev' = IF p \in Proxies /\ name # None THEN dev \cup {"RemoteProxyUnregistersLocalName"} ELSE dev
  /\ UNCHANGED <<pids, st, att, sres, xn, xelect, waited, lpc, lgot, nlook, seen>>
\* the actor's wait() returned (after notify_stop_listener); label obs.waited
SWaited(p) ==
  /\ spc[p] = "stopped" /\ waited' = [waited EXCEPT ![Cur(p)] = TRUE]
  /\ spc' = [spc EXCEPT ![p] = IF p \in Proxies THEN "end" ELSE "idle"]
  /\ UNCHANGED <<name, pids, st, att, sres, xn, xelect, lpc, lgot, nlook, seen, stale, dev>>

-----------------------------------------------------------------------------
(* Lookups *)
\* registry::where_is(name): one DashMap get; label obs.where_is(res)
LWhereIs(l) ==
  /\ lpc[l] = "idle" /\ nlook[l] < MaxLook /\ lgot' = [lgot EXCEPT ![l] = name]
  /\ lpc' = [lpc EXCEPT ![l] = "got"] /\ nlook' = [nlook EXCEPT ![l] = @ + 1]
  /\ UNCHANGED <<name, pids, st, spc, att, sres, xn, xelect, waited, seen, stale, dev>>
\* status read of the returned cell (nothing to read for None); label obs.lookup_st(st)
LStatus(l) ==
  /\ lpc[l] = "got" /\ lpc' = [lpc EXCEPT ![l] = "idle"]
  /\ UNCHANGED <<name, pids, st, spc, att, sres, xn, xelect, waited, lgot, nlook, seen, stale, dev>>
\* where_is_pid(id) / registered(): single reads; labels obs.where_is_pid(id, found), obs.registered(d)
LRead(l) ==
  /\ lpc[l] = "idle" /\ nlook[l] < MaxLook /\ nlook' = [nlook EXCEPT ![l] = @ + 1]
  /\ UNCHANGED <<name, pids, st, spc, att, sres, xn, xelect, waited, lpc, lgot, seen, stale, dev>>

SpawnerStep(s) == SBegin(s) \/ SRegNameOk(s) \/ SRegNameDup(s) \/ SCheck(s) \/ SInsert(s) \/ SRegPidOk(s) \/ SRegPidFail(s)
                  \/ SRollback(s) \/ SRetErr(s) \/ SRetOk(s)
ExitStep(p) == SExitBegin(p) \/ (\E v \in {Stopping, Stopped} : XFetch(p, v)) \/ XPid(p) \/ XName(p) \/ SWaited(p)
Next == \/ \E s \in Spawners : SpawnerStep(s) \/ ExitStep(s)
        \/ \E p \in Proxies : PNew(p) \/ ExitStep(p)
        \/ \E l \in Lookers : LWhereIs(l) \/ LStatus(l) \/ LRead(l)
Spec == Init /\ [][Next]_vars

-----------------------------------------------------------------------------
(* Properties (C10) *)
Local == Spawners \X (1..MaxAtt)
Live(i) == sres[i] = "ok" /\ st[i] < Stopping
TypeOK == /\ name \in Id \cup {None} /\ pids \subseteq Id
          /\ \A p \in Procs : spc[p] \in {"idle", "begin", "checked", "named", "pidok", "pidfail", "rolled", "live", "exiting", "called", "xpid", "xname", "stopped", "end"}
\* of concurrent spawns under the name at most one is the live holder at any time
OneWinner == dev = {} => Cardinality({i \in Local : Live(i)}) <= 1
\* where_is never returns an actor whose wait() has returned ...
LookupNotDead == /\ name # None => ~waited[name]
                 /\ \A i \in pids : ~waited[i]
\* ... and returns the winner from the return of its spawn until it begins to stop
LookupLive == dev = {} => \A i \in Local : Live(i) => (name = i /\ i \in pids)
\* an unregister removes only its own entry
NoStaleUnregister == dev = {} => ~stale
\* the table only ever holds actors that are not Stopped, and when every spawner is back to idle (its actor's wait()
\* returned, or its attempt failed) the name is free again
Reusable == /\ name # None => st[name] # Stopped
            /\ (dev = {} /\ \A s \in Spawners : spc[s] = "idle") => (name = None /\ pids = {})
\* a failed attempt has no effect: stated as an action property
FailedSpawnInnocent == [][\A s \in Spawners : SRegNameDup(s) => UNCHANGED <<name, pids, st>>]_vars
\* the deviation is reachable only with a proxy (NoDev is expected to be violated in the proxy configuration)
DevOnlyByProxy == dev # {} => Proxies # {}
NoDev == dev = {}
=============================================================================
