SPECIFICATION MCSpec
CONSTANTS
  Actors = {"a1", "a2", "a3"}
  Threads = {"t1", "t2", "t3", "t4"}
  Scopes = {"d", "s1"}
  Groups = {"g1", "g2"}
  Remote = {"a2"}
  InLockCheck = TRUE
  St0 <- A2Stopped
  Ops <- OpsStale
INVARIANTS
  NeverStale
CHECK_DEADLOCK FALSE
