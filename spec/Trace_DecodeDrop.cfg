SPECIFICATION DSpec
CONSTANTS
  Actors = {"A"}
  NoA = "none"
  SupOf <- NoSup
  MaxMsgs <- TrMax
  MaxInject <- TrMax
  Outcomes = {"ok", "err", "panic"}
  MaxYield = 50
  EnvOps <- TrEnvOps
  KillCarriesState = FALSE
  Once = FALSE
  Undecodable = {}
  Local = {}
  MonPairs = {}
  SweepKillsDraining = {TRUE}
  AllowLocalDecodeKill = FALSE
CONSTRAINT Progress
INVARIANTS
  OrderOk PostStopOnlyGraceful NoOverlap NoStartAfterKill NoHandlerAfterStop
  OneTerminal StartedOrder DeadMeansClean FailedStartSilent NoChildOfDead
POSTCONDITION Accepted
CHECK_DEADLOCK FALSE
