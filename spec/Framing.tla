------------------------------ MODULE Framing ------------------------------
(* The length-prefixed frame reader of ractor_cluster (net/session.rs: read_network_message,
   checked_frame_length, read_n_bytes, SessionReader::handle) at the grain of one read() on the
   byte source. Input: a stream of frames [len, cls] followed by EOF, possibly cut short, handed out
   in arbitrary pieces. Decides the framing part of C19:
     - a declared length above Max closes the reader before a payload byte is requested or buffered,
     - the buffer never holds more than min(len, bytes that arrived),
     - a truncated or undecodable frame closes the reader (with the matching error class),
     - the delivered frame sequence depends on the stream only, never on the chunking.          *)
EXTENDS Naturals, Sequences, FiniteSets, TLC

CONSTANTS H,          \* bytes of the length prefix (8)
          Max,        \* max_inbound_frame_size
          ChunkCap,   \* FRAME_READ_CHUNK_SIZE: largest single payload read
          Lens,       \* declared lengths the model checker tries (trace validation ignores it)
          MaxFrames   \* frames per stream the model checker tries

Min(a, b) == IF a < b THEN a ELSE b
Max2(a, b) == IF a > b THEN a ELSE b

VARIABLES stream,   \* sequence of [len |-> Nat, cls |-> "valid" | "undecodable"]
          cut,      \* bytes the source hands out before EOF
          pos,      \* bytes handed out so far
          phase,    \* "header" | "check" | "payload" | "decode" | "closed"
          fi,       \* index of the frame being read
          hdr,      \* prefix bytes read of frame fi
          got,      \* payload bytes buffered for frame fi  (buf.len() in read_n_bytes)
          reason,   \* "none" | "oversize" | "decode" | "eof"
          decoded,  \* indices of the frames delivered to the session, in order
          maxReq,   \* largest payload read requested so far
          lastReq,  \* size of the last read requested (0 = none yet)
          preads    \* payload read() calls issued for frame fi
vars == <<stream, cut, pos, phase, fi, hdr, got, reason, decoded, maxReq, lastReq, preads>>

\* bytes of frame f that are physically in the stream: an oversize frame is never followed by its
\* payload in what the reader may consume (it closes at the prefix), so only the prefix counts
Body(f) == IF f.len > Max THEN 0 ELSE f.len
RECURSIVE StartOf(_, _)
StartOf(s, i) == IF i <= 1 THEN 0 ELSE StartOf(s, i - 1) + H + Body(s[i - 1])
Total(s) == StartOf(s, Len(s) + 1)
Cur == stream[fi]
Avail == cut - pos

FrameSet == {[len |-> l, cls |-> c] : l \in Lens, c \in {"valid", "undecodable"}}
            \ {[len |-> l, cls |-> "undecodable"] : l \in {x \in Lens : x = 0 \/ x > Max}}
Streams == UNION {[1..n -> FrameSet] : n \in 0..MaxFrames}

InitReader == /\ pos = 0 /\ phase = "header" /\ fi = 1 /\ hdr = 0 /\ got = 0 /\ reason = "none"
              /\ decoded = <<>> /\ maxReq = 0 /\ lastReq = 0 /\ preads = 0
Init == /\ stream \in Streams
        /\ cut \in 0..Total(stream)
        /\ InitReader

Close(r) == phase' = "closed" /\ reason' = r

\* one read() while the 8-byte prefix is being assembled (tokio's read_u64); n = 0 is EOF
ReadHdr(n) ==
  /\ phase = "header"
  /\ n <= Min(H - hdr, Avail) /\ (n = 0) = (Avail = 0)
  /\ lastReq' = H - hdr
  /\ IF n = 0
       THEN Close("eof") /\ UNCHANGED <<hdr, pos>>
       ELSE /\ hdr' = hdr + n /\ pos' = pos + n /\ reason' = reason
            /\ phase' = (IF hdr + n = H THEN "check" ELSE "header")
  /\ UNCHANGED <<stream, cut, fi, got, decoded, maxReq, preads>>

\* checked_frame_length: before anything is allocated or requested for the payload
CheckLen ==
  /\ phase = "check"
  /\ IF Cur.len > Max THEN Close("oversize")
     ELSE phase' = (IF Cur.len = 0 THEN "decode" ELSE "payload") /\ reason' = reason
  /\ UNCHANGED <<stream, cut, pos, fi, hdr, got, decoded, maxReq, lastReq, preads>>

\* one read() of read_n_bytes: asks for min(len - buffered, ChunkCap), appends what arrived
PayReq == Min(Cur.len - got, ChunkCap)
ReadPay(n) ==
  /\ phase = "payload"
  /\ n <= Min(PayReq, Avail) /\ (n = 0) = (Avail = 0)
  /\ lastReq' = PayReq /\ maxReq' = Max2(maxReq, PayReq) /\ preads' = preads + 1
  /\ IF n = 0
       THEN Close("eof") /\ UNCHANGED <<got, pos>>
       ELSE /\ got' = got + n /\ pos' = pos + n /\ reason' = reason
            /\ phase' = (IF got + n = Cur.len THEN "decode" ELSE "payload")
  /\ UNCHANGED <<stream, cut, fi, hdr, decoded>>

\* protobuf decode of the complete payload; a good frame goes to the session, the reader re-arms
Decode ==
  /\ phase = "decode"
  /\ IF Cur.cls = "valid"
       THEN /\ decoded' = Append(decoded, fi) /\ fi' = fi + 1 /\ hdr' = 0 /\ got' = 0 /\ preads' = 0
            /\ phase' = "header" /\ reason' = reason
       ELSE Close("decode") /\ UNCHANGED <<decoded, fi, hdr, got, preads>>
  /\ UNCHANGED <<stream, cut, pos, maxReq, lastReq>>

Done == phase = "closed" /\ UNCHANGED vars

Next == \/ \E n \in 0..H : ReadHdr(n)
        \/ \E n \in 0..Max2(1, Min(Max, ChunkCap)) : ReadPay(n)
        \/ CheckLen \/ Decode \/ Done
Spec == Init /\ [][Next]_vars

-----------------------------------------------------------------------------
(* What the stream alone (no chunking) says must happen *)
RECURSIVE Expect(_, _, _)
Expect(s, c, i) ==      \* <<delivered frames from i on, closing reason>>
  LET o == StartOf(s, i) IN
  IF i > Len(s) \/ c < o + H THEN <<<<>>, "eof">>
  ELSE IF s[i].len > Max THEN <<<<>>, "oversize">>
  ELSE IF c < o + H + s[i].len THEN <<<<>>, "eof">>
  ELSE IF s[i].cls # "valid" THEN <<<<>>, "decode">>
  ELSE LET r == Expect(s, c, i + 1) IN <<<<i>> \o r[1], r[2]>>
Expected == Expect(stream, cut, 1)
IsPrefix(a, b) == Len(a) <= Len(b) /\ \A i \in 1..Len(a) : a[i] = b[i]

(* Properties *)
\* oversize: closed at the prefix; nothing requested or buffered for that frame
OversizeNeverRead ==
  /\ phase \in {"payload", "decode"} => Cur.len <= Max
  /\ (phase = "closed" /\ reason = "oversize") => (got = 0 /\ preads = 0 /\ hdr = H)
  /\ phase = "check" => (got = 0 /\ preads = 0)
RequestsBounded == maxReq <= Min(Max, ChunkCap) /\ lastReq <= Max2(H, Min(Max, ChunkCap))
\* the buffer holds exactly what arrived for this frame and never more than its declared length
BufferBounded ==
  /\ got <= Max
  /\ phase \in {"payload", "decode"} => (got <= Cur.len /\ got = pos - StartOf(stream, fi) - H)
  /\ pos <= cut
\* chunking independence: whatever the pieces were, the delivered sequence is the stream's
ChunkingIndependent ==
  /\ IsPrefix(decoded, Expected[1])
  /\ phase = "closed" => (decoded = Expected[1] /\ reason = Expected[2])
\* a bad frame closes the reader: nothing is delivered after the first frame that is not delivered
NothingAfterBad == \A k \in 1..Len(decoded) : decoded[k] = k
=============================================================================
