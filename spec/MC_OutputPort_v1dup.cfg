SPECIFICATION Spec
CONSTANTS
  Impl = "v1"
  Subs = {"s1", "s2", "s3"}
  SubActors = {"A", "B"}
  Target <- TargetA
  Filter <- FilterA
  Cap = 2
  MaxBatch = 2
  MaxPub = 4
  EnvOps = {"kill"}
INVARIANTS
  TypeOk InOrderNoDup NoGapV2 GapOnlyWhenLagged ForwardMonotone SendNeverBlocks OthersUnaffected
CHECK_DEADLOCK FALSE
