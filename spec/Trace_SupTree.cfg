SPECIFICATION TSpec
CONSTANTS
  Actors = {"a1", "a2", "a3", "a4", "a5"}
  TIds = {"t1", "t2", "t3", "t4", "s_a1", "s_a2", "s_a3", "s_a4", "s_a5"}
  NoA = "none"
  InitSup <- TrNoSup
  InitSt <- TrRun
  InitMayExit = {}
  LinkOps <- TrNoPairs
  UnlinkOps <- TrNoPairs
  KillOps = {}
  DrainOps = {}
  MaxEnv = 0
  AllowDev = TRUE
CONSTRAINT Progress
INVARIANTS
  TypeOK TwoSided StoppedIsolated SubtreeSignalledOrDev RacingLinkOrDev
POSTCONDITION Accepted
CHECK_DEADLOCK FALSE
