SPECIFICATION TSpec
CONSTANTS
  BIG = 1000000
  NoInit = 1000001
  Refills = {}
  Intervals = {}
  Maxes = {}
  Initials = {}
  MaxT = 0
  MaxOps = 0
CONSTRAINT Progress
INVARIANTS
  BalanceLeMax
POSTCONDITION Accepted
CHECK_DEADLOCK FALSE
