SPECIFICATION Spec
CONSTANTS
  Senders = {s1, s2, s3}
  Probes = {x1}
  Late = {}
  MaxReq = 1
  MaxAbandon = 2
  DirOf <- SameSide
  Kinds = {"cast", "call"}
  Faults = {"exit"}
  TagMode = "fresh"
  ResolveMode = "bytag"
  MaxPg = 0
INVARIANTS
  Ordered NoCrossWire TagsUnique AnsweredWasDelivered StoppedIsClean ProxyHasOriginal Mirrors
CHECK_DEADLOCK TRUE
