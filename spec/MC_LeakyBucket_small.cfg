SPECIFICATION Spec
CONSTANTS
  BIG = 50
  NoInit = 51
  Refills = {0, 1, 2, 50}
  Intervals = {0, 1, 2, 3, 50}
  Maxes = {0, 1, 3, 50}
  Initials = {0, 1, 2, 50, 51}
  MaxT = 7
  MaxOps = 6
INVARIANTS
  BalanceLeMax EagerEq GridDeadline BucketBound NeverFromEmpty
CHECK_DEADLOCK FALSE
