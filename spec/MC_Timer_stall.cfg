SPECIFICATION Spec
CONSTANTS
  Timers = {"a", "b"}
  Kinds <- KindsA
  Periods <- PeriodsA
  MaxNow = 7
  EnvOps = {"stop", "busy", "stall"}
  Stalls = {1, 3}
  VirtualClock = TRUE
  Instant = FALSE
  UnstartedKillsInterval = TRUE
INVARIANTS
  TypeOk AfterOnce AfterResult NeverEarly Exact AbortStops NoDeliveryToDead HandledInOrder IntervalEnds Reasons IntervalSurvivesStart
CHECK_DEADLOCK FALSE
