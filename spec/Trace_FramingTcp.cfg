SPECIFICATION TSpec
CONSTANTS
  H = 8
  Max = 64
  ChunkCap = 8192
  Lens = {}
  MaxFrames = 0
CONSTRAINT Progress
POSTCONDITION Accepted
CHECK_DEADLOCK FALSE
