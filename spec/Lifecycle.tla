------------------------------ MODULE Lifecycle ------------------------------
(* The callback automaton of ractor actors (ractor/src/actor.rs: start, processing_loop,
   process_message, ActorLifecycleGuard; actor_cell.rs: listen_in_priority, run_with_signal,
   terminate) at the grain of one task poll, for a small forest of actors with supervision links.
   The mailbox is the atomic abstraction justified by Mailbox.tla ("send linearises at enqueue"),
   teardown is the atomic abstraction justified by ExitWait.tla / SupTree.tla.
   Decides C01 (callback order / no overlap), C03 (port priority, kill/stop semantics),
   C04 (one terminal event, right class) and C08 (failed start leaves nothing).                 *)
EXTENDS Naturals, Sequences, FiniteSets, TLC

CONSTANTS Actors,       \* set of actor ids (strings)
          NoA,          \* "none"
          SupOf,        \* [Actors -> Actors \cup {NoA}] supervisor given to spawn_linked
          MaxMsgs,      \* [Actors -> Nat] messages sent to each actor
          MaxInject,    \* [Actors -> Nat] supervision events injected into each actor by the environment
          Outcomes,     \* subset of {"ok","err","panic"} callbacks may end with
          MaxYield,     \* suspensions per callback
          EnvOps,       \* [Actors -> SUBSET {"stop","kill","drain","abort","selfkill","selfstop"}]
          KillCarriesState, \* TRUE: model the code as it is (kill in the loop reports the state)
          Once,         \* TRUE: kill/stop/drain are issued at most once per actor (bounds the model)
          Local,        \* subset of Actors that are thread-local actors (ractor/src/thread_local/inner.rs):
                        \* linked before pre_start, pre_start on the spawner's thread, no state in events
          MonPairs,     \* set of <<monitor, target>> pairs the environment may establish (monitors feature)
          Undecodable,  \* message numbers whose payload does not decode (cluster builds; C19)
          SweepKillsDraining \* subset of BOOLEAN: does terminate() send Kill to Draining descendants?
                        \* {FALSE} = the code before the C05 repair (`<= Upgrading`), {TRUE} = after it
                        \* (`< Stopping`); this module's properties hold either way, SupTree decides C05

Unstarted == 0  Starting == 1  Running == 2  Upgrading == 3  Draining == 4  Stopping == 5  Stopped == 6
Max(a, b) == IF a > b THEN a ELSE b
NoCb == [k |-> "none", y |-> 0, susp |-> FALSE]
NoEvt == [ek |-> "none", about |-> NoA, hs |-> FALSE, reason |-> ""]
Evt(ek, about, hs, reason) == [ek |-> ek, about |-> about, hs |-> hs, reason |-> reason]
DrainItem == 0

VARIABLES ac,      \* per-actor record, see InitActor
          nsent,   \* per-actor count of messages the environment has tried to send
          ninj     \* per-actor count of injected supervision events
vars == <<ac, nsent, ninj>>

InitActor == [st |-> Unstarted, sig |-> "none", stp |-> "none", stpReason |-> "", supq |-> <<>>, mq |-> <<>>,
              rxOpen |-> FALSE, admClosed |-> FALSE, marker |-> FALSE,
              pc |-> "none", cb |-> NoCb, notify |-> FALSE, par |-> NoA, closed |-> FALSE,
              spawnRes |-> "none", exitK |-> "none", exitR |-> "", cur |-> NoEvt, curMsg |-> 0, pend |-> NoEvt,
              killRet |-> FALSE, stopRet |-> FALSE, abortReq |-> "none", started |-> FALSE,
              \* monitors (history folded into flags so that the state space stays small)
              seenPre |-> FALSE, seenPost |-> FALSE, seenPStop |-> FALSE, badOrder |-> FALSE,
              cbAfterKill |-> FALSE, hAfterStop |-> FALSE, nTerm |-> 0, nStarted |-> 0, badEvt |-> FALSE,
              \* monitors of this actor; monitors that were already sent a terminal event about it
              mons |-> {}, monTerm |-> {}, dupMon |-> FALSE,
              \* member of the scenario's process group (joined from a callback; left by the exit cleanup)
              inPg |-> FALSE]

Init == /\ ac = [a \in Actors |-> InitActor]
        /\ nsent = [a \in Actors |-> 0] /\ ninj = [a \in Actors |-> 0]

Set(a, r) == ac' = [ac EXCEPT ![a] = r]
Alive(a) == ac[a].pc \notin {"none", "dead"}
Kids(a) == {c \in Actors : ac[c].par = a}
RECURSIVE Desc(_)
Desc(a) == LET k == Kids(a) IN k \cup UNION {Desc(c) : c \in k}

-----------------------------------------------------------------------------
(* Environment / any running context *)

\* send_message: atomic abstraction of Mailbox (status gate, admission, enqueue)
SendOk(a) == ac[a].st < Draining /\ ~ac[a].admClosed /\ ac[a].rxOpen
Send(a) ==
  /\ ac[a].pc # "none" /\ nsent[a] < MaxMsgs[a]
  /\ nsent' = [nsent EXCEPT ![a] = @ + 1]
  /\ IF SendOk(a) THEN Set(a, [ac[a] EXCEPT !.mq = Append(@, nsent[a] + 1)]) ELSE UNCHANGED ac
  /\ UNCHANGED ninj

\* a supervision event from outside the tree (pg / pid monitor style), delivered if the port is open
Inject(a) ==
  /\ ac[a].pc # "none" /\ ninj[a] < MaxInject[a]
  /\ ninj' = [ninj EXCEPT ![a] = @ + 1]
  /\ IF ac[a].rxOpen THEN Set(a, [ac[a] EXCEPT !.supq = Append(@, Evt("inject", NoA, FALSE, ""))]) ELSE UNCHANGED ac
  /\ UNCHANGED nsent

Kill(a) ==
  /\ ac[a].pc # "none" /\ (Once => ~ac[a].killRet)
  /\ Set(a, [ac[a] EXCEPT !.killRet = TRUE, !.sig = IF @ = "none" /\ ac[a].rxOpen THEN "sent" ELSE @])
  /\ UNCHANGED <<nsent, ninj>>
Stop(a, reason) ==
  /\ ac[a].pc # "none" /\ (Once => ~ac[a].stopRet)
  /\ Set(a, [ac[a] EXCEPT !.stopRet = TRUE,
                          !.stp = IF @ = "none" /\ ac[a].rxOpen THEN "sent" ELSE @,
                          !.stpReason = IF ac[a].stp = "none" /\ ac[a].rxOpen THEN reason ELSE @])
  /\ UNCHANGED <<nsent, ninj>>
Drain(a) ==
  /\ ac[a].pc # "none" /\ (Once => ~ac[a].admClosed)
  /\ Set(a, [ac[a] EXCEPT !.admClosed = TRUE,
                          !.st = IF @ < Stopping THEN Max(@, Draining) ELSE @,
                          !.marker = TRUE,
                          !.mq = IF ~ac[a].marker /\ ac[a].rxOpen THEN Append(@, DrainItem) ELSE @])
  /\ UNCHANGED <<nsent, ninj>>
\* ActorCell::stop_children / drain_children: the child set is read under its lock and every child is stopped / drained
\* in the same call (the *_and_wait variants then wait for each of them; they add nothing to the state)
StopRec(r, reason) == [r EXCEPT !.stopRet = TRUE,
                                !.stp = IF @ = "none" /\ r.rxOpen THEN "sent" ELSE @,
                                !.stpReason = IF r.stp = "none" /\ r.rxOpen THEN reason ELSE @]
DrainRec(r) == [r EXCEPT !.admClosed = TRUE,
                         !.st = IF @ < Stopping THEN Max(@, Draining) ELSE @,
                         !.marker = TRUE,
                         !.mq = IF ~r.marker /\ r.rxOpen THEN Append(@, DrainItem) ELSE @]
StopKids(a, reason) ==
  /\ ac[a].pc # "none"
  /\ ac' = [x \in Actors |-> IF ac[x].par = a /\ ac[x].pc # "none" THEN StopRec(ac[x], reason) ELSE ac[x]]
  /\ UNCHANGED <<nsent, ninj>>
DrainKids(a) ==
  /\ ac[a].pc # "none"
  /\ ac' = [x \in Actors |-> IF ac[x].par = a /\ ac[x].pc # "none" THEN DrainRec(ac[x]) ELSE ac[x]]
  /\ UNCHANGED <<nsent, ninj>>
\* ActorCell::monitor / unmonitor: `m` receives stripped copies of `a`'s lifecycle events
Monitor(m, a) ==
  /\ m # a /\ ac[m].pc # "none" /\ ac[a].pc # "none"
  /\ Set(a, [ac[a] EXCEPT !.mons = @ \cup {m}])
  /\ UNCHANGED <<nsent, ninj>>
Unmonitor(m, a) ==
  /\ m # a /\ ac[m].pc # "none" /\ ac[a].pc # "none"
  /\ Set(a, [ac[a] EXCEPT !.mons = @ \ {m}])
  /\ UNCHANGED <<nsent, ninj>>
\* notify_supervisor: monitors first (copy without state), then the supervisor; a monitor whose
\* port is closed is forgotten. `f` is the actor map after the step's other updates, `p` the supervisor.
IsTerminal(evt) == evt.ek \in {"terminated", "failed"}
Deliver(f, a, p, evt) ==
  LET ms == ac[a].mons
      live(x) == ac[x].rxOpen /\ x # a
      copy == [evt EXCEPT !.hs = FALSE]
  IN [x \in Actors |->
        IF x = a THEN [f[a] EXCEPT !.mons = {m \in ms : live(m)},
                                   !.monTerm = IF IsTerminal(evt) THEN @ \cup {m \in ms : live(m)} ELSE @,
                                   !.dupMon = @ \/ (IsTerminal(evt) /\ \E m \in ms : live(m) /\ m \in f[a].monTerm)]
        ELSE [f[x] EXCEPT !.supq = @ \o (IF x \in ms /\ live(x) THEN <<copy>> ELSE <<>>)
                                      \o (IF x = p /\ live(x) THEN <<evt>> ELSE <<>>)]]
EnvKill(a) == "kill" \in EnvOps[a] /\ Kill(a)
EnvStop(a) == "stop" \in EnvOps[a] /\ Stop(a, "r")
EnvDrain(a) == "drain" \in EnvOps[a] /\ Drain(a)
\* (bounded for model checking: only while some child has not been stopped / drained yet)
EnvStopKids(a) == "stopkids" \in EnvOps[a] /\ (\E c \in Actors : ac[c].par = a /\ ~ac[c].stopRet) /\ StopKids(a, "r")
EnvDrainKids(a) == "drainkids" \in EnvOps[a] /\ (\E c \in Actors : ac[c].par = a /\ ~ac[c].admClosed) /\ DrainKids(a)
\* JoinHandle::abort on the task that currently runs the actor (spawner helper or loop task)
EnvAbort(a) ==
  /\ "abort" \in EnvOps[a] /\ Alive(a) /\ ac[a].abortReq = "none"
  /\ Set(a, [ac[a] EXCEPT !.abortReq = IF ac[a].pc \in {"new", "lnew", "pre"} THEN "spawner" ELSE "loop"])
  /\ UNCHANGED <<nsent, ninj>>

-----------------------------------------------------------------------------
(* Exit = two steps, as in the code: the loop (or start()) decides how the actor ends and what its
   supervisor is told (-> pc "exiting", `pend`), then ActorLifecycleGuard::cleanup tears it down.
   terminate() sweeps the subtree: Kill to every descendant whose status is <= Upgrading (kd: also
   to Draining ones), every link below `a` removed, child sets closed. handle_signal() runs the
   same sweep at once.                                                                           *)
Sweep(a, f, kd) ==   \* f: the record `a` itself becomes
  LET D == Desc(a) IN
  [x \in Actors |->
     IF x = a THEN [f EXCEPT !.closed = TRUE]
     ELSE IF x \in D THEN
       [ac[x] EXCEPT !.par = NoA, !.closed = TRUE,
                     !.sig = IF @ = "none" /\ ac[x].rxOpen /\ (ac[x].st <= Upgrading \/ (kd /\ ac[x].st = Draining))
                               THEN "sent" ELSE @]
     ELSE ac[x]]

Exiting(r, kind, reason, evt) ==
  [r EXCEPT !.pc = "exiting", !.cb = NoCb, !.exitK = kind, !.exitR = reason, !.pend = evt, !.cur = NoEvt]

\* ActorLifecycleGuard::cleanup (+ the ports dropped in the same poll)
Cleanup(a) ==
  /\ ac[a].pc = "exiting"
  /\ LET evt == ac[a].pend
         p == ac[a].par
         f == [ac[a] EXCEPT !.st = Stopped, !.pc = "dead", !.rxOpen = FALSE, !.mq = <<>>, !.supq = <<>>,
                            !.sig = IF @ = "sent" THEN "taken" ELSE @, !.stp = IF @ = "sent" THEN "taken" ELSE @,
                            !.par = NoA, !.pend = NoEvt,
                            !.spawnRes = IF @ = "none" THEN "err" ELSE @,
                            !.nTerm = IF evt.ek # "none" /\ @ < 2 THEN @ + 1 ELSE @]
     IN \E kd \in SweepKillsDraining :
          LET swept == Sweep(a, f, kd)
          IN ac' = IF evt.ek # "none" THEN Deliver(swept, a, p, evt) ELSE swept
  /\ UNCHANGED <<nsent, ninj>>

\* event classes (C04)
EvtFailed(a, txt) == Evt("failed", a, FALSE, txt)
EvtTerm(a, hs, reason) == Evt("terminated", a, hs /\ a \notin Local, reason)

-----------------------------------------------------------------------------
(* Start-up: ActorRuntime::spawn / spawn_linked / *_instant, start() *)

\* cell + ports + guard created (name/pid registration is Registry's concern)
SpawnCall(a) ==
  /\ ac[a].pc = "none"
  /\ (SupOf[a] # NoA => ac[SupOf[a]].pc # "none")
  /\ Set(a, [ac[a] EXCEPT !.pc = "new", !.rxOpen = TRUE])
  /\ UNCHANGED <<nsent, ninj>>

IsHandler(k) == k \in {"handle", "handle_sup"}
Entered(r, k) ==
  [r EXCEPT !.cb = [k |-> k, y |-> 0, susp |-> FALSE],
            !.seenPre = @ \/ k = "pre_start", !.seenPost = @ \/ k = "post_start",
            !.seenPStop = @ \/ k = "post_stop",
            !.badOrder = @ \/ r.seenPStop \/ r.cb # NoCb
                           \/ (k = "pre_start" /\ r.seenPre)
                           \/ (k = "post_start" /\ (~r.seenPre \/ r.seenPost))
                           \/ (IsHandler(k) /\ ~r.started)
                           \/ (k = "post_stop" /\ ~r.started),
            !.cbAfterKill = @ \/ r.killRet]
Step(a, r) == Set(a, r) /\ UNCHANGED <<nsent, ninj>>
Ready(a) == ac[a].abortReq = "none"
NoSig(a) == ac[a].sig # "sent"

\* start(): Unstarted check, Starting, pre_start entered (first poll of start()).
\* Thread-local actors: start() links synchronously first (LocalStart), the builder that runs
\* pre_start is then shipped to the spawner's thread (pc "lnew" until it is first polled).
LinkOk(a) == LET s == SupOf[a] IN s = NoA \/ (ac[a].st < Draining /\ ac[s].st < Draining /\ ~ac[s].closed)
LocalStart(a) ==
  /\ a \in Local /\ ac[a].pc = "new" /\ Ready(a) /\ ac[a].st = Unstarted /\ LinkOk(a)
  /\ Step(a, [ac[a] EXCEPT !.pc = "lnew", !.st = Max(@, Starting), !.par = SupOf[a]])
LocalStartRefused(a) ==
  /\ a \in Local /\ ac[a].pc = "new" /\ Ready(a) /\ ac[a].st = Unstarted /\ ~LinkOk(a)
  /\ Step(a, Exiting([ac[a] EXCEPT !.st = Max(@, Starting)], "startfail", "link_refused", NoEvt))
StartBegin(a) ==
  /\ Ready(a) /\ NoSig(a)
  /\ IF a \in Local THEN ac[a].pc = "lnew" ELSE ac[a].pc = "new" /\ ac[a].st = Unstarted
  /\ Step(a, Entered([ac[a] EXCEPT !.pc = "pre", !.st = Max(@, Starting)], "pre_start"))
\* start() on a cell that is no longer Unstarted (drained through its instant-spawn reference)
StartRefused(a) ==
  /\ ac[a].pc = "new" /\ Ready(a) /\ ac[a].st # Unstarted
  /\ Step(a, Exiting(ac[a], "startfail", "already_started", NoEvt))

\* callback bodies: suspend, resume (ticks are stuttering here)
Yield(a) ==
  /\ ac[a].cb.k # "none" /\ ~ac[a].cb.susp /\ ac[a].cb.y < MaxYield
  /\ Step(a, [ac[a] EXCEPT !.cb.y = @ + 1, !.cb.susp = TRUE])
Resume(a) ==
  /\ ac[a].cb.susp /\ NoSig(a) /\ Ready(a)
  /\ Step(a, [ac[a] EXCEPT !.cb.susp = FALSE])
\* registry / process-group view of an actor (C08, C10, C11 facets visible at this level): the name and
\* the memberships go away when the status first reaches Stopping (ActorCell::set_status cleanup)
Registered(a) == ac[a].pc # "none" /\ ac[a].st < Stopping
InGroup(a) == ac[a].inPg /\ ac[a].st < Stopping
JoinPg(a) ==
  /\ "joinpg" \in EnvOps[a] /\ ac[a].cb.k # "none" /\ ~ac[a].cb.susp
  /\ Step(a, [ac[a] EXCEPT !.inPg = @ \/ ac[a].st < Stopping])
\* actions a callback may perform on its own actor
SelfKill(a) == "selfkill" \in EnvOps[a] /\ ac[a].cb.k # "none" /\ ~ac[a].cb.susp /\ Kill(a)
SelfStop(a) == "selfstop" \in EnvOps[a] /\ ac[a].cb.k # "none" /\ ~ac[a].cb.susp /\ Stop(a, "self")

\* handle_signal: the signal port wins whenever the task is polled with a kill pending, i.e. at
\* every suspension and before the first poll of every callback (run_with_signal polls it first).
\* The subtree is swept at once. What the supervisor is told depends on where the kill landed.
SigHandled(a) ==
  /\ ac[a].sig = "sent" /\ Ready(a)
  /\ LET pc == ac[a].pc
         susp == ac[a].cb.susp
         inStart == (pc = "new" /\ ac[a].st = Unstarted /\ a \notin Local) \/ pc = "lnew" \/ (pc = "pre" /\ susp)
         noState == pc \in {"spawned", "stopping"} \/ (pc \in {"post", "poststop"} /\ susp)
         inLoop == pc \in {"idle", "gotMsg", "gotSup"} \/ (pc \in {"msg", "sup"} /\ susp)
         r == [ac[a] EXCEPT !.sig = "taken"]
     IN /\ inStart \/ noState \/ inLoop
        /\ \E kd \in SweepKillsDraining :
             ac' = Sweep(a, IF inStart THEN Exiting(r, "startfail", "killed_in_start", NoEvt)
                            ELSE Exiting(r, "kill", "killed", EvtTerm(a, inLoop /\ KillCarriesState, "killed")), kd)
  /\ UNCHANGED <<nsent, ninj>>

\* pre_start returned: Ok => link, mark_running, spawn the loop task (same poll); Err/panic => fail
PreEnd(a, o) ==
  /\ ac[a].pc = "pre" /\ ac[a].cb.k = "pre_start" /\ ~ac[a].cb.susp /\ o \in Outcomes
  /\ LET s == IF a \in Local THEN ac[a].par ELSE SupOf[a]
         linkOk == a \in Local \/ LinkOk(a)
     IN IF o = "ok" /\ linkOk
          THEN Step(a, [ac[a] EXCEPT !.cb = NoCb, !.pc = "spawned", !.par = s, !.notify = TRUE, !.spawnRes = "ok", !.abortReq = "none"])
          ELSE Step(a, Exiting(ac[a], "startfail", IF o = "ok" THEN "link_refused" ELSE o, NoEvt))

-----------------------------------------------------------------------------
(* The loop task *)
PostStartBegin(a) ==
  /\ ac[a].pc = "spawned" /\ Ready(a) /\ NoSig(a)
  /\ Step(a, Entered([ac[a] EXCEPT !.pc = "post"], "post_start"))
PostStartEnd(a, o) ==
  /\ ac[a].pc = "post" /\ ac[a].cb.k = "post_start" /\ ~ac[a].cb.susp /\ o \in Outcomes
  /\ IF o = "ok"
       THEN LET f == [ac EXCEPT ![a] = [ac[a] EXCEPT !.cb = NoCb, !.pc = "idle", !.st = Max(@, Running), !.started = TRUE,
                                                 !.nStarted = IF @ < 2 THEN @ + 1 ELSE @, !.badEvt = @ \/ ac[a].nTerm > 0]]
            IN ac' = Deliver(f, a, ac[a].par, Evt("started", a, FALSE, ""))
       ELSE Set(a, Exiting(ac[a], o, o, EvtFailed(a, o)))
  /\ UNCHANGED <<nsent, ninj>>

\* listen_in_priority (biased select): signal > stop > supervision > message
Idle(a) == ac[a].pc = "idle" /\ Ready(a) /\ NoSig(a)
ListenStop(a) ==
  /\ Idle(a) /\ ac[a].stp = "sent"
  /\ Step(a, [ac[a] EXCEPT !.stp = "taken", !.pc = "stopping", !.exitK = "stop", !.exitR = ac[a].stpReason, !.st = Max(@, Stopping)])
TakeSup(a) ==
  /\ Idle(a) /\ ac[a].stp # "sent" /\ ac[a].supq # <<>>
  /\ Step(a, [ac[a] EXCEPT !.supq = Tail(@), !.cur = Head(ac[a].supq), !.pc = "gotSup", !.hAfterStop = @ \/ ac[a].stopRet])
TakeMsg(a) ==
  /\ Idle(a) /\ ac[a].stp # "sent" /\ ac[a].supq = <<>> /\ ac[a].mq # <<>> /\ Head(ac[a].mq) # DrainItem
  /\ Step(a, [ac[a] EXCEPT !.mq = Tail(@), !.curMsg = Head(ac[a].mq), !.pc = "gotMsg", !.hAfterStop = @ \/ ac[a].stopRet])
TakeDrain(a) ==
  /\ Idle(a) /\ ac[a].stp # "sent" /\ ac[a].supq = <<>> /\ ac[a].mq # <<>> /\ Head(ac[a].mq) = DrainItem
  /\ Step(a, [ac[a] EXCEPT !.mq = Tail(@), !.pc = "stopping", !.exitK = "drain", !.exitR = "Drained", !.st = Max(@, Stopping)])
EnterSup(a) ==
  /\ ac[a].pc = "gotSup" /\ Ready(a) /\ NoSig(a)
  /\ Step(a, Entered([ac[a] EXCEPT !.pc = "sup"], "handle_sup"))
EnterMsg(a) ==
  /\ ac[a].pc = "gotMsg" /\ Ready(a) /\ NoSig(a)
  /\ Step(a, Entered([ac[a] EXCEPT !.pc = "msg"], "handle"))
\* a serialized payload that does not decode is dropped: no callback, no state change (C19)
DropUndecodable(a) ==
  /\ ac[a].pc = "gotMsg" /\ Ready(a) /\ NoSig(a) /\ ac[a].curMsg \in Undecodable
  /\ Step(a, [ac[a] EXCEPT !.pc = "idle"])
HandlerEnd(a, o) ==
  /\ ac[a].pc \in {"msg", "sup"} /\ IsHandler(ac[a].cb.k) /\ ~ac[a].cb.susp /\ o \in Outcomes
  /\ IF o = "ok"
       THEN Step(a, [ac[a] EXCEPT !.cb = NoCb, !.pc = "idle", !.cur = NoEvt])
       ELSE Step(a, Exiting(ac[a], o, o, EvtFailed(a, o)))
\* post_stop only after a graceful loop exit
PostStopBegin(a) ==
  /\ ac[a].pc = "stopping" /\ Ready(a) /\ NoSig(a)
  /\ Step(a, Entered([ac[a] EXCEPT !.pc = "poststop"], "post_stop"))
PostStopEnd(a, o) ==
  /\ ac[a].pc = "poststop" /\ ac[a].cb.k = "post_stop" /\ ~ac[a].cb.susp /\ o \in Outcomes
  /\ IF o = "ok"
       THEN Step(a, Exiting(ac[a], ac[a].exitK, ac[a].exitR, EvtTerm(a, TRUE, ac[a].exitR)))
       ELSE Step(a, Exiting(ac[a], o, o, EvtFailed(a, o)))
\* the task's future is dropped at a step boundary (suspended callback, not yet polled, or idle)
AbortDrop(a) ==
  /\ ac[a].abortReq # "none" /\ Alive(a)
  /\ (ac[a].cb.susp \/ ac[a].pc \in {"new", "lnew", "spawned", "idle"})
  /\ Step(a, Exiting(ac[a], "abort", "actor_task_cancelled",
                     IF ac[a].notify THEN EvtTerm(a, FALSE, "actor_task_cancelled") ELSE NoEvt))

ActorStep(a) ==
  \/ SpawnCall(a) \/ LocalStart(a) \/ LocalStartRefused(a) \/ StartBegin(a) \/ StartRefused(a) \/ Yield(a) \/ Resume(a) \/ SelfKill(a) \/ SelfStop(a)
  \/ JoinPg(a) \/ SigHandled(a) \/ PostStartBegin(a) \/ ListenStop(a) \/ TakeSup(a) \/ TakeMsg(a) \/ TakeDrain(a)
  \/ EnterSup(a) \/ EnterMsg(a) \/ DropUndecodable(a) \/ PostStopBegin(a) \/ AbortDrop(a) \/ Cleanup(a)
  \/ \E o \in Outcomes : PreEnd(a, o) \/ PostStartEnd(a, o) \/ HandlerEnd(a, o) \/ PostStopEnd(a, o)
EnvStep(a) == \/ Send(a) \/ Inject(a) \/ EnvKill(a) \/ EnvStop(a) \/ EnvDrain(a) \/ EnvAbort(a) \/ EnvStopKids(a) \/ EnvDrainKids(a)
              \/ \E m \in Actors : <<m, a>> \in MonPairs /\ (Monitor(m, a) \/ Unmonitor(m, a))

Next == \E a \in Actors : ActorStep(a) \/ EnvStep(a)
Spec == Init /\ [][Next]_vars

-----------------------------------------------------------------------------
(* Properties *)
\* C01: lifecycle order (folded into the badOrder monitor at every callback entry); non-overlap is
\* the enabling condition of Enter (cb = NoCb) plus NoOverlap below
OrderOk == \A a \in Actors : ~ac[a].badOrder
PostStopOnlyGraceful == \A a \in Actors : ac[a].pc = "poststop" => ac[a].exitK \in {"stop", "drain"}
NoOverlap == \A a \in Actors : ac[a].pc \in {"idle", "spawned", "stopping", "dead", "new", "lnew", "none", "gotMsg", "gotSup", "exiting"} => ac[a].cb = NoCb

\* C03: nothing starts after kill() returned; no message or supervision event is picked after
\* stop() returned (an item picked before the stop was requested may still start: the dequeue and
\* the handler's first poll are not atomic with respect to other threads);
\* a suspended callback never resumes with a kill pending; supervision is served before messages
NoStartAfterKill == \A a \in Actors : ~ac[a].cbAfterKill
NoHandlerAfterStop == \A a \in Actors : ~ac[a].hAfterStop
KillWins == \A a \in Actors : (ac[a].sig = "sent" /\ ac[a].cb.susp) => ~ENABLED Resume(a)
SupBeforeMsg == \A a \in Actors : ac[a].supq # <<>> => ~ENABLED TakeMsg(a)

\* C04: at most one terminal event; started once and before it; none for an actor that never ran
OneTerminal == \A a \in Actors : ac[a].nTerm <= 1 /\ ~ac[a].dupMon
TerminalIffRan == \A a \in Actors : ac[a].pc = "dead" => ((ac[a].nTerm = 1) = (ac[a].spawnRes = "ok"))
StartedOrder == \A a \in Actors : ac[a].nStarted <= 1 /\ ~ac[a].badEvt /\ (ac[a].nStarted = 1 => ac[a].started)
\* C08 / C05 facets visible here: a dead actor is clean
DeadMeansClean == \A a \in Actors : ac[a].pc = "dead" =>
  /\ ac[a].st = Stopped /\ ~ac[a].rxOpen /\ ac[a].mq = <<>> /\ ac[a].supq = <<>> /\ ac[a].par = NoA /\ Kids(a) = {}
FailedStartSilent == \A a \in Actors : (ac[a].pc = "dead" /\ ac[a].spawnRes # "ok") =>
  (ac[a].nTerm = 0 /\ ac[a].nStarted = 0 /\ ~ac[a].seenPost /\ ~ac[a].started)
DeadLeavesNothing == \A a \in Actors : ac[a].pc = "dead" => (~Registered(a) /\ ~InGroup(a))
NoChildOfDead == \A a, c \in Actors : ac[c].par = a => ac[a].pc # "dead"
=============================================================================
