----------------------------- MODULE MC_Factory -----------------------------
(* Closed model of Factory for TLC: a bounded stream of jobs, bounded worker faults, a bounded
   resize script, one optional DrainRequests, a coarse clock. *)
EXTENDS Factory

CONSTANTS Routing0,    \* routing mode of this configuration
          Workers0,    \* initial pool size
          Lim0, Mode0, \* discard settings (-1 / "none" = off)
          RlOn, RlRefill, RlInterval, RlMax,   \* leaky bucket in front of the router
          JobKeys,     \* <<key of job 1, key of job 2, ...>>  (jobs are submitted in this order)
          JobTtl,      \* <<ttl of job 1, ...>>  (-1 = none)
          PortJobs,    \* jobs submitted with an acceptance port
          Ends,        \* ways a job may end: subset of {"ok", "panic", "killmid", "stopafter"}
          MaxKills,    \* kills of idle / finishing workers from outside
          MaxFaults,   \* jobs that may end badly
          Resizes,     \* sequence of requested pool sizes
          MayDrain,    \* DrainRequests may be sent once
          MaxT, TStep, \* clock: now advances in steps of TStep up to MaxT
          RetryJobs, Retries,   \* jobs submitted as RetriableMessage with MessageRetryStrategy::Count(Retries)
          FreeOrder    \* TRUE: a message handler may run although a death is already queued (the multi-threaded runtime: the
                       \* worker died after the factory had picked the message); FALSE: strict port priority (engine T)

\* values a cfg file cannot spell
NoLim == -1
Lim0v == 0
Lim1 == 1
Keys121 == <<1, 2, 1>>
Keys1121 == <<1, 1, 2, 1>>
Keys111 == <<1, 1, 1>>
Keys1212 == <<1, 2, 1, 2>>
Keys2111 == <<2, 1, 1, 1>>
NoTtl3 == <<-1, -1, -1>>
NoTtl4 == <<-1, -1, -1, -1>>
Ttl3 == <<-1, 1, -1>>
Ttl4 == <<-1, 1, -1, 2>>
Res1 == <<1>>
Res12 == <<1, 2>>
Res3 == <<3>>
Res31 == <<3, 1>>
Res0 == <<>>
Kph == [k \in Keys |-> [n \in 1 .. MaxW |-> (k * 7 + 3) % n]]     \* some fixed hash
Ch == [k \in Keys |-> [n \in 1 .. MaxW |-> (k * 5 + 1) % n]]
MCInit ==
  /\ cfg = [routing |-> Routing0, kph |-> Kph, ch |-> Ch]
  /\ f = InitF(Workers0, Lim0, Mode0, IF RlOn THEN LB!New(RlRefill, RlInterval, RlMax, RlMax, 0) ELSE NoLb, RlOn, Routing0 \in {"queuer", "sticky"})
  /\ fmq = <<>> /\ fsq = <<>>
  /\ act = [i \in Incs |-> IF i <= Workers0 THEN [NoAct EXCEPT !.wid = i - 1, !.st = "alive"] ELSE NoAct]
  /\ jb = [j \in JobIds |-> NoJob]
  /\ now = 0
  /\ mon = [InitMon EXCEPT !.hook = 1]
  /\ env = [nsub |-> 0, kills |-> 0, faults |-> 0, nres |-> 0, drained |-> FALSE, ncalc |-> 0]

NextJob == env.nsub + 1
SubmitStep ==
  /\ NextJob <= Len(JobKeys) /\ NextJob <= MaxJ
  /\ LET j == NextJob IN
     /\ jb' = [jb EXCEPT ![j] = [NoJob EXCEPT !.sub = TRUE, !.key = JobKeys[j], !.ttl = JobTtl[j], !.port = j \in PortJobs, !.born = now, !.undeliv = ~FactoryUp,
                                            !.seq = mon.nseq + 1, !.rleft = IF j \in RetryJobs THEN Retries ELSE 0, !.r0 = IF j \in RetryJobs THEN Retries ELSE 0]]
     /\ fmq' = IF FactoryUp THEN Append(fmq, Msg("dispatch", j, JobKeys[j], "", 0)) ELSE fmq
  /\ mon' = [mon EXCEPT !.nseq = @ + 1]
  /\ env' = [env EXCEPT !.nsub = @ + 1]
  /\ UNCHANGED <<cfg, f, fsq, act, now>>
PostStep(m, e2) == /\ fmq' = (IF FactoryUp THEN Append(fmq, m) ELSE fmq) /\ env' = e2
                   /\ UNCHANGED <<cfg, f, fsq, act, jb, now, mon>>
EnvResize == env.nres < Len(Resizes) /\ PostStep(Msg("adjust", Resizes[env.nres + 1], 0, "", 0), [env EXCEPT !.nres = @ + 1])
EnvDrain == MayDrain /\ ~env.drained /\ PostStep(Msg("drain", 0, 0, "", 0), [env EXCEPT !.drained = TRUE])
EnvCalc == env.ncalc < 1 /\ \E j \in JobIds : jb[j].sub /\ Expired(j) /\ InQ(j)
           /\ PostStep(Msg("calc", 0, 0, "", 0), [env EXCEPT !.ncalc = @ + 1])
EnvKill(i) == /\ env.kills < MaxKills /\ act[i].st = "alive" /\ ~act[i].kill /\ ~act[i].dying
              /\ act' = [act EXCEPT ![i].kill = TRUE] /\ env' = [env EXCEPT !.kills = @ + 1]
              /\ UNCHANGED <<cfg, f, fmq, fsq, jb, now, mon>>
EnvTick == now + TStep <= MaxT /\ now' = now + TStep /\ UNCHANGED <<cfg, f, fmq, fsq, act, jb, mon>>
\* handlers are atomic and run in the order the runtime gives them: stop > supervision > messages
Same == UNCHANGED env
MCNext ==
  \/ SubmitStep \/ EnvResize \/ EnvDrain \/ EnvCalc \/ (EnvTick /\ Same)
  \/ \E i \in Incs : EnvKill(i)
  \/ (f.stopreq /\ FactoryStopBegin /\ Same) \/ (FactoryStopEnd /\ Same)
  \/ (~f.stopreq /\ Same /\ \E o \in Ords(f) : FactoryHandleSup(o))
  \/ (~f.stopreq /\ (FreeOrder \/ fsq = <<>>) /\ Same /\ \E o \in Ords(f) : FactoryHandle(o))
  \/ \E i \in Incs : (~act[i].kill /\ ~act[i].stop /\ WorkerStart(i) /\ Same)
  \/ \E i \in Incs : ("ok" \in Ends /\ ~act[i].kill /\ WorkerEnd(i, "ok") /\ Same)
  \/ \E i \in Incs : \E how \in Ends \ {"ok"} :
        (env.faults < MaxFaults /\ ~act[i].kill /\ WorkerEnd(i, how) /\ env' = [env EXCEPT !.faults = @ + 1])
  \/ \E i \in Incs : (WorkerClosing(i) /\ Same)
  \/ \E i \in Incs : (MayDie(i) /\ WorkerDead(i) /\ Same)
MCSpec == MCInit /\ [][MCNext]_vars
=============================================================================
