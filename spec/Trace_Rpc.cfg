SPECIFICATION TSpec
CONSTANTS
  Actors = {"c1", "c2", "c3", "c4", "col"}
  Collector = "col"
  Ports = {1, 2, 3, 4, 5, 6, 7, 8, 9, 10, 11, 12, 13}
  Plan <- TrPlan
  Policies = {"reply", "drop", "stash", "helper", "sleep", "both", "fail"}
  EnvOps = {"stop", "kill", "drain"}
  MaxNow = 10000000
  VirtualClock = TRUE
CONSTRAINT Progress
INVARIANTS
  NoCrossWire Bounded NoEarlyTimeout HolderLive ForwardOnce MultiComplete
POSTCONDITION Accepted
CHECK_DEADLOCK FALSE
