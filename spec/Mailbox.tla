------------------------------- MODULE Mailbox -------------------------------
(* The message path of one actor: status gate, admission word (ticket count + closed bit + marker
   bit), unbounded FIFO channel, drain handshake, and a consumer that stands for the actor task.
   One action per atomic step of ractor/src/actor/actor_properties.rs (send_message_unchecked,
   MessageAdmission::drop, send_drain_marker, drain) -- each action is followed by one
   verif::point in the code, so "thread parked at point p" <=> "pc = value the action leaves".
   Properties C02 (delivery once, in order) and C07 (drain) are the invariants at the end.        *)
EXTENDS Naturals, Sequences, FiniteSets, TLC

CONSTANTS Senders,      \* set of sender process ids (strings)
          Drainers,     \* set of drainer process ids (strings)
          MsgsPer,      \* messages per sender
          ConsumerMayExit  \* BOOLEAN: the consumer may stop on its own (stop/kill/failure)

Running == 2  Draining == 4  Stopping == 5  Stopped == 6
Max(a, b) == IF a > b THEN a ELSE b

VARIABLES status,     \* actor status (only grows)
          adm,        \* admission word [cnt, closed, marker]
          q,          \* channel contents: sequence of <<sender, k>> or DrainItem
          rxClosed,   \* receiver half closed (ports dropped)
          spc, sk, sprev,   \* sender pc, current message index, pending result
          seen,       \* per process: the admission word last loaded / observed by its CAS loop
          sres,       \* result of each send: "none" | "ok" | "err"
          dpc,        \* drainer pc
          handled,    \* sequence of messages handled by the consumer
          cexit,      \* "none" | "drained" | "exited"
          clock, beginT, endT, drainRet    \* history: logical real-time stamps

vars == <<status, adm, q, rxClosed, spc, sk, sprev, seen, sres, dpc, handled, cexit, clock, beginT, endT, drainRet>>
hvars == <<clock, beginT, endT, drainRet>>

Msg == Senders \X (1..MsgsPer)
DrainItem == <<"drain", 0>>
Cur(s) == <<s, sk[s]>>
Adm0 == [cnt |-> 0, closed |-> FALSE, marker |-> FALSE]

Init ==
  /\ status = Running
  /\ adm = Adm0
  /\ q = <<>> /\ rxClosed = FALSE
  /\ spc = [s \in Senders |-> "idle"] /\ sk = [s \in Senders |-> 0]
  /\ sprev = [s \in Senders |-> "none"]
  /\ seen = [p \in Senders \cup Drainers |-> Adm0]
  /\ sres = [m \in Msg |-> "none"]
  /\ dpc = [d \in Drainers |-> "idle"]
  /\ handled = <<>> /\ cexit = "none"
  /\ clock = 0 /\ beginT = [m \in Msg |-> 0] /\ endT = [m \in Msg |-> 0] /\ drainRet = 0

-----------------------------------------------------------------------------
(* Sender: send_message_unchecked *)
SBegin(s) ==
  /\ spc[s] = "idle" /\ sk[s] < MsgsPer
  /\ sk' = [sk EXCEPT ![s] = @ + 1]
  /\ beginT' = [beginT EXCEPT ![<<s, sk[s] + 1>>] = clock + 1] /\ clock' = clock + 1
  /\ spc' = [spc EXCEPT ![s] = "begun"]
  /\ UNCHANGED <<status, adm, q, rxClosed, sprev, seen, sres, dpc, handled, cexit, endT, drainRet>>

\* status load; >= Draining rejects without touching shared state
SStatus(s) ==
  /\ spc[s] = "begun"
  /\ IF status >= Draining
       THEN spc' = [spc EXCEPT ![s] = "ret"] /\ sprev' = [sprev EXCEPT ![s] = "err"]
       ELSE spc' = [spc EXCEPT ![s] = "statusOk"] /\ UNCHANGED sprev
  /\ UNCHANGED <<status, adm, q, rxClosed, sk, seen, sres, dpc, handled, cexit, hvars>>

\* try_admit_message: load, then a CAS loop. Every iteration starts (point adm.iter) with the word
\* it last saw in `seen`; a failed CAS stores the observed word and iterates again.
SAdmLoad(s) ==
  /\ spc[s] = "statusOk" /\ spc' = [spc EXCEPT ![s] = "admIter"] /\ seen' = [seen EXCEPT ![s] = adm]
  /\ UNCHANGED <<status, adm, q, rxClosed, sk, sprev, sres, dpc, handled, cexit, hvars>>
SAdmRetry(s) ==
  /\ spc[s] = "admIter" /\ ~seen[s].closed /\ adm # seen[s]
  /\ seen' = [seen EXCEPT ![s] = adm]
  /\ UNCHANGED <<status, adm, q, rxClosed, spc, sk, sprev, sres, dpc, handled, cexit, hvars>>
SAdmit(s) ==
  /\ spc[s] = "admIter"
  /\ IF seen[s].closed
       THEN /\ spc' = [spc EXCEPT ![s] = "ret"] /\ sprev' = [sprev EXCEPT ![s] = "err"] /\ UNCHANGED adm
       ELSE /\ adm = seen[s]
            /\ adm' = [adm EXCEPT !.cnt = @ + 1]
            /\ spc' = [spc EXCEPT ![s] = "admitted"] /\ UNCHANGED sprev
  /\ UNCHANGED <<status, q, rxClosed, sk, seen, sres, dpc, handled, cexit, hvars>>

\* channel send; fails (message handed back) iff the receiver is closed
SEnqueue(s) ==
  /\ spc[s] = "admitted"
  /\ IF rxClosed
       THEN sprev' = [sprev EXCEPT ![s] = "err"] /\ UNCHANGED q
       ELSE q' = Append(q, Cur(s)) /\ sprev' = [sprev EXCEPT ![s] = "ok"]
  /\ spc' = [spc EXCEPT ![s] = "enqueued"]
  /\ UNCHANGED <<status, adm, rxClosed, sk, seen, sres, dpc, handled, cexit, hvars>>

\* ticket drop = fetch_sub; the last ticket after a close goes on to emit the marker
SRelease(s) ==
  /\ spc[s] = "enqueued"
  /\ adm' = [adm EXCEPT !.cnt = @ - 1]
  /\ spc' = [spc EXCEPT ![s] = IF adm.closed /\ adm.cnt = 1 THEN "marker" ELSE "ret"]
  /\ UNCHANGED <<status, q, rxClosed, sk, sprev, seen, sres, dpc, handled, cexit, hvars>>

\* send_drain_marker: load, then a CAS loop that sets the marker bit only on a word that is closed,
\* has no tickets out and no marker yet
MarkerOkOn(w) == w.closed /\ w.cnt = 0 /\ ~w.marker
SMarkerLoad(s) ==
  /\ spc[s] = "marker" /\ spc' = [spc EXCEPT ![s] = "mIter"] /\ seen' = [seen EXCEPT ![s] = adm]
  /\ UNCHANGED <<status, adm, q, rxClosed, sk, sprev, sres, dpc, handled, cexit, hvars>>
SMarkerRetry(s) ==
  /\ spc[s] = "mIter" /\ MarkerOkOn(seen[s]) /\ adm # seen[s]
  /\ seen' = [seen EXCEPT ![s] = adm]
  /\ UNCHANGED <<status, adm, q, rxClosed, spc, sk, sprev, sres, dpc, handled, cexit, hvars>>
SMarkerCas(s) ==
  /\ spc[s] = "mIter"
  /\ IF MarkerOkOn(seen[s])
       THEN /\ adm = seen[s] /\ adm' = [adm EXCEPT !.marker = TRUE] /\ spc' = [spc EXCEPT ![s] = "markerEnq"]
       ELSE UNCHANGED adm /\ spc' = [spc EXCEPT ![s] = "ret"]
  /\ UNCHANGED <<status, q, rxClosed, sk, sprev, seen, sres, dpc, handled, cexit, hvars>>

\* the winner of the marker CAS enqueues the marker (a step of its own: the consumer can see the
\* marker before the winner's call has returned)
SMarkerEnq(s) ==
  /\ spc[s] = "markerEnq"
  /\ q' = IF ~rxClosed THEN Append(q, DrainItem) ELSE q
  /\ spc' = [spc EXCEPT ![s] = "ret"]
  /\ UNCHANGED <<status, adm, rxClosed, sk, sprev, seen, sres, dpc, handled, cexit, hvars>>
\* return to the caller
SReturn(s) ==
  /\ spc[s] = "ret"
  /\ UNCHANGED q
  /\ spc' = [spc EXCEPT ![s] = "idle"]
  /\ sres' = [sres EXCEPT ![Cur(s)] = sprev[s]]
  /\ endT' = [endT EXCEPT ![Cur(s)] = clock + 1] /\ clock' = clock + 1
  /\ UNCHANGED <<status, adm, rxClosed, sk, sprev, seen, dpc, handled, cexit, beginT, drainRet>>

-----------------------------------------------------------------------------
(* Drainer: drain() *)
DBegin(d) ==
  /\ dpc[d] = "idle" /\ dpc' = [dpc EXCEPT ![d] = "begun"]
  /\ UNCHANGED <<status, adm, q, rxClosed, spc, sk, sprev, seen, sres, handled, cexit, hvars>>
DClose(d) ==
  /\ dpc[d] = "begun" /\ adm' = [adm EXCEPT !.closed = TRUE] /\ dpc' = [dpc EXCEPT ![d] = "closed"]
  /\ UNCHANGED <<status, q, rxClosed, spc, sk, sprev, seen, sres, handled, cexit, hvars>>
DStatus(d) ==
  /\ dpc[d] = "closed"
  /\ status' = (IF status < Stopping THEN Draining ELSE status)
  /\ dpc' = [dpc EXCEPT ![d] = "marker"]
  /\ UNCHANGED <<adm, q, rxClosed, spc, sk, sprev, seen, sres, handled, cexit, hvars>>
DMarkerLoad(d) ==
  /\ dpc[d] = "marker" /\ dpc' = [dpc EXCEPT ![d] = "mIter"] /\ seen' = [seen EXCEPT ![d] = adm]
  /\ UNCHANGED <<status, adm, q, rxClosed, spc, sk, sprev, sres, handled, cexit, hvars>>
DMarkerRetry(d) ==
  /\ dpc[d] = "mIter" /\ MarkerOkOn(seen[d]) /\ adm # seen[d]
  /\ seen' = [seen EXCEPT ![d] = adm]
  /\ UNCHANGED <<status, adm, q, rxClosed, spc, sk, sprev, sres, dpc, handled, cexit, hvars>>
DMarkerCas(d) ==
  /\ dpc[d] = "mIter"
  /\ IF MarkerOkOn(seen[d])
       THEN /\ adm = seen[d] /\ adm' = [adm EXCEPT !.marker = TRUE] /\ dpc' = [dpc EXCEPT ![d] = "markerEnq"]
       ELSE UNCHANGED adm /\ dpc' = [dpc EXCEPT ![d] = "ret"]
  /\ UNCHANGED <<status, q, rxClosed, spc, sk, sprev, seen, sres, handled, cexit, hvars>>
DMarkerEnq(d) ==
  /\ dpc[d] = "markerEnq"
  /\ q' = IF ~rxClosed THEN Append(q, DrainItem) ELSE q
  /\ dpc' = [dpc EXCEPT ![d] = "ret"]
  /\ UNCHANGED <<status, adm, rxClosed, spc, sk, sprev, seen, sres, handled, cexit, hvars>>
DReturn(d) ==
  /\ dpc[d] = "ret"
  /\ UNCHANGED q
  /\ dpc' = [dpc EXCEPT ![d] = "done"]
  /\ drainRet' = (IF drainRet = 0 THEN clock + 1 ELSE drainRet) /\ clock' = clock + 1
  /\ UNCHANGED <<status, adm, rxClosed, spc, sk, sprev, seen, sres, handled, cexit, beginT, endT>>

-----------------------------------------------------------------------------
(* Consumer = the actor task seen from the mailbox *)
Consume ==
  /\ ~rxClosed /\ cexit = "none" /\ q # <<>> /\ Head(q) # DrainItem
  /\ handled' = Append(handled, Head(q)) /\ q' = Tail(q)
  /\ UNCHANGED <<status, adm, rxClosed, spc, sk, sprev, seen, sres, dpc, cexit, hvars>>
ConsumeDrain ==
  /\ ~rxClosed /\ cexit = "none" /\ q # <<>> /\ Head(q) = DrainItem
  /\ cexit' = "drained" /\ q' = Tail(q)
  /\ UNCHANGED <<status, adm, rxClosed, spc, sk, sprev, seen, sres, dpc, handled, hvars>>
\* the consumer leaves without having seen the marker (stop, kill, failure)
ConsumerQuit ==
  /\ ConsumerMayExit /\ ~rxClosed /\ cexit = "none" /\ cexit' = "exited"
  /\ UNCHANGED <<status, adm, q, rxClosed, spc, sk, sprev, seen, sres, dpc, handled, hvars>>
\* exit sequence: publish Stopping, drop the ports (close + flush), publish Stopped. The order of
\* the port drop relative to the status stores differs between exit causes (graceful: after
\* Stopping; handler failure: before; task abort: unspecified), so it is left open here.
CStatus(v) ==
  /\ cexit # "none" /\ v \in {Stopping, Stopped} /\ v > status
  /\ status' = v
  /\ UNCHANGED <<adm, q, rxClosed, spc, sk, sprev, seen, sres, dpc, handled, cexit, hvars>>
CDropPorts ==
  /\ cexit # "none" /\ ~rxClosed
  /\ rxClosed' = TRUE /\ q' = <<>>
  /\ UNCHANGED <<status, adm, spc, sk, sprev, seen, sres, dpc, handled, cexit, hvars>>

SenderStep(s) == \/ SBegin(s) \/ SStatus(s) \/ SAdmLoad(s) \/ SAdmRetry(s) \/ SAdmit(s) \/ SEnqueue(s) \/ SRelease(s)
                 \/ SMarkerLoad(s) \/ SMarkerRetry(s) \/ SMarkerCas(s) \/ SMarkerEnq(s) \/ SReturn(s)
DrainerStep(d) == DBegin(d) \/ DClose(d) \/ DStatus(d) \/ DMarkerLoad(d) \/ DMarkerRetry(d) \/ DMarkerCas(d) \/ DMarkerEnq(d) \/ DReturn(d)
ConsumerStep == Consume \/ ConsumeDrain \/ ConsumerQuit \/ CDropPorts \/ (\E v \in {Stopping, Stopped} : CStatus(v))

Next == (\E s \in Senders : SenderStep(s)) \/ (\E d \in Drainers : DrainerStep(d)) \/ ConsumerStep
Spec == Init /\ [][Next]_vars
FairSpec == Spec /\ WF_vars(Next)

-----------------------------------------------------------------------------
(* Properties *)
Range(f) == {f[i] : i \in DOMAIN f}
Pos(m) == CHOOSE i \in 1..Len(handled) : handled[i] = m

TypeOK ==
  /\ status \in {Running, Draining, Stopping, Stopped}
  /\ adm.cnt \in 0..Cardinality(Senders)
  /\ \A s \in Senders : spc[s] \in {"idle", "begun", "statusOk", "admIter", "admitted", "enqueued", "marker", "mIter", "markerEnq", "ret"}

\* C07
NothingAfterMarker == \A i \in 1..Len(q) : q[i] = DrainItem => i = Len(q)
MarkerUnique == Cardinality({i \in 1..Len(q) : q[i] = DrainItem}) <= 1 /\ (cexit = "drained" => DrainItem \notin Range(q))
\* C02
AtMostOnce == /\ \A i, j \in 1..Len(handled) : handled[i] = handled[j] => i = j
              /\ \A i, j \in 1..Len(q) : (q[i] = q[j] /\ q[i] # DrainItem) => i = j
              /\ \A m \in Range(handled) : m \notin Range(q)
ErrNeverHandled == \A m \in Msg : sres[m] = "err" => (m \notin Range(handled) /\ m \notin Range(q))
RealTimeFifo == \A m1, m2 \in Range(handled) : (endT[m1] # 0 /\ endT[m1] < beginT[m2]) => Pos(m1) < Pos(m2)
QueueFifo == \A i, j \in 1..Len(q) : (i < j /\ q[i] # DrainItem /\ q[j] # DrainItem /\ q[i][1] = q[j][1]) => q[i][2] < q[j][2]
\* C07: a send that begins after some drain() returned fails
AfterDrainReturn == \A m \in Msg : (drainRet # 0 /\ beginT[m] > drainRet /\ sres[m] # "none") => sres[m] = "err"

SendersDone == \A s \in Senders : spc[s] = "idle" /\ sk[s] = MsgsPer
DrainersDone == \A d \in Drainers : dpc[d] = "done"
AllDone == SendersDone /\ DrainersDone
\* C07: once everybody returned and somebody drained, the marker is in the queue or was consumed
DrainEnds == (AllDone /\ Drainers # {} /\ cexit = "none") => (adm.marker /\ DrainItem \in Range(q))
\* C02/C07: an accepted message is handled unless the consumer left for another reason
OkHandledAtEnd == (SendersDone /\ cexit = "drained") => \A m \in Msg : sres[m] = "ok" => m \in Range(handled)
OkNotLostWhileRunning == (cexit = "none") => \A m \in Msg : sres[m] = "ok" => (m \in Range(handled) \/ m \in Range(q))
\* liveness (checked under FairSpec without constraints): a drain always ends the actor
DrainTerminates == (Drainers # {}) => <>(cexit # "none")
=============================================================================
