SPECIFICATION Spec
CONSTANTS
  Conns = {k1, k2, k3}
  MaxNonce = 2
  Mode = "mirror"
  Ord <- Ord3
INVARIANTS
  I_MirrorAgreement I_NoMutualKill I_Idempotent I_AgreedIsStable
CHECK_DEADLOCK FALSE
