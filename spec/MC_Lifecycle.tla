--------------------------- MODULE MC_Lifecycle ---------------------------
EXTENDS Lifecycle
SupOfDef == [a \in Actors |-> IF a = "A" THEN "S" ELSE NoA]
MaxMsgsDef == [a \in Actors |-> IF a = "A" THEN 2 ELSE 0]
MaxInjectDef == [a \in Actors |-> IF a = "A" THEN 1 ELSE 0]
EnvOpsDef == [a \in Actors |-> IF a = "A" THEN {"stop", "kill", "drain", "abort"} ELSE {"kill"}]
EnvOpsSelf == [a \in Actors |-> IF a = "A" THEN {"stop", "selfkill", "selfstop", "drain", "joinpg"} ELSE {}]
MonPairsSelf == {<<"S", "A">>}
\* three-level tree for the thorough tier
SupOf3 == [a \in Actors |-> IF a = "A" THEN "S" ELSE IF a = "B" THEN "A" ELSE NoA]
MaxMsgs3 == [a \in Actors |-> IF a = "A" THEN 1 ELSE 0]
MaxInject3 == [a \in Actors |-> 0]
EnvOps3 == [a \in Actors |-> IF a = "A" THEN {"stop", "kill", "abort"} ELSE IF a = "B" THEN {"drain", "kill"} ELSE {"kill"}]
\* a supervisor with two children: stop_children / drain_children against the children's own traffic
SupOfKids == [a \in Actors |-> IF a \in {"A", "B"} THEN "S" ELSE NoA]
MaxMsgsKids == [a \in Actors |-> IF a = "A" THEN 1 ELSE 0]
MaxInjectKids == [a \in Actors |-> 0]
EnvOpsKids == [a \in Actors |-> IF a = "S" THEN {"stopkids", "drainkids"} ELSE IF a = "A" THEN {"kill"} ELSE {}]
=============================================================================
