SPECIFICATION Spec
CONSTANTS
  Timers = {"a", "b", "c"}
  Kinds <- KindsB
  Periods <- PeriodsB
  MaxNow = 3
  EnvOps = {"stop"}
  VirtualClock = TRUE
INVARIANTS
  TypeOk AfterOnce AfterResult NeverEarly Exact AbortStops NoDeliveryToDead HandledInOrder IntervalEnds Reasons
CHECK_DEADLOCK FALSE
