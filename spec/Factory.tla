------------------------------ MODULE Factory ------------------------------
(* ractor/src/factory: the factory actor's bookkeeping (factoryimpl.rs dispatch /
   worker_finished_job / resize_pool / drain_requests / update_settings / calculate_metrics /
   handle_supervisor_evt, worker.rs WorkerProperties, routing.rs choose_target_worker /
   route_message of all five routers, ratelim.rs RateLimitedRouter, queues.rs) transcribed at the
   grain of one handler invocation, which is the real atomicity of that code, together with the
   worker actors (mailbox, running job, death) and the factory's own mailbox and supervision queue.
   A handler is a function  S -> S  on a record holding the factory state, the effects it has on
   the world (`fx`: casts to workers, discard-handler calls, acceptance-port replies, spawns, stops,
   hook calls) and the named deviations it needed.
   Decides C13 (one fate per job, conservation), C14 (routing promises), C15 (queue bounds,
   discard modes, pool convergence, drain order).  Deviations (DESIGN §6): Dev_StaleCompletion,
   Dev_DrainingSlotReplaced.                                                                     *)
EXTENDS Integers, Sequences, FiniteSets, TLC

CONSTANTS MaxW,      \* worker slots are 0 .. MaxW-1
          Keys,      \* job keys (small positive integers)
          MaxJ,      \* jobs are 1 .. MaxJ
          MaxInc,    \* worker actor incarnations are 1 .. MaxInc
          LbBig,     \* clamp class of the limiter arithmetic
          FixRetire  \* TRUE: a dying worker whose slot is draining and holds no queued job is retired, not replaced

LB == INSTANCE LeakyBucketOps WITH BIG <- LbBig, NoInit <- LbBig + 1

NoW == -1
Wids == 0 .. (MaxW - 1)
JobIds == 1 .. MaxJ
Incs == 1 .. MaxInc

VARIABLES cfg,   \* [routing, fq (factory queueing), kph, ch]: fixed per run
          f,     \* factory bookkeeping, see InitF
          fmq,   \* factory mailbox: sequence of messages [m, a, b, c, g]
          fsq,   \* factory supervision queue: sequence of [kind, inc]
          act,   \* worker actors by incarnation
          jb,    \* job table: attributes and fate monitors
          now,   \* virtual clock (ms)
          mon,   \* global monitors
          env    \* budget counters of the closed model; no action of this module constrains it
vars == <<cfg, f, fmq, fsq, act, jb, now, mon, env>>

-----------------------------------------------------------------------------
(* Records *)
NoLb == [refill |-> 0, interval |-> 0, max |-> 0, balance |-> 0, dl |-> 0]
NoJob == [sub |-> FALSE, key |-> 0, ttl |-> -1, port |-> FALSE, prio |-> 0, nd |-> FALSE, born |-> 0,
          st |-> 0, h |-> 0, d |-> 0, why |-> "", acc |-> FALSE, ret |-> FALSE, lost |-> 0, undeliv |-> FALSE,
          rleft |-> 0, att |-> 0, seq |-> 0, r0 |-> 0]    \* RetriableMessage: retries left (MessageRetryStrategy::Count), attempts so far
NoAct == [wid |-> NoW, mb |-> <<>>, run |-> 0, st |-> "none", stop |-> FALSE, kill |-> FALSE, dying |-> FALSE]
\* hg: identity (generation) of the discard handler this worker slot holds a copy of (WorkerProperties.discard_handler)
NewWorker(inc, lim, mode, hg) == [inc |-> inc, mq |-> <<>>, cur |-> {}, pend |-> [k \in Keys |-> 0], dr |-> FALSE, lim |-> lim, mode |-> mode, hg |-> hg]
Msg(m, a, b, c, g) == [m |-> m, a |-> a, b |-> b, c |-> c, g |-> g]
Fx(e, a, b, c) == [e |-> e, a |-> a, b |-> b, c |-> c]

Deque == cfg.routing \in {"queuer", "sticky"}
FQ == cfg.routing \in {"queuer", "sticky"}          \* Router::is_factory_queueing
KeyOf(j) == jb[j].key
Expired(j) == jb[j].ttl >= 0 /\ now - jb[j].born > jb[j].ttl
Avail(w) == w.cur = {} /\ w.mq = <<>>               \* WorkerProperties::is_available
Working(w) == ~Avail(w)

InitMon == [dev |-> {}, exclBad |-> FALSE, fifoBad |-> FALSE, lastStart |-> [k \in Keys |-> 0], hook |-> 0, hookBad |-> FALSE,
            lost2 |-> FALSE, panic |-> FALSE, qbBad |-> FALSE, qbBad2 |-> FALSE, idleBad |-> FALSE, rrSeen |-> {}, rrN |-> 0, rrBad |-> FALSE, ans |-> <<>>, nseq |-> 0]
\* the handler record: factory state + scratch fields (fx, dev, born) that are empty between steps
InitF(n, lim, mode, lb, lbon, fq) ==
  [q |-> <<>>, pool |-> [w \in 0 .. (n - 1) |-> NewWorker(w + 1, IF fq THEN -1 ELSE lim, IF fq THEN "none" ELSE mode, 0)],
   ps |-> n, drain |-> 0, av |-> IF fq THEN [i \in 1 .. n |-> i - 1] ELSE <<>>, inq |-> IF fq THEN 0 .. (n - 1) ELSE {},
   last |-> 0, lbon |-> lbon, lb |-> lb, lim |-> lim, mode |-> mode, hg |-> 0,
   up |-> "run", stopreq |-> FALSE, ni |-> n,
   fx |-> <<>>, dev |-> {}, born |-> {}, bad |-> FALSE, rr |-> <<>>]

-----------------------------------------------------------------------------
(* Small helpers on the handler record *)
AddFx(S, e) == [S EXCEPT !.fx = Append(@, e)]
SetW(S, w, r) == [S EXCEPT !.pool[w] = r]
PoolDel(S, w) == [S EXCEPT !.pool = [x \in (DOMAIN S.pool) \ {w} |-> S.pool[x]]]
PoolAdd(S, w, r) == [S EXCEPT !.pool = [x \in (DOMAIN S.pool) \cup {w} |-> IF x = w THEN r ELSE S.pool[x]]]
Track(p, k) == [p EXCEPT ![k] = @ + 1]
Untrack(p, k) == [p EXCEPT ![k] = IF @ > 0 THEN @ - 1 ELSE 0]
IncAlive(S, i) == i \in S.born \/ (i \in Incs /\ act[i].st = "alive")
\* a discard is reported to the handler the discarding site holds: the factory's own (S.hg) or the worker slot's copy
Disc(S, j, why) == AddFx(S, Fx("disc", j, S.hg, why))
DiscW(S, w, j, why) == AddFx(S, Fx("disc", j, S.pool[w].hg, why))
Accept(S, j) == AddFx(S, Fx("acc", j, 0, ""))       \* Job::accept  (a no-op once the port was used)
\* job.rs RetriableMessage::drop: a message object that is dropped without `completed()` re-submits itself to the factory
\* (retry hook, then cast of a new Dispatch) while retries remain and its TTL has not expired
Retriable(j) == jb[j].rleft > 0 /\ ~(jb[j].ttl >= 0 /\ now - jb[j].born > jb[j].ttl)
DropJob(S, j) == IF Retriable(j) THEN AddFx(S, Fx("retry", j, 0, "")) ELSE S
\* Job::reject: back through the acceptance port if there is one, otherwise the job is dropped right here
Reject(S, j) == DropJob(AddFx(S, Fx("ret", j, 0, "")), j)
\* first worker id, in HashMap iteration order `ord`, satisfying P
FirstIn(ord, P(_)) == ord[CHOOSE i \in 1 .. Len(ord) : P(ord[i]) /\ \A i2 \in 1 .. (i - 1) : ~P(ord[i2])]

-----------------------------------------------------------------------------
(* worker.rs: WorkerProperties *)
\* get_next_non_expired_job
RECURSIVE NextLive(_, _)
NextLive(S, w) ==
  LET wr == S.pool[w] IN
  IF wr.mq = <<>> THEN [S |-> S, j |-> 0]
  ELSE LET j == Head(wr.mq)
           S1 == SetW(S, w, [wr EXCEPT !.mq = Tail(@)])
       IN IF ~Expired(j) THEN [S |-> S1, j |-> j]
          ELSE NextLive(DiscW(SetW(S1, w, [S1.pool[w] EXCEPT !.pend = Untrack(@, KeyOf(j))]), w, j, "ttl"), w)

\* dispatch_job: cast to the worker actor; a closed worker keeps the job at the head of its queue
DispatchJob(S, w, j) ==
  LET wr == S.pool[w] IN
  IF IncAlive(S, wr.inc)
    THEN AddFx(SetW(S, w, [wr EXCEPT !.cur = @ \cup {KeyOf(j)}]), Fx("cast", wr.inc, j, "ok"))
    ELSE AddFx(SetW(S, w, [wr EXCEPT !.mq = <<j>> \o @]), Fx("cast", wr.inc, j, "fail"))

RECURSIVE ShedOldestW(_, _)
ShedOldestW(S, w) ==
  IF Len(S.pool[w].mq) <= S.pool[w].lim THEN S
  ELSE LET n == NextLive(S, w) IN
       IF n.j = 0 THEN n.S
       ELSE ShedOldestW(DropJob(DiscW(SetW(n.S, w, [n.S.pool[w] EXCEPT !.pend = Untrack(@, KeyOf(n.j))]), w, n.j, "loadshed"), n.j), w)

\* enqueue_job
EnqueueJob(S, w, j) ==
  LET wr == S.pool[w] IN
  IF wr.lim >= 0 /\ wr.mode = "newest" /\ ~Avail(wr) /\ Len(wr.mq) >= wr.lim
    THEN Reject(DiscW(S, w, j, "loadshed"), j)
    ELSE LET S1 == Accept(S, j)
             S2 == SetW(S1, w, [S1.pool[w] EXCEPT !.pend = Track(@, KeyOf(j))])
         IN IF S2.pool[w].cur = {}
              THEN LET n == NextLive(S2, w) IN
                   IF n.j # 0 THEN DispatchJob(SetW(n.S, w, [n.S.pool[w] EXCEPT !.mq = Append(@, j)]), w, n.j)
                   ELSE DispatchJob(n.S, w, j)
              ELSE LET S3 == SetW(S2, w, [S2.pool[w] EXCEPT !.mq = Append(@, j)]) IN
                   IF S3.pool[w].lim >= 0 /\ S3.pool[w].mode = "oldest" THEN ShedOldestW(S3, w) ELSE S3

\* worker_complete
WorkerComplete(S, w, k) ==
  LET wr == S.pool[w] IN
  IF k \notin wr.cur THEN S
  ELSE LET S1 == SetW(S, w, [wr EXCEPT !.cur = @ \ {k}, !.pend = Untrack(@, k)])
           n == NextLive(S1, w)
       IN IF n.j # 0 THEN DispatchJob(n.S, w, n.j) ELSE n.S

\* replace_worker: in-flight bookkeeping abandoned, queue kept, next job handed to the new actor
RECURSIVE UntrackAll(_, _)
UntrackAll(p, ks) == IF ks = {} THEN p ELSE LET k == CHOOSE k \in ks : TRUE IN UntrackAll(Untrack(p, k), ks \ {k})
ReplaceWorker(S, w, ni) ==
  LET wr == S.pool[w]
      S1 == SetW(S, w, [wr EXCEPT !.cur = {}, !.pend = UntrackAll(@, wr.cur), !.inc = ni])
      n == NextLive(S1, w)
  IN IF n.j # 0 THEN DispatchJob(n.S, w, n.j) ELSE n.S

-----------------------------------------------------------------------------
(* routing.rs *)
\* on_worker_availability_change (QueuerRouting / StickyQueuerRouting; a no-op for the others)
AvailChange(S, w, b) ==
  IF ~Deque THEN S
  ELSE IF b THEN (IF w \in S.inq THEN S ELSE [S EXCEPT !.inq = @ \cup {w}, !.av = Append(@, w)])
       ELSE [S EXCEPT !.inq = @ \ {w}]

\* pop the available-workers deque, skipping stale entries
RECURSIVE PopAvail(_)
PopAvail(S) ==
  IF S.av = <<>> THEN [S |-> S, w |-> NoW]
  ELSE LET w == Head(S.av)
           S1 == [S EXCEPT !.av = Tail(@), !.inq = @ \ {w}]
       IN IF w \in DOMAIN S1.pool /\ Avail(S1.pool[w]) THEN [S |-> S1, w |-> w] ELSE PopAvail(S1)

InPool(S, w) == w # NoW /\ w \in DOMAIN S.pool
\* choose_target_worker
ChooseTarget(S, j, hint, ord) ==
  LET k == KeyOf(j)
      Proc(w) == w \in DOMAIN S.pool /\ k \in S.pool[w].cur
      Pend(w) == w \in DOMAIN S.pool /\ S.pool[w].pend[k] > 0
  IN CASE cfg.routing = "queuer" ->
            IF InPool(S, hint) /\ Avail(S.pool[hint]) THEN [S |-> S, w |-> hint] ELSE PopAvail(S)
       [] cfg.routing = "sticky" ->
            IF InPool(S, hint) /\ Proc(hint) THEN [S |-> S, w |-> hint]
            ELSE IF \E w \in DOMAIN S.pool : Proc(w) THEN [S |-> S, w |-> FirstIn(ord, Proc)]
            ELSE IF InPool(S, hint) /\ Avail(S.pool[hint]) THEN [S |-> S, w |-> hint]
            ELSE PopAvail(S)
       [] cfg.routing = "keyp" ->
            IF \E w \in DOMAIN S.pool : Pend(w) THEN [S |-> S, w |-> FirstIn(ord, Pend)]
            ELSE LET t == IF InPool(S, hint) THEN hint ELSE IF S.ps = 0 THEN NoW ELSE cfg.kph[k][S.ps]
                 IN [S |-> S, w |-> IF InPool(S, t) THEN t ELSE NoW]
       [] cfg.routing = "rr" ->
            IF S.ps = 0 THEN [S |-> S, w |-> NoW]
            ELSE IF InPool(S, hint) /\ Avail(S.pool[hint]) THEN [S |-> S, w |-> hint]
            ELSE LET t == IF S.last + 1 >= S.ps THEN 0 ELSE S.last + 1
                 IN [S |-> [S EXCEPT !.last = t, !.rr = Append(@, t)], w |-> IF InPool(S, t) THEN t ELSE NoW]
       [] OTHER ->   \* custom hash:  hasher.hash(key, pool_size) % pool_size
            IF S.ps = 0 THEN [S |-> S, w |-> NoW]
            ELSE LET t == cfg.ch[k][S.ps] IN [S |-> S, w |-> IF InPool(S, t) THEN t ELSE NoW]

\* route_message of the plain routers
RouteInner(S, j, hint, ord) ==
  LET c == ChooseTarget(S, j, hint, ord) IN
  IF InPool(c.S, c.w) THEN [S |-> EnqueueJob(c.S, c.w, j), r |-> "handled"] ELSE [S |-> c.S, r |-> "backlog"]
\* RateLimitedRouter::route_message
RouteMessage(S, j, hint, ord) ==
  IF ~S.lbon THEN RouteInner(S, j, hint, ord)
  ELSE LET S1 == [S EXCEPT !.lb = LB!Refresh(@, now)] IN
       IF S1.lb.balance = 0
         THEN [S |-> IF InPool(S1, hint) /\ Avail(S1.pool[hint]) THEN AvailChange(S1, hint, TRUE) ELSE S1, r |-> "ratelimited"]
         ELSE LET r == RouteInner(S1, j, hint, ord) IN
              IF r.r = "handled" THEN [S |-> [r.S EXCEPT !.lb = LB!Bump(@)], r |-> "handled"] ELSE r

-----------------------------------------------------------------------------
(* queues.rs: the factory queue is kept in pop order (priority class, then arrival) *)
QPush(q, j) == SelectSeq(q, LAMBDA x : jb[x].prio <= jb[j].prio) \o <<j>> \o SelectSeq(q, LAMBDA x : jb[x].prio > jb[j].prio)
\* discard_oldest: the oldest job of the lowest priority class present
OldestOf(q) == LET mp == CHOOSE p \in {jb[q[i]].prio : i \in 1 .. Len(q)} : \A i \in 1 .. Len(q) : jb[q[i]].prio <= p
               IN Head(SelectSeq(q, LAMBDA x : jb[x].prio = mp))
Without(q, j) == SelectSeq(q, LAMBDA x : x # j)

-----------------------------------------------------------------------------
(* factoryimpl.rs *)
RECURSIVE ExpireHead(_)
ExpireHead(S) ==
  IF S.q # <<>> /\ Expired(Head(S.q))
    THEN ExpireHead(Reject(Disc([S EXCEPT !.q = Tail(@)], Head(S.q), "ttl"), Head(S.q)))
    ELSE S
RECURSIVE RouteLoop(_, _, _)
RouteLoop(S, hint, ord) ==
  IF S.q = <<>> THEN S
  ELSE LET j == Head(S.q)
           c == ChooseTarget(S, j, hint, ord)
       IN IF c.w = NoW THEN c.S
          ELSE LET r == RouteMessage([c.S EXCEPT !.q = Tail(@)], j, c.w, ord) IN
               IF r.r = "handled" THEN r.S
               ELSE IF r.r = "ratelimited" THEN RouteLoop(Reject(Disc(r.S, j, "ratelimited"), j), hint, ord)
               ELSE [r.S EXCEPT !.bad = TRUE]      \* panic!("Received invalid variant of RouteResult::Backlog ...")
\* try_route_next_active_job
TryRouteNext(S, hint, ord) == RouteLoop(ExpireHead(S), hint, ord)

RECURSIVE ShedOldestQ(_)
ShedOldestQ(S) ==
  IF Len(S.q) <= S.lim THEN S
  ELSE LET j == OldestOf(S.q) IN ShedOldestQ(DropJob(Disc([S EXCEPT !.q = Without(@, j)], j, "loadshed"), j))
\* maybe_enqueue
MaybeEnqueue(S, j) ==
  IF S.lim < 0 THEN [Accept(S, j) EXCEPT !.q = QPush(@, j)]
  ELSE IF S.mode = "newest"
    THEN IF ~jb[j].nd /\ Len(S.q) >= S.lim THEN Reject(Disc(S, j, "loadshed"), j)
         ELSE [Accept(S, j) EXCEPT !.q = QPush(@, j)]
    ELSE ShedOldestQ([Accept(S, j) EXCEPT !.q = QPush(@, j)])

\* dispatch
Dispatch(S, j, ord) ==
  IF Expired(j) THEN Reject(Disc(S, j, "ttl"), j)
  ELSE IF S.drain = 0
    THEN LET r == RouteMessage(S, j, NoW, ord) IN
         IF r.r = "handled" THEN r.S
         ELSE IF r.r = "ratelimited" THEN Reject(Disc(r.S, j, "ratelimited"), j)
         ELSE MaybeEnqueue(r.S, j)
    ELSE Reject(Disc(S, j, "shutdown"), j)

\* worker_finished_job; g = incarnation that sent the completion (ghost)
AfterFinish(S, who, ord) ==
  LET S2 == TryRouteNext(S, who, ord) IN
  IF InPool(S2, who) /\ Avail(S2.pool[who]) THEN AvailChange(S2, who, TRUE) ELSE S2
Finished(S, who, k, g, ord) ==
  IF who \notin DOMAIN S.pool THEN AfterFinish(S, who, ord)
  ELSE LET stale == S.pool[who].inc # g /\ k \in S.pool[who].cur    \* Dev_StaleCompletion: exactly this situation
           S0 == IF stale THEN [S EXCEPT !.dev = @ \cup {"StaleCompletion"}] ELSE S
           S1 == WorkerComplete(S0, who, k)
           wr == S1.pool[who]
       IN IF wr.dr
            THEN IF ~Working(wr) THEN AddFx(PoolDel(S1, who), Fx("wstop", wr.inc, 0, "")) ELSE S1
            ELSE AfterFinish(S1, who, ord)

\* grow_pool / shrink_pool / resize_pool
WLim(S) == IF FQ THEN -1 ELSE S.lim
WMode(S) == IF FQ THEN "none" ELSE S.mode
RECURSIVE Grow(_, _, _)
Grow(S, w, to) ==
  IF w >= to THEN S
  ELSE IF w \in DOMAIN S.pool
    THEN LET S1 == SetW(S, w, [S.pool[w] EXCEPT !.dr = FALSE]) IN
         Grow(IF Avail(S1.pool[w]) THEN AvailChange(S1, w, TRUE) ELSE S1, w + 1, to)
    ELSE LET ni == S.ni + 1
             S1 == AddFx([S EXCEPT !.ni = ni, !.born = @ \cup {ni}], Fx("spawn", w, ni, ""))
         IN Grow(AvailChange(PoolAdd(S1, w, NewWorker(ni, WLim(S), WMode(S), S.hg)), w, TRUE), w + 1, to)
RECURSIVE Shrink(_, _, _)
Shrink(S, w, to) ==
  IF w >= to THEN S
  ELSE IF w \notin DOMAIN S.pool THEN Shrink(S, w + 1, to)
  ELSE IF Working(S.pool[w]) THEN Shrink(SetW(S, w, [S.pool[w] EXCEPT !.dr = TRUE]), w + 1, to)
  ELSE Shrink(AddFx(PoolDel(AvailChange(S, w, FALSE), w), Fx("wstop", S.pool[w].inc, 0, "")), w + 1, to)
RECURSIVE RouteN(_, _, _)
RouteN(S, n, ord) == IF n = 0 \/ S.q = <<>> THEN S ELSE RouteN(TryRouteNext(S, NoW, ord), n - 1, ord)
Resize(S, n, ord) ==
  IF n = 0 \/ n = S.ps THEN S
  ELSE IF n > S.ps THEN RouteN([Grow(S, S.ps, n) EXCEPT !.ps = n], n, ord)
  ELSE [Shrink(S, n, S.ps) EXCEPT !.ps = n]

\* update_settings (discard settings and worker count)
\* hg # 0: a new discard handler, copied into every worker slot (also the draining ones) and the factory
UpdateSettings(S0, lim, mode, wc, hg, ord) ==
  LET S == IF hg = 0 THEN S0
           ELSE [S0 EXCEPT !.hg = hg, !.pool = [w \in DOMAIN S0.pool |-> [S0.pool[w] EXCEPT !.hg = hg]]]
      S1 == IF lim = -2 THEN S
            ELSE [S EXCEPT !.lim = lim, !.mode = mode,
                           !.pool = [w \in DOMAIN S.pool |-> [S.pool[w] EXCEPT !.lim = IF FQ THEN -1 ELSE lim, !.mode = IF FQ THEN "none" ELSE mode]]]
  IN IF wc = -1 THEN S1 ELSE Resize(S1, wc, ord)

\* calculate_metrics: remove_expired_items on the factory queue of a queueing router
RECURSIVE DiscAll(_, _)
DiscAll(S, js) == IF js = <<>> THEN S ELSE DiscAll(Disc(S, Head(js), "ttl"), Tail(js))
Calc(S) ==
  IF ~FQ THEN S
  ELSE DiscAll([S EXCEPT !.q = SelectSeq(@, LAMBDA x : ~Expired(x))], SelectSeq(S.q, LAMBDA x : Expired(x)))

\* handle_supervisor_evt for a terminated / failed actor
\* retire = TRUE is the repaired code (a dead worker whose slot is draining and holds no queued job
\* is retired instead of being given a replacement; a draining slot left without work after the
\* replacement is stopped at once); retire = FALSE is the code as found (Dev_DrainingSlotReplaced)
RECURSIVE SweepIdleDraining(_)
SweepIdleDraining(S) ==
  LET ws == {w \in DOMAIN S.pool : S.pool[w].dr /\ Avail(S.pool[w])} IN
  IF ws = {} THEN S
  ELSE LET w == CHOOSE w \in ws : TRUE IN SweepIdleDraining(AddFx(PoolDel(S, w), Fx("wstop", S.pool[w].inc, 0, "")))
HandleSupX(S, inc, ord, retire) ==
  LET ws == {w \in DOMAIN S.pool : S.pool[w].inc = inc} IN
  IF ws = {} THEN (IF retire THEN SweepIdleDraining(S) ELSE S)
  ELSE LET w == CHOOSE w \in ws : TRUE IN
       IF retire /\ S.pool[w].dr /\ S.pool[w].mq = <<>>
         THEN SweepIdleDraining(PoolDel(S, w))
         ELSE LET ni == S.ni + 1
                  S1 == AddFx([S EXCEPT !.ni = ni, !.born = @ \cup {ni}], Fx("spawn", w, ni, ""))
                  S2 == ReplaceWorker(S1, w, ni)
                  S3 == TryRouteNext(S2, w, ord)
                  S4 == IF Avail(S3.pool[w]) THEN AvailChange(S3, w, TRUE) ELSE S3
              IN IF retire THEN SweepIdleDraining(S4)
                 \* Dev_DrainingSlotReplaced: the replacement of a draining slot holds no job, so nothing will ever retire it
                 ELSE IF S4.pool[w].dr /\ Avail(S4.pool[w]) THEN [S4 EXCEPT !.dev = @ \cup {"DrainingSlotReplaced"}] ELSE S4

\* reply_with_available_capacity
RECURSIVE SumSeq(_)
SumSeq(xs) == IF xs = <<>> THEN 0 ELSE Head(xs) + SumSeq(Tail(xs))
SatSub(a, b) == IF a > b THEN a - b ELSE 0
SetSeq(T) == LET RECURSIVE Go(_) Go(U) == IF U = {} THEN <<>> ELSE LET x == CHOOSE x \in U : TRUE IN <<x>> \o Go(U \ {x}) IN Go(T)
Capacity(S) ==
  LET wa == Cardinality({w \in DOMAIN S.pool : ~S.pool[w].dr /\ Avail(S.pool[w])}) IN
  IF S.lim < 0 THEN wa
  ELSE wa + (IF FQ THEN SatSub(S.lim, Len(S.q))
             ELSE SumSeq([i \in 1 .. Len(SetSeq({w \in DOMAIN S.pool : ~S.pool[w].dr})) |->
                            SatSub(S.lim, Len(S.pool[SetSeq({w \in DOMAIN S.pool : ~S.pool[w].dr})[i]].mq))]))
Answer(S, v) == AddFx(S, Fx("ans", v, 0, ""))

HandleSup(S, inc, ord) == HandleSupX(S, inc, ord, FixRetire)

\* the tail of `handle`: is_drained
EndOfHandle(S) ==
  IF S.drain = 1 /\ S.q = <<>> /\ \A w \in DOMAIN S.pool : Avail(S.pool[w])
    THEN AddFx([S EXCEPT !.drain = 2], Fx("stopself", 0, 0, ""))
    ELSE IF S.drain = 2 THEN AddFx(S, Fx("stopself", 0, 0, "")) ELSE S

\* one invocation of `handle` for message m
Handle(S, m, ord) ==
  EndOfHandle(
    CASE m.m = "dispatch" -> Dispatch(S, m.a, ord)
      [] m.m = "finished" -> Finished(S, m.a, m.b, m.g, ord)
      [] m.m = "adjust" -> Resize(S, m.a, ord)
      [] m.m = "drain" -> AddFx([S EXCEPT !.drain = 1], Fx("hook", 0, 0, "draining"))
      [] m.m = "update" -> UpdateSettings(S, m.a, m.c, m.b, m.g, ord)
      [] m.m = "calc" -> Calc(S)
      [] m.m = "q_depth" -> Answer(S, Len(S.q))
      [] m.m = "q_active" -> Answer(S, Cardinality({w \in DOMAIN S.pool : Working(S.pool[w])}))
      [] m.m = "q_cap" -> Answer(S, Capacity(S))
      [] OTHER -> S)

Perms == {p \in [1 .. MaxW -> Wids] : \A i, k \in 1 .. MaxW : i # k => p[i] # p[k]}
IdOrd == [i \in 1 .. MaxW |-> i - 1]
\* HashMap iteration order only matters when two slots claim the same key
Ords(S) == IF cfg.routing \in {"keyp", "sticky"} /\ \E k \in Keys : \E w1, w2 \in DOMAIN S.pool : w1 # w2 /\ (IF cfg.routing = "keyp" THEN S.pool[w1].pend[k] > 0 /\ S.pool[w2].pend[k] > 0
                                                                                          ELSE k \in S.pool[w1].cur /\ k \in S.pool[w2].cur)
           THEN Perms ELSE {IdOrd}

-----------------------------------------------------------------------------
(* Effects applied to the world, in order *)
Replied(r) == r.acc \/ r.ret
\* the record of a job that has just re-submitted itself: a new attempt with one retry less (`sent`: the cast reached the factory)
\* (`seq`: position in the order of submissions, a re-submission counts as a new one)
NextAttempt(r, sent, seq) == [r EXCEPT !.st = 0, !.h = 0, !.d = 0, !.why = "", !.lost = 0, !.rleft = @ - 1, !.att = @ + 1, !.undeliv = ~sent, !.seq = seq]
\* the Dispatch messages a handler's retry effects put into the factory's own mailbox
Posts(S) == LET r == SelectSeq(S.fx, LAMBDA e : e.e = "retry") IN [i \in 1 .. Len(r) |-> Msg("dispatch", r[i].a, jb[r[i].a].key, "", 0)]
RECURSIVE ApplyFx(_, _)
\* W = [act, jb, mon, stopreq]
ApplyFx(W, fx) ==
  IF fx = <<>> THEN W
  ELSE LET e == Head(fx)
           W1 ==
             CASE e.e = "cast" ->
                    IF e.c = "ok" THEN [W EXCEPT !.act[e.a].mb = Append(@, e.b)] ELSE W
               [] e.e = "disc" ->
                    [W EXCEPT !.jb[e.a].d = IF @ < 2 THEN @ + 1 ELSE @, !.jb[e.a].why = IF W.jb[e.a].d = 0 THEN e.c ELSE @]
               [] e.e = "acc" ->
                    IF W.jb[e.a].port /\ ~Replied(W.jb[e.a]) THEN [W EXCEPT !.jb[e.a].acc = TRUE] ELSE W
               [] e.e = "ret" ->
                    IF W.jb[e.a].port /\ ~Replied(W.jb[e.a]) THEN [W EXCEPT !.jb[e.a].ret = TRUE] ELSE W
               [] e.e = "spawn" ->
                    [W EXCEPT !.act[e.b] = [NoAct EXCEPT !.wid = e.a, !.st = "alive"]]
               [] e.e = "wstop" ->
                    [W EXCEPT !.act[e.a].stop = TRUE]
               [] e.e = "hook" ->
                    [W EXCEPT !.mon.hookBad = @ \/ ~((e.c = "draining" /\ W.mon.hook \in {1, 2}) \/ (e.c = "stopped" /\ W.mon.hook \in {1, 2})),
                              !.mon.hook = IF e.c = "draining" THEN 2 ELSE 3]
               [] e.e = "stopself" -> [W EXCEPT !.stopreq = TRUE]
               [] e.e = "ans" -> [W EXCEPT !.mon.ans = Append(@, e.a)]
               [] e.e = "retry" -> [W EXCEPT !.jb[e.a] = NextAttempt(W.jb[e.a], W.up, W.mon.nseq + 1), !.mon.nseq = @ + 1]
               [] OTHER -> W
       IN ApplyFx(W1, Tail(fx))

NDisc(q) == Len(SelectSeq(q, LAMBDA x : ~jb[x].nd))     \* waiting discardable jobs
\* step monitors evaluated on a finished handler record (S0 before, S after), for message kind m
StepMon(M, S0, S, m) ==
  LET lim == S.lim
      qb == /\ m = "dispatch" /\ lim >= 0
            /\ IF FQ THEN NDisc(S.q) > lim /\ NDisc(S.q) > NDisc(S0.q)
                     ELSE \E w \in DOMAIN S.pool : Len(S.pool[w].mq) > S.pool[w].lim /\ S.pool[w].lim >= 0
                                                    /\ (w \notin DOMAIN S0.pool \/ Len(S.pool[w].mq) > Len(S0.pool[w].mq))
      \* the same, looking only at slots whose worker actor accepts messages
      qb2 == /\ m = "dispatch" /\ lim >= 0
             /\ IF FQ THEN qb
                      ELSE \E w \in DOMAIN S.pool : Len(S.pool[w].mq) > S.pool[w].lim /\ S.pool[w].lim >= 0 /\ IncAlive(S, S.pool[w].inc)
                                                     /\ (w \notin DOMAIN S0.pool \/ Len(S.pool[w].mq) > Len(S0.pool[w].mq))
      \* Dev_ClosedWorkerQueueOverLimit: jobs handed to a slot whose worker is closed (stopping or dead, not yet replaced) are
      \* parked at the head of its queue by dispatch_job, and enqueue_job returns before it looks at the limit
      closedOver == qb /\ ~qb2
      \* Dev_ParkedJobNotSticky: a job parked on a closed worker's slot has no in-flight entry, so sticky routing does not see
      \* its key: another slot is now processing that key while the parked job waits for the replacement
      parked == /\ cfg.routing = "sticky"
                /\ \E w1, w2 \in DOMAIN S.pool : w1 # w2 /\ \E i \in 1 .. Len(S.pool[w1].mq) :
                      KeyOf(S.pool[w1].mq[i]) \notin S.pool[w1].cur /\ KeyOf(S.pool[w1].mq[i]) \in S.pool[w2].cur
      idle == /\ cfg.routing = "queuer" /\ ~S.lbon /\ S.q # <<>> /\ S.drain # 2
              /\ \E w \in DOMAIN S.pool : w < S.ps /\ ~S.pool[w].dr /\ Avail(S.pool[w]) /\ IncAlive(S, S.pool[w].inc)
  IN [M EXCEPT !.dev = @ \cup S.dev \cup (IF closedOver THEN {"ClosedWorkerQueueOverLimit"} ELSE {}) \cup (IF parked THEN {"ParkedJobNotSticky"} ELSE {}),
               !.panic = @ \/ S.bad, !.qbBad = @ \/ qb, !.qbBad2 = @ \/ qb2, !.idleBad = @ \/ idle]

\* round-robin monitor: over pool_size consecutive choices in a stable pool every worker is chosen once
RECURSIVE RrMon(_, _, _)
RrMon(M, picks, ps) ==
  IF picks = <<>> THEN M
  ELSE LET p == Head(picks)
           again == p \in M.rrSeen
           seen == IF again THEN {p} ELSE M.rrSeen \cup {p}
           n == IF again THEN 1 ELSE M.rrN + 1
           full == n = ps
       IN RrMon([M EXCEPT !.rrBad = @ \/ (again /\ M.rrN < ps) \/ (full /\ seen # 0 .. (ps - 1)),
                          !.rrSeen = IF full THEN {} ELSE seen, !.rrN = IF full THEN 0 ELSE n], Tail(picks), ps)

Clean(S) == [S EXCEPT !.fx = <<>>, !.dev = {}, !.born = {}, !.rr = <<>>]
\* commit a finished handler record
Commit(S0, S, m) ==
  LET W == ApplyFx([act |-> act, jb |-> jb, mon |-> mon, stopreq |-> S.stopreq, up |-> TRUE], S.fx)
      M1 == StepMon(W.mon, S0, S, m)
      M2 == IF m \in {"adjust", "update", "sup"} /\ S.ps # S0.ps THEN [M1 EXCEPT !.rrSeen = {}, !.rrN = 0] ELSE RrMon(M1, S.rr, S.ps)
  IN /\ f' = Clean([S EXCEPT !.stopreq = W.stopreq])
     /\ act' = W.act /\ jb' = W.jb /\ mon' = M2

-----------------------------------------------------------------------------
(* Actions *)
FactoryUp == f.up = "run"
\* the factory handles the message at the head of its mailbox
FactoryHandle(ord) ==
  /\ FactoryUp /\ fmq # <<>>
  /\ LET m == Head(fmq) S == Handle(f, m, ord) IN Commit(f, S, m.m) /\ fmq' = Tail(fmq) \o Posts(S)
  /\ UNCHANGED <<cfg, fsq, now>>
\* the factory handles a supervision event (a worker actor ended)
FactoryHandleSup(ord) ==
  /\ FactoryUp /\ fsq # <<>>
  /\ LET e == Head(fsq) S == HandleSup(f, e.inc, ord) IN Commit(f, S, "sup") /\ fmq' = fmq \o Posts(S)
  /\ fsq' = Tail(fsq)
  /\ UNCHANGED <<cfg, now>>
\* post_stop: whatever is still queued is reported with Shutdown
RECURSIVE DiscAllShutdown(_)
DiscAllShutdown(S) == IF S.q = <<>> THEN S ELSE DiscAllShutdown(DropJob(Disc([S EXCEPT !.q = Tail(@)], Head(S.q), "shutdown"), Head(S.q)))
\* the stop the factory sent itself once drained wins over everything else.  post_stop: what is still
\* queued is reported with Shutdown, the workers are told to stop; what sits in the mailbox is never seen
FactoryStopBegin ==
  /\ FactoryUp /\ f.stopreq
  /\ LET S1 == DiscAllShutdown(f)
         incs == {f.pool[w].inc : w \in DOMAIN f.pool}
         W == ApplyFx([act |-> act, jb |-> jb, mon |-> mon, stopreq |-> TRUE, up |-> FALSE], S1.fx)
     IN /\ f' = Clean([S1 EXCEPT !.up = "stopping"])
        /\ act' = [i \in Incs |-> IF i \in incs THEN [W.act[i] EXCEPT !.stop = TRUE] ELSE W.act[i]]
        /\ jb' = [j \in JobIds |-> IF \E i \in 1 .. Len(fmq) : fmq[i].m = "dispatch" /\ fmq[i].a = j THEN [W.jb[j] EXCEPT !.undeliv = TRUE] ELSE W.jb[j]]
        /\ mon' = W.mon
  /\ fmq' = <<>> /\ fsq' = <<>>
  /\ UNCHANGED <<cfg, now>>
\* ... then waits for every worker to end, runs on_factory_stopped and ends
FactoryStopEnd ==
  /\ f.up = "stopping"
  /\ \A w \in DOMAIN f.pool : act[f.pool[w].inc].st = "dead"
  /\ LET W == ApplyFx([act |-> act, jb |-> jb, mon |-> mon, stopreq |-> TRUE, up |-> FALSE], <<Fx("hook", 0, 0, "stopped")>>)
     IN f' = [f EXCEPT !.up = "dead"] /\ mon' = W.mon
  /\ UNCHANGED <<cfg, fmq, fsq, act, jb, now>>

\* a client casts Dispatch(job)
Submit(j, key, ttl, port, prio, nd) ==
  /\ ~jb[j].sub
  /\ jb' = [jb EXCEPT ![j] = [NoJob EXCEPT !.sub = TRUE, !.key = key, !.ttl = ttl, !.port = port, !.prio = prio, !.nd = nd, !.born = now,
                                          !.undeliv = ~FactoryUp, !.seq = mon.nseq + 1]]
  /\ mon' = [mon EXCEPT !.nseq = @ + 1]
  /\ fmq' = IF FactoryUp THEN Append(fmq, Msg("dispatch", j, key, "", 0)) ELSE fmq
  /\ UNCHANGED <<cfg, f, fsq, act, now>>
Post(m) == /\ fmq' = IF FactoryUp THEN Append(fmq, m) ELSE fmq
           /\ UNCHANGED <<cfg, f, fsq, act, jb, now, mon>>

\* a worker actor takes the next job from its mailbox
WorkerStart(i) ==
  /\ act[i].st = "alive" /\ act[i].run = 0 /\ act[i].mb # <<>> /\ ~act[i].dying
  /\ LET j == Head(act[i].mb) k == KeyOf(j)
         clash == \E i2 \in Incs \ {i} : act[i2].st = "alive" /\ act[i2].run # 0 /\ KeyOf(act[i2].run) = k
     IN /\ act' = [act EXCEPT ![i].mb = Tail(@), ![i].run = j]
        /\ jb' = [jb EXCEPT ![j].st = IF @ < 2 THEN @ + 1 ELSE @]
        /\ mon' = [mon EXCEPT !.exclBad = @ \/ (clash /\ cfg.routing \in {"keyp", "sticky"}),
                              !.fifoBad = @ \/ (cfg.routing = "keyp" /\ mon.lastStart[k] > jb[j].seq),
                              !.lastStart[k] = IF jb[j].seq > @ THEN jb[j].seq ELSE @]
  /\ UNCHANGED <<cfg, f, fmq, fsq, now>>
\* the job ends: "ok" reports completion; "stopafter" reports completion and then asks its own actor to stop;
\* "panic"/"err" end the actor; "killmid" = killed while busy
WorkerEnd(i, how) ==
  /\ act[i].st = "alive" /\ act[i].run # 0 /\ ~act[i].dying
  /\ LET j == act[i].run IN
     IF how \in {"ok", "stopafter"}
       THEN /\ act' = [act EXCEPT ![i].run = 0, ![i].stop = @ \/ how = "stopafter"]
            /\ jb' = [jb EXCEPT ![j].h = IF @ < 2 THEN @ + 1 ELSE @]
            /\ fmq' = IF FactoryUp THEN Append(fmq, Msg("finished", act[i].wid, KeyOf(j), "", i)) ELSE fmq
       ELSE /\ act' = [act EXCEPT ![i].dying = TRUE, ![i].kill = @ \/ how = "killmid"]
            /\ UNCHANGED <<jb, fmq>>
  /\ UNCHANGED <<cfg, f, fsq, now, mon>>
WorkerKill(i) ==
  /\ act[i].st \in {"alive", "closing"} /\ act' = [act EXCEPT ![i].kill = TRUE]
  /\ UNCHANGED <<cfg, f, fmq, fsq, jb, now, mon>>
\* stop() on the worker's own actor (the factory's stops are the "wstop" effects of its handlers)
WorkerStop(i) ==
  /\ act[i].st = "alive" /\ act' = [act EXCEPT ![i].stop = TRUE]
  /\ UNCHANGED <<cfg, f, fmq, fsq, jb, now, mon>>
\* an idle worker sees the stop request: the loop ends, the status becomes Stopping and post_stop runs.  From here
\* on casts to it fail (IncAlive) and it starts nothing any more, but its supervisor is only told when post_stop is over
WorkerClosing(i) ==
  /\ act[i].st = "alive" /\ act[i].stop /\ act[i].run = 0 /\ ~act[i].kill /\ ~act[i].dying
  /\ act' = [act EXCEPT ![i].st = "closing"]
  /\ UNCHANGED <<cfg, f, fmq, fsq, jb, now, mon>>
\* the actor is gone: whatever it held is lost with it; its supervisor is told
\* (a factory that ends kills whatever children it still has, e.g. a retired worker that has not stopped yet)
MayDie(i) == act[i].st = "closing" \/ (act[i].st = "alive" /\ (act[i].dying \/ act[i].kill \/ f.up = "dead"))
WorkerDead(i) ==
  /\ act[i].st \in {"alive", "closing"}
  /\ LET held == (IF act[i].run # 0 THEN <<act[i].run>> ELSE <<>>) \o act[i].mb     \* the handler's job is dropped first, then the mailbox
         again == SelectSeq(held, Retriable)                                        \* these re-submit themselves
         hs == {held[x] : x \in 1 .. Len(held)} \ {again[x] : x \in 1 .. Len(again)}   \* these are lost with the worker
     IN /\ jb' = [j \in JobIds |-> IF j \in hs THEN [jb[j] EXCEPT !.lost = IF @ < 2 THEN @ + 1 ELSE @]
                                   ELSE IF \E x \in 1 .. Len(again) : again[x] = j
                                     THEN NextAttempt(jb[j], FactoryUp, mon.nseq + (CHOOSE x \in 1 .. Len(again) : again[x] = j)) ELSE jb[j]]
        /\ mon' = [mon EXCEPT !.lost2 = @ \/ Cardinality(hs) > 1, !.nseq = @ + Len(again)]
        /\ fmq' = IF FactoryUp THEN fmq \o [x \in 1 .. Len(again) |-> Msg("dispatch", again[x], jb[again[x]].key, "", 0)] ELSE fmq
  /\ act' = [act EXCEPT ![i].st = "dead", ![i].mb = <<>>, ![i].run = 0]
  /\ fsq' = IF FactoryUp THEN Append(fsq, [kind |-> "death", inc |-> i]) ELSE fsq
  /\ UNCHANGED <<cfg, f, now>>
\* the same drop seen on its own (trace validation: the retry hook fires while the worker is being torn down, before its end
\* is published): job j leaves the hands of actor i and re-submits itself
WorkerRetry(i, j, sent) ==
  /\ act[i].st \in {"alive", "closing"} /\ (act[i].dying \/ act[i].kill \/ act[i].stop \/ act[i].st = "closing" \/ f.up = "dead")
  /\ (act[i].run = j \/ \E x \in 1 .. Len(act[i].mb) : act[i].mb[x] = j) /\ Retriable(j)
  /\ act' = [act EXCEPT ![i].run = IF @ = j THEN 0 ELSE @, ![i].mb = SelectSeq(@, LAMBDA x : x # j)]
  /\ jb' = [jb EXCEPT ![j] = NextAttempt(@, sent, mon.nseq + 1)]
  /\ mon' = [mon EXCEPT !.nseq = @ + 1]
  /\ fmq' = IF sent THEN Append(fmq, Msg("dispatch", j, jb[j].key, "", 0)) ELSE fmq
  /\ UNCHANGED <<cfg, f, fsq, now>>
Tick(t) == /\ t >= now /\ now' = t /\ UNCHANGED <<cfg, f, fmq, fsq, act, jb, mon>>

-----------------------------------------------------------------------------
(* Properties *)
\* where a job currently is
InFmq(j) == \E i \in 1 .. Len(fmq) : fmq[i].m = "dispatch" /\ fmq[i].a = j
InQ(j) == \E i \in 1 .. Len(f.q) : f.q[i] = j
InWq(j) == \E w \in DOMAIN f.pool : \E i \in 1 .. Len(f.pool[w].mq) : f.pool[w].mq[i] = j
InAct(j) == \E a \in Incs : act[a].st \in {"alive", "closing"} /\ (act[a].run = j \/ \E i \in 1 .. Len(act[a].mb) : act[a].mb[i] = j)
Places(j) == (IF InFmq(j) THEN 1 ELSE 0) + (IF InQ(j) THEN 1 ELSE 0) + (IF InWq(j) THEN 1 ELSE 0) + (IF InAct(j) THEN 1 ELSE 0)
Fates(j) == jb[j].h + jb[j].d + jb[j].lost + (IF jb[j].undeliv THEN 1 ELSE 0)
Stale == "StaleCompletion" \in mon.dev
\* C13: every submitted job is in exactly one place or has met exactly one fate; never two fates
OneFate == \A j \in JobIds : jb[j].sub => (Fates(j) <= 1 /\ jb[j].st <= 1 /\ Places(j) + Fates(j) = 1)
\* a returned job was reported to the discard handler, an accepted-and-returned job does not exist
PortOk == \A j \in JobIds : ~(jb[j].acc /\ jb[j].ret) /\ (jb[j].ret => jb[j].d = 1) /\ (jb[j].h > 0 => (jb[j].port => jb[j].acc))
DSR == "DrainingSlotReplaced" \in mon.dev
\* at most one job is lost per worker death
LostOnePerDeath0 == ~mon.lost2
NoFactoryPanic == ~mon.panic
\* C14
KeyExclusive0 == ~mon.exclBad
KeyFifo0 == ~mon.fifoBad
OneAtATime0 == \A a \in Incs : act[a].st = "alive" => Len(act[a].mb) + (IF act[a].run # 0 THEN 1 ELSE 0) <= 1
HashInPool == cfg.routing = "custom" => \A k \in Keys : \A n \in 1 .. MaxW : cfg.ch[k][n] < n
RoundRobinCovers == ~mon.rrBad
QueuerNoIdle0 == ~mon.idleBad
\* the factory's view of a slot matches the worker actor: one in-flight entry per job the actor
\* holds or has reported but the factory has not yet been told about
Reported(w, a) == Cardinality({i \in 1 .. Len(fmq) : fmq[i].m = "finished" /\ fmq[i].a = w /\ fmq[i].g = a})
ViewExact0 == \A w \in DOMAIN f.pool : LET a == f.pool[w].inc IN
               (act[a].st = "alive" /\ ~act[a].dying /\ ~act[a].kill) => Cardinality(f.pool[w].cur) = Len(act[a].mb) + (IF act[a].run # 0 THEN 1 ELSE 0) + Reported(w, a)
\* C15
QueueBound0 == ~mon.qbBad
HookOrder == ~mon.hookBad
Quiet == /\ fmq = <<>> /\ fsq = <<>> /\ ~f.stopreq /\ \A a \in Incs : act[a].st # "closing"
         /\ \A a \in Incs : act[a].st = "alive" => (act[a].run = 0 /\ act[a].mb = <<>> /\ ~act[a].stop /\ ~MayDie(a))
LiveIncs == {a \in Incs : act[a].st = "alive"}
\* at quiescence the live workers are exactly slots 0..ps-1, none draining
PoolConverges0 == (Quiet /\ FactoryUp) =>
                   (DOMAIN f.pool = 0 .. (f.ps - 1) /\ LiveIncs = {f.pool[w].inc : w \in DOMAIN f.pool} /\ \A w \in DOMAIN f.pool : ~f.pool[w].dr)
\* once drained and stopped nothing is left anywhere: every accepted job has met its fate
DrainComplete0 == f.up = "dead" => \A j \in JobIds : jb[j].sub => Places(j) = 0
\* a job refused because of draining never runs
DrainRefuses == \A j \in JobIds : (jb[j].sub /\ jb[j].why = "shutdown") => (jb[j].h = 0 /\ jb[j].st = 0)

\* RetriableMessage: every re-submission uses up exactly one retry, there are never more than the strategy allows, and an
\* attempt that was handled to completion is the last one
RetryBudget == \A j \in JobIds : jb[j].sub => (jb[j].att + jb[j].rleft = jb[j].r0)

\* the same, read with the recorded deviations (DESIGN §6 items 2 and 3)
LostOnePerDeath == LostOnePerDeath0 \/ Stale
KeyExclusive == KeyExclusive0 \/ Stale \/ "ParkedJobNotSticky" \in mon.dev
QueueBound == ~mon.qbBad2 /\ (mon.qbBad => "ClosedWorkerQueueOverLimit" \in mon.dev)
KeyFifo == KeyFifo0 \/ Stale
OneAtATime == OneAtATime0 \/ Stale
ViewExact == ViewExact0 \/ Stale
QueuerNoIdle == QueuerNoIdle0 \/ Stale
PoolConverges == PoolConverges0 \/ DSR \/ Stale
DrainComplete == DrainComplete0 \/ Stale
\* which property-level readings are broken in this state (each is excused by a deviation above)
Broken == (IF QueueBound0 THEN {} ELSE {"C15:QueueBound"}) \cup (IF LostOnePerDeath0 THEN {} ELSE {"C13:LostOnePerDeath"}) \cup (IF ViewExact0 THEN {} ELSE {"C13:ViewExact"})
          \cup (IF KeyExclusive0 THEN {} ELSE {"C14:KeyExclusive"}) \cup (IF KeyFifo0 THEN {} ELSE {"C14:KeyFifo"})
          \cup (IF OneAtATime0 THEN {} ELSE {"C14:OneAtATime"}) \cup (IF QueuerNoIdle0 THEN {} ELSE {"C14:QueuerNoIdle"})
          \cup (IF PoolConverges0 THEN {} ELSE {"C15:PoolConverges"}) \cup (IF DrainComplete0 THEN {} ELSE {"C15:DrainComplete"})
\* reachability assertions (each is expected to be VIOLATED by a separate TLC run: vacuity control)
NeverStale == ~Stale
NeverDrainingSlotReplaced == "DrainingSlotReplaced" \notin mon.dev
NeverExclBad == ~mon.exclBad
NeverDrained == f.up # "dead"
NeverRetried == \A j \in JobIds : jb[j].att = 0
NeverExhausted == \A j \in JobIds : ~(jb[j].r0 > 0 /\ jb[j].rleft = 0 /\ jb[j].lost > 0)
NeverClosedCastFails == "ClosedWorkerQueueOverLimit" \notin mon.dev
NeverParked == "ParkedJobNotSticky" \notin mon.dev
NeverClosing == \A a \in Incs : act[a].st # "closing"
=============================================================================
