SPECIFICATION Spec
CONSTANTS
  Actors = {"p", "c", "g"}
  NoA = "none"
  InitSup <- SupPC
  InitSt <- StRun
  InitMayExit = {"p", "c"}
  LinkOps <- Link3
  UnlinkOps <- Unlink3
  KillOps = {"p", "c"}
  DrainOps = {"c", "g"}
  MaxEnv = 2
  AllowDev = FALSE
INVARIANTS
  TypeOK TwoSided StoppedIsolated SubtreeSignalled RacingLink SubtreeDies NoDeviation
PROPERTIES
  NoChildOfStopping StatusMonotone
CHECK_DEADLOCK FALSE
