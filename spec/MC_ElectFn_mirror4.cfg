SPECIFICATION Spec
CONSTANTS
  Conns = {k1, k2, k3, k4}
  MaxNonce = 2
  Mode = "mirror"
  Ord <- Ord4
INVARIANTS
  I_MirrorAgreement I_NoMutualKill I_Idempotent I_AgreedIsStable
CHECK_DEADLOCK FALSE
