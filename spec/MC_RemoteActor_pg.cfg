SPECIFICATION Spec
CONSTANTS
  Senders = {s1}
  Probes = {x1, x2}
  Late = {x2}
  MaxReq = 0
  MaxAbandon = 0
  DirOf <- SameSide
  Kinds = {"cast"}
  Faults = {"exit"}
  TagMode = "fresh"
  ResolveMode = "bytag"
  MaxPg = 2
INVARIANTS
  Ordered NoCrossWire TagsUnique AnsweredWasDelivered StoppedIsClean ProxyHasOriginal Mirrors
CHECK_DEADLOCK TRUE
