SPECIFICATION MCSpec
CONSTANTS
  MaxW = 3
  Keys = {1, 2}
  MaxJ = 3
  MaxInc = 5
  LbBig = 1000
  FixRetire = FALSE
  Routing0 = "queuer"
  Workers0 = 1
  Lim0 <- Lim1
  Mode0 = "newest"
  RlOn = FALSE
  RlRefill = 0
  RlInterval = 0
  RlMax = 0
  JobKeys <- Keys121
  JobTtl <- NoTtl3
  PortJobs = {}
  Ends = {"ok", "panic"}
  MaxKills = 0
  MaxFaults = 2
  Resizes <- Res0
  MayDrain = FALSE
  MaxT = 0
  TStep = 1
  RetryJobs = {1, 2, 3}
  Retries = 1
  FreeOrder = FALSE
INVARIANTS
  OneFate PortOk LostOnePerDeath NoFactoryPanic KeyExclusive KeyFifo OneAtATime HashInPool RoundRobinCovers QueuerNoIdle ViewExact
  RetryBudget QueueBound HookOrder PoolConverges DrainComplete DrainRefuses
CHECK_DEADLOCK FALSE
