----------------------------- MODULE ClusterElect -----------------------------
(* C18, protocol level: two node servers A ("a@h") and B ("b@h") joined by several physical
   connections. Every connection has a dialling end (a client session on the dialler's node) and an
   accepting end (a server session on the other node); each node server keeps a session table
   (module ElectFn) that its sessions update through UpdateSession / CheckSession /
   ConnectionAuthenticated / ConnectionReady messages and that the supervision arm prunes.

   Grain: one action = one handler invocation of a node server (atomic on its table), or one
   network receipt of a session. A session handler that calls the node server (the CheckSession
   call after authenticating) is split at the call: messages of other sessions may be served in
   between. A stop request is only acted on between handler invocations, as in the actor loop.

   Connections of kind "badcookie" / "nameonly" are dialled at A by an outsider X that claims B's
   name: X either fails the challenge or never answers it.                                        *)
EXTENDS ElectFn

CONSTANTS Conns

Nodes == {"A", "B"}
NameOf(n) == IF n = "A" THEN "a@h" ELSE "b@h"
Other(n) == IF n = "A" THEN "B" ELSE "A"

VARIABLES tbl,     \* [Nodes -> [Conns -> session-table slot]]
          se,      \* [Nodes -> [Conns -> session actor state]]
          wire,    \* [Nodes -> [Conns -> Seq(message)]]: frames in flight towards that node's end
          eof,     \* [Nodes -> [Conns -> BOOLEAN]]: the other end was closed
          world,   \* [Conns -> [init: "A"|"B"|"X", nonce, kind: "good"|"badcookie"|"nameonly"]]
          nextId   \* [Nodes -> Nat]: local actor ids are handed out in spawn order
vars == <<tbl, se, wire, eof, world, nextId>>
pvars == <<se, wire, eof, world, nextId>>      \* everything but the tables

NoSe == [pc |-> "none", stopReq |-> FALSE, rs |-> "open", updP |-> FALSE, rdyP |-> FALSE, wclosed |-> FALSE, tgone |-> FALSE]

Good(c) == world[c].kind = "good"
Dialler(c) == world[c].init
Acceptor(c) == IF world[c].init = "A" THEN "B" ELSE "A"
\* the name the dialler announces, and the name a session registers for its peer
Claimed(c) == IF world[c].init = "A" THEN "a@h" ELSE "b@h"
PeerName(n, c) == IF n = Acceptor(c) THEN Claimed(c) ELSE NameOf(Acceptor(c))
PeerEnd(n, c) == IF n = Acceptor(c) THEN Dialler(c) ELSE Acceptor(c)

Waiting == {"waitName", "waitCStatus", "waitReply", "waitStatus", "waitChal", "waitAck", "run"}

(* ------------------------------- table layer ------------------------------------------------ *)
NsOpen(n, c, id, srv) == tbl[n][c].st = "none" /\ tbl' = [tbl EXCEPT ![n] = TOpen(tbl[n], c, id, srv)]
NsUpdate(n, c, p, nonce) == tbl' = [tbl EXCEPT ![n] = TUpdate(tbl[n], c, p, nonce)]
NsCommit(n, c) == tbl' = [tbl EXCEPT ![n] = Commit(NameOf(n), tbl[n], c).t]
NsReady(n, c) == tbl' = IF IsElected(NameOf(n), tbl[n], c) THEN [tbl EXCEPT ![n][c].rdy = TRUE] ELSE tbl
NsGone(n, c) == tbl' = [tbl EXCEPT ![n] = IF tbl[n][c].st = "open" THEN TGone(tbl[n], c) ELSE tbl[n]]

(* ------------------------------- session layer ---------------------------------------------- *)
HasHead(n, c, m) == wire[n][c] # <<>> /\ Head(wire[n][c]) = m
\* consume the head frame at (n, c) and send msgs towards node `to` on the same connection
Xfer(n, c, to, msgs) == LET w1 == [wire EXCEPT ![n][c] = Tail(@)]
                        IN IF to \in Nodes THEN [w1 EXCEPT ![to][c] = @ \o msgs] ELSE w1
SetPc(n, c, pc) == [se EXCEPT ![n][c].pc = pc]

\* the accepting node server wraps the stream (an outsider's Name is already in the pipe)
OpenS(c) == LET a == Acceptor(c) IN
  /\ se[a][c].pc = "none"
  /\ NsOpen(a, c, nextId[a], TRUE)
  /\ nextId' = [nextId EXCEPT ![a] = @ + 1]
  /\ se' = SetPc(a, c, "waitName")
  /\ wire' = IF Good(c) THEN wire ELSE [wire EXCEPT ![a][c] = @ \o <<"Name">>]
  /\ UNCHANGED <<eof, world>>
\* the dialling node server wraps its end; the client session's pre_start sends the Name
OpenC(c) == LET d == Dialler(c) IN
  /\ Good(c) /\ se[d][c].pc = "none"
  /\ NsOpen(d, c, nextId[d], FALSE)
  /\ nextId' = [nextId EXCEPT ![d] = @ + 1]
  /\ se' = SetPc(d, c, "waitStatus")
  /\ wire' = [wire EXCEPT ![Acceptor(c)][c] = @ \o <<"Name">>]
  /\ UNCHANGED <<eof, world>>

\* server session: Name received -> UpdateSession, CheckSession, status (+ challenge)
SRecvName(c) == LET a == Acceptor(c) d == Dialler(c)
                    t1 == TUpdate(tbl[a], c, Claimed(c), world[c].nonce)
                    r == CheckSession(NameOf(a), t1, Claimed(c), world[c].nonce) IN
  /\ se[a][c].pc = "waitName" /\ HasHead(a, c, "Name")
  /\ tbl' = [tbl EXCEPT ![a] = t1]
  /\ \/ r \in {"no_other", "this"} /\ wire' = Xfer(a, c, d, <<"StatusOk", "Chal">>) /\ se' = SetPc(a, c, "waitReply")
     \/ r = "other" /\ wire' = Xfer(a, c, d, <<"StatusNotOk">>) /\ se' = SetPc(a, c, "stopping")
     \/ r = "duplicate" /\ wire' = Xfer(a, c, d, <<"StatusAlive">>) /\ se' = SetPc(a, c, "waitCStatus")
  /\ UNCHANGED <<eof, world, nextId>>
SRecvCStatus(c) == LET a == Acceptor(c) IN
  /\ se[a][c].pc = "waitCStatus" /\ HasHead(a, c, "CStatus")
  /\ wire' = Xfer(a, c, Dialler(c), <<"Chal">>) /\ se' = SetPc(a, c, "waitReply")
  /\ UNCHANGED <<tbl, eof, world, nextId>>
\* the challenge reply is good: acknowledge, then tell the node server (ConnectionAuthenticated)
SRecvCChal(c) == LET a == Acceptor(c) IN
  /\ se[a][c].pc = "waitReply" /\ HasHead(a, c, "CChal")
  /\ wire' = Xfer(a, c, Dialler(c), <<"Ack">>) /\ se' = SetPc(a, c, "commitP")
  /\ UNCHANGED <<tbl, eof, world, nextId>>
\* an outsider without the cookie answers the challenge wrongly: the session closes
SBadReply(c) == LET a == Acceptor(c) IN
  /\ world[c].kind = "badcookie" /\ se[a][c].pc = "waitReply"
  /\ se' = SetPc(a, c, "stopping")
  /\ UNCHANGED <<tbl, wire, eof, world, nextId>>

CRecvStatus(c) == LET d == Dialler(c) a == Acceptor(c) IN
  /\ Good(c) /\ se[d][c].pc = "waitStatus" /\ wire[d][c] # <<>>
  /\ \/ HasHead(d, c, "StatusOk") /\ wire' = Xfer(d, c, a, <<>>) /\ se' = SetPc(d, c, "waitChal")
     \/ HasHead(d, c, "StatusNotOk") /\ wire' = Xfer(d, c, a, <<>>) /\ se' = SetPc(d, c, "stopping")
     \/ HasHead(d, c, "StatusAlive") /\ wire' = Xfer(d, c, a, <<"CStatus">>) /\ se' = SetPc(d, c, "waitChal")
  /\ UNCHANGED <<tbl, eof, world, nextId>>
\* challenge received: the client now knows the peer's name (UpdateSession is a cast) and replies
CRecvChal(c) == LET d == Dialler(c) IN
  /\ Good(c) /\ se[d][c].pc = "waitChal" /\ HasHead(d, c, "Chal")
  /\ wire' = Xfer(d, c, Acceptor(c), <<"CChal">>)
  /\ se' = [se EXCEPT ![d][c].pc = "waitAck", ![d][c].updP = TRUE]
  /\ UNCHANGED <<tbl, eof, world, nextId>>
CUpdate(c) == LET d == Dialler(c) IN
  /\ Good(c) /\ se[d][c].updP
  /\ NsUpdate(d, c, NameOf(Acceptor(c)), world[c].nonce)
  /\ se' = [se EXCEPT ![d][c].updP = FALSE]
  /\ UNCHANGED <<wire, eof, world, nextId>>
CRecvAck(c) == LET d == Dialler(c) IN
  /\ Good(c) /\ se[d][c].pc = "waitAck" /\ HasHead(d, c, "Ack")
  /\ wire' = Xfer(d, c, Acceptor(c), <<>>) /\ se' = SetPc(d, c, "commitP")
  /\ UNCHANGED <<tbl, eof, world, nextId>>

\* node server n handles ConnectionAuthenticated(c): commit, stop the losers
DoCommit(n, c) == LET r == Commit(NameOf(n), tbl[n], c) IN
  /\ se[n][c].pc = "commitP" /\ ~se[n][c].updP
  /\ NsCommit(n, c)
  /\ se' = [se EXCEPT ![n] = [x \in Conns |-> IF x = c THEN [se[n][x] EXCEPT !.pc = "checkP", !.stopReq = @ \/ (c \in r.losers)]
                                              ELSE IF x \in r.losers THEN [se[n][x] EXCEPT !.stopReq = TRUE] ELSE se[n][x]]]
  /\ UNCHANGED <<wire, eof, world, nextId>>
\* node server n answers the session's CheckSession; the session syncs and signals Ready, or gives up
DoCheck(n, c) == LET r == CheckSession(NameOf(n), tbl[n], PeerName(n, c), world[c].nonce) IN
  /\ se[n][c].pc = "checkP"
  /\ IF r \in {"no_other", "this"}
       THEN /\ wire' = IF PeerEnd(n, c) \in Nodes THEN [wire EXCEPT ![PeerEnd(n, c)][c] = @ \o <<"Ready">>] ELSE wire
            /\ se' = [se EXCEPT ![n][c].pc = "run", ![n][c].rs = "syncSent"]
       ELSE wire' = wire /\ se' = SetPc(n, c, "stopping")
  /\ UNCHANGED <<tbl, eof, world, nextId>>
RecvReady(n, c) ==
  /\ se[n][c].pc = "run" /\ HasHead(n, c, "Ready")
  /\ wire' = [wire EXCEPT ![n][c] = Tail(@)]
  /\ se' = IF se[n][c].rs = "syncSent" THEN [se EXCEPT ![n][c].rs = "ready", ![n][c].rdyP = TRUE] ELSE se
  /\ UNCHANGED <<tbl, eof, world, nextId>>
\* node server n handles ConnectionReady(c)
DoReady(n, c) ==
  /\ se[n][c].rdyP
  /\ NsReady(n, c)
  /\ se' = [se EXCEPT ![n][c].rdyP = FALSE]
  /\ UNCHANGED <<wire, eof, world, nextId>>

\* a stop request / a closed stream is noticed between two handler invocations
StopAct(n, c) ==
  /\ se[n][c].pc \in Waiting /\ (se[n][c].stopReq \/ eof[n][c])
  /\ se' = SetPc(n, c, "stopping")
  /\ wire' = [wire EXCEPT ![n][c] = <<>>]
  /\ UNCHANGED <<tbl, eof, world, nextId>>
\* the stopping session's stream goes down (frames not yet written are lost: the peer may see the
\* end of stream at any time from now on) ...
CloseWire(n, c) ==
  /\ se[n][c].pc = "stopping" /\ ~se[n][c].wclosed
  /\ se' = [se EXCEPT ![n][c].wclosed = TRUE]
  /\ eof' = IF PeerEnd(n, c) \in Nodes THEN [eof EXCEPT ![PeerEnd(n, c)][c] = TRUE] ELSE eof
  /\ UNCHANGED <<tbl, wire, world, nextId>>
\* ... and its node server handles the supervision event
DoGone(n, c) ==
  /\ se[n][c].pc = "stopping" /\ ~se[n][c].tgone
  /\ NsGone(n, c)
  /\ se' = [se EXCEPT ![n][c].tgone = TRUE]
  /\ UNCHANGED <<wire, eof, world, nextId>>

Done(n, c) == se[n][c].pc = "stopping" /\ se[n][c].wclosed /\ se[n][c].tgone
HasEnd(n, c) == n = Acceptor(c) \/ (Good(c) /\ n = Dialler(c))
\* nothing left to do anywhere
Quiet ==
  \A c \in Conns : \A n \in Nodes : HasEnd(n, c) =>
    /\ ~se[n][c].updP /\ ~se[n][c].rdyP
    /\ \/ Done(n, c)
       \/ se[n][c].pc = "run" /\ wire[n][c] = <<>> /\ ~se[n][c].stopReq /\ ~eof[n][c]
       \/ world[c].kind = "nameonly" /\ se[n][c].pc = "waitReply" /\ ~se[n][c].stopReq /\ ~eof[n][c]
Term == Quiet /\ UNCHANGED vars

Next ==
  \/ \E c \in Conns : OpenS(c) \/ OpenC(c) \/ SRecvName(c) \/ SRecvCStatus(c) \/ SRecvCChal(c) \/ SBadReply(c)
                      \/ CRecvStatus(c) \/ CRecvChal(c) \/ CUpdate(c) \/ CRecvAck(c)
  \/ \E n \in Nodes, c \in Conns : DoCommit(n, c) \/ DoCheck(n, c) \/ RecvReady(n, c) \/ DoReady(n, c)
                                   \/ StopAct(n, c) \/ CloseWire(n, c) \/ DoGone(n, c)
  \/ Term

InitWith(w) ==
  /\ world = w
  /\ tbl = [n \in Nodes |-> [c \in Conns |-> NoSess]]
  /\ se = [n \in Nodes |-> [c \in Conns |-> NoSe]]
  /\ wire = [n \in Nodes |-> [c \in Conns |-> <<>>]]
  /\ eof = [n \in Nodes |-> [c \in Conns |-> FALSE]]
  /\ nextId = [n \in Nodes |-> 1]

(* ------------------------------- properties -------------------------------------------------- *)
ReadySet(n) == {c \in Conns : tbl[n][c].st = "open" /\ tbl[n][c].rdy}
\* named deviations from "never two ready sessions for one peer" that the code is known to show:
\*  LoserStillListed: a session already displaced by commit_authenticated (no longer authenticated,
\*    stop requested) is still listed until its exit is reported, while the winner becomes ready;
\*  DiallerTie: two outgoing sessions with the same (or no) nonce: only the accepting side can break
\*    that tie, the dialling side keeps both until the peer closes one.
LoserStillListed(n, c1, c2) == ~tbl[n][c1].authed \/ ~tbl[n][c2].authed
DiallerTie(n, c1, c2) == ~tbl[n][c1].srv /\ ~tbl[n][c2].srv /\ tbl[n][c1].nonce = tbl[n][c2].nonce
OneReadyPerPeer ==
  \A n \in Nodes : \A c1, c2 \in ReadySet(n) : c1 # c2 /\ tbl[n][c1].peer = tbl[n][c2].peer
     => LoserStillListed(n, c1, c2) \/ DiallerTie(n, c1, c2)
\* the unexcused readings (reachable in the model: checked to FAIL by the vacuity configs)
NoLoserStillListed == \A n \in Nodes : \A c1, c2 \in ReadySet(n) : c1 # c2 /\ tbl[n][c1].peer = tbl[n][c2].peer => ~LoserStillListed(n, c1, c2)
NoDiallerTie == \A n \in Nodes : \A c1, c2 \in ReadySet(n) : c1 # c2 /\ tbl[n][c1].peer = tbl[n][c2].peer => ~DiallerTie(n, c1, c2) \/ LoserStillListed(n, c1, c2)
\* what GetSessions shows is always election-stable on the accepting side and never holds two directions
VisibleStable == \A n \in Nodes : \A p \in Names :
  LET vis == CandsFor(tbl[n], p, TRUE) IN ElectT(NameOf(n), tbl[n], p, vis) = vis
\* an outsider never gets authenticated, listed or ready
OutsiderInert == \A c \in Conns : ~Good(c) => \A n \in Nodes : ~tbl[n][c].authed /\ ~tbl[n][c].rdy
\* at quiescence: exactly one good connection left, the same on both nodes, ready on both
GoodConns == {c \in Conns : Good(c)}
Converged ==
  (Quiet /\ GoodConns # {}) =>
     \E c \in GoodConns :
        /\ \A n \in Nodes : Visible(tbl[n]) = {c} /\ tbl[n][c].rdy /\ se[n][c].pc = "run"
        /\ \A x \in GoodConns \ {c} : \A n \in Nodes : tbl[n][x].st = "gone"
=============================================================================
