SPECIFICATION Spec
CONSTANTS
  Impl = "v1"
  Subs = {"s1", "s2", "s3"}
  SubActors = {"A", "B"}
  Target <- TargetA
  Filter <- FilterA
  Cap = 1
  MaxBatch = 2
  MaxPub = 3
  EnvOps = {"stop"}
INVARIANTS
  TypeOk InOrderNoDup NoGapV2 GapOnlyWhenLagged ForwardMonotone SendNeverBlocks OthersUnaffected
CHECK_DEADLOCK FALSE
