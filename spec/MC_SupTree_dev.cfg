\* the code before the repair: terminate() skips Draining actors. Expected: SubtreeDies is violated
\* (the draining grandchild g is detached and left alive under a stopped tree).
SPECIFICATION Spec
CONSTANTS
  Actors = {"p", "c", "g"}
  NoA = "none"
  InitSup <- SupChain
  InitSt <- StDrainG
  InitMayExit = {"p"}
  LinkOps <- NoPairs
  UnlinkOps <- NoPairs
  KillOps = {"p"}
  DrainOps = {}
  MaxEnv = 1
  AllowDev = TRUE
INVARIANTS
  TypeOK TwoSided StoppedIsolated SubtreeDies
CHECK_DEADLOCK FALSE
