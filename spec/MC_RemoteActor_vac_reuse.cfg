SPECIFICATION Spec
CONSTANTS
  Senders = {s1, s2}
  Probes = {x1}
  Late = {}
  MaxReq = 2
  MaxAbandon = 1
  DirOf <- SameSide
  Kinds = {"call"}
  Faults = {}
  TagMode = "reuse"
  ResolveMode = "bytag"
  MaxPg = 0
INVARIANTS
  NoCrossWire
CHECK_DEADLOCK TRUE
