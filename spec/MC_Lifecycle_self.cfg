SPECIFICATION Spec
CONSTANTS
  Actors = {"S", "A"}
  NoA = "none"
  SupOf <- SupOfDef
  MaxMsgs <- MaxMsgsDef
  MaxInject <- MaxInject3
  Outcomes = {"ok", "err"}
  MaxYield = 1
  EnvOps <- EnvOpsSelf
  KillCarriesState = TRUE
  Once = TRUE
  Undecodable = {1}
  SweepKillsDraining = {TRUE, FALSE}
INVARIANTS
  OrderOk PostStopOnlyGraceful NoOverlap NoStartAfterKill NoHandlerAfterStop KillWins SupBeforeMsg
  OneTerminal TerminalIffRan StartedOrder DeadMeansClean FailedStartSilent NoChildOfDead
CHECK_DEADLOCK FALSE
