SPECIFICATION Spec
CONSTANTS
  Actors = {"S", "A"}
  NoA = "none"
  SupOf <- SupOfDef
  MaxMsgs <- MaxMsgsDef
  MaxInject <- MaxInject3
  Outcomes = {"ok", "err"}
  MaxYield = 1
  EnvOps <- EnvOpsSelf
  KillCarriesState = FALSE
  Once = TRUE
  Local = {}
  MonPairs <- MonPairsSelf
  Undecodable = {1}
  SweepKillsDraining = {TRUE}
INVARIANTS
  OrderOk PostStopOnlyGraceful NoOverlap NoStartAfterKill NoHandlerAfterStop KillWins SupBeforeMsg
  OneTerminal TerminalIffRan StartedOrder DeadMeansClean FailedStartSilent DeadLeavesNothing NoChildOfDead
CHECK_DEADLOCK FALSE
