SPECIFICATION Spec
CONSTANTS
  Actors = {"S", "A"}
  NoA = "none"
  SupOf <- SupOfDef
  MaxMsgs <- MaxMsgsDef
  MaxInject <- MaxInjectDef
  Outcomes = {"ok", "err", "panic"}
  MaxYield = 1
  EnvOps <- EnvOpsDef
  KillCarriesState = FALSE
  Once = TRUE
  Local = {}
  MonPairs = {}
  Undecodable = {}
  SweepKillsDraining = {TRUE}
INVARIANTS
  OrderOk PostStopOnlyGraceful NoOverlap NoStartAfterKill NoHandlerAfterStop KillWins SupBeforeMsg
  OneTerminal TerminalIffRan StartedOrder DeadMeansClean FailedStartSilent DeadLeavesNothing NoChildOfDead
CHECK_DEADLOCK FALSE
