SPECIFICATION Spec
CONSTANTS
  Timers = {"a", "b"}
  Kinds <- KindsB
  Periods <- PeriodsB
  MaxNow = 3
  EnvOps = {"drain", "fail", "abort"}
  Stalls = {}
  VirtualClock = TRUE
  Instant = FALSE
  UnstartedKillsInterval = TRUE
INVARIANTS
  TypeOk AfterOnce AfterResult NeverEarly Exact AbortStops NoDeliveryToDead HandledInOrder IntervalEnds Reasons IntervalSurvivesStart
CHECK_DEADLOCK FALSE
