---------------------------- MODULE Trace_Timer ----------------------------
(* Trace validation for Timer: every recorded line of a `timer` harness run (observations of the
   clients / the probe actor / its supervisor, the cfg-only points timer.start / timer.fire in
   time.rs and the loop-level points of the target actor) must be an enabled action of Timer at the
   recorded virtual time. The clock moves only through Advance, i.e. never past a runnable timer. *)
EXTENDS Timer, Json, IOUtils, TLCExt

Rec == ndJsonDeserialize(IOEnv.TRACE)
Strict == IOEnv.STRICT = "1"
N == Len(Rec)

TrKinds == [t \in Timers |-> "after"]
TrPeriods == [t \in Timers |-> 0]

VARIABLES l, dev
tvars == <<vars, l, dev>>
Ev == Rec[l]
X == Ev.x
Adv == l' = l + 1
Live == l <= N
IsA(a) == Live /\ Ev.a = a /\ (IF a \in {"reset", "obs.end"} THEN TRUE ELSE Ev.t = now)
IsT(a) == IsA(a) /\ X \in Timers
Same == UNCHANGED vars
ND == UNCHANGED dev
Fin(t) == tm[t].pc \in {"done", "aborted"}

\* timer.fire (the instant a timer task performs its operation) is what C12 speaks about: it is an observation
Internal == {"timer.start", "status.starting", "port.msg", "port.stop", "port.drain", "sig.handled", "guard.cleanup"}
\* internal points: consumed in strict mode; in lenient mode skipped and their actions taken silently
IntT(lbl, A(_)) == IF Strict THEN IsT(lbl) /\ A(X) /\ Adv ELSE Live /\ (\E t \in Timers : A(t)) /\ l' = l
IntG(lbl, A) == IF Strict THEN IsA(lbl) /\ A /\ Adv ELSE Live /\ A /\ l' = l
SkipInternal == ~Strict /\ Live /\ Ev.a \in Internal /\ Same /\ Adv /\ ND

\* the virtual clock: to the time stamp of the next line (lenient: through every deadline on the way)
TAdvance ==
  /\ Live /\ Ev.a # "reset" /\ Ev.t > now /\ l' = l /\ ND
  /\ IF Strict THEN Advance(Ev.t)
     ELSE \E t2 \in {Ev.t} \cup {tm[t].due : t \in {u \in Timers : tm[u].pc = "sleep"}} : t2 <= Ev.t /\ Advance(t2)

FireP(t) == Fire(t) /\ Ev.d = tm[t].p
\* an interval that ends because its target is still Unstarted needs the named deviation
Died == {t \in Timers : tm'[t].diedUnstarted /\ ~tm[t].diedUnstarted}
DevStep == dev' = IF Died # {} THEN dev \cup {"IntervalDiesOnUnstarted"} ELSE dev
TimerEv ==
  \/ IsT("obs.create") /\ CreateR(X, Ev.kind, Ev.p, Ev.rp) /\ Adv /\ ND
  \/ IntT("timer.start", Start) /\ DevStep
  \/ IsT("timer.fire") /\ FireP(X) /\ Adv /\ DevStep
  \/ IsT("obs.timer_done") /\ tm[X].pc = "done" /\ Same /\ Adv /\ ND
  \/ IsT("obs.timer_dropped") /\ tm[X].pc = "aborted" /\ Same /\ Adv /\ ND
  \/ IsT("obs.abort") /\ (Ev.d = 1) = Fin(X) /\ Abort(X) /\ Adv /\ ND
  \/ IsT("obs.finished") /\ (Ev.d = 1) = Fin(X) /\ Same /\ Adv /\ ND
  \/ /\ IsT("obs.join") /\ Same /\ Adv /\ ND
     /\ IF Ev.r = "cancelled" THEN tm[X].pc = "aborted"
        ELSE /\ tm[X].pc = "done"
             /\ Ev.r = (IF tm[X].kind = "after" THEN tm[X].res ELSE "ok")

TargetEv0 ==
  \/ IsA("obs.instant") /\ tg = InitTg /\ Ev.d = 0 /\ tg' = [tg EXCEPT !.st = "unstarted"] /\ UNCHANGED <<now, tm>> /\ Adv
  \/ IntG("status.starting", TgStarting)
  \/ IsA("obs.stop") /\ Stop(Ev.reason) /\ UNCHANGED <<now, tm>> /\ Adv
  \/ IsA("obs.kill") /\ Kill /\ UNCHANGED <<now, tm>> /\ Adv
  \/ IsA("obs.drain") /\ Drain /\ UNCHANGED <<now, tm>> /\ Adv
  \/ /\ IsA("obs.send") /\ (Ev.d = 1) = Accepts /\ UNCHANGED <<now, tm>> /\ Adv
     /\ tg' = SendItem(IF Ev.m = "fail" THEN FailItem ELSE BusyItem)
  \/ IntG("port.msg", TgTake)
  \/ IntG("port.drain", TgTakeDrain)
  \/ IntG("port.stop", TgStop)
  \/ IntG("sig.handled", TgSig)
  \/ IntG("guard.cleanup", TgCleanup)
  \/ IsT("obs.handled") /\ tg.cur = [x |-> X, k |-> Ev.k] /\ TgHandle /\ Adv
  \/ IsA("obs.fail") /\ tg.cur = FailItem /\ TgHandle /\ Adv
  \/ IsA("obs.busy") /\ tg.cur = BusyItem /\ TgHandle /\ Adv
  \* an executor stall (tokio::time::advance inside a poll): by the target's handler, or by a client task
  \/ IsA("obs.stall") /\ Ev.x = "tg" /\ TgHandleStall(Ev.d) /\ Adv
  \/ IsA("obs.stall") /\ Ev.x = "env" /\ Stall(Ev.d) /\ Adv
  \/ IsA("obs.busy_end") /\ TgBusyEnd /\ Adv
  \/ IsA("obs.post_stop") /\ tg.st = "stopping" /\ tg.exitR \notin {"killed", "err"} /\ Same /\ Adv
  \* post_stop ran to its end: the target was still Stopping and no kill had been sent (a pending kill wins the next poll)
  \/ IsA("obs.post_stop_end") /\ tg.st = "stopping" /\ tg.sig # "sent" /\ tg.exitR \notin {"killed", "err"} /\ Same /\ Adv
  \/ /\ IsA("obs.sup") /\ tg.st = "dead" /\ Same /\ Adv
     /\ IF Ev.ek = "failed" THEN tg.exitR = "err" ELSE Ev.reason = tg.exitR /\ tg.exitR # "err"

TargetEv == ND /\ TargetEv0

End == /\ IsA("obs.end") /\ Adv /\ Same /\ ND
       /\ (dev # {} => PrintT(<<"DEVIATION", dev>>))
       /\ \A i \in 1..Len(Ev.fin.timers) : Ev.fin.timers[i].x \in Timers /\ (Ev.fin.timers[i].fin = 1) = Fin(Ev.fin.timers[i].x)
       /\ (Ev.fin.st = 6) = (tg.st = "dead")
       /\ (Ev.fin.st = 5) = (tg.st = "stopping")
       /\ (Ev.fin.st = 4) = (tg.st = "drain")

Reset == IsA("reset") /\ Adv /\ now' = 0 /\ tg' = InitTg /\ tm' = [t \in Timers |-> InitTm] /\ dev' = {}

TNext == Reset \/ End \/ TAdvance \/ TimerEv \/ TargetEv \/ SkipInternal

TInit == Init /\ l = 1 /\ dev = {} /\ TLCSet(42, 1)
TSpec == TInit /\ [][TNext]_tvars
Progress == /\ TLCSet(42, IF l > TLCGet(42) THEN l ELSE TLCGet(42))
            \* EARLY=1 (lenient validation): one behaviour that explains the whole trace is enough, stop there
            /\ (IF l > N /\ IOEnv.EARLY = "1" THEN PrintT("ACCEPTED_EARLY") /\ TLCSet("exit", TRUE) ELSE TRUE)
Accepted == IF TLCGet(42) > N THEN TRUE
            ELSE /\ PrintT(<<"REJECTED_AT", TLCGet(42), Rec[TLCGet(42)]>>)
                 /\ FALSE
=============================================================================
