SPECIFICATION Spec
CONSTANTS
  Actors = {"c1", "c2"}
  Collector = "none"
  Ports = {1, 2, 3}
  Plan <- PlanC
  Policies = {"reply", "stash", "both"}
  EnvOps = {"kill", "drain"}
  MaxNow = 3
  VirtualClock = TRUE
INVARIANTS
  TypeOk NoCrossWire Bounded NoEarlyTimeout HolderLive NoHang ForwardOnce MultiComplete
CHECK_DEADLOCK FALSE
