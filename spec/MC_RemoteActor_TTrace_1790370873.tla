---- MODULE MC_RemoteActor_TTrace_1790370873 ----
EXTENDS Sequences, TLCExt, Toolbox, MC_RemoteActor_TEConstants, Naturals, TLC, MC_RemoteActor

_expression ==
    LET MC_RemoteActor_TEExpression == INSTANCE MC_RemoteActor_TEExpression
    IN MC_RemoteActor_TEExpression!expression
----

_trace ==
    LET MC_RemoteActor_TETrace == INSTANCE MC_RemoteActor_TETrace
    IN MC_RemoteActor_TETrace!trace
----

_inv ==
    ~(
        TLCGet("level") = Len(_TETrace)
        /\
        pr = ((x1 :> [st |-> "alive", grp |-> FALSE]))
        /\
        nq = ((s1 :> 1 @@ s2 :> 0))
        /\
        pmb = ()
        /\
        npg = ((x1 :> 0))
        /\
        last = ((x1 :> [ab |-> (s1 :> 1 @@ s2 :> 0), ba |-> (s1 :> 0 @@ s2 :> 0)]))
        /\
        held = ((x1 :> {}))
        /\
        sess = ("up")
        /\
        px = ([ab |-> (x1 :> [st |-> "live", ctr |-> 1, pend |-> {[id |-> <<s1, 1>>, tag |-> 1]}, grp |-> FALSE]), ba |-> (x1 :> [st |-> "live", ctr |-> 0, pend |-> {}, grp |-> FALSE])])
        /\
        fifoOk = (TRUE)
        /\
        got = ((<<s1, 1>> :> TRUE @@ <<s1, 2>> :> FALSE @@ <<s2, 1>> :> FALSE @@ <<s2, 2>> :> FALSE))
        /\
        fw = ([ab |-> (x1 :> <<>>), ba |-> (x1 :> <<>>)])
        /\
        ctl = ([ab |-> (x1 :> <<>>), ba |-> (x1 :> <<>>)])
        /\
        onceOk = (TRUE)
        /\
        inb = ([ab |-> (x1 :> <<>>), ba |-> (x1 :> <<>>)])
        /\
        rp = ([ab |-> (x1 :> <<[tag |-> 1, v |-> <<s1, 1>>]>>), ba |-> (x1 :> <<>>)])
        /\
        rq = ((<<s1, 1>> :> [st |-> "sent", k |-> "call", d |-> "ab", x |-> x1, val |-> <<>>] @@ <<s1, 2>> :> [st |-> "unsent", k |-> "cast", d |-> "ab", x |-> x1, val |-> <<>>] @@ <<s2, 1>> :> [st |-> "unsent", k |-> "cast", d |-> "ab", x |-> x1, val |-> <<>>] @@ <<s2, 2>> :> [st |-> "unsent", k |-> "cast", d |-> "ab", x |-> x1, val |-> <<>>]))
    )
----

_init ==
    /\ onceOk = _TETrace[1].onceOk
    /\ ctl = _TETrace[1].ctl
    /\ pmb = _TETrace[1].pmb
    /\ sess = _TETrace[1].sess
    /\ nq = _TETrace[1].nq
    /\ npg = _TETrace[1].npg
    /\ pr = _TETrace[1].pr
    /\ px = _TETrace[1].px
    /\ fifoOk = _TETrace[1].fifoOk
    /\ rp = _TETrace[1].rp
    /\ rq = _TETrace[1].rq
    /\ fw = _TETrace[1].fw
    /\ last = _TETrace[1].last
    /\ inb = _TETrace[1].inb
    /\ got = _TETrace[1].got
    /\ held = _TETrace[1].held
----

_next ==
    /\ \E i,j \in DOMAIN _TETrace:
        /\ \/ /\ j = i + 1
              /\ i = TLCGet("level")
        /\ onceOk  = _TETrace[i].onceOk
        /\ onceOk' = _TETrace[j].onceOk
        /\ ctl  = _TETrace[i].ctl
        /\ ctl' = _TETrace[j].ctl
        /\ pmb  = _TETrace[i].pmb
        /\ pmb' = _TETrace[j].pmb
        /\ sess  = _TETrace[i].sess
        /\ sess' = _TETrace[j].sess
        /\ nq  = _TETrace[i].nq
        /\ nq' = _TETrace[j].nq
        /\ npg  = _TETrace[i].npg
        /\ npg' = _TETrace[j].npg
        /\ pr  = _TETrace[i].pr
        /\ pr' = _TETrace[j].pr
        /\ px  = _TETrace[i].px
        /\ px' = _TETrace[j].px
        /\ fifoOk  = _TETrace[i].fifoOk
        /\ fifoOk' = _TETrace[j].fifoOk
        /\ rp  = _TETrace[i].rp
        /\ rp' = _TETrace[j].rp
        /\ rq  = _TETrace[i].rq
        /\ rq' = _TETrace[j].rq
        /\ fw  = _TETrace[i].fw
        /\ fw' = _TETrace[j].fw
        /\ last  = _TETrace[i].last
        /\ last' = _TETrace[j].last
        /\ inb  = _TETrace[i].inb
        /\ inb' = _TETrace[j].inb
        /\ got  = _TETrace[i].got
        /\ got' = _TETrace[j].got
        /\ held  = _TETrace[i].held
        /\ held' = _TETrace[j].held

\* Uncomment the ASSUME below to write the states of the error trace
\* to the given file in Json format. Note that you can pass any tuple
\* to `JsonSerialize`. For example, a sub-sequence of _TETrace.
    \* ASSUME
    \*     LET J == INSTANCE Json
    \*         IN J!JsonSerialize("MC_RemoteActor_TTrace_1790370873.json", _TETrace)

=============================================================================

 Note that you can extract this module `MC_RemoteActor_TEExpression`
  to a dedicated file to reuse `expression` (the module in the 
  dedicated `MC_RemoteActor_TEExpression.tla` file takes precedence 
  over the module `MC_RemoteActor_TEExpression` below).

---- MODULE MC_RemoteActor_TEExpression ----
EXTENDS Sequences, TLCExt, Toolbox, MC_RemoteActor_TEConstants, Naturals, TLC, MC_RemoteActor

expression == 
    [
        \* To hide variables of the `MC_RemoteActor` spec from the error trace,
        \* remove the variables below.  The trace will be written in the order
        \* of the fields of this record.
        onceOk |-> onceOk
        ,ctl |-> ctl
        ,pmb |-> pmb
        ,sess |-> sess
        ,nq |-> nq
        ,npg |-> npg
        ,pr |-> pr
        ,px |-> px
        ,fifoOk |-> fifoOk
        ,rp |-> rp
        ,rq |-> rq
        ,fw |-> fw
        ,last |-> last
        ,inb |-> inb
        ,got |-> got
        ,held |-> held
        
        \* Put additional constant-, state-, and action-level expressions here:
        \* ,_stateNumber |-> _TEPosition
        \* ,_onceOkUnchanged |-> onceOk = onceOk'
        
        \* Format the `onceOk` variable as Json value.
        \* ,_onceOkJson |->
        \*     LET J == INSTANCE Json
        \*     IN J!ToJson(onceOk)
        
        \* Lastly, you may build expressions over arbitrary sets of states by
        \* leveraging the _TETrace operator.  For example, this is how to
        \* count the number of times a spec variable changed up to the current
        \* state in the trace.
        \* ,_onceOkModCount |->
        \*     LET F[s \in DOMAIN _TETrace] ==
        \*         IF s = 1 THEN 0
        \*         ELSE IF _TETrace[s].onceOk # _TETrace[s-1].onceOk
        \*             THEN 1 + F[s-1] ELSE F[s-1]
        \*     IN F[_TEPosition - 1]
    ]

=============================================================================



Parsing and semantic processing can take forever if the trace below is long.
 In this case, it is advised to uncomment the module below to deserialize the
 trace from a generated binary file.

\*
\*---- MODULE MC_RemoteActor_TETrace ----
\*EXTENDS IOUtils, MC_RemoteActor_TEConstants, TLC, MC_RemoteActor
\*
\*trace == IODeserialize("MC_RemoteActor_TTrace_1790370873.bin", TRUE)
\*
\*=============================================================================
\*

---- MODULE MC_RemoteActor_TETrace ----
EXTENDS MC_RemoteActor_TEConstants, TLC, MC_RemoteActor

trace == 
    <<
    ([pr |-> (x1 :> [st |-> "alive", grp |-> FALSE]),nq |-> (s1 :> 0 @@ s2 :> 0),pmb |-> (x1 :> <<>>),npg |-> (x1 :> 0),last |-> (x1 :> [ab |-> (s1 :> 0 @@ s2 :> 0), ba |-> (s1 :> 0 @@ s2 :> 0)]),held |-> (x1 :> {}),sess |-> "up",px |-> [ab |-> (x1 :> [st |-> "live", ctr |-> 0, pend |-> {}, grp |-> FALSE]), ba |-> (x1 :> [st |-> "live", ctr |-> 0, pend |-> {}, grp |-> FALSE])],fifoOk |-> TRUE,got |-> (<<s1, 1>> :> FALSE @@ <<s1, 2>> :> FALSE @@ <<s2, 1>> :> FALSE @@ <<s2, 2>> :> FALSE),fw |-> [ab |-> (x1 :> <<>>), ba |-> (x1 :> <<>>)],ctl |-> [ab |-> (x1 :> <<>>), ba |-> (x1 :> <<>>)],onceOk |-> TRUE,inb |-> [ab |-> (x1 :> <<>>), ba |-> (x1 :> <<>>)],rp |-> [ab |-> (x1 :> <<>>), ba |-> (x1 :> <<>>)],rq |-> (<<s1, 1>> :> [st |-> "unsent", k |-> "cast", d |-> "ab", x |-> x1, val |-> <<>>] @@ <<s1, 2>> :> [st |-> "unsent", k |-> "cast", d |-> "ab", x |-> x1, val |-> <<>>] @@ <<s2, 1>> :> [st |-> "unsent", k |-> "cast", d |-> "ab", x |-> x1, val |-> <<>>] @@ <<s2, 2>> :> [st |-> "unsent", k |-> "cast", d |-> "ab", x |-> x1, val |-> <<>>])]),
    ([pr |-> (x1 :> [st |-> "alive", grp |-> FALSE]),nq |-> (s1 :> 1 @@ s2 :> 0),pmb |-> (x1 :> <<>>),npg |-> (x1 :> 0),last |-> (x1 :> [ab |-> (s1 :> 0 @@ s2 :> 0), ba |-> (s1 :> 0 @@ s2 :> 0)]),held |-> (x1 :> {}),sess |-> "up",px |-> [ab |-> (x1 :> [st |-> "live", ctr |-> 0, pend |-> {}, grp |-> FALSE]), ba |-> (x1 :> [st |-> "live", ctr |-> 0, pend |-> {}, grp |-> FALSE])],fifoOk |-> TRUE,got |-> (<<s1, 1>> :> FALSE @@ <<s1, 2>> :> FALSE @@ <<s2, 1>> :> FALSE @@ <<s2, 2>> :> FALSE),fw |-> [ab |-> (x1 :> <<>>), ba |-> (x1 :> <<>>)],ctl |-> [ab |-> (x1 :> <<>>), ba |-> (x1 :> <<>>)],onceOk |-> TRUE,inb |-> [ab |-> (x1 :> <<[k |-> "call", id |-> <<s1, 1>>, tag |-> 0, v |-> <<>>]>>), ba |-> (x1 :> <<>>)],rp |-> [ab |-> (x1 :> <<>>), ba |-> (x1 :> <<>>)],rq |-> (<<s1, 1>> :> [st |-> "sent", k |-> "call", d |-> "ab", x |-> x1, val |-> <<>>] @@ <<s1, 2>> :> [st |-> "unsent", k |-> "cast", d |-> "ab", x |-> x1, val |-> <<>>] @@ <<s2, 1>> :> [st |-> "unsent", k |-> "cast", d |-> "ab", x |-> x1, val |-> <<>>] @@ <<s2, 2>> :> [st |-> "unsent", k |-> "cast", d |-> "ab", x |-> x1, val |-> <<>>])]),
    ([pr |-> (x1 :> [st |-> "alive", grp |-> FALSE]),nq |-> (s1 :> 1 @@ s2 :> 0),pmb |-> (x1 :> <<>>),npg |-> (x1 :> 0),last |-> (x1 :> [ab |-> (s1 :> 0 @@ s2 :> 0), ba |-> (s1 :> 0 @@ s2 :> 0)]),held |-> (x1 :> {}),sess |-> "up",px |-> [ab |-> (x1 :> [st |-> "live", ctr |-> 1, pend |-> {[id |-> <<s1, 1>>, tag |-> 1]}, grp |-> FALSE]), ba |-> (x1 :> [st |-> "live", ctr |-> 0, pend |-> {}, grp |-> FALSE])],fifoOk |-> TRUE,got |-> (<<s1, 1>> :> FALSE @@ <<s1, 2>> :> FALSE @@ <<s2, 1>> :> FALSE @@ <<s2, 2>> :> FALSE),fw |-> [ab |-> (x1 :> <<[k |-> "call", id |-> <<s1, 1>>, tag |-> 1]>>), ba |-> (x1 :> <<>>)],ctl |-> [ab |-> (x1 :> <<>>), ba |-> (x1 :> <<>>)],onceOk |-> TRUE,inb |-> [ab |-> (x1 :> <<>>), ba |-> (x1 :> <<>>)],rp |-> [ab |-> (x1 :> <<>>), ba |-> (x1 :> <<>>)],rq |-> (<<s1, 1>> :> [st |-> "sent", k |-> "call", d |-> "ab", x |-> x1, val |-> <<>>] @@ <<s1, 2>> :> [st |-> "unsent", k |-> "cast", d |-> "ab", x |-> x1, val |-> <<>>] @@ <<s2, 1>> :> [st |-> "unsent", k |-> "cast", d |-> "ab", x |-> x1, val |-> <<>>] @@ <<s2, 2>> :> [st |-> "unsent", k |-> "cast", d |-> "ab", x |-> x1, val |-> <<>>])]),
    ([pr |-> (x1 :> [st |-> "alive", grp |-> FALSE]),nq |-> (s1 :> 1 @@ s2 :> 0),pmb |-> (x1 :> <<[k |-> "call", d |-> "ab", id |-> <<s1, 1>>, tag |-> 1]>>),npg |-> (x1 :> 0),last |-> (x1 :> [ab |-> (s1 :> 0 @@ s2 :> 0), ba |-> (s1 :> 0 @@ s2 :> 0)]),held |-> (x1 :> {}),sess |-> "up",px |-> [ab |-> (x1 :> [st |-> "live", ctr |-> 1, pend |-> {[id |-> <<s1, 1>>, tag |-> 1]}, grp |-> FALSE]), ba |-> (x1 :> [st |-> "live", ctr |-> 0, pend |-> {}, grp |-> FALSE])],fifoOk |-> TRUE,got |-> (<<s1, 1>> :> FALSE @@ <<s1, 2>> :> FALSE @@ <<s2, 1>> :> FALSE @@ <<s2, 2>> :> FALSE),fw |-> [ab |-> (x1 :> <<>>), ba |-> (x1 :> <<>>)],ctl |-> [ab |-> (x1 :> <<>>), ba |-> (x1 :> <<>>)],onceOk |-> TRUE,inb |-> [ab |-> (x1 :> <<>>), ba |-> (x1 :> <<>>)],rp |-> [ab |-> (x1 :> <<>>), ba |-> (x1 :> <<>>)],rq |-> (<<s1, 1>> :> [st |-> "sent", k |-> "call", d |-> "ab", x |-> x1, val |-> <<>>] @@ <<s1, 2>> :> [st |-> "unsent", k |-> "cast", d |-> "ab", x |-> x1, val |-> <<>>] @@ <<s2, 1>> :> [st |-> "unsent", k |-> "cast", d |-> "ab", x |-> x1, val |-> <<>>] @@ <<s2, 2>> :> [st |-> "unsent", k |-> "cast", d |-> "ab", x |-> x1, val |-> <<>>])]),
    ([pr |-> (x1 :> [st |-> "alive", grp |-> FALSE]),nq |-> (s1 :> 1 @@ s2 :> 0),pmb |-> (x1 :> <<>>),npg |-> (x1 :> 0),last |-> (x1 :> [ab |-> (s1 :> 1 @@ s2 :> 0), ba |-> (s1 :> 0 @@ s2 :> 0)]),held |-> (x1 :> {[d |-> "ab", id |-> <<s1, 1>>, tag |-> 1]}),sess |-> "up",px |-> [ab |-> (x1 :> [st |-> "live", ctr |-> 1, pend |-> {[id |-> <<s1, 1>>, tag |-> 1]}, grp |-> FALSE]), ba |-> (x1 :> [st |-> "live", ctr |-> 0, pend |-> {}, grp |-> FALSE])],fifoOk |-> TRUE,got |-> (<<s1, 1>> :> TRUE @@ <<s1, 2>> :> FALSE @@ <<s2, 1>> :> FALSE @@ <<s2, 2>> :> FALSE),fw |-> [ab |-> (x1 :> <<>>), ba |-> (x1 :> <<>>)],ctl |-> [ab |-> (x1 :> <<>>), ba |-> (x1 :> <<>>)],onceOk |-> TRUE,inb |-> [ab |-> (x1 :> <<>>), ba |-> (x1 :> <<>>)],rp |-> [ab |-> (x1 :> <<>>), ba |-> (x1 :> <<>>)],rq |-> (<<s1, 1>> :> [st |-> "sent", k |-> "call", d |-> "ab", x |-> x1, val |-> <<>>] @@ <<s1, 2>> :> [st |-> "unsent", k |-> "cast", d |-> "ab", x |-> x1, val |-> <<>>] @@ <<s2, 1>> :> [st |-> "unsent", k |-> "cast", d |-> "ab", x |-> x1, val |-> <<>>] @@ <<s2, 2>> :> [st |-> "unsent", k |-> "cast", d |-> "ab", x |-> x1, val |-> <<>>])]),
    ([pr |-> (x1 :> [st |-> "alive", grp |-> FALSE]),nq |-> (s1 :> 1 @@ s2 :> 0),pmb |-> ,npg |-> (x1 :> 0),last |-> (x1 :> [ab |-> (s1 :> 1 @@ s2 :> 0), ba |-> (s1 :> 0 @@ s2 :> 0)]),held |-> (x1 :> {}),sess |-> "up",px |-> [ab |-> (x1 :> [st |-> "live", ctr |-> 1, pend |-> {[id |-> <<s1, 1>>, tag |-> 1]}, grp |-> FALSE]), ba |-> (x1 :> [st |-> "live", ctr |-> 0, pend |-> {}, grp |-> FALSE])],fifoOk |-> TRUE,got |-> (<<s1, 1>> :> TRUE @@ <<s1, 2>> :> FALSE @@ <<s2, 1>> :> FALSE @@ <<s2, 2>> :> FALSE),fw |-> [ab |-> (x1 :> <<>>), ba |-> (x1 :> <<>>)],ctl |-> [ab |-> (x1 :> <<>>), ba |-> (x1 :> <<>>)],onceOk |-> TRUE,inb |-> [ab |-> (x1 :> <<>>), ba |-> (x1 :> <<>>)],rp |-> [ab |-> (x1 :> <<[tag |-> 1, v |-> <<s1, 1>>]>>), ba |-> (x1 :> <<>>)],rq |-> (<<s1, 1>> :> [st |-> "sent", k |-> "call", d |-> "ab", x |-> x1, val |-> <<>>] @@ <<s1, 2>> :> [st |-> "unsent", k |-> "cast", d |-> "ab", x |-> x1, val |-> <<>>] @@ <<s2, 1>> :> [st |-> "unsent", k |-> "cast", d |-> "ab", x |-> x1, val |-> <<>>] @@ <<s2, 2>> :> [st |-> "unsent", k |-> "cast", d |-> "ab", x |-> x1, val |-> <<>>])])
    >>
----


=============================================================================

---- MODULE MC_RemoteActor_TEConstants ----
EXTENDS MC_RemoteActor

CONSTANTS s1, s2, x1

=============================================================================

---- CONFIG MC_RemoteActor_TTrace_1790370873 ----
CONSTANTS
    Senders = { s1 , s2 }
    Probes = { x1 }
    Late = { }
    MaxReq = 2
    MaxAbandon = 1
    DirOf <- SameSide
    Kinds = { "call" }
    Faults = { "exit" }
    MaxPg = 0
    x1 = x1
    s2 = s2
    s1 = s1

INVARIANT
    _inv

CHECK_DEADLOCK
    \* CHECK_DEADLOCK off because of PROPERTY or INVARIANT above.
    FALSE

INIT
    _init

NEXT
    _next

CONSTANT
    _TETrace <- _trace

ALIAS
    _expression
=============================================================================
\* Generated on Fri Sep 25 21:14:35 UTC 2026