SPECIFICATION Spec
CONSTANTS
  Actors = {"p", "c", "g", "q"}
  NoA = "none"
  InitSup <- SupSpawn
  InitSt <- StStartC
  InitMayExit = {"p", "c"}
  LinkOps <- LinkSpawn
  UnlinkOps <- UnlinkSpawn
  KillOps = {"p"}
  DrainOps = {"p"}
  MaxEnv = 3
  AllowDev = FALSE
INVARIANTS
  TypeOK TwoSided StoppedIsolated SubtreeSignalled RacingLink SubtreeDies NoDeviation
PROPERTIES
  NoChildOfStopping StatusMonotone
CHECK_DEADLOCK FALSE
