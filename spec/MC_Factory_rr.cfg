SPECIFICATION MCSpec
CONSTANTS
  MaxW = 3
  Keys = {1, 2}
  MaxJ = 4
  MaxInc = 5
  LbBig = 1000
  FixRetire = FALSE
  Routing0 = "rr"
  Workers0 = 2
  Lim0 <- Lim1
  Mode0 = "newest"
  RlOn = FALSE
  RlRefill = 1
  RlInterval = 2
  RlMax = 1
  JobKeys <- Keys1212
  JobTtl <- NoTtl4
  PortJobs = {1, 3}
  Ends = {"ok", "killmid"}
  MaxKills = 0
  MaxFaults = 1
  Resizes <- Res31
  MayDrain = FALSE
  MaxT = 0
  TStep = 1
  RetryJobs = {}
  Retries = 0
  FreeOrder = FALSE
INVARIANTS
  OneFate PortOk LostOnePerDeath NoFactoryPanic KeyExclusive KeyFifo OneAtATime HashInPool RoundRobinCovers QueuerNoIdle ViewExact
  QueueBound HookOrder PoolConverges DrainComplete DrainRefuses
CHECK_DEADLOCK FALSE
