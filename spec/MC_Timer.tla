----------------------------- MODULE MC_Timer -----------------------------
EXTENDS Timer
\* a: send_after(2), b: send_interval(2), c: exit_after(1)
KindsA == [t \in Timers |-> IF t = "a" THEN "after" ELSE IF t = "b" THEN "interval" ELSE "exit"]
PeriodsA == [t \in Timers |-> IF t = "a" THEN 2 ELSE IF t = "b" THEN 2 ELSE 1]
\* a: send_after(0), b: send_interval(1), c: kill_after(2)
KindsB == [t \in Timers |-> IF t = "a" THEN "after" ELSE IF t = "b" THEN "interval" ELSE "kill"]
PeriodsB == [t \in Timers |-> IF t = "a" THEN 0 ELSE IF t = "b" THEN 1 ELSE 2]
=============================================================================
