SPECIFICATION TSpec
CONSTANTS
  Conns = {"c1", "c2", "c3", "c4"}
CONSTRAINT Progress
INVARIANTS
  VisibleStable
POSTCONDITION Accepted
CHECK_DEADLOCK FALSE
