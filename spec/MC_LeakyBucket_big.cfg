SPECIFICATION Spec
CONSTANTS
  BIG = 80
  NoInit = 81
  Refills = {0, 1, 2, 3, 80}
  Intervals = {0, 1, 2, 3, 4, 80}
  Maxes = {0, 1, 2, 4, 80}
  Initials = {0, 1, 3, 5, 80, 81}
  MaxT = 10
  MaxOps = 8
INVARIANTS
  BalanceLeMax EagerEq GridDeadline BucketBound NeverFromEmpty
CHECK_DEADLOCK FALSE
