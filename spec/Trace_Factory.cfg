SPECIFICATION TSpec
CONSTANTS
  MaxW = 4
  Keys = {1, 2, 3}
  MaxJ = 9
  MaxInc = 20
  LbBig = 1000000
  FixRetire = FALSE
CONSTRAINT Progress
INVARIANTS
  OneFate PortOk LostOnePerDeath NoFactoryPanic KeyExclusive KeyFifo OneAtATime RoundRobinCovers QueuerNoIdle ViewExact
  QueueBound HookOrder PoolConverges DrainComplete DrainRefuses
POSTCONDITION Accepted
CHECK_DEADLOCK FALSE
