SPECIFICATION TSpec
CONSTANTS
  MaxW = 4
  Keys = {1, 2, 3}
  MaxJ = 11
  MaxInc = 20
  LbBig = 1000000
  FixRetire = FALSE
CONSTRAINT Progress
POSTCONDITION Accepted
CHECK_DEADLOCK FALSE
