-------------------------- MODULE Trace_ExitWait --------------------------
(* Trace validation for ExitWait. Batches come from engine H (detached cell, controlled threads
   "x", "r", "w<i>", "m<i>") and engine T (real actor; the harness maps the actor's own steps to
   "x" and client tasks to "w<i>"). STRICT=1 consumes every line; STRICT=0 only obs.* lines.      *)
EXTENDS ExitWait, Integers, Sequences, Json, IOUtils, TLCExt

Rec == ndJsonDeserialize(IOEnv.TRACE)
Strict == IOEnv.STRICT = "1"
N == Len(Rec)
TrCfgs == {[named |-> n, inpg |-> g, hsup |-> s, kids |-> k] :
             n \in BOOLEAN, g \in BOOLEAN, s \in BOOLEAN, k \in {{}, {"k1"}, {"k1", "k2"}}}

VARIABLES l,
          opt   \* [racer, late]: whether this run has a second set_status caller / late repeated calls at all
tvars == <<vars, l, opt>>
Ev == Rec[l]
Adv == l' = l + 1
Live == l <= N
IsA(a) == Live /\ Ev.a = a
Same == UNCHANGED vars
NoOpt == UNCHANGED opt
B(i) == i = 1

\* an internal step (a verif::point inside ractor) of process `who`
Inl(lbl, who, A) == IF Strict THEN IsA(lbl) /\ Ev.who = who /\ A /\ Adv
                              ELSE Live /\ A /\ l' = l
Obs(lbl, who, A) == IsA(lbl) /\ Ev.who = who /\ A /\ Adv

\* one call of ActorCell::set_status by p
SubEv(p) ==
  \/ Inl("cleanup.pid", p, SPid(p))
  \/ Inl("cleanup.name", p, SName(p))
  \/ Inl("cleanup.pgmon", p, SPgMon(p))
  \/ Inl("cleanup.pgleave", p, SPgLeave(p))
  \/ Inl("notify.waiters", p, SNotifyWaiters(p))
  \/ Inl("notify.one", p, SNotifyOne(p))

\* statuses below Stopping (Starting .. Draining) are all "not yet stopping" here
StatusOk(v) == Strict => (Ev.d = v /\ (IF Ev.prev < Stopping THEN Running ELSE Ev.prev) = st)
XEv ==
  \/ Inl("status.set", "x", XLoopSet /\ StatusOk(Stopping))
  \/ Obs("obs.ps_begin", "x", XPostStopBegin)
  \/ Obs("obs.ps_end", "x", XPostStopEnd)
  \* whether a terminal event is owed is a fact of the run (finish(evt) / a guard armed by mark_running), not a choice
  \/ Inl("guard.cleanup", "x", \E e \in BOOLEAN : XGuardBegin(e) /\ (Strict => e = B(Ev.d)) /\ e = opt.owed)
  \/ Inl("status.set", "x", XGuardSet /\ StatusOk(Stopping))
  \/ Inl("term.take", "x", XSigTerm /\ (Strict => (Ev.obj = "A" /\ Ev.d = Cardinality(cf.kids \ taken))))
  \/ Inl("term.take", "x", XTermSelf /\ (Strict => (Ev.obj = "A" /\ Ev.d = Cardinality(cf.kids \ taken))))
  \/ \E k \in cf.kids : \/ Inl("term.kill", "x", XTermKill(k) /\ (Strict => Ev.obj = k))
                        \/ Inl("term.take", "x", XTermTake(k) /\ (Strict => Ev.obj = k))
  \/ Inl("guard.terminated", "x", XTermDone)
  \/ Inl("guard.notified", "x", XNotifySup)
  \/ Inl("guard.unlinked", "x", XUnlink)
  \/ Inl("status.set", "x", XGuardStop /\ StatusOk(Stopped))
  \/ Inl("guard.done", "x", XGuardDone)
  \/ (opt.late /\ Inl("status.set", "x", \E v \in {Stopping, Stopped} : XLate(v) /\ StatusOk(v)))
  \/ SubEv("x")
REv ==
  \/ Inl("status.set", "r", RSet /\ StatusOk(Stopping))
  \/ SubEv("r")
SupEv == Obs("obs.sup_evt", "S", SupHandle)

\* what a waiter saw when its wait returned must be the specification state at that instant
Flag(b) == IF b THEN 1 ELSE 0
SnapOk ==
  /\ Ev.st = st
  /\ Ev.name = Flag(reg.name) /\ Ev.pid = Flag(reg.pid)
  \* pg::leave_all has schedule points of its own (Pg package): while the exiter is inside it (after
  \* cleanup.pgmon, before cleanup.pgleave) the membership may already be gone
  /\ (Ev.mem = Flag(reg.mem) \/ (Ev.mem = 0 /\ \E p \in Procs : sub[p] = "pgleave"))
  /\ Ev.linked = Flag(sup.linked)
  /\ (IF Ev.supsent = -1 THEN TRUE ELSE Ev.supsent = Flag(sup.sent))
  /\ (IF Ev.suphandled = -1 THEN TRUE ELSE Ev.suphandled = Flag(sup.handled))
  /\ (IF Ev.kidsig = -1 THEN TRUE ELSE Ev.kidsig = Cardinality(sig))

WEv(w) ==
  \/ Obs("obs.wait_begin", w, WBegin(w, B(Ev.timed), "wait"))
  \/ Obs("obs.join_begin", w, WBegin(w, FALSE, "join"))
  \/ Inl("wait.created", w, WCreate(w))
  \/ Inl("wait.checked", w, WCheck(w) /\ wpc'[w] = "checked")
  \/ Obs("obs.wait_pending", w, IF wpc[w] = "parked" THEN Same ELSE WPoll(w) /\ wpc'[w] = "parked")
  \/ Inl("wait.done", w, (WCheck(w) \/ WPoll(w) \/ WWake(w)) /\ wpc'[w] = "ret")
  \/ Obs("obs.wait_timeout", w, WTimeout(w))
  \/ Obs("obs.join_done", w, WJoinRet(w))
  \* a send that failed before any waiting started (stop already sent, ...): nothing happened
  \/ Obs("obs.wait_ret", w, Ev.ok = 0 /\ wpc[w] = "start" /\ SnapOk
                            /\ wpc' = [wpc EXCEPT ![w] = "idle"] /\ round' = [round EXCEPT ![w] = @ + 1]
                            /\ UNCHANGED <<actorVars, notifyVars, wepoch, wt, okret>>)
  \/ Obs("obs.wait_ret", w, WReturn(w) /\ (Ev.ok = 1) = (wpc[w] = "ret") /\ SnapOk)
  \* a waiter that never returns is legitimate only if the actor has not finished its exit (xdone: observed by the
  \* harness -- the exiter thread ran to its end / the actor reads Stopped at quiescence)
  \/ Obs("obs.stuck", w, Ev.xdone = 0 /\ ~XDone /\ Same)
TimerEv == IsA("obs.timer_fire") /\ Same /\ Adv

EndOk == /\ SnapOk
         \* "exit cleanup runs once": the cleanup block of set_status ran as often as the specification elected a
         \* process to run it (NoDoubleCleanup: at most once); counted by the harness over the whole run, so that a
         \* repeated run is a rejection in lenient mode too
         /\ Ev.ncleanup <= nElect /\ (XDone => Ev.ncleanup = nElect)
         /\ (XDone => \A w \in Waiters : wpc[w] \notin {"parked", "woken", "checked", "created", "start", "jwait"})
         /\ (xpc # "run" => XDone)
         \* engine T: at quiescence the (live) supervisor has handled the terminal event that was sent to it
         /\ (IF Ev.suphandled = -1 THEN TRUE ELSE (sup.sent => sup.handled))
End == IsA("obs.end") /\ EndOk /\ Same /\ Adv

InternalLabels == {"status.set", "cleanup.pid", "cleanup.name", "cleanup.pgmon", "cleanup.pgleave", "guard.cleanup",
                   "term.take", "term.kill", "guard.terminated", "guard.notified", "guard.unlinked", "notify.waiters",
                   "notify.one", "guard.done", "wait.created", "wait.checked", "wait.done"}
SkipInternal == ~Strict /\ Live /\ Ev.a \in InternalLabels /\ Same /\ Adv

Reset ==
  /\ IsA("reset") /\ Adv
  /\ opt' = [racer |-> B(Ev.meta.racer), late |-> B(Ev.meta.late), owed |-> B(Ev.meta.owed)]
  /\ \E c \in TrCfgs :
       /\ c.named = B(Ev.meta.named) /\ c.inpg = B(Ev.meta.inpg) /\ c.hsup = B(Ev.meta.hsup)
       /\ Cardinality(c.kids) = Ev.meta.kids /\ (Ev.meta.kids = 1 => c.kids = {"k1"})
       /\ cf' = c /\ st' = Running
       /\ reg' = [name |-> c.named, pid |-> TRUE, mon |-> c.inpg, mem |-> c.inpg]
       /\ sup' = [linked |-> c.hsup, sent |-> FALSE, handled |-> FALSE]
  /\ sub' = [p \in Procs |-> "idle"] /\ subv' = [p \in Procs |-> [v |-> 0, notify |-> FALSE]]
  /\ elected' = "none" /\ nElect' = 0 /\ nNotify' = 0
  /\ xpc' = "run" /\ evt' = FALSE /\ ps' = "no"
  /\ pend' = {} /\ cur' = NoKid /\ sig' = {} /\ taken' = {} /\ sigd' = FALSE
  /\ rpc' = "idle" /\ late' = 0
  /\ epoch' = 0 /\ permit' = FALSE /\ parked' = {}
  /\ wpc' = [w \in Waiters |-> "idle"] /\ wepoch' = [w \in Waiters |-> 0]
  /\ wt' = [w \in Waiters |-> [timed |-> FALSE, kind |-> "wait"]]
  /\ round' = [w \in Waiters |-> 0] /\ okret' = FALSE /\ stLow' = FALSE

TNext == \/ Reset
         \/ ((End \/ SkipInternal \/ XEv \/ (opt.racer /\ REv) \/ SupEv \/ TimerEv \/ \E w \in Waiters : WEv(w)) /\ NoOpt)

TInit == Init /\ l = 1 /\ opt = [racer |-> FALSE, late |-> FALSE, owed |-> TRUE] /\ TLCSet(42, 1)
TSpec == TInit /\ [][TNext]_tvars
Progress == /\ TLCSet(42, IF l > TLCGet(42) THEN l ELSE TLCGet(42))
            \* EARLY=1 (lenient validation): one behaviour that explains the whole trace is enough, stop there
            /\ (IF l > N /\ IOEnv.EARLY = "1" THEN PrintT("ACCEPTED_EARLY") /\ TLCSet("exit", TRUE) ELSE TRUE)
Accepted == IF TLCGet(42) > N THEN TRUE
            ELSE /\ PrintT(<<"REJECTED_AT", TLCGet(42), Rec[TLCGet(42)]>>)
                 /\ FALSE
=============================================================================
