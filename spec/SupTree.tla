------------------------------- MODULE SupTree -------------------------------
(* The supervision tree of ractor: per-actor `children` (a set, or CLOSED for ever) and `supervisor`
   (ractor/src/actor/supervision.rs: link / unlink / take_children, each ONE region under the global
   TREE_MUTATION_LOCK, hence one atomic action here), the status word they consult, the one-shot
   Kill signal, and the exit sequence of an actor (actor.rs ActorLifecycleGuard::cleanup,
   actor_cell.rs terminate(): explicit worklist, per visited actor a kill step and a take-children
   step; handle_signal(): the same sweep at once, before Stopping is published).
   Every actor's own task is a process with a program counter at lock-region granularity; the
   environment (any other thread) performs link / unlink / kill / drain, each a single atomic step.
   The status loads inside `link` are plain loads: they race with the exiter's status stores simply
   because the store is a separate action that may come before or after the region.
   Decides C05; the properties are at the end.                                                     *)
EXTENDS Naturals, FiniteSets, TLC

CONSTANTS Actors,       \* actor ids (strings)
          NoA,          \* "none"
          InitSup,      \* [Actors -> Actors \cup {NoA}] links present at the start
          InitSt,       \* [Actors -> status]           (Starting / Running / Draining ...)
          InitMayExit,  \* actors whose task may end on its own (stop, drain marker, failure, abort)
          LinkOps,      \* set of <<child, supervisor>> pairs the environment may link
          UnlinkOps,    \* set of <<child, supervisor>> pairs the environment may unlink
          KillOps,      \* actors the environment may kill
          DrainOps,     \* actors the environment may drain
          MaxEnv,       \* number of environment operations
          AllowDev      \* TRUE: the code as it was before the repair (see Dev_DrainingChildNotKilled)

Unstarted == 0  Starting == 1  Running == 2  Upgrading == 3  Draining == 4  Stopping == 5  Stopped == 6
CLOSED == {NoA}
Max(a, b) == IF a > b THEN a ELSE b

VARIABLES st,        \* status word (only grows)
          sup,       \* supervisor of each actor or NoA
          children,  \* child set of each actor, or CLOSED
          sig,       \* the one-shot signal port: "none" | "sent" | "taken"
          mayExit,   \* actors whose task may end spontaneously (constant in M, set per run in traces)
          apc,       \* program counter of each actor's task
          phase,     \* "early" (handle_signal's sweep) | "cleanup" (the guard's sweep)
          awork,     \* terminate(): actors still to visit, a bag (an actor that was relinked under
                     \* another member of the subtree while the sweep runs is found, and visited, twice)
          acur,      \* terminate(): actor being visited
          asup,      \* cleanup: the supervisor read before the final unlink
          nenv,      \* environment operations performed
          lk,        \* history: supervisor by the API's own account (last successful link not undone
                     \* by an unlink call) -- like `sup` but never cleared by a sweep
          dev        \* names of deviation actions taken
vars == <<st, sup, children, sig, mayExit, apc, phase, awork, acur, asup, nenv, lk, dev>>

IsOpen(a) == children[a] # CLOSED
Kids(a) == IF IsOpen(a) THEN children[a] ELSE {}
NoWork == [x \in Actors |-> 0]
Only(a) == [x \in Actors |-> IF x = a THEN 1 ELSE 0]
InWork(a) == {x \in Actors : awork[a][x] > 0}

Init ==
  /\ st = InitSt /\ sup = InitSup
  /\ children = [a \in Actors |-> {c \in Actors : InitSup[c] = a}]
  /\ sig = [a \in Actors |-> "none"] /\ mayExit = InitMayExit
  /\ apc = [a \in Actors |-> "live"] /\ phase = [a \in Actors |-> "none"]
  /\ awork = [a \in Actors |-> NoWork] /\ acur = [a \in Actors |-> NoA] /\ asup = [a \in Actors |-> NoA]
  /\ nenv = 0 /\ lk = InitSup /\ dev = {}

-----------------------------------------------------------------------------
(* The three tree-lock regions and the two single-word operations. Each leaves `nenv` and the
   process variables to its caller.                                                              *)

\* SupervisionTree::link -- refuses when either side is >= Draining or the set is closed;
\* otherwise (re)links: both child sets and the supervisor pointer change in the same region
LinkOk(c, s) == st[c] < Draining /\ st[s] < Draining /\ IsOpen(s)
LinkRegion(c, s) ==
  IF LinkOk(c, s)
    THEN LET old == sup[c] IN
         /\ sup' = [sup EXCEPT ![c] = s]
         /\ children' = [a \in Actors |-> IF a = s THEN children[a] \cup {c}
                                         ELSE IF a = old /\ IsOpen(a) THEN children[a] \ {c}
                                         ELSE children[a]]
         /\ lk' = [lk EXCEPT ![c] = s]
    ELSE UNCHANGED <<sup, children, lk>>

\* SupervisionTree::unlink -- only if `s` still is the supervisor of `c`
UnlinkRegion(c, s) ==
  IF sup[c] = s
    THEN /\ sup' = [sup EXCEPT ![c] = NoA]
         /\ children' = [children EXCEPT ![s] = IF IsOpen(s) THEN @ \ {c} ELSE @]
         /\ lk' = [lk EXCEPT ![c] = IF @ = s THEN NoA ELSE @]
    ELSE UNCHANGED <<sup, children, lk>>

\* SupervisionTree::take_children -- close the set for good, detach what was in it
TakeRegion(x) ==
  LET cs == Kids(x) IN
  /\ children' = [children EXCEPT ![x] = CLOSED]
  /\ sup' = [c \in Actors |-> IF c \in cs /\ sup[c] = x THEN NoA ELSE sup[c]]

\* ActorCell::kill -- the signal port is a one-shot: only the first Kill is delivered
KillWord(x) == sig' = [sig EXCEPT ![x] = IF @ = "none" THEN "sent" ELSE @]
\* drain(): status := Draining unless already Stopping / Stopped
DrainWord(x) == st' = [st EXCEPT ![x] = IF @ < Stopping THEN Draining ELSE @]

-----------------------------------------------------------------------------
(* Environment *)
Proc == <<apc, phase, awork, acur, asup>>
EnvLink(c, s) ==
  /\ nenv < MaxEnv /\ <<c, s>> \in LinkOps /\ LinkRegion(c, s) /\ nenv' = nenv + 1
  /\ UNCHANGED <<st, sig, mayExit, Proc, dev>>
EnvUnlink(c, s) ==
  /\ nenv < MaxEnv /\ <<c, s>> \in UnlinkOps /\ UnlinkRegion(c, s) /\ nenv' = nenv + 1
  /\ UNCHANGED <<st, sig, mayExit, Proc, dev>>
EnvKill(x) ==
  /\ nenv < MaxEnv /\ x \in KillOps /\ KillWord(x) /\ nenv' = nenv + 1
  /\ UNCHANGED <<st, sup, children, mayExit, Proc, lk, dev>>
EnvDrain(x) ==
  /\ nenv < MaxEnv /\ x \in DrainOps /\ DrainWord(x) /\ nenv' = nenv + 1
  /\ UNCHANGED <<sup, children, sig, mayExit, Proc, lk, dev>>

-----------------------------------------------------------------------------
(* An actor's task, as far as the tree is concerned *)
Pc(a, v) == apc' = [apc EXCEPT ![a] = v]
Tree == <<sup, children, lk>>

\* the loop ends on a stop / the drain marker: Stopping is published, post_stop may follow
ABeginStop(a) ==
  /\ apc[a] = "live" /\ a \in mayExit
  /\ st' = [st EXCEPT ![a] = Max(@, Stopping)] /\ Pc(a, "poststop")
  /\ UNCHANGED <<Tree, sig, mayExit, phase, awork, acur, asup, nenv, dev>>
\* the signal port wins at the next poll: handle_signal -> terminate() at once, whatever the status
ASigTake(a) ==
  /\ apc[a] \in {"live", "poststop"} /\ sig[a] = "sent"
  /\ sig' = [sig EXCEPT ![a] = "taken"] /\ Pc(a, "t.pick")
  /\ phase' = [phase EXCEPT ![a] = "early"] /\ awork' = [awork EXCEPT ![a] = Only(a)]
  /\ UNCHANGED <<st, Tree, mayExit, acur, asup, nenv, dev>>
\* a kill that landed in the message loop: the loop publishes Stopping before the guard runs
AKilledStopping(a) ==
  /\ apc[a] = "killed" /\ st[a] < Stopping
  /\ st' = [st EXCEPT ![a] = Stopping]
  /\ UNCHANGED <<Tree, sig, mayExit, Proc, nenv, dev>>
\* ActorLifecycleGuard::cleanup entered (finish, or drop on failure / cancellation)
ACleanupBegin(a) ==
  /\ (apc[a] \in {"poststop", "killed"} \/ (apc[a] = "live" /\ a \in mayExit))
  /\ Pc(a, "c.stopping")
  /\ UNCHANGED <<st, Tree, sig, mayExit, phase, awork, acur, asup, nenv, dev>>
ACStopping(a) ==
  /\ apc[a] = "c.stopping"
  /\ st' = [st EXCEPT ![a] = Max(@, Stopping)] /\ Pc(a, "t.pick")
  /\ phase' = [phase EXCEPT ![a] = "cleanup"] /\ awork' = [awork EXCEPT ![a] = Only(a)]
  /\ UNCHANGED <<Tree, sig, mayExit, acur, asup, nenv, dev>>

\* terminate(), one visited actor = a kill step (status load + one-shot send) and a take step.
\* The worklist is kept as a bag: the order in which HashMap hands out the children is open.
Visit(a, x) ==
  /\ apc[a] = "t.pick" /\ awork[a][x] > 0
  /\ acur' = [acur EXCEPT ![a] = x] /\ awork' = [awork EXCEPT ![a][x] = @ - 1] /\ Pc(a, "t.take")
ATermKill(a, x) ==
  /\ Visit(a, x) /\ st[x] < Stopping /\ KillWord(x)
  /\ UNCHANGED <<st, Tree, mayExit, phase, asup, nenv, dev>>
ATermNoKill(a, x) ==
  /\ Visit(a, x) /\ st[x] >= Stopping
  /\ UNCHANGED <<st, Tree, sig, mayExit, phase, asup, nenv, dev>>
\* DEVIATION (DESIGN 6.1, repaired by the fix: commit): terminate() used to send Kill only to
\* actors with status <= Upgrading, so a Draining actor was detached but never killed
Dev_DrainingChildNotKilled(a, x) ==
  /\ AllowDev /\ Visit(a, x) /\ st[x] = Draining
  /\ dev' = dev \cup {"DrainingChildNotKilled"}
  /\ UNCHANGED <<st, Tree, sig, mayExit, phase, asup, nenv>>
ATermTake(a) ==
  /\ apc[a] = "t.take"
  /\ TakeRegion(acur[a]) /\ Pc(a, "t.pick")
  /\ awork' = [awork EXCEPT ![a] = [x \in Actors |-> awork[a][x] + (IF x \in Kids(acur[a]) THEN 1 ELSE 0)]]
  /\ UNCHANGED <<st, sig, mayExit, phase, acur, asup, nenv, lk, dev>>
ATermDone(a) ==
  /\ apc[a] = "t.pick" /\ InWork(a) = {}
  /\ Pc(a, IF phase[a] = "early" THEN "killed" ELSE "c.notify")
  /\ UNCHANGED <<st, Tree, sig, mayExit, phase, awork, acur, asup, nenv, dev>>

\* rest of cleanup: tell the supervisor, unlink from it, publish Stopped
ANotify(a) ==
  /\ apc[a] = "c.notify" /\ Pc(a, "c.supread")
  /\ UNCHANGED <<st, Tree, sig, mayExit, phase, awork, acur, asup, nenv, dev>>
ASupReadNone(a) ==
  /\ apc[a] = "c.supread" /\ sup[a] = NoA /\ Pc(a, "c.setstopped")
  /\ UNCHANGED <<st, Tree, sig, mayExit, phase, awork, acur, asup, nenv, dev>>
ASupReadSome(a) ==
  /\ apc[a] = "c.supread" /\ sup[a] # NoA
  /\ asup' = [asup EXCEPT ![a] = sup[a]] /\ Pc(a, "c.unlink")
  /\ UNCHANGED <<st, Tree, sig, mayExit, phase, awork, acur, nenv, dev>>
AUnlink(a) ==
  /\ apc[a] = "c.unlink" /\ UnlinkRegion(a, asup[a]) /\ Pc(a, "c.setstopped")
  /\ UNCHANGED <<st, sig, mayExit, phase, awork, acur, asup, nenv, dev>>
AStopped(a) ==
  /\ apc[a] = "c.setstopped"
  /\ st' = [st EXCEPT ![a] = Stopped] /\ Pc(a, "dead")
  /\ UNCHANGED <<Tree, sig, mayExit, phase, awork, acur, asup, nenv, dev>>

\* start(): Starting, Running (and Upgrading) are stored by the actor's own task; requests to move
\* backwards are ignored. Irrelevant to the tree as long as the value stays below Draining, so M
\* starts from the interesting values instead (InitSt); traces of whole actors contain these stores.
ASetStatus(a, v) ==
  /\ apc[a] = "live" /\ v \in {Starting, Running, Upgrading}
  /\ st' = [st EXCEPT ![a] = Max(@, v)]
  /\ UNCHANGED <<Tree, sig, mayExit, Proc, nenv, dev>>

ActorStep(a) ==
  \/ ABeginStop(a) \/ ASigTake(a) \/ AKilledStopping(a) \/ ACleanupBegin(a) \/ ACStopping(a)
  \/ ATermTake(a) \/ ATermDone(a) \/ ANotify(a) \/ ASupReadNone(a) \/ ASupReadSome(a) \/ AUnlink(a) \/ AStopped(a)
  \/ \E x \in Actors : ATermKill(a, x) \/ ATermNoKill(a, x) \/ Dev_DrainingChildNotKilled(a, x)
EnvStep ==
  \/ \E c, s \in Actors : EnvLink(c, s) \/ EnvUnlink(c, s)
  \/ \E x \in Actors : EnvKill(x) \/ EnvDrain(x)

Next == EnvStep \/ \E a \in Actors : ActorStep(a)
Spec == Init /\ [][Next]_vars

-----------------------------------------------------------------------------
(* Properties (C05). Every tree-lock region is one action, so every state is a state in which the
   tree lock is free: the two-sidedness is required everywhere.                                   *)
TypeOK ==
  /\ \A a \in Actors : st[a] \in 0..6 /\ sup[a] \in Actors \cup {NoA} /\ sig[a] \in {"none", "sent", "taken"}
  /\ \A a \in Actors : children[a] = CLOSED \/ children[a] \subseteq Actors

\* c's supervisor is p  <=>  c is in p's child set; in particular c is in at most one child set
TwoSided == \A c, p \in Actors : (sup[c] = p) <=> (IsOpen(p) /\ c \in children[p])
\* a stopped actor has neither supervisor nor children, and nobody names it as supervisor
StoppedIsolated == \A a \in Actors : st[a] = Stopped =>
                      /\ sup[a] = NoA /\ ~IsOpen(a) /\ \A c \in Actors : sup[c] # a
\* a draining / stopping / stopped actor never gains a child, a closed set stays closed (action properties)
NoGain == \A p \in Actors :
             /\ (st[p] >= Draining /\ IsOpen(p) /\ children'[p] # CLOSED) => children'[p] \subseteq children[p]
             /\ ~IsOpen(p) => children'[p] = CLOSED
NoChildOfStopping == [][NoGain]_vars
StatusMonotone == [][\A a \in Actors : st'[a] >= st[a]]_vars

\* "beneath p" by the API's account: transitive closure of lk
LkKids(S) == {c \in Actors : lk[c] \in S}
RECURSIVE Reach(_, _)
Reach(S, n) == IF n = 0 THEN S ELSE Reach(S \cup LkKids(S), n - 1)
LkDesc(p) == Reach(LkKids({p}), Cardinality(Actors))
Signalled(d) == sig[d] # "none" \/ st[d] >= Stopping
\* d, or something d hangs beneath, is still in the worklist of a running sweep (or is the actor whose
\* children that sweep is about to take)
PendingSweep(d) == \E q \in Actors :
                     /\ apc[q] \in {"t.pick", "t.take"}
                     /\ \/ \E e \in InWork(q) : d = e \/ d \in LkDesc(e)
                        \/ (apc[q] = "t.take" /\ d \in LkDesc(acur[q]))
TermDone(p) == apc[p] \in {"killed", "c.notify", "c.supread", "c.unlink", "c.setstopped", "dead"}
\* once p's sweep is over, everything linked beneath it has been killed (or is already on its way
\* out), or is still ahead of a sweep that is running (an ancestor's, or its parent's own)
SubtreeSignalled == \A p \in Actors : TermDone(p) => \A d \in LkDesc(p) : Signalled(d) \/ PendingSweep(d)
\* a link / spawn_linked that returned true against p: p stopped => the child was swept
RacingLink == \A c \in Actors : (lk[c] # NoA /\ st[lk[c]] = Stopped) => (Signalled(c) \/ PendingSweep(c))
\* when nothing is in flight (no exit under way, no Kill waiting to be taken): everything beneath a
\* stopped actor is stopped
Settled == \A a \in Actors : apc[a] \in {"live", "dead"} /\ (apc[a] = "live" => sig[a] # "sent")
SubtreeDies == Settled => \A p \in Actors : st[p] = Stopped => \A d \in LkDesc(p) : st[d] = Stopped
NoDeviation == dev = {}
=============================================================================
