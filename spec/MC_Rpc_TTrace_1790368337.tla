---- MODULE MC_Rpc_TTrace_1790368337 ----
EXTENDS Sequences, TLCExt, Toolbox, Naturals, TLC, MC_Rpc

_expression ==
    LET MC_Rpc_TEExpression == INSTANCE MC_Rpc_TEExpression
    IN MC_Rpc_TEExpression!expression
----

_trace ==
    LET MC_Rpc_TETrace == INSTANCE MC_Rpc_TETrace
    IN MC_Rpc_TETrace!trace
----

_inv ==
    ~(
        TLCGet("level") = Len(_TETrace)
        /\
        ac = ([c1 |-> [st |-> "run", stp |-> "none", sig |-> "none", mq |-> <<[p |-> 1, k |-> "req", v |-> 0]>>, cur |-> [p |-> 0, k |-> "none", v |-> 0], busy |-> FALSE, slept |-> FALSE, exitK |-> "none"], c2 |-> [st |-> "run", stp |-> "none", sig |-> "none", mq |-> <<[p |-> 2, k |-> "req", v |-> 0]>>, cur |-> [p |-> 0, k |-> "none", v |-> 0], busy |-> FALSE, slept |-> FALSE, exitK |-> "none"]])
        /\
        pt = (<<[kind |-> "multi", g |-> 1, hasT |-> TRUE, v |-> 0, st |-> "open", loc |-> "mq", at |-> "c1", rx |-> FALSE, pc |-> "done", dl |-> 2, startAt |-> 0, sub |-> "timeout", rv |-> 0, fw |-> "none", fwn |-> 0, fwr |-> 0, late |-> FALSE, cross |-> FALSE, early |-> FALSE], [kind |-> "multi", g |-> 1, hasT |-> TRUE, v |-> 0, st |-> "open", loc |-> "mq", at |-> "c2", rx |-> TRUE, pc |-> "wait", dl |-> 4, startAt |-> 2, sub |-> "none", rv |-> 0, fw |-> "none", fwn |-> 0, fwr |-> 0, late |-> FALSE, cross |-> FALSE, early |-> FALSE], [kind |-> "call", g |-> 0, hasT |-> FALSE, v |-> 0, st |-> "none", loc |-> "none", at |-> "none", rx |-> FALSE, pc |-> "idle", dl |-> 0, startAt |-> 0, sub |-> "none", rv |-> 0, fw |-> "none", fwn |-> 0, fwr |-> 0, late |-> FALSE, cross |-> FALSE, early |-> FALSE]>>)
        /\
        now = (2)
    )
----

_init ==
    /\ ac = _TETrace[1].ac
    /\ now = _TETrace[1].now
    /\ pt = _TETrace[1].pt
----

_next ==
    /\ \E i,j \in DOMAIN _TETrace:
        /\ \/ /\ j = i + 1
              /\ i = TLCGet("level")
        /\ ac  = _TETrace[i].ac
        /\ ac' = _TETrace[j].ac
        /\ now  = _TETrace[i].now
        /\ now' = _TETrace[j].now
        /\ pt  = _TETrace[i].pt
        /\ pt' = _TETrace[j].pt

\* Uncomment the ASSUME below to write the states of the error trace
\* to the given file in Json format. Note that you can pass any tuple
\* to `JsonSerialize`. For example, a sub-sequence of _TETrace.
    \* ASSUME
    \*     LET J == INSTANCE Json
    \*         IN J!JsonSerialize("MC_Rpc_TTrace_1790368337.json", _TETrace)

=============================================================================

 Note that you can extract this module `MC_Rpc_TEExpression`
  to a dedicated file to reuse `expression` (the module in the 
  dedicated `MC_Rpc_TEExpression.tla` file takes precedence 
  over the module `MC_Rpc_TEExpression` below).

---- MODULE MC_Rpc_TEExpression ----
EXTENDS Sequences, TLCExt, Toolbox, Naturals, TLC, MC_Rpc

expression == 
    [
        \* To hide variables of the `MC_Rpc` spec from the error trace,
        \* remove the variables below.  The trace will be written in the order
        \* of the fields of this record.
        ac |-> ac
        ,now |-> now
        ,pt |-> pt
        
        \* Put additional constant-, state-, and action-level expressions here:
        \* ,_stateNumber |-> _TEPosition
        \* ,_acUnchanged |-> ac = ac'
        
        \* Format the `ac` variable as Json value.
        \* ,_acJson |->
        \*     LET J == INSTANCE Json
        \*     IN J!ToJson(ac)
        
        \* Lastly, you may build expressions over arbitrary sets of states by
        \* leveraging the _TETrace operator.  For example, this is how to
        \* count the number of times a spec variable changed up to the current
        \* state in the trace.
        \* ,_acModCount |->
        \*     LET F[s \in DOMAIN _TETrace] ==
        \*         IF s = 1 THEN 0
        \*         ELSE IF _TETrace[s].ac # _TETrace[s-1].ac
        \*             THEN 1 + F[s-1] ELSE F[s-1]
        \*     IN F[_TEPosition - 1]
    ]

=============================================================================



Parsing and semantic processing can take forever if the trace below is long.
 In this case, it is advised to uncomment the module below to deserialize the
 trace from a generated binary file.

\*
\*---- MODULE MC_Rpc_TETrace ----
\*EXTENDS IOUtils, TLC, MC_Rpc
\*
\*trace == IODeserialize("MC_Rpc_TTrace_1790368337.bin", TRUE)
\*
\*=============================================================================
\*

---- MODULE MC_Rpc_TETrace ----
EXTENDS TLC, MC_Rpc

trace == 
    <<
    ([ac |-> [c1 |-> [st |-> "run", stp |-> "none", sig |-> "none", mq |-> <<>>, cur |-> [p |-> 0, k |-> "none", v |-> 0], busy |-> FALSE, slept |-> FALSE, exitK |-> "none"], c2 |-> [st |-> "run", stp |-> "none", sig |-> "none", mq |-> <<>>, cur |-> [p |-> 0, k |-> "none", v |-> 0], busy |-> FALSE, slept |-> FALSE, exitK |-> "none"]],pt |-> <<[kind |-> "call", g |-> 0, hasT |-> FALSE, v |-> 0, st |-> "none", loc |-> "none", at |-> "none", rx |-> FALSE, pc |-> "idle", dl |-> 0, startAt |-> 0, sub |-> "none", rv |-> 0, fw |-> "none", fwn |-> 0, fwr |-> 0, late |-> FALSE, cross |-> FALSE, early |-> FALSE], [kind |-> "call", g |-> 0, hasT |-> FALSE, v |-> 0, st |-> "none", loc |-> "none", at |-> "none", rx |-> FALSE, pc |-> "idle", dl |-> 0, startAt |-> 0, sub |-> "none", rv |-> 0, fw |-> "none", fwn |-> 0, fwr |-> 0, late |-> FALSE, cross |-> FALSE, early |-> FALSE], [kind |-> "call", g |-> 0, hasT |-> FALSE, v |-> 0, st |-> "none", loc |-> "none", at |-> "none", rx |-> FALSE, pc |-> "idle", dl |-> 0, startAt |-> 0, sub |-> "none", rv |-> 0, fw |-> "none", fwn |-> 0, fwr |-> 0, late |-> FALSE, cross |-> FALSE, early |-> FALSE]>>,now |-> 0]),
    ([ac |-> [c1 |-> [st |-> "run", stp |-> "none", sig |-> "none", mq |-> <<[p |-> 1, k |-> "req", v |-> 0]>>, cur |-> [p |-> 0, k |-> "none", v |-> 0], busy |-> FALSE, slept |-> FALSE, exitK |-> "none"], c2 |-> [st |-> "run", stp |-> "none", sig |-> "none", mq |-> <<>>, cur |-> [p |-> 0, k |-> "none", v |-> 0], busy |-> FALSE, slept |-> FALSE, exitK |-> "none"]],pt |-> <<[kind |-> "multi", g |-> 1, hasT |-> TRUE, v |-> 0, st |-> "open", loc |-> "mq", at |-> "c1", rx |-> TRUE, pc |-> "wait", dl |-> 2, startAt |-> 0, sub |-> "none", rv |-> 0, fw |-> "none", fwn |-> 0, fwr |-> 0, late |-> FALSE, cross |-> FALSE, early |-> FALSE], [kind |-> "call", g |-> 0, hasT |-> FALSE, v |-> 0, st |-> "none", loc |-> "none", at |-> "none", rx |-> FALSE, pc |-> "idle", dl |-> 0, startAt |-> 0, sub |-> "none", rv |-> 0, fw |-> "none", fwn |-> 0, fwr |-> 0, late |-> FALSE, cross |-> FALSE, early |-> FALSE], [kind |-> "call", g |-> 0, hasT |-> FALSE, v |-> 0, st |-> "none", loc |-> "none", at |-> "none", rx |-> FALSE, pc |-> "idle", dl |-> 0, startAt |-> 0, sub |-> "none", rv |-> 0, fw |-> "none", fwn |-> 0, fwr |-> 0, late |-> FALSE, cross |-> FALSE, early |-> FALSE]>>,now |-> 0]),
    ([ac |-> [c1 |-> [st |-> "run", stp |-> "none", sig |-> "none", mq |-> <<[p |-> 1, k |-> "req", v |-> 0]>>, cur |-> [p |-> 0, k |-> "none", v |-> 0], busy |-> FALSE, slept |-> FALSE, exitK |-> "none"], c2 |-> [st |-> "run", stp |-> "none", sig |-> "none", mq |-> <<>>, cur |-> [p |-> 0, k |-> "none", v |-> 0], busy |-> FALSE, slept |-> FALSE, exitK |-> "none"]],pt |-> <<[kind |-> "multi", g |-> 1, hasT |-> TRUE, v |-> 0, st |-> "open", loc |-> "mq", at |-> "c1", rx |-> TRUE, pc |-> "wait", dl |-> 2, startAt |-> 0, sub |-> "none", rv |-> 0, fw |-> "none", fwn |-> 0, fwr |-> 0, late |-> FALSE, cross |-> FALSE, early |-> FALSE], [kind |-> "call", g |-> 0, hasT |-> FALSE, v |-> 0, st |-> "none", loc |-> "none", at |-> "none", rx |-> FALSE, pc |-> "idle", dl |-> 0, startAt |-> 0, sub |-> "none", rv |-> 0, fw |-> "none", fwn |-> 0, fwr |-> 0, late |-> FALSE, cross |-> FALSE, early |-> FALSE], [kind |-> "call", g |-> 0, hasT |-> FALSE, v |-> 0, st |-> "none", loc |-> "none", at |-> "none", rx |-> FALSE, pc |-> "idle", dl |-> 0, startAt |-> 0, sub |-> "none", rv |-> 0, fw |-> "none", fwn |-> 0, fwr |-> 0, late |-> FALSE, cross |-> FALSE, early |-> FALSE]>>,now |-> 2]),
    ([ac |-> [c1 |-> [st |-> "run", stp |-> "none", sig |-> "none", mq |-> <<[p |-> 1, k |-> "req", v |-> 0]>>, cur |-> [p |-> 0, k |-> "none", v |-> 0], busy |-> FALSE, slept |-> FALSE, exitK |-> "none"], c2 |-> [st |-> "run", stp |-> "none", sig |-> "none", mq |-> <<>>, cur |-> [p |-> 0, k |-> "none", v |-> 0], busy |-> FALSE, slept |-> FALSE, exitK |-> "none"]],pt |-> <<[kind |-> "multi", g |-> 1, hasT |-> TRUE, v |-> 0, st |-> "open", loc |-> "mq", at |-> "c1", rx |-> FALSE, pc |-> "wait", dl |-> 2, startAt |-> 0, sub |-> "timeout", rv |-> 0, fw |-> "none", fwn |-> 0, fwr |-> 0, late |-> FALSE, cross |-> FALSE, early |-> FALSE], [kind |-> "call", g |-> 0, hasT |-> FALSE, v |-> 0, st |-> "none", loc |-> "none", at |-> "none", rx |-> FALSE, pc |-> "idle", dl |-> 0, startAt |-> 0, sub |-> "none", rv |-> 0, fw |-> "none", fwn |-> 0, fwr |-> 0, late |-> FALSE, cross |-> FALSE, early |-> FALSE], [kind |-> "call", g |-> 0, hasT |-> FALSE, v |-> 0, st |-> "none", loc |-> "none", at |-> "none", rx |-> FALSE, pc |-> "idle", dl |-> 0, startAt |-> 0, sub |-> "none", rv |-> 0, fw |-> "none", fwn |-> 0, fwr |-> 0, late |-> FALSE, cross |-> FALSE, early |-> FALSE]>>,now |-> 2]),
    ([ac |-> [c1 |-> [st |-> "run", stp |-> "none", sig |-> "none", mq |-> <<[p |-> 1, k |-> "req", v |-> 0]>>, cur |-> [p |-> 0, k |-> "none", v |-> 0], busy |-> FALSE, slept |-> FALSE, exitK |-> "none"], c2 |-> [st |-> "run", stp |-> "none", sig |-> "none", mq |-> <<>>, cur |-> [p |-> 0, k |-> "none", v |-> 0], busy |-> FALSE, slept |-> FALSE, exitK |-> "none"]],pt |-> <<[kind |-> "multi", g |-> 1, hasT |-> TRUE, v |-> 0, st |-> "open", loc |-> "mq", at |-> "c1", rx |-> FALSE, pc |-> "done", dl |-> 2, startAt |-> 0, sub |-> "timeout", rv |-> 0, fw |-> "none", fwn |-> 0, fwr |-> 0, late |-> FALSE, cross |-> FALSE, early |-> FALSE], [kind |-> "call", g |-> 0, hasT |-> FALSE, v |-> 0, st |-> "none", loc |-> "none", at |-> "none", rx |-> FALSE, pc |-> "idle", dl |-> 0, startAt |-> 0, sub |-> "none", rv |-> 0, fw |-> "none", fwn |-> 0, fwr |-> 0, late |-> FALSE, cross |-> FALSE, early |-> FALSE], [kind |-> "call", g |-> 0, hasT |-> FALSE, v |-> 0, st |-> "none", loc |-> "none", at |-> "none", rx |-> FALSE, pc |-> "idle", dl |-> 0, startAt |-> 0, sub |-> "none", rv |-> 0, fw |-> "none", fwn |-> 0, fwr |-> 0, late |-> FALSE, cross |-> FALSE, early |-> FALSE]>>,now |-> 2]),
    ([ac |-> [c1 |-> [st |-> "run", stp |-> "none", sig |-> "none", mq |-> <<[p |-> 1, k |-> "req", v |-> 0]>>, cur |-> [p |-> 0, k |-> "none", v |-> 0], busy |-> FALSE, slept |-> FALSE, exitK |-> "none"], c2 |-> [st |-> "run", stp |-> "none", sig |-> "none", mq |-> <<[p |-> 2, k |-> "req", v |-> 0]>>, cur |-> [p |-> 0, k |-> "none", v |-> 0], busy |-> FALSE, slept |-> FALSE, exitK |-> "none"]],pt |-> <<[kind |-> "multi", g |-> 1, hasT |-> TRUE, v |-> 0, st |-> "open", loc |-> "mq", at |-> "c1", rx |-> FALSE, pc |-> "done", dl |-> 2, startAt |-> 0, sub |-> "timeout", rv |-> 0, fw |-> "none", fwn |-> 0, fwr |-> 0, late |-> FALSE, cross |-> FALSE, early |-> FALSE], [kind |-> "multi", g |-> 1, hasT |-> TRUE, v |-> 0, st |-> "open", loc |-> "mq", at |-> "c2", rx |-> TRUE, pc |-> "wait", dl |-> 4, startAt |-> 2, sub |-> "none", rv |-> 0, fw |-> "none", fwn |-> 0, fwr |-> 0, late |-> FALSE, cross |-> FALSE, early |-> FALSE], [kind |-> "call", g |-> 0, hasT |-> FALSE, v |-> 0, st |-> "none", loc |-> "none", at |-> "none", rx |-> FALSE, pc |-> "idle", dl |-> 0, startAt |-> 0, sub |-> "none", rv |-> 0, fw |-> "none", fwn |-> 0, fwr |-> 0, late |-> FALSE, cross |-> FALSE, early |-> FALSE]>>,now |-> 2])
    >>
----


=============================================================================

---- CONFIG MC_Rpc_TTrace_1790368337 ----
CONSTANTS
    Actors = { "c1" , "c2" }
    Collector = "none"
    Ports = { 1 , 2 , 3 }
    Plan <- PlanC
    Policies = { "reply" , "stash" , "both" }
    EnvOps = { "kill" , "drain" }
    MaxNow = 3
    VirtualClock = TRUE

INVARIANT
    _inv

CHECK_DEADLOCK
    \* CHECK_DEADLOCK off because of PROPERTY or INVARIANT above.
    FALSE

INIT
    _init

NEXT
    _next

CONSTANT
    _TETrace <- _trace

ALIAS
    _expression
=============================================================================
\* Generated on Fri Sep 25 20:32:20 UTC 2026