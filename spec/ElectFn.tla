------------------------------- MODULE ElectFn -------------------------------
(* C18, function level: the session election of ractor_cluster (node.rs: elect_sessions) and the
   node server's session-table operations (register_session, candidates_for_peer, check_candidate,
   check_session, commit_authenticated, is_elected) transcribed as operators.

   A candidate is [id, srv, nonce]: the local actor id of the session, whether this node accepted
   the connection, and the dialler's connection nonce (0 = legacy peer, no nonce).
   Node names are ordered by Rank (string comparison in the code).                              *)
EXTENDS Naturals, FiniteSets, Sequences, TLC

Names == {"a@h", "b@h", "c@h"}
Rank == [n \in Names |-> CASE n = "a@h" -> 1 [] n = "b@h" -> 2 [] OTHER -> 3]

Min(S) == CHOOSE x \in S : \A y \in S : x <= y

\* elect_sessions(this_node_name, peer_name, candidates): the surviving candidates
Elect(this, peer, S) ==
  IF Cardinality(S) <= 1 THEN S ELSE
  LET hasS == \E k \in S : k.srv
      hasC == \E k \in S : ~k.srv
      \* simultaneous connect: keep the connection dialled by the node whose name sorts last
      S1 == IF hasS /\ hasC /\ this # peer THEN {k \in S : k.srv = (Rank[peer] > Rank[this])} ELSE S
      ns == {k.nonce : k \in {x \in S1 : x.nonce # 0}}
      \* lowest nonce among those that carry one
      S2 == IF ns # {} THEN {k \in S1 : k.nonce = Min(ns)} ELSE S1
      \* only the accepting endpoint breaks a remaining tie (by its local actor id)
      S3 == IF Cardinality(S2) > 1 /\ (\A k \in S2 : k.srv)
              THEN {k \in S2 : k.id = Min({x.id : x \in S2})} ELSE S2
  IN S3

(* ---------------------------------------------------------------------------------------------
   Session table of one node server. Slots name sessions; a slot record is
     [st: "none" | "open" | "gone", id, srv, peer ("" = no name registered), nonce, authed, rdy]
   "open" = present in node_sessions; authed = member of authenticated_sessions; rdy = a ready
   event was reported for it.                                                                     *)
NoSess == [st |-> "none", id |-> 0, srv |-> FALSE, peer |-> "", nonce |-> 0, authed |-> FALSE, rdy |-> FALSE]

Named(t, p) == {c \in DOMAIN t : t[c].st = "open" /\ t[c].peer = p}
CandsFor(t, p, authOnly) == {c \in Named(t, p) : authOnly => t[c].authed}
AsCand(t, c) == [id |-> t[c].id, srv |-> t[c].srv, nonce |-> t[c].nonce]
\* slots whose candidate record is elected among the slots cs
ElectT(this, t, p, cs) == LET E == Elect(this, p, {AsCand(t, x) : x \in cs}) IN {c \in cs : AsCand(t, c) \in E}

TOpen(t, c, id, srv) == [t EXCEPT ![c] = [NoSess EXCEPT !.st = "open", !.id = id, !.srv = srv]]
\* register_session
TUpdate(t, c, p, nonce) == IF t[c].st = "open" THEN [t EXCEPT ![c].peer = p, ![c].nonce = nonce] ELSE t

\* check_candidate(actor_id)
CheckCandidate(this, t, c) ==
  IF t[c].st # "open" \/ t[c].peer = "" THEN "other"
  ELSE LET p == t[c].peer
           cs == CandsFor(t, p, TRUE) \cup {c}      \* authenticated competitors plus the asking session only
           el == ElectT(this, t, p, cs)
       IN IF c \notin el THEN "other" ELSE IF Cardinality(cs) > 1 THEN "this" ELSE "no_other"

\* check_session(NameMessage{name: p, connection_id: nonce})
CheckSession(this, t, p, nonce) ==
  LET m == {c \in Named(t, p) : t[c].nonce = nonce}
  IN IF Cardinality(m) = 1 THEN CheckCandidate(this, t, CHOOSE c \in m : TRUE)
     ELSE IF m # {} THEN "no_other"                  \* repeated / legacy nonce: all may authenticate
     ELSE LET ex == CandsFor(t, p, TRUE)
          IN IF ex = {} THEN "no_other"
             ELSE IF \E c \in ex : t[c].srv THEN "duplicate"
             ELSE IF Rank[p] < Rank[this] THEN "this" ELSE "other"

\* commit_authenticated(actor_id): [ok, survives, losers, t]
Commit(this, t, c) ==
  IF t[c].st # "open" \/ t[c].peer = "" THEN [ok |-> FALSE, survives |-> FALSE, losers |-> {}, t |-> t]
  ELSE LET p == t[c].peer
           t1 == [t EXCEPT ![c].authed = TRUE]
           cs == CandsFor(t1, p, TRUE)
           el == ElectT(this, t1, p, cs)
           lo == cs \ el
       IN [ok |-> TRUE, survives |-> c \in el, losers |-> lo,
           t |-> [x \in DOMAIN t |-> IF x \in lo THEN [t1[x] EXCEPT !.authed = FALSE] ELSE t1[x]]]

\* is_elected(actor_id)
IsElected(this, t, c) ==
  /\ t[c].st = "open" /\ t[c].authed /\ t[c].peer # ""
  /\ c \in ElectT(this, t, t[c].peer, CandsFor(t, t[c].peer, TRUE))

\* the supervision arm for an exited session
TGone(t, c) == [t EXCEPT ![c] = [NoSess EXCEPT !.st = "gone"]]
\* what GetSessions reports
Visible(t) == {c \in DOMAIN t : t[c].st = "open" /\ t[c].authed}
=============================================================================
