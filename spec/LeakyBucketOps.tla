-------------------------- MODULE LeakyBucketOps --------------------------
(* The pure part of LeakyBucket: ractor/src/factory/ratelim.rs LeakyBucketRateLimiter::new /
   refresh / check / bump as operators on a record [refill, interval, max, balance, dl].
   Time in whole milliseconds; BIG is the clamp class for values beyond the model's range
   (usize::MAX, MAX_LB_BALANCE, Duration::MAX): arithmetic saturates into it, decrements leave it. *)
EXTENDS Naturals

CONSTANTS BIG,        \* clamp class (a number larger than every small value used)
          NoInit      \* "initial balance not given" (a number different from every other initial)

Min(a, b) == IF a <= b THEN a ELSE b
SatAdd(a, b) == IF a >= BIG \/ b >= BIG \/ a + b >= BIG THEN BIG ELSE a + b
SatMul(a, b) == IF a = 0 \/ b = 0 THEN 0 ELSE IF a >= BIG \/ b >= BIG \/ a * b >= BIG THEN BIG ELSE a * b
Dec(a) == IF a >= BIG THEN BIG ELSE a - 1

\* LeakyBucketRateLimiter::new  (deadline BIG = None: Instant::now().checked_add(Duration::MAX))
New(refill, interval, max, initial, now) ==
  [refill |-> refill, interval |-> interval, max |-> max,
   balance |-> Min(IF initial = NoInit THEN max ELSE initial, max),
   dl |-> IF interval >= BIG THEN BIG ELSE now + interval]

\* fn refresh(&mut self, now)
Refresh(b, now) ==
  IF b.dl >= BIG \/ now < b.dl THEN b
  ELSE IF b.interval = 0
    THEN [b EXCEPT !.balance = Min(SatAdd(@, b.refill), b.max), !.dl = now]
    ELSE LET since == now - b.dl
             periods == (since \div b.interval) + 1
             tokens == SatMul(periods, b.refill)
         IN [b EXCEPT !.balance = Min(SatAdd(@, tokens), b.max),
                      !.dl = now + (b.interval - (since % b.interval))]
\* fn check(&mut self) -> bool: the limiter after the call; the result is  .balance > 0
Check(b, now) == Refresh(b, now)
CheckOk(b, now) == Refresh(b, now).balance > 0
\* fn bump(&mut self)
Bump(b) == IF b.balance > 0 THEN [b EXCEPT !.balance = Dec(@)] ELSE b

=============================================================================
