SPECIFICATION FairSpec
CONSTANTS
  Waiters = {"w1", "w2"}
  MayTime = {"w2"}
  MayJoin = {"w1"}
  MaxRounds = 1
  Cfgs <- CfgsSmall
  RacerOn = FALSE
  LateOn = FALSE
  CheckFirst = FALSE
PROPERTIES AllWaitersFinish
CHECK_DEADLOCK FALSE
