SPECIFICATION TSpec
CONSTANTS
  Senders = {"s1", "s2", "s3"}
  Drainers = {"d1", "d2"}
  MsgsPer = 3
  ConsumerMayExit = TRUE
CONSTRAINT Progress
INVARIANTS
  NothingAfterMarker MarkerUnique AtMostOnce ErrNeverHandled RealTimeFifo QueueFifo
  AfterDrainReturn OkNotLostWhileRunning
POSTCONDITION Accepted
CHECK_DEADLOCK FALSE
