---------------------------- MODULE MC_ExitWait ----------------------------
EXTENDS ExitWait
\* enrolments explored by the model checker
CfgFull == [named |-> TRUE, inpg |-> TRUE, hsup |-> TRUE, kids |-> {"k1"}]
CfgTwoKids == [named |-> TRUE, inpg |-> TRUE, hsup |-> TRUE, kids |-> {"k1", "k2"}]
CfgBare == [named |-> FALSE, inpg |-> FALSE, hsup |-> FALSE, kids |-> {}]
CfgsSmall == {CfgFull}
CfgsBig == {CfgFull, CfgTwoKids, CfgBare}
=============================================================================
