SPECIFICATION Spec
CONSTANTS
  H = 3
  Max = 4
  ChunkCap = 3
  Lens = {0, 1, 2, 4, 5, 9}
  MaxFrames = 3
INVARIANTS
  OversizeNeverRead RequestsBounded BufferBounded ChunkingIndependent NothingAfterBad
CHECK_DEADLOCK TRUE
