-------------------------- MODULE Trace_Lifecycle --------------------------
(* Trace validation for Lifecycle: each recorded line (observations logged by the scripted harness
   actors / clients, and the few internal points in the actor loop) must be an enabled action.  *)
EXTENDS Lifecycle, Json, IOUtils, TLCExt

Rec == ndJsonDeserialize(IOEnv.TRACE)
Strict == IOEnv.STRICT = "1"
N == Len(Rec)

TrSupOf == [a \in Actors |-> IF a \in {"A", "L", "C"} THEN "S" ELSE IF a = "B" THEN "A" ELSE NoA]
TrMonPairs == Actors \X Actors
TrMax == [a \in Actors |-> 1000]
TrEnvOps == [a \in Actors |-> {"stop", "kill", "drain", "abort", "selfkill", "selfstop", "joinpg"}]

VARIABLES l, dev, stray,  \* stray: names momentarily held by a probe actor of the harness (obs.clash d=0)
          kidop          \* per actor: "stop" / "drain" still to be sent to it by a running stop_children_and_wait / drain_children_and_wait
tvars == <<vars, l, dev, stray, kidop>>
Ev == Rec[l]
X == Ev.x
Adv == l' = l + 1
Live == l <= N
IsA(a) == Live /\ Ev.a = a /\ (IF Ev.a \in {"reset", "obs.end"} THEN TRUE ELSE Ev.x \in Actors)
Same == UNCHANGED vars
ND == UNCHANGED <<dev, stray, kidop>>

\* internal points: consumed in strict mode, skipped (and their actions taken silently) in lenient mode
Internal == {"port.stop", "port.sup", "port.msg", "port.drain", "sig.handled", "guard.cleanup", "guard.done", "decode.dropped", "tl.start"}
IntA(lbl, A(_)) == IF Strict THEN IsA(lbl) /\ A(X) /\ Adv
                              ELSE Live /\ (\E a \in Actors : A(a)) /\ l' = l
SkipInternal == ~Strict /\ Live /\ Ev.a \in Internal /\ Same /\ Adv

CbEnter ==
  /\ IsA("obs.cb_enter") /\ Adv
  /\ \/ Ev.k = "pre_start" /\ StartBegin(X) /\ ND
     \/ Ev.k = "post_start" /\ PostStartBegin(X) /\ ND
     \/ Ev.k = "post_stop" /\ PostStopBegin(X) /\ ND
     \/ Ev.k = "handle" /\ EnterMsg(X) /\ ac[X].curMsg = Ev.m /\ ND
     \/ /\ Ev.k = "handle_sup" /\ EnterSup(X)
        /\ ac[X].cur.ek = Ev.ek /\ ac[X].cur.about = Ev.about /\ ac[X].cur.hs = (Ev.hs = 1) /\ ac[X].cur.reason = Ev.reason
        \* C04 reads "kill: no state"; the code reports the state for kills landing in the loop
        /\ dev' = IF Ev.ek = "terminated" /\ Ev.reason = "killed" /\ Ev.hs = 1 THEN dev \cup {"KillCarriesState"} ELSE dev
        /\ UNCHANGED <<stray, kidop>>
CbExit ==
  /\ IsA("obs.cb_exit") /\ Adv /\ ND
  /\ \/ Ev.k = "pre_start" /\ PreEnd(X, Ev.o)
     \/ Ev.k = "post_start" /\ PostStartEnd(X, Ev.o)
     \/ Ev.k \in {"handle", "handle_sup"} /\ ac[X].cb.k = Ev.k /\ HandlerEnd(X, Ev.o)
     \/ Ev.k = "post_stop" /\ PostStopEnd(X, Ev.o)
CbBody ==
  \/ IsA("obs.tick") /\ ac[X].cb.k # "none" /\ ~ac[X].cb.susp /\ Same /\ Adv /\ ND
  \/ IsA("obs.yield") /\ Yield(X) /\ Adv /\ ND
  \/ IsA("obs.resume") /\ Resume(X) /\ Adv /\ ND
  \/ IsA("obs.joinpg") /\ JoinPg(X) /\ Adv /\ ND

EnvEv ==
  \/ IsA("obs.spawn_call") /\ SpawnCall(X) /\ Adv /\ ND
  \/ IsA("obs.spawn_ret") /\ ac[X].pc # "none" /\ Same /\ Adv /\ ND
  \/ IsA("obs.send") /\ Send(X) /\ nsent'[X] = Ev.m /\ (Ev.d = 1) = SendOk(X) /\ Adv /\ ND
  \/ IsA("obs.kill") /\ Kill(X) /\ Adv /\ ND
  \/ IsA("obs.monitor") /\ Ev.by \in Actors /\ Monitor(Ev.by, X) /\ Adv /\ ND
  \/ IsA("obs.unmonitor") /\ Ev.by \in Actors /\ Unmonitor(Ev.by, X) /\ Adv /\ ND
  \/ IsA("obs.stop") /\ Stop(X, Ev.reason) /\ Adv /\ ND
  \/ IsA("obs.stop_kids") /\ StopKids(X, Ev.reason) /\ Adv /\ ND
  \/ IsA("obs.drain_kids") /\ DrainKids(X) /\ Adv /\ ND
  \/ IsA("obs.drain") /\ Drain(X) /\ Adv /\ ND
  \/ IsA("obs.inject") /\ Inject(X) /\ (Ev.d = 1) = ac[X].rxOpen /\ Adv /\ ND
  \/ /\ IsA("obs.abort") /\ Adv /\ ND
     /\ IF ac[X].abortReq = "none" /\ Alive(X) /\ ((Ev.role = "spawner") = (ac[X].pc \in {"new", "lnew", "pre"}))
          THEN EnvAbort(X) ELSE Same
  \/ /\ IsA("obs.task_dropped") /\ Adv /\ ND
     \* a thread-local actor's start runs in an unnamed builder task on the spawner's thread: the
     \* drop of the task that merely waits for it is not the actor's drop (see SilentDrop)
     /\ IF X \notin Local /\ ac[X].abortReq = Ev.role /\ Alive(X) /\ ac[X].pc # "exiting" THEN AbortDrop(X) ELSE Same
  \/ IsA("obs.status") /\ ac[X].st = Ev.d /\ Same /\ Adv /\ ND
  \/ IsA("obs.start_ret") /\ (IF Ev.err = "no_supervisor" THEN ac[X].pc = "none"
                              ELSE IF Ev.err = "join_error" THEN ac[X].abortReq # "none" \/ ac[X].exitK = "abort"
                              ELSE ac[X].spawnRes = (IF Ev.d = 1 THEN "ok" ELSE "err")) /\ Same /\ Adv /\ ND
  \/ IsA("obs.join_begin") /\ Same /\ Adv /\ ND
  \* a second spawn under a live actor's name fails with ActorAlreadyRegistered and changes nothing
  \/ /\ IsA("obs.clash") /\ Same /\ Adv /\ UNCHANGED <<dev, kidop>>
     /\ IF Ev.d = 1 THEN (Registered(X) \/ stray[X] > 0) /\ UNCHANGED stray
                    ELSE Ev.d = 0 /\ ~Registered(X) /\ stray' = [stray EXCEPT ![X] = @ + 1]
  \/ IsA("obs.clash_done") /\ Same /\ Adv /\ UNCHANGED <<dev, kidop>> /\ stray' = [stray EXCEPT ![X] = @ - 1]
  \/ IsA("obs.join_ret") /\ ac[X].pc = "dead" /\ (Ev.r = "cancelled") = (ac[X].exitK = "abort") /\ Ev.r # "panic" /\ Same /\ Adv /\ ND

LoopEv ==
  \/ IntA("tl.start", LocalStart) /\ ND
  \/ IntA("port.stop", ListenStop) /\ ND
  \/ IntA("port.sup", TakeSup) /\ ND
  \/ IntA("port.msg", TakeMsg) /\ ND
  \/ IntA("port.drain", TakeDrain) /\ ND
  \/ IntA("sig.handled", SigHandled) /\ ND
  \/ IntA("guard.cleanup", Cleanup) /\ ND
  \/ IntA("decode.dropped", DropUndecodable) /\ ND
  \/ (Strict /\ IsA("guard.done") /\ Same /\ Adv /\ ND)
  \/ (SkipInternal /\ ND)
\* thread-local tasks carry no name, so the drop of an aborted one cannot be attributed to its actor
\* from the task table: the abort's effect is taken silently right before the guard cleanup it causes
SilentDrop(a) == a \in Local /\ AbortDrop(a)
\* start() refused on a cell that is not Unstarted: no event of its own, the guard cleanup follows
SilentRefuse == /\ Live /\ l' = l /\ ND
                /\ IF Strict THEN Ev.a = "guard.cleanup" /\ Ev.x \in Actors /\ (StartRefused(Ev.x) \/ LocalStartRefused(Ev.x) \/ SilentDrop(Ev.x))
                             ELSE \E a \in Actors : StartRefused(a) \/ LocalStartRefused(a) \/ SilentDrop(a)

FinOk(f) == /\ f.x \in Actors
            /\ ac[f.x].st = f.st
            /\ f.kids = Cardinality(Kids(f.x))
            /\ f.sup = (ac[f.x].par # NoA)
            /\ (f.named => f.reg = Registered(f.x))
            /\ f.pg = InGroup(f.x)
\* at quiescence nothing is in flight: every actor is absent, idle with empty queues, or dead
QuiescentOk == \A a \in Actors : /\ ac[a].pc \in {"none", "idle", "dead"}
                                  /\ (ac[a].pc = "idle" => ac[a].supq = <<>> /\ ac[a].mq = <<>>)
End == /\ IsA("obs.end") /\ Adv /\ Same /\ ND
       /\ \A i \in 1..Len(Ev.fin) : FinOk(Ev.fin[i])
       /\ (Ev.q = 1 => QuiescentOk)
       /\ (dev # {} => PrintT(<<"DEVIATION", dev>>))

Reset == /\ IsA("reset") /\ Adv
         /\ ac' = [a \in Actors |-> InitActor] /\ nsent' = [a \in Actors |-> 0] /\ ninj' = [a \in Actors |-> 0]
         /\ dev' = {} /\ stray' = [a \in Actors |-> 0] /\ kidop' = [a \in Actors |-> "none"]

\* stop_children_and_wait / drain_children_and_wait: the harness logs, per child of the moment, the intent before the call
\* and "waited" after it returned; the stop / drain itself is sent by an unlogged helper task some time in between
KidIntent == IsA("obs.kid_intent") /\ Adv /\ Same /\ UNCHANGED <<dev, stray>> /\ Ev.op \in {"stop", "drain"}
             /\ kidop' = [kidop EXCEPT ![X] = Ev.op]
KidSilent == /\ Live /\ l' = l /\ UNCHANGED <<dev, stray>>
             /\ \E c \in Actors : /\ kidop[c] # "none" /\ kidop' = [kidop EXCEPT ![c] = "none"]
                                  /\ IF kidop[c] = "stop" THEN Stop(c, "r") ELSE Drain(c)
\* the call returned: the child had been told, and it has fully stopped
KidWaited == IsA("obs.kid_waited") /\ Adv /\ Same /\ ND /\ kidop[X] = "none" /\ ac[X].pc = "dead"

TNext == Reset \/ End \/ CbEnter \/ CbExit \/ CbBody \/ EnvEv \/ LoopEv \/ SilentRefuse \/ KidIntent \/ KidSilent \/ KidWaited

TInit == Init /\ l = 1 /\ dev = {} /\ stray = [a \in Actors |-> 0] /\ kidop = [a \in Actors |-> "none"] /\ TLCSet(42, 1)
TSpec == TInit /\ [][TNext]_tvars
Progress == /\ TLCSet(42, IF l > TLCGet(42) THEN l ELSE TLCGet(42))
            \* EARLY=1 (lenient validation): one behaviour that explains the whole trace is enough, stop there
            /\ (IF l > N /\ IOEnv.EARLY = "1" THEN PrintT("ACCEPTED_EARLY") /\ TLCSet("exit", TRUE) ELSE TRUE)
Accepted == IF TLCGet(42) > N THEN TRUE
            ELSE /\ PrintT(<<"REJECTED_AT", TLCGet(42), Rec[TLCGet(42)]>>)
                 /\ FALSE
=============================================================================
