----------------------------- MODULE Trace_Pg -----------------------------
(* Trace validation for Pg: every line of an ndjson trace recorded from the real pg.rs / set_status
   code must be explained by an action of Pg. STRICT=1: internal notes/points are consumed one by
   one. STRICT=0 (lenient): only obs.* lines are consumed, internal actions are taken silently.
   Observations: obs.call / obs.ret around every public call, obs.query (the six query functions),
   obs.snap (cfg-only snapshot of the four indexes, taken between steps), obs.end (snapshot +
   statuses + what every supervision port received), obs.leak (after the harness stopped every
   actor of the run: nothing with the run's prefix may be left).                                  *)
EXTENDS Pg, Json, IOUtils, TLCExt

Rec == ndJsonDeserialize(IOEnv.TRACE)
Strict == IOEnv.STRICT = "1"
N == Len(Rec)

VARIABLE l
TraceSt0 == [a \in Actors |-> Running]
tvars == <<vars, l>>
Ev == Rec[l]
Adv == l' = l + 1
Stay == l' = l
Live == l <= N
IsA(a) == Live /\ Ev.a = a

Int(lbl, who, A) == IF Strict THEN IsA(lbl) /\ Ev.who = who /\ A /\ Adv
                              ELSE Live /\ A /\ Stay
Obs(lbl, who, A) == IsA(lbl) /\ Ev.who = who /\ A /\ Adv

EvKey == <<Ev.sc, Ev.gr>>
Me(t) == A1(cur[t])

\* results of the six query functions (for key k) against the specification state
QueryOk(E, k) ==
  /\ k \in Keys
  /\ Range(E.mem) = QMembers(k) /\ Len(E.mem) = Cardinality(QMembers(k))
  /\ Range(E.lmem) = QLocalMembers(k) /\ Len(E.lmem) = Cardinality(QLocalMembers(k))
  /\ Range(E.groups) = QGroups /\ Len(E.groups) = Cardinality(QGroups)
  /\ Range(E.scopes) = QScopes /\ Len(E.scopes) = Cardinality(QScopes)
  /\ Range(E.sgroups) = QScopedGroups(k[1]) /\ Len(E.sgroups) = Cardinality(QScopedGroups(k[1]))
  /\ {<<x.sc, x.gr>> : x \in Range(E.sag)} = QScopesAndGroups
  /\ Len(E.sag) = Cardinality(QScopesAndGroups)

ThreadEv(t) ==
  \/ Obs("obs.call", t, Begin(t, [k |-> Ev.k, sc |-> Ev.sc, gr |-> Ev.gr, as |-> Ev.as]))
  \/ Obs("obs.ret", t, Ret(t))
  \* join
  \/ Int("pg.join.filter", t, JFilter(t) /\ (Strict => Ev.d = Len(loc'[t].acts)))
  \/ Int("pg.join.actor", t, JActor(t) /\ (Strict => /\ Ev.obj = Head(loc[t].todo)
                                                       /\ (Ev.d = 1) = (Head(loc[t].todo) \in loc'[t].acc)))
  \/ Int("pg.join.commit", t, JCommit(t) /\ (Strict => Ev.d = Len(loc'[t].pay)))
  \/ Int("pg.join.stale", t, JStale(t) /\ (Strict => Ev.obj = Head(loc[t].stale)[1]))
  \/ Int("pg.join.rm", t, JRm(t))
  \/ Int("pg.join.gnotify", t, cur[t].k = "join" /\ GNotify(t) /\ (Strict => Ev.d = Cardinality(loc[t].ls)))
  \/ Int("pg.wnotify", t, WNotify(t))
  \* leave
  \/ Int("pg.leave.region", t, LRegion(t) /\ (Strict => (Ev.d = 1) = map[K(cur[t])].p))
  \/ Int("pg.leave.gnotify", t, cur[t].k = "leave" /\ GNotify(t) /\ (Strict => Ev.d = Cardinality(loc[t].ls)))
  \* monitor / monitor_scope
  \/ Int("pg.mon.rel", t, pc[t] = "m.rel" /\ MRel(t) /\ (Strict => Ev.obj = Me(t)))
  \/ Int("pg.smon.rel", t, pc[t] = "sm.rel" /\ MRel(t) /\ (Strict => Ev.obj = Me(t)))
  \/ Int("pg.mon.region", t, MRegion(t))
  \/ Int("pg.smon.region", t, SMRegion(t))
  \/ Int("pg.mon.post", t, pc[t] = "m.post" /\ MPost(t) /\ (Strict => (Ev.d = 1) = (st[Me(t)] >= Stopping)))
  \/ Int("pg.smon.post", t, pc[t] = "sm.post" /\ MPost(t) /\ (Strict => (Ev.d = 1) = (st[Me(t)] >= Stopping)))
  \/ Int("pg.mon.relrm", t, cur[t].k = "mon" /\ MRelRm(t))
  \/ Int("pg.smon.relrm", t, cur[t].k = "smon" /\ MRelRm(t))
  \* demonitor / demonitor_scope
  \/ Int("pg.demon.rel", t, pc[t] = "d.rel" /\ DRel(t) /\ (Strict => (Ev.d = 1) = rel[Me(t)].p))
  \/ Int("pg.sdemon.rel", t, pc[t] = "sd.rel" /\ DRel(t) /\ (Strict => (Ev.d = 1) = rel[Me(t)].p))
  \/ Int("pg.demon.region", t, DRegion(t))
  \/ Int("pg.sdemon.region", t, SDRegion(t))
  \* exit
  \/ Int("status.set", t, XStopping(t) /\ (Strict => Ev.d = Stopping /\ Ev.obj = Me(t)))
  \/ Int("pg.xdem.take", t, XDemTake(t) /\ (Strict => (Ev.d < 0) = ~rel[Me(t)].p))
  \/ Int("pg.xdem.g", t, \E k \in Keys : (Strict => k = EvKey) /\ XDemG(t, k))
  \/ Int("pg.xdem.w", t, \E w \in WKeys : (Strict => w = Ev.sc) /\ XDemW(t, w))
  \/ Int("cleanup.pgmon", t, XDemEnd(t))
  \/ Int("pg.xleave.take", t, XLeaveTake(t) /\ (Strict => (Ev.d < 0) = ~rel[Me(t)].p))
  \/ Int("pg.xleave.g", t, \E k \in Keys : /\ (Strict => k = EvKey) /\ XLeaveOne(t, k)
                                           /\ (Strict => (Ev.d = 1) = (Len(loc'[t].evs) > Len(loc[t].evs))))
  \/ Int("pg.xleave.relrm", t, XRelRm(t))
  \/ Int("pg.xleave.gnotify", t, XGNotify(t) /\ (Strict => Head(loc[t].evs)[1] = EvKey))
  \/ Int("cleanup.pgleave", t, XLeaveEnd(t))
  \/ Int("status.set", t, XStopped(t) /\ (Strict => Ev.d = Stopped /\ Ev.obj = Me(t)))
  \* queries: results of the six functions against the specification state
  \/ Obs("obs.query", t, Query(t) /\ QueryOk(Ev, K(cur[t])))

\* the cfg-only snapshot of the four indexes against the specification state
KeySet(s) == {<<x.sc, x.gr>> : x \in Range(s)}
SnapOk(S) ==
  /\ Len(S.map) = Cardinality({k \in Keys : map[k].p})
  /\ \A i \in DOMAIN S.map :
       LET e == S.map[i]  k == <<e.sc, e.gr>> IN
       /\ k \in Keys /\ map[k].p
       /\ Range(e.mem) = map[k].mem /\ Len(e.mem) = Cardinality(map[k].mem)
       /\ Range(e.ls) = map[k].ls /\ Len(e.ls) = Cardinality(map[k].ls)
  /\ Len(S.index) = Cardinality({s \in Scopes : index[s] # {}})
  /\ \A i \in DOMAIN S.index :
       LET e == S.index[i] IN e.sc \in Scopes /\ index[e.sc] # {} /\ Range(e.gs) = index[e.sc]
  /\ Len(S.world) = Cardinality({w \in WKeys : world[w].p})
  /\ \A i \in DOMAIN S.world :
       LET e == S.world[i] IN
       /\ e.sc \in WKeys /\ world[e.sc].p
       /\ Range(e.ls) = world[e.sc].ls /\ Len(e.ls) = Cardinality(world[e.sc].ls)
  /\ Len(S.rel) = Cardinality({a \in Actors : rel[a].p})
  /\ \A i \in DOMAIN S.rel :
       LET e == S.rel[i] IN
       /\ e.a \in Actors /\ rel[e.a].p
       /\ KeySet(e.mem) = rel[e.a].mem /\ KeySet(e.gmon) = rel[e.a].gmon
       /\ {x.sc : x \in Range(e.wmon)} = rel[e.a].wmon

Snap == IsA("obs.snap") /\ SnapOk(Ev.snap) /\ (\A a \in Actors : st[a] = Ev.st[a]) /\ UNCHANGED vars /\ Adv

InboxOk == \A a \in Actors :
  LET s == Ev.inbox[a] IN
  /\ Len(s) = BagCardinality(inbox[a])
  /\ \A i \in DOMAIN s : Cardinality({j \in DOMAIN s : s[j] = s[i]}) = CopiesIn(s[i], inbox[a])

End == /\ IsA("obs.end") /\ Quiet /\ SnapOk(Ev.snap) /\ (\A a \in Actors : st[a] = Ev.st[a]) /\ InboxOk
       /\ \A i \in DOMAIN Ev.q : QueryOk(Ev.q[i], <<Ev.q[i].sc, Ev.q[i].gr>>)
       /\ (devs # {} => PrintT(<<"DEVIATION", devs>>))
       /\ UNCHANGED vars /\ Adv
Leak == IsA("obs.leak") /\ Ev.d = 0 /\ UNCHANGED vars /\ Adv

ObsLabels == {"obs.call", "obs.ret", "obs.query", "obs.snap", "obs.end", "obs.leak", "reset"}
SkipInternal == ~Strict /\ Live /\ Ev.a \notin ObsLabels /\ UNCHANGED vars /\ Adv

Reset ==
  /\ IsA("reset") /\ Adv
  /\ st' = [a \in Actors |-> Ev.meta.st0[a]]
  /\ map' = [k \in Keys |-> NoEntry] /\ index' = [s \in Scopes |-> {}]
  /\ world' = [w \in WKeys |-> NoWorld] /\ rel' = [a \in Actors |-> NoRel] /\ nid' = [a \in Actors |-> 0]
  /\ held' = [k \in Keys |-> None]
  /\ pc' = [t \in Threads |-> "idle"] /\ opi' = [t \in Threads |-> 0]
  /\ cur' = [t \in Threads |-> NoOp] /\ loc' = [t \in Threads |-> L0]
  /\ inbox' = [a \in Actors |-> EmptyBag]
  /\ mustIn' = [k \in Keys |-> {}] /\ mustOut' = [k \in Keys |-> Actors] /\ reqd' = [k \in Keys |-> {}]
  /\ orphDirty' = FALSE /\ devs' = {}

TNext == \/ Reset \/ Snap \/ End \/ Leak \/ SkipInternal
         \/ \E t \in Threads : ThreadEv(t)

TInit == Init /\ l = 1 /\ TLCSet(42, 1)
TSpec == TInit /\ [][TNext]_tvars

Progress == /\ TLCSet(42, IF l > TLCGet(42) THEN l ELSE TLCGet(42))
            \* EARLY=1 (lenient validation): one behaviour that explains the whole trace is enough, stop there
            /\ (IF l > N /\ IOEnv.EARLY = "1" THEN PrintT("ACCEPTED_EARLY") /\ TLCSet("exit", TRUE) ELSE TRUE)
Accepted == IF TLCGet(42) > N THEN TRUE
            ELSE /\ PrintT(<<"REJECTED_AT", TLCGet(42), Rec[TLCGet(42)]>>)
                 /\ FALSE
=============================================================================
