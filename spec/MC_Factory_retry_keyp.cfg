SPECIFICATION MCSpec
CONSTANTS
  MaxW = 3
  Keys = {1, 2}
  MaxJ = 3
  MaxInc = 5
  LbBig = 1000
  FixRetire = FALSE
  Routing0 = "keyp"
  Workers0 = 2
  Lim0 <- Lim1
  Mode0 = "oldest"
  RlOn = FALSE
  RlRefill = 0
  RlInterval = 0
  RlMax = 0
  JobKeys <- Keys111
  JobTtl <- NoTtl3
  PortJobs = {}
  Ends = {"ok", "killmid"}
  MaxKills = 0
  MaxFaults = 2
  Resizes <- Res0
  MayDrain = TRUE
  MaxT = 0
  TStep = 1
  RetryJobs = {1, 3}
  Retries = 2
  FreeOrder = FALSE
INVARIANTS
  OneFate PortOk LostOnePerDeath NoFactoryPanic KeyExclusive KeyFifo OneAtATime HashInPool RoundRobinCovers QueuerNoIdle ViewExact
  RetryBudget QueueBound HookOrder PoolConverges DrainComplete DrainRefuses
CHECK_DEADLOCK FALSE
