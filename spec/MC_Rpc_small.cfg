SPECIFICATION Spec
CONSTANTS
  Actors = {"c1"}
  Collector = "none"
  Ports = {1, 2}
  Plan <- PlanA
  Policies = {"reply", "drop", "stash", "helper", "sleep", "both", "fail"}
  EnvOps = {"stop", "kill", "drain"}
  MaxNow = 3
  VirtualClock = TRUE
INVARIANTS
  TypeOk NoCrossWire Bounded NoEarlyTimeout HolderLive NoHang ForwardOnce MultiComplete
CHECK_DEADLOCK FALSE
